#!/bin/bash
# run every registered quick (or thorough) check on the current /repo; summary on stdout
cd "$(dirname "${BASH_SOURCE[0]}")"
tier=${1:-quick}
for f in harness/props/C??.py; do p=$(basename $f .py); ./check $p --tier $tier 2>&1 | grep -E "^C[0-9]+ (quick|thorough)|VIOLATION"; done
