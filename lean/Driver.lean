import Lean.Data.Json
import Pfst.DrvAll
/-! Line-protocol driver: one JSON case per line `{"f": "<Cxx.fn>", ...}` → one JSON answer per line `{"out": ...}`. -/
open Lean

def answer (line : String) : String :=
  match Json.parse line with
  | .error e => Json.compress (Json.mkObj [("err", Json.str ("parse: " ++ e))])
  | .ok j =>
    match (j.getObjValAs? String "f").toOption with
    | none => Json.compress (Json.mkObj [("err", "no f")])
    | some f =>
      match Pfst.DrvAll.dispatchers.findSome? (fun d => d f j) with
      | some r => Json.compress (Json.mkObj [("out", r)])
      | none => Json.compress (Json.mkObj [("err", Json.str ("unknown f " ++ f))])

partial def loop (h : IO.FS.Stream) (out : IO.FS.Stream) : IO Unit := do
  let line ← h.getLine
  if line.isEmpty then return ()
  out.putStrLn (answer line)
  loop h out

def main : IO Unit := do
  loop (← IO.getStdin) (← IO.getStdout)
