import Pfst.Sub
/-! Helper lemmas for C18 (`Pfst/Sub.lean`). -/
namespace Pfst.Sub

/-! ### quantifier edge items -/

/-- the captured elements of a quantifier list, in order, as (start, stop) pairs -/
def flatQ : List QItem → List (Nat × Nat)
  | [] => []
  | .one s e :: r => (s, e) :: flatQ r
  | .many l :: r => l ++ flatQ r

/-- consecutive and well-formed pairs: `stop_i = start_{i+1}`, `start_i ≤ stop_i` -/
def Contig : List (Nat × Nat) → Prop
  | [] => True
  | [p] => p.1 ≤ p.2
  | p :: q :: r => p.1 ≤ p.2 ∧ p.2 = q.1 ∧ Contig (q :: r)

/-- the elements of `field` a pair denotes -/
def seg (field : List Tree) (p : Nat × Nat) : List Tree := (field.drop p.1).take (p.2 - p.1)

def segs (field : List Tree) : List (Nat × Nat) → List Tree
  | [] => []
  | p :: r => seg field p ++ segs field r

theorem flatQ_append (a b : List QItem) : flatQ (a ++ b) = flatQ a ++ flatQ b := by
  induction a with
  | nil => rfl
  | cons x r ih =>
    cases x with
    | one s e => simp [flatQ, ih]
    | many l => simp [flatQ, ih, List.append_assoc]

theorem edgeFirst_eq (q : List QItem) : edgeFirst q = (flatQ q).head?.map Prod.fst := by
  induction q with
  | nil => rfl
  | cons x r ih =>
    cases x with
    | one s e => simp [edgeFirst, flatQ]
    | many l =>
      cases l with
      | nil => simp [edgeFirst, flatQ, ih]
      | cons p t => obtain ⟨s, e⟩ := p; simp [edgeFirst, flatQ]

theorem lastStop_eq (l : List (Nat × Nat)) : lastStop l = l.getLast?.map Prod.snd := by
  induction l with
  | nil => rfl
  | cons p r ih =>
    cases r with
    | nil => obtain ⟨s, e⟩ := p; simp [lastStop]
    | cons b t =>
      simp only [lastStop, ih]
      simp [List.getLast?_cons_cons]

theorem getLast?_append_of_ne_nil {α} (a b : List α) (h : b ≠ []) : (a ++ b).getLast? = b.getLast? := by
  cases b with
  | nil => exact absurd rfl h
  | cons x t =>
    rw [List.getLast?_append]
    cases h2 : (x :: t).getLast? with
    | none => simp at h2
    | some y => rfl

theorem edgeLastRev_eq (r : List QItem) : edgeLastRev r = (flatQ r.reverse).getLast?.map Prod.snd := by
  induction r with
  | nil => rfl
  | cons x rest ih =>
    rw [List.reverse_cons, flatQ_append]
    cases x with
    | one s e => simp [edgeLastRev, flatQ]
    | many l =>
      simp only [edgeLastRev, lastStop_eq]
      cases hl : l.getLast? with
      | none =>
        have : l = [] := by simpa using hl
        subst this
        simp [flatQ, ih]
      | some p =>
        have hne : l ≠ [] := by intro h; subst h; simp at hl
        have : flatQ [QItem.many l] = l := by simp [flatQ]
        rw [this, getLast?_append_of_ne_nil _ _ hne, hl]
        rfl

theorem edgeItem_last (q : List QItem) : edgeItem q true = (flatQ q).getLast?.map Prod.snd := by
  simp [edgeItem, edgeLastRev_eq]

theorem edgeItem_first (q : List QItem) : edgeItem q false = (flatQ q).head?.map Prod.fst := by
  simp [edgeItem, edgeFirst_eq]

theorem contig_tail {p : Nat × Nat} {r : List (Nat × Nat)} (h : Contig (p :: r)) : Contig r := by
  cases r with
  | nil => trivial
  | cons q t => exact h.2.2

/-- the last stop of a contiguous non-empty list is at least the first start -/
theorem contig_le (p : Nat × Nat) (r : List (Nat × Nat)) (h : Contig (p :: r)) :
    ∃ e, ((p :: r).getLast?.map Prod.snd) = some e ∧ p.1 ≤ e := by
  induction r generalizing p with
  | nil => exact ⟨p.2, by simp, h⟩
  | cons q t ih =>
    obtain ⟨e, he, hle⟩ := ih q h.2.2
    refine ⟨e, ?_, ?_⟩
    · rw [List.getLast?_cons_cons]; exact he
    · have := h.1; have := h.2.1; omega

theorem take_drop_split (f : List Tree) (a m b : Nat) (h1 : a ≤ m) (h2 : m ≤ b) :
    (f.drop a).take (b - a) = (f.drop a).take (m - a) ++ (f.drop m).take (b - m) := by
  have e1 : b - a = (m - a) + (b - m) := by omega
  rw [e1, List.take_add, List.drop_drop]
  have e2 : a + (m - a) = m := by omega
  rw [e2]

/-- telescoping: the concatenation of contiguous segments is one segment -/
theorem segs_contig (f : List Tree) (p : Nat × Nat) (r : List (Nat × Nat)) (h : Contig (p :: r)) (e : Nat)
    (he : ((p :: r).getLast?.map Prod.snd) = some e) : segs f (p :: r) = (f.drop p.1).take (e - p.1) := by
  induction r generalizing p with
  | nil =>
    simp at he
    simp [segs, seg, he]
  | cons q t ih =>
    rw [List.getLast?_cons_cons] at he
    have hq := ih q h.2.2 he
    obtain ⟨e', he', hle⟩ := contig_le q t h.2.2
    rw [he] at he'
    have hee : e' = e := by simpa using he'.symm
    subst hee
    show seg f p ++ segs f (q :: t) = _
    rw [hq, seg, take_drop_split f p.1 p.2 e' h.1 (by rw [h.2.1]; exact hle), h.2.1]

/-! ### virtual field index mapping -/

/-- the captured elements of a quantifier list before the index mapping, in order, as (kind, idx) -/
def flatR : List RItem → List (Nat × Nat)
  | [] => []
  | .one k i :: r => (k, i) :: flatR r
  | .many l :: r => l ++ flatR r

theorem virtPairs_append (order a b : List (Nat × Nat)) :
    virtPairs order (a ++ b) = virtPairs order a ++ virtPairs order b := by
  induction a with
  | nil => rfl
  | cons x r ih => simp [virtPairs, ih]

/-- mapping each element and then flattening = flattening and then mapping -/
theorem flatQ_virtQ (order : List (Nat × Nat)) (q : List RItem) :
    flatQ (virtQ order q) = virtPairs order (flatR q) := by
  induction q with
  | nil => rfl
  | cons x r ih =>
    cases x with
    | one k i => simp [virtQ, flatQ, flatR, virtPairs, ih]
    | many l => simp [virtQ, flatQ, flatR, virtPairs_append, ih]

/-- a unit segment is exactly the element at that virtual index -/
theorem seg_unit (field : List Tree) (v : Nat) : seg field (v, v + 1) = (field[v]?).toList := by
  simp only [seg, Nat.add_sub_cancel_left]
  induction field generalizing v with
  | nil => simp
  | cons x r ih =>
    cases v with
    | zero => simp
    | succ v => simpa using ih v

/-- the elements of the virtual field at the mapped positions of the captured (kind, idx) pairs, in capture order -/
def elemsAt (field : List Tree) (order : List (Nat × Nat)) : List (Nat × Nat) → List Tree
  | [] => []
  | p :: r => (field[virtIdx order p]?).toList ++ elemsAt field order r

theorem segs_virtPairs (field : List Tree) (order ps : List (Nat × Nat)) :
    segs field (virtPairs order ps) = elemsAt field order ps := by
  induction ps with
  | nil => rfl
  | cons p r ih => simp only [virtPairs, segs, elemsAt, seg_unit, ih]

/-! ### basic facts about clean / marks -/

mutual
theorem clean_of_isClean : ∀ t : Tree, isClean t = true → clean t = t
  | .node l d ks, h => by
    simp only [isClean, Bool.and_eq_true, Bool.not_eq_true'] at h
    simp only [clean, h.1, cleanList_of_isCleanL ks h.2]
theorem cleanList_of_isCleanL : ∀ ts : List Tree, isCleanL ts = true → cleanList ts = ts
  | [], _ => rfl
  | t :: ts, h => by
    simp only [isCleanL, Bool.and_eq_true] at h
    simp only [cleanList, clean_of_isClean t h.1, cleanList_of_isCleanL ts h.2]
end

theorem clean_markRoot (b : Bool) (t : Tree) : clean (markRoot b t) = clean t := by
  cases t; rfl

theorem cleanList_append (a b : List Tree) : cleanList (a ++ b) = cleanList a ++ cleanList b := by
  induction a with
  | nil => rfl
  | cons x r ih => simp [cleanList, ih]

/-! ### state bookkeeping -/

theorem fail_stop (st : St) (e : Nat) : (st.fail e).stop = true := rfl
theorem fail_count (st : St) (e : Nat) : (st.fail e).count = st.count := rfl

/-- `loopSub` never touches `count`; it can only set `stop` (on an error). -/
theorem loopSub_count (P : Params) : ∀ f env t loop st, (loopSub P f env t loop st).2.2.count = st.count := by
  intro f
  induction f with
  | zero => intro env t loop st; rfl
  | succ f ih =>
    intro env t loop st
    unfold loopSub
    split
    · rfl
    · rfl
    · split
      · rfl
      · split
        · rfl
        · split
          · rfl
          · split
            · rfl
            · simp only []
              rw [ih]

theorem loopSub_stop_mono (P : Params) : ∀ f env t loop st, st.stop = true → (loopSub P f env t loop st).2.2.stop = true := by
  intro f
  induction f with
  | zero => intro env t loop st _; rfl
  | succ f ih =>
    intro env t loop st h
    unfold loopSub
    split
    · rfl
    · rfl
    · split
      · exact h
      · split
        · exact h
        · split
          · rfl
          · split
            · exact h
            · simp only []
              exact ih _ _ _ _ h

/-- `loopSub` with `loop = False` when the template fills: one substitution. -/
theorem loopSub_none (P : Params) (f : Nat) (env : Env) (t : Tree) (st : St) (r : List Tree) (s : Bool)
    (h : fillRoot P.isStmt P.tmpl env t = .ok (r, s)) :
    loopSub P (f + 1) env t none st = (r, s, { st with total := st.total + 1 }) := by
  simp only [loopSub, h]

end Pfst.Sub

namespace Pfst.Sub

/-! ### the flat run (`nested = False`, `loop = False`, no `count`) against the reference transformer -/

/-- what one call of the walk leaves behind when `n` substitutions were made and `ref` is the expected output -/
structure FlatPost (st : St) (r : List Tree × St) (ref : List Tree) (n : Nat) : Prop where
  trees : r.1 = ref
  count : r.2.count = st.count - n
  total : r.2.total = st.total + n
  stop : r.2.stop = false
  err : r.2.err = st.err

theorem heightL_cons_le {k : Tree} {ks : List Tree} {f : Nat} (h : heightL (k :: ks) ≤ f) :
    height k ≤ f ∧ heightL ks ≤ f := by
  simp only [heightL] at h
  exact Nat.max_le.mp h

theorem mapKids_flat (m : Tree → Option Env) (fd : Env → Tree → List Tree) (f : Nat) (g : Tree → St → List Tree × St)
    (IH : ∀ t st, height t ≤ f → isClean t = true → st.stop = false → st.count ≤ 0 →
      FlatPost st (g t st) (rewriteOutermost m fd t) (countOutermost m t)) :
    ∀ ks st, heightL ks ≤ f → isCleanL ks = true → st.stop = false → st.count ≤ 0 →
      FlatPost st (mapKids g ks st) (rewriteOutermostL m fd ks) (countOutermostL m ks) := by
  intro ks
  induction ks with
  | nil =>
    intro st _ _ hs _
    exact ⟨rfl, by simp [mapKids, countOutermostL], by simp [mapKids, countOutermostL], hs, rfl⟩
  | cons k ks ih =>
    intro st hh hc hs hcnt
    obtain ⟨hk, hks⟩ := heightL_cons_le hh
    simp only [isCleanL, Bool.and_eq_true] at hc
    have p1 := IH k st hk hc.1 hs hcnt
    have p2 := ih (g k st).2 hks hc.2 p1.stop (by rw [p1.count]; omega)
    refine ⟨?_, ?_, ?_, ?_, ?_⟩
    · simp only [mapKids, rewriteOutermostL, p1.trees, p2.trees]
    · simp only [mapKids, countOutermostL, p2.count, p1.count]; omega
    · simp only [mapKids, countOutermostL, p2.total, p1.total]; omega
    · simp only [mapKids, p2.stop]
    · simp only [mapKids, p2.err, p1.err]

theorem enter_flat (P : Params) (hn : P.nested = false) (hl : P.loop = none)
    (hf : ∀ env u, ∃ r s, fillRoot P.isStmt P.tmpl env u = .ok (r, s)) :
    ∀ f t st, height t ≤ f → isClean t = true → st.stop = false → st.count ≤ 0 →
      FlatPost st (enterNode P f t st) (rewriteOutermost P.mtch (fillD P) t) (countOutermost P.mtch t) := by
  intro f
  induction f with
  | zero =>
    intro t st h
    cases t
    simp [height] at h
  | succ f ih =>
    intro t st hh hc hs hcnt
    obtain ⟨l, d, ks⟩ := t
    obtain ⟨c, tot, stp, er, lg⟩ := st
    simp only at hs hcnt
    subst hs
    simp only [isClean, Bool.and_eq_true, Bool.not_eq_true'] at hc
    obtain ⟨hd, hck⟩ := hc
    subst hd
    simp only [height] at hh
    have hk : heightL ks ≤ f := by omega
    rw [enterNode]
    simp only [Bool.false_eq_true, if_false]
    cases hm : P.mtch (.node l false ks) with
    | none =>
      have p := mapKids_flat P.mtch (fillD P) f (enterNode P f) ih ks
        ⟨c, tot, false, er, .node l false ks :: lg⟩ hk hck rfl hcnt
      simp only [rewriteOutermost, countOutermost, hm]
      exact ⟨by simp only [p.trees], p.count, p.total, p.stop, p.err⟩
    | some env =>
      obtain ⟨r, s, hfill⟩ := hf env (.node l false ks)
      have hb : (c - 1 == 0) = false := by
        simp only [beq_eq_false_iff_ne, ne_eq]; omega
      simp only [rewriteOutermost, countOutermost, hm, hl, loopSub_none P P.lfuel env _ _ r s hfill, bump, hb, hn,
        Bool.false_eq_true, if_false, Bool.or_false, Bool.not_false, Bool.true_or, Bool.or_true, if_true, fillD, hfill]
      exact ⟨rfl, by simp, by simp, rfl, rfl⟩

/-! ### frame: a subtree without any match is returned unchanged, for every setting -/

structure FramePost (st : St) (r : List Tree × St) (ref : List Tree) : Prop where
  trees : r.1 = ref
  count : r.2.count = st.count
  total : r.2.total = st.total
  stop : r.2.stop = st.stop
  err : r.2.err = st.err

theorem mapKids_frame (m : Tree → Option Env) (f : Nat) (g : Tree → St → List Tree × St)
    (IH : ∀ t st, height t ≤ f → noMatch m t = true → FramePost st (g t st) [t]) :
    ∀ ks st, heightL ks ≤ f → noMatchL m ks = true → FramePost st (mapKids g ks st) ks := by
  intro ks
  induction ks with
  | nil => intro st _ _; exact ⟨rfl, rfl, rfl, rfl, rfl⟩
  | cons k ks ih =>
    intro st hh hc
    obtain ⟨hk, hks⟩ := heightL_cons_le hh
    simp only [noMatchL, Bool.and_eq_true] at hc
    have p1 := IH k st hk hc.1
    have p2 := ih (g k st).2 hks hc.2
    refine ⟨?_, ?_, ?_, ?_, ?_⟩
    · simp only [mapKids, p1.trees, p2.trees, List.singleton_append]
    · simp only [mapKids, p2.count, p1.count]
    · simp only [mapKids, p2.total, p1.total]
    · simp only [mapKids, p2.stop, p1.stop]
    · simp only [mapKids, p2.err, p1.err]

theorem enter_frame (P : Params) :
    ∀ f t st, height t ≤ f → noMatch P.mtch t = true → FramePost st (enterNode P f t st) [t] := by
  intro f
  induction f with
  | zero =>
    intro t st h
    cases t
    simp [height] at h
  | succ f ih =>
    intro t st hh hc
    obtain ⟨l, d, ks⟩ := t
    simp only [noMatch, Bool.and_eq_true, Option.isNone_iff_eq_none] at hc
    simp only [height] at hh
    have hk : heightL ks ≤ f := by omega
    rw [enterNode]
    split
    · exact ⟨rfl, rfl, rfl, rfl, rfl⟩
    · have p := mapKids_frame P.mtch f (enterNode P f) ih ks { st with log := .node l d ks :: st.log } hk hc.2
      simp only [hc.1]
      exact ⟨by simp only [p.trees], p.count, p.total, p.stop, p.err⟩

theorem leave_frame (P : Params) :
    ∀ f t st, height t ≤ f → noMatch P.mtch t = true → FramePost st (leaveNode P f t st) [t] := by
  intro f
  induction f with
  | zero =>
    intro t st h
    cases t
    simp [height] at h
  | succ f ih =>
    intro t st hh hc
    obtain ⟨l, d, ks⟩ := t
    simp only [noMatch, Bool.and_eq_true, Option.isNone_iff_eq_none] at hc
    simp only [height] at hh
    have hk : heightL ks ≤ f := by omega
    rw [leaveNode]
    split
    · exact ⟨rfl, rfl, rfl, rfl, rfl⟩
    · have p := mapKids_frame P.mtch f (leaveNode P f) ih ks st hk hc.2
      simp only [p.trees, hc.1]
      split
      · exact ⟨rfl, p.count, p.total, p.stop, p.err⟩
      · exact ⟨rfl, p.count, p.total, p.stop, p.err⟩

end Pfst.Sub

namespace Pfst.Sub

/-! ### `count = k > 0`: the countdown never passes zero, for every setting -/

/-- invariant of the `count` variable for a start value `k > 0` -/
def CapInv (k : Int) (st : St) : Prop := st.count ≤ k ∧ (0 < st.count ∨ (st.count = 0 ∧ st.stop = true))

theorem cap_log (k : Int) (st : St) (lg : List Tree) (h : CapInv k st) : CapInv k { st with log := lg } := h

theorem cap_fail (k : Int) (st : St) (e : Nat) (h : CapInv k st) : CapInv k (st.fail e) := by
  obtain ⟨h1, h2⟩ := h
  refine ⟨h1, ?_⟩
  cases h2 with
  | inl h => exact Or.inl h
  | inr h => exact Or.inr ⟨h.1, rfl⟩

theorem mapKids_cap (k : Int) (g : Tree → St → List Tree × St) (hg : ∀ t st, CapInv k st → CapInv k (g t st).2) :
    ∀ ks st, CapInv k st → CapInv k (mapKids g ks st).2 := by
  intro ks
  induction ks with
  | nil => intro st h; exact h
  | cons x r ih => intro st h; exact ih _ (hg x st h)

theorem loopSub_cap (P : Params) (k : Int) (f : Nat) (env : Env) (t : Tree) (loop : Option Int) (st : St)
    (h : CapInv k st) : CapInv k (loopSub P f env t loop st).2.2 := by
  obtain ⟨h1, h2⟩ := h
  refine ⟨by rw [loopSub_count]; exact h1, ?_⟩
  rw [loopSub_count]
  cases h2 with
  | inl h => exact Or.inl h
  | inr h => exact Or.inr ⟨h.1, loopSub_stop_mono P f env t loop st h.2⟩

theorem bump_cap (k : Int) (st : St) (h : CapInv k st) (hs : st.stop = false) : CapInv k (bump st) := by
  obtain ⟨h1, h2⟩ := h
  have hpos : 0 < st.count := by
    cases h2 with
    | inl h => exact h
    | inr h => rw [hs] at h; exact absurd h.2 (by simp)
  refine ⟨by simp only [bump]; omega, ?_⟩
  by_cases h0 : st.count - 1 = 0
  · exact Or.inr ⟨h0, by simp [bump, h0]⟩
  · exact Or.inl (by simp only [bump]; omega)

theorem enter_cap (P : Params) (k : Int) : ∀ f t st, CapInv k st → CapInv k (enterNode P f t st).2 := by
  intro f
  induction f with
  | zero =>
    intro t st h
    simp only [enterNode]
    split
    · exact h
    · exact cap_fail k st 3 h
  | succ f ih =>
    intro t st h
    obtain ⟨l, d, ks⟩ := t
    rw [enterNode]
    dsimp only
    split
    · exact h
    · have h0 := cap_log k st (.node l d ks :: st.log) h
      have hq := fun env => loopSub_cap P k (P.lfuel + 1) env (.node l d ks) P.loop _ h0
      split
      · exact mapKids_cap k _ (ih) ks _ h0
      · split
        · split
          · exact mapKids_cap k _ (ih) ks _ h0
          · exact h0
        · split
          · exact hq _
          · rename_i hstop
            have hb := bump_cap k _ (hq _) (by simpa using hstop)
            split
            · exact hb
            · split
              · exact mapKids_cap k _ (ih) _ _ hb
              · exact hb

theorem leave_cap (P : Params) (k : Int) : ∀ f t st, CapInv k st → CapInv k (leaveNode P f t st).2 := by
  intro f
  induction f with
  | zero =>
    intro t st h
    simp only [leaveNode]
    split
    · exact h
    · exact cap_fail k st 3 h
  | succ f ih =>
    intro t st h
    obtain ⟨l, d, ks⟩ := t
    rw [leaveNode]
    dsimp only
    split
    · exact h
    · have hk := mapKids_cap k _ (ih) ks st h
      split
      · exact hk
      · have h0 := cap_log k _ (.node l d (mapKids (leaveNode P f) ks st).1 :: (mapKids (leaveNode P f) ks st).2.log) hk
        have hq := fun env => loopSub_cap P k (P.lfuel + 1) env (.node l d (mapKids (leaveNode P f) ks st).1) P.loop _ h0
        split
        · exact h0
        · split
          · exact h0
          · split
            · exact hq _
            · rename_i hstop
              exact bump_cap k _ (hq _) (by simpa using hstop)

/-! ### identity template -/

mutual
theorem clean_idem : ∀ t : Tree, clean (clean t) = clean t
  | .node l d ks => by simp only [clean, cleanList_idem ks]
theorem cleanList_idem : ∀ ts : List Tree, cleanList (cleanList ts) = cleanList ts
  | [] => rfl
  | t :: ts => by simp only [cleanList, clean_idem t, cleanList_idem ts]
end

mutual
/-- the reference with the identity replacement only sets marks -/
theorem clean_rewrite_id (m : Tree → Option Env) :
    ∀ t : Tree, cleanList (rewriteOutermost m (fun _ u => [markRoot true (clean u)]) t) = [clean t]
  | .node l d ks => by
    simp only [rewriteOutermost]
    split
    · simp only [cleanList, clean_markRoot, clean_idem]
    · simp only [cleanList, clean, cleanL_rewrite_id m ks]
theorem cleanL_rewrite_id (m : Tree → Option Env) :
    ∀ ts : List Tree, cleanList (rewriteOutermostL m (fun _ u => [markRoot true (clean u)]) ts) = cleanList ts
  | [] => rfl
  | t :: ts => by
    simp only [rewriteOutermostL, cleanList_append, clean_rewrite_id m t, cleanL_rewrite_id m ts, cleanList]
    rfl
end

end Pfst.Sub

namespace Pfst.Sub

/-! ### `nested = True` with the identity template: every match at every depth is visited exactly once -/

structure NestPost (st : St) (r : List Tree × St) (ref : List Tree) (n : Nat) : Prop where
  trees : cleanList r.1 = ref
  count : r.2.count = st.count - n
  total : r.2.total = st.total + n
  stop : r.2.stop = false
  err : r.2.err = st.err

theorem mapKids_nest (m : Tree → Option Env) (f : Nat) (g : Tree → St → List Tree × St)
    (IH : ∀ t st, height t ≤ f → isClean t = true → st.stop = false → st.count ≤ 0 →
      NestPost st (g t st) [t] (countAll m t)) :
    ∀ ks st, heightL ks ≤ f → isCleanL ks = true → st.stop = false → st.count ≤ 0 →
      NestPost st (mapKids g ks st) ks (countAllL m ks) := by
  intro ks
  induction ks with
  | nil =>
    intro st _ _ hs _
    exact ⟨rfl, by simp [mapKids, countAllL], by simp [mapKids, countAllL], hs, rfl⟩
  | cons k ks ih =>
    intro st hh hc hs hcnt
    obtain ⟨hk, hks⟩ := heightL_cons_le hh
    simp only [isCleanL, Bool.and_eq_true] at hc
    have p1 := IH k st hk hc.1 hs hcnt
    have p2 := ih (g k st).2 hks hc.2 p1.stop (by rw [p1.count]; omega)
    refine ⟨?_, ?_, ?_, ?_, ?_⟩
    · simp only [mapKids, cleanList_append, p1.trees, p2.trees, List.singleton_append]
    · simp only [mapKids, countAllL, p2.count, p1.count]; omega
    · simp only [mapKids, countAllL, p2.total, p1.total]; omega
    · simp only [mapKids, p2.stop]
    · simp only [mapKids, p2.err, p1.err]

theorem enter_nested_id (P : Params) (hn : P.nested = true) (hl : P.loop = none) (il : Bool) (ov : Option Bool)
    (ht : P.tmpl = .single (.slot none il ov)) :
    ∀ f t st, height t ≤ f → isClean t = true → st.stop = false → st.count ≤ 0 →
      NestPost st (enterNode P f t st) [t] (countAll P.mtch t) := by
  intro f
  induction f with
  | zero =>
    intro t st h
    cases t
    simp [height] at h
  | succ f ih =>
    intro t st hh hc hs hcnt
    obtain ⟨l, d, ks⟩ := t
    obtain ⟨c, tot, stp, er, lg⟩ := st
    simp only at hs hcnt
    subst hs
    have hct := hc
    simp only [isClean, Bool.and_eq_true, Bool.not_eq_true'] at hc
    obtain ⟨hd, hck⟩ := hc
    subst hd
    simp only [height] at hh
    have hk : heightL ks ≤ f := by omega
    rw [enterNode]
    simp only [Bool.false_eq_true, if_false]
    cases hm : P.mtch (.node l false ks) with
    | none =>
      have p := mapKids_nest P.mtch f (enterNode P f) ih ks
        ⟨c, tot, false, er, .node l false ks :: lg⟩ hk hck rfl hcnt
      simp only [countAll, hm]
      refine ⟨?_, ?_, ?_, p.stop, p.err⟩
      · simp only [cleanList, clean, p.trees]
      · have := p.count; dsimp only at this ⊢; simp only [this]; simp
      · have := p.total; dsimp only at this ⊢; simp only [this]; simp
    | some env =>
      have hfill : fillRoot P.isStmt P.tmpl env (.node l false ks) = .ok ([.node l true ks], false) := by
        simp only [fillRoot, ht, resolve, clean, markRoot, cleanList_of_isCleanL ks hck]
      have hb : (c - 1 == 0) = false := by
        simp only [beq_eq_false_iff_ne, ne_eq]; omega
      have p := mapKids_nest P.mtch f (enterNode P f) ih ks
        ⟨c - 1, tot + 1, false, er, .node l false ks :: lg⟩ hk hck rfl (by dsimp only; omega)
      simp only [countAll, hm, hl, loopSub_none P P.lfuel env _ _ _ _ hfill, bump, hb, hn,
        Bool.false_eq_true, if_false, Bool.or_false, Bool.not_true, Option.isSome_some, if_true]
      refine ⟨?_, ?_, ?_, p.stop, p.err⟩
      · simp only [cleanList, clean, p.trees]
      · have := p.count; dsimp only at this ⊢; simp only [this]; omega
      · have := p.total; dsimp only at this ⊢; simp only [this]; omega

end Pfst.Sub
