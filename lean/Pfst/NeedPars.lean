import Pfst.Prec
import Pfst.Gen.Enclose
/-!
Executable model of the decision logic pfst runs when it PUTS an expression-like node:

* `isAtom`            mirrors `FST._is_atom`                (/repo/src/fst/fst_core.py)
* `enclosedInParents` mirrors `FST._is_enclosed_in_parents` (fst_core.py)
* `eol`               mirrors `FST._is_enclosed_or_line`    (fst_core.py; `whole=False`)
* `needPars`, `actionCore`/`action` mirror `need_pars(adding)` and the `pars` option logic of `_make_exprlike_fst`
  (/repo/src/fst/fst_put_one.py)

A pfst node is serialised by the harness as `Node` (kind, field in the parent, location, location and count of its grouping
parentheses, tuple / match-sequence delimiters, …; children in pfst's syntax order).  The kind sets and the
(parent kind, field) enclosure table are NOT written here: they come from `Pfst/Gen/Enclose.lean`, regenerated from `/repo`
on every run; precedence answers come from `Pfst/Gen/Precedence.lean`.  Imports only generated tables and `Pfst.Prec`.
-/
namespace Pfst.NeedPars
open Pfst.Gen.Precedence Pfst.Gen.Enclose

instance : Inhabited K := ⟨.«Name»⟩
instance : Inhabited F := ⟨.«value»⟩

structure Loc where
  ln : Nat
  col : Nat
  endLn : Nat
  endCol : Nat
deriving DecidableEq, Repr, Inhabited

/-- What is read off one pfst node (no decision is taken by the serialiser). -/
structure Info where
  kind : K
  field : F := .«value»          -- `pfield.name` (meaningless for a root)
  loc : Option Loc := none        -- `self.loc`
  pars : Option Loc := none       -- `self.pars()`: location including grouping parentheses
  n : Nat := 0                    -- `self.pars().n`: number of grouping parentheses pairs
  ptup : Option Bool := none      -- `is_parenthesized_tuple()`
  dms : Option Bool := none       -- `is_delimited_matchseq()`: none = not a MatchSequence, some b = truthiness
  cstr : Bool := false            -- `Constant` whose value is `str`/`bytes`
  cint : Bool := false            -- `Constant` whose value is an `int` instance
  op : Option K := none           -- operator kind of a `BoolOp`/`BinOp`/`UnaryOp`
  special : Option (Loc × Nat × Nat) := none
      -- `_loc_Call_pars` / `_loc_Subscript_brackets` / `_loc_MatchClass_pars` / `_loc_ImportFrom_names_pars` /
      -- `_loc_With_items_pars`: location, `.n`, `.bound.end_ln` (With only)
  strLns : List Nat := []         -- `_multiline_str_continuation_lns` (CPython tokenize) for Constant / JoinedStr / TemplateStr
  wiVars : Bool := false          -- `withitem.optional_vars` present
  matchAsNone : Bool := false     -- `MatchAs` without sub-pattern
deriving Repr, Inhabited

inductive Node where
  | mk (i : Info) (kids : List Node)
deriving Repr, Inhabited

def Node.info : Node → Info | .mk i _ => i
def Node.kids : Node → List Node | .mk _ k => k

/-! ### `_is_atom` -/

inductive AtomRes where
  | yes | unencl | pars | no
  | assertFail      -- `assert ast_cls in ASTS_LEAF_EXPR_OR_PATTERN` fails
deriving DecidableEq, Repr, Inhabited

def AtomRes.truthy : AtomRes → Bool
  | .yes | .unencl | .pars => true
  | _ => false

/-- the tail of `_is_atom`: parenthesised tuple, delimited match sequence, assert, grouping parentheses -/
def fallAtom (i : Info) (pars : Bool) : AtomRes :=
  match i.ptup with
  | some r => if r then .yes else .no
  | none =>
    match i.dms with
    | some r => if r then .yes else .no
    | none =>
      if exprOrPattern.contains i.kind then (if pars && decide (0 < i.n) then .pars else .no) else .assertFail

/-- `_is_atom` for one node; `wi` is the answer of the `withitem` branch (computed by `isAtom`). -/
def isAtomCore (i : Info) (pars ae : Bool) (wi : AtomRes) : AtomRes :=
  if atomInnate.contains i.kind then .yes
  else if cmpopOneWord.contains i.kind then .yes
  else if !ae then
    if i.kind == .«Constant» then (if i.cstr then .unencl else .yes)
    else if atomUnencl.contains i.kind then .unencl
    else fallAtom i pars
  else if atomCantPar.contains i.kind then .no
  else if i.kind == .«Constant» then (if !i.cstr then .yes else fallAtom i pars)
  else if i.kind == .«withitem» then wi
  else if cmpopTwoWord.contains i.kind then .no
  else fallAtom i pars

def sameLines (a b : Option Loc) : Bool :=
  match a, b with
  | some x, some y => x.ln == y.ln && x.endLn == y.endLn
  | _, _ => false

/-- `FST._is_atom(pars, always_enclosed)`.  The `withitem` branch is
`not optional_vars and self.loc[::2] == context_expr.pars()[::2] and context_expr._is_atom(...)`. -/
def isAtom (nd : Node) (pars ae : Bool) : AtomRes :=
  let i := nd.info
  let wi : AtomRes :=
    if i.wiVars then .no
    else match nd.kids.find? (fun k => k.info.field == .«context_expr») with
      | some ce => if sameLines i.loc ce.info.pars then isAtomCore ce.info pars ae .no else .no
      | none => .no
  isAtomCore i pars ae wi

/-! ### `_is_enclosed_in_parents` -/

def encCode (p : K) (f : F) : Nat :=
  match encTable.find? (fun r => r.1 == p && r.2.1 == f) with
  | some r => r.2.2
  | none => 0

def specialN (i : Info) : Nat :=
  match i.special with
  | some (_, n, _) => n
  | none => 0

/-- one turn of the `while parent := self.parent` loop: `some b` = return `b`, `none` = go on up -/
def encStep (f : F) (p : Info) : Option Bool :=
  match encCode p.kind f with
  | 1 => some true
  | 2 => some false
  | 3 => some (decide (0 < specialN p))
  | 4 => some (decide (0 < specialN p))
  | _ =>
    -- `if Call … elif Subscript … elif MatchClass … elif is_parenthesized_tuple() … elif is_delimited_matchseq() …`
    let named := p.kind == .«Call» || p.kind == .«Subscript» || p.kind == .«MatchClass»
    if !named && p.ptup == some true then some true
    else if !named && p.ptup == none && p.dms == some true then some true
    else if decide (0 < p.n) then some true
    else none

/-- the loop; the list holds, innermost first, (field of the node below, parent) -/
def encWalk : List (F × Info) → Bool
  | [] => false
  | (f, p) :: r =>
    match encStep f p with
    | some b => b
    | none => encWalk r

/-- `self._is_enclosed_in_parents(field)`; `ups` are the ancestors of `self` as (pfield name, parent). -/
def enclosedInParents (field : Option F) (self : Info) (ups : List (F × Info)) : Bool :=
  match field with
  | some f => if f != .«ctx» then encWalk ((f, self) :: ups) else encWalk ups
  | none =>
    if exprContext.contains self.kind then
      match ups with
      | [] => false
      | _ :: r => encWalk r
    else encWalk ups

/-! ### `_is_enclosed_or_line` -/

inductive EolRes where
  | yes | pars | no
  | notImpl         -- `NotImplementedError("we don't do block statements yet")`
deriving DecidableEq, Repr, Inhabited

def EolRes.truthy : EolRes → Bool
  | .yes | .pars => true
  | _ => false

abbrev Line := List Char

/-- `_re_line_end_cont.match(line, col)` with `_re_line_end_cont = re.compile(r'[^#]*\\$')`: from `col` on there is no `#`
and the last character of the line is a backslash -/
def lineEndCont (line : Line) (col : Nat) : Bool :=
  match (line.drop col).reverse with
  | [] => false
  | c :: r => c == '\\' && !r.contains '#'

/-- `line.endswith('\\')` -/
def endsBackslash (line : Line) : Bool :=
  match line.reverse with
  | [] => false
  | c :: _ => c == '\\'

/-- `for ln in range(a, a + cnt): if not _re_line_end_cont.match(lines[ln], col): …; col = 0` — the failing lines -/
def gapBad (lines : List Line) : Nat → Nat → Nat → List Nat
  | _, 0, _ => []
  | a, cnt + 1, col => (if lineEndCont (lines.getD a []) col then [] else [a]) ++ gapBad lines (a + 1) cnt 0

/-- one child of the loop, with its own answer already computed -/
structure Step where
  loc : Loc          -- `child.f.pars()`
  skip : Bool        -- `loc.n > 0` or a mock "enclosed" child: the child is not asked
  res : EolRes       -- `child.f._is_enclosed_or_line(check_pars=False, out_lns=out_lns)`
  out : List Nat     -- what that call adds to `out_lns`
deriving Repr, Inhabited

structure St where
  lastLn : Nat
  lastCol : Nat
  failed : Bool
  err : Bool         -- a child raised NotImplementedError
  out : List Nat
deriving Repr, Inhabited

/-- body of `for child in children` -/
def stepLoop (lines : List Line) (st : St) (s : Step) : St :=
  if s.loc.endLn == st.lastLn then { st with lastCol := s.loc.endCol }
  else
    let bad := gapBad lines st.lastLn (s.loc.ln - st.lastLn) st.lastCol
    { lastLn := s.loc.endLn, lastCol := s.loc.endCol,
      failed := st.failed || !bad.isEmpty || (!s.skip && !s.res.truthy),
      err := st.err || (!s.skip && s.res == .notImpl),
      out := st.out ++ bad ++ (if s.skip then [] else s.out) }

def loop (lines : List Line) (st : St) : List Step → St
  | [] => st
  | s :: r => loop lines (stepLoop lines st s) r

/-- the tail loop and the final answer.  (With `out_lns=None` Python returns `False` at the first failure; the answer is
the same, only the collection of lines is skipped.) -/
def finish (lines : List Line) (st : St) (endLn : Nat) : EolRes × List Nat :=
  let bad := gapBad lines st.lastLn (endLn - st.lastLn) st.lastCol
  (if st.err then .notImpl else if st.failed || !bad.isEmpty then .no else .yes, st.out ++ bad)

/-- `set(...)`: drop repeated elements -/
def dedup : List Nat → List Nat
  | [] => []
  | x :: r => if r.contains x then dedup r else x :: dedup r

/-- the `Constant` / `JoinedStr` / `TemplateStr` branch: `strLns` come from tokenize (lines continued INSIDE a string
token); every line after a line that ends in a real line continuation (`_re_line_end_cont` from the node's start column on
the first line, from column 0 on later lines — /repo 48b6578; before that `endswith('\\')`) is added; all `endLn - ln`
following lines must be continuation lines -/
def strBranch (lines : List Line) (l : Loc) (strLns : List Nat) : EolRes × List Nat :=
  let rng := List.range' l.ln (l.endLn - l.ln)
  let extra := (rng.filter (fun i => lineEndCont (lines.getD i []) (if i == l.ln then l.col else 0))).map (· + 1)
  let lns := dedup (strLns ++ extra)
  if lns.length == l.endLn - l.ln then (.yes, [])
  else (.no, rng.filter (fun i => !lns.contains (i + 1)))

def enclosedStep (l : Loc) : Step := { loc := l, skip := true, res := .yes, out := [] }

/-- which children are walked: `Call`, `Subscript`, `MatchClass` keep their first child and replace the rest by one enclosed
span; `ImportFrom` / `With` with parenthesised names / items are one enclosed span; `With` walks only its items -/
def selectSteps (i : Info) (ks : List (F × Step)) : List Step :=
  let encl : List Step := match i.special with
    | some (l, _, _) => [enclosedStep l]
    | none => []
  let pick (f : F) : List Step := (ks.filter (fun p => p.1 == f)).map (·.2)
  if i.kind == .«Call» then pick .«func» ++ encl
  else if i.kind == .«Subscript» then pick .«value» ++ encl
  else if i.kind == .«ImportFrom» then (if decide (0 < specialN i) then encl else pick .«names»)
  else if withKinds.contains i.kind then (if decide (0 < specialN i) then encl else pick .«items»)
  else if i.kind == .«MatchClass» then pick .«cls» ++ encl
  else ks.map (·.2)

def isStrKind (k : K) : Bool := k == .«Constant» || k == .«JoinedStr» || k == .«TemplateStr»

mutual
/-- `FST._is_enclosed_or_line(check_pars=checkPars, out_lns=set())`: the answer and the lines added to `out_lns` -/
def eol (lines : List Line) (checkPars : Bool) : Node → EolRes × List Nat
  | .mk i kids =>
    match i.loc with
    | none => (.yes, [])
    | some l =>
      if eolAlways.contains i.kind then (.yes, [])
      else if eolBlock.contains i.kind then (.notImpl, [])
      else if l.endLn == l.ln then (.yes, [])
      else if checkPars && decide (0 < i.n) then (.pars, [])
      else if isStrKind i.kind then strBranch lines l i.strLns
      else if i.ptup == some true then (.yes, [])
      else if i.ptup == none && i.dms == some true then (.yes, [])
      else
        let endLn := if withKinds.contains i.kind then
            (match i.special with | some (_, _, b) => b | none => l.endLn) else l.endLn
        finish lines (loop lines ⟨l.ln, l.col, false, false, []⟩ (selectSteps i (stepsOf lines kids))) endLn
/-- every child that has a location, with its own answer (`check_pars` is `False` for children: it was cleared above) -/
def stepsOf (lines : List Line) : List Node → List (F × Step)
  | [] => []
  | k :: r =>
    match k with
    | .mk ci ck =>
      match ci.pars with
      | none => stepsOf lines r
      | some pl =>
        let a := eol lines false (.mk ci ck)
        (ci.field, { loc := pl, skip := decide (0 < ci.n), res := a.1, out := a.2 }) :: stepsOf lines r
end

/-! ### `precedence_require_parens` through the extracted table -/

def tableLookup (p : K) (f : F) (c : K) (fl : Nat) : Option Bool :=
  match rows.find? (fun r => r.1 == p && r.2.1 == f) with
  | none => none
  | some r =>
    match (List.zip children r.2.2).find? (fun cm => cm.1 == c) with
    | none => none
    | some cm => if cm.2 == 65536 then none else some (Pfst.Prec.bit cm.2 fl)

def typeOf (i : Info) : K :=
  if i.kind == .«BoolOp» || i.kind == .«BinOp» || i.kind == .«UnaryOp» then i.op.getD i.kind else i.kind

/-- `precedence_require_parens(child, parent, field, idx, arglike=…)`: flags from the instances, answer from the table;
`none` = the real function raises -/
def precRequire (child parent : Info) (f : F) (dictKeyNone arglike : Bool) : Option Bool :=
  let fl := (if parent.kind == .«Dict» && dictKeyNone then 1 else 0)
    + (if child.kind == .«MatchAs» && child.matchAsNone then 2 else 0)
    + (if parent.kind == .«Attribute» && child.kind == .«Constant» && child.cint then 4 else 0)
    + (if arglike then 8 else 0)
  tableLookup (typeOf parent) f (typeOf child) fl

/-! ### `need_pars(adding)` and the `pars` option logic of `_make_exprlike_fst` -/

structure NPIn where
  put : Node                     -- `put_fst` (a root)
  putLines : List Line           -- `put_fst._lines`
  slf : Info                     -- `self`: the node being put into
  ups : List (F × Info)          -- its ancestors (pfield name, parent), innermost first
  fld : F                        -- `field`
  dictKeyNone : Bool := false    -- `self.a.keys[idx] is None` (only read when `self` is a Dict)
  arglike : Bool := false
  tgtIsFST : Bool := true
  tgtParent : Option K := none   -- `target.parent.a.__class__`
  tgtN : Nat := 0                -- `target.pars().n`
  parenthesizable : Bool := true -- `put_fst.is_parenthesizable()`
deriving Repr, Inhabited

/-- `Lambda` inside `FormattedValue` / `Interpolation`: the `while` loop at the end of `need_pars` -/
def lambdaWalk : F → Info → List (F × Info) → Bool
  | f, s, ups =>
    if !exprKinds.contains s.kind then false
    else if s.kind == .«FormattedValue» || s.kind == .«Interpolation» then f == .«value»
    else if (isAtomCore s true true .no).truthy then false
    else match ups with
      | [] => false
      | (pf, p) :: r => lambdaWalk pf p r

def starChild (put : Node) : Option Node := put.kids.find? (fun k => k.info.field == .«value»)

/-- first part of `need_pars`: the atom test, the table (or the Starred child against the table), the `3 .real` case.
`none` = `precedence_require_parens` raises. -/
def needFirst (x : NPIn) (adding : Bool) : Option Bool :=
  let pi := x.put.info
  if !(isAtom x.put false false).truthy then
    if pi.kind != .«Starred» then precRequire pi x.slf x.fld x.dictKeyNone false
    else match starChild x.put with
      | some sc =>
        if sc.info.kind != .«Tuple» then
          (precRequire sc.info pi .«value» false x.arglike).map (fun r => r && (!adding || sc.info.n == 0))
        else some false
      | none => none
  else some (x.tgtIsFST && x.fld == .«value» && pi.kind == .«Constant» && pi.cint && x.tgtParent == some .«Attribute»)

/-- the value of a `Starred` source whose own grouping parentheses are under consideration (`adding = False`), asked
WITHOUT those parentheses: `put_is_star and not adding and not put_ast.value.f._is_enclosed_or_line(check_pars=False)`
(/repo fix C09-F3: the parentheses after `*` may be what encloses a line break) -/
def starValueOpen (x : NPIn) (adding : Bool) : Bool :=
  x.put.info.kind == .«Starred» && !adding &&
    match starChild x.put with
    | some sc => !(eol x.putLines false sc).1.truthy
    | none => false

/-- `if not self._is_enclosed_in_parents(field): if not put_fst._is_enclosed_or_line(check_pars=adding): return True;
if put_is_star and not adding and not value._is_enclosed_or_line(check_pars=False): return True` -/
def lineBranch (x : NPIn) (adding : Bool) : Bool :=
  !enclosedInParents (some x.fld) x.slf x.ups && (!(eol x.putLines adding x.put).1.truthy || starValueOpen x adding)

def lambdaBranch (x : NPIn) : Bool :=
  x.put.info.kind == .«Lambda» && lambdaWalk x.fld x.slf x.ups

/-- `need_pars(adding)` -/
def needPars (x : NPIn) (adding : Bool) : Option Bool :=
  match needFirst x adding with
  | none => none
  | some true => some true
  | some false => some (lineBranch x adding || lambdaBranch x)

inductive ParsOpt where
  | off | auto | on
deriving DecidableEq, Repr, Inhabited

/-- what is done to the source being put -/
inductive SrcAct where
  | none       -- left as it is
  | unpar      -- `put_fst._unparenthesize_grouping(False)`
  | delimit    -- `put_fst._delimit_node()` (bare tuple gets its parentheses)
  | group      -- `put_fst._parenthesize_grouping()`
  | deferred   -- `deferred_par = True`
deriving DecidableEq, Repr, Inhabited

structure Outcome where
  src : SrcAct
  delTgt : Bool      -- `del_tgt_pars`: the put replaces the target INCLUDING its grouping parentheses
deriving DecidableEq, Repr, Inhabited

/-- The `if pars:` block of `_make_exprlike_fst`.  `needF` / `needT` are `need_pars(False)` / `need_pars(True)` (each is
consulted in at most one branch); `none` = the call raised. -/
def actionCore (opt : ParsOpt) (srcHasPars tgtHasPars unparTuple parenthesizable annTarget : Bool)
    (needF needT : Option Bool) : Option Outcome :=
  match opt with
  | .off => some ⟨.none, false⟩
  | _ =>
    if srcHasPars then
      if opt == .auto then
        match needF with
        | none => none
        | some nd => some ⟨if !nd then .unpar else .none, true⟩
      else some ⟨.none, true⟩
    else
      let del0 := tgtHasPars && unparTuple
      let tgtHas := tgtHasPars && !unparTuple
      match needT with
      | none => none
      | some nd =>
        if tgtHas then
          if !nd then (if opt == .on || !annTarget then some ⟨.none, true⟩ else some ⟨.none, del0⟩)
          else some ⟨.none, del0⟩
        else if nd then
          (if unparTuple then some ⟨.delimit, del0⟩
           else if parenthesizable then some ⟨.group, del0⟩
           else some ⟨.deferred, del0⟩)
        else some ⟨.none, del0⟩

/-- `getattr((put_ast.value.f if put_is_star else put_fst).pars(), 'n', 0)` -/
def srcHasPars (put : Node) : Bool :=
  if put.info.kind == .«Starred» then
    match starChild put with
    | some sc => decide (0 < sc.info.n)
    | none => false
  else decide (0 < put.info.n)

def action (x : NPIn) (opt : ParsOpt) : Option Outcome :=
  actionCore opt (srcHasPars x.put) (x.tgtIsFST && decide (0 < x.tgtN)) (x.put.info.ptup == some false) x.parenthesizable
    (x.fld == .«target» && x.tgtParent == some .«AnnAssign») (needPars x false) (needPars x true)

/-- after the put: is the new node inside grouping parentheses / its own tuple parentheses (or will be, deferred)? -/
def resultEnclosed (srcHas tgtHas : Bool) (o : Outcome) : Bool :=
  (srcHas && o.src != .unpar) || (tgtHas && !o.delTgt) || o.src == .group || o.src == .delimit || o.src == .deferred

end Pfst.NeedPars
