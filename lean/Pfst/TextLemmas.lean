import Pfst.Text
import Pfst.Offset

/-!
Lemmas of the text layer: flattening, the normal form of `putSrc`, offsets before / after a splice, the byte bridge.
-/
namespace Pfst.Text

/-! ### flattening -/

@[simp] theorem flatTail_nil : flatTail [] = [] := rfl
@[simp] theorem flatTail_cons (l : Line) (B : List Line) : flatTail (l :: B) = '\n' :: (l ++ flatTail B) := by
  simp [flatTail]
theorem flatTail_append (A B : List Line) : flatTail (A ++ B) = flatTail A ++ flatTail B := by
  simp [flatTail]

theorem flatTail_eq_cons_flat (l : Line) (B : List Line) : flatTail (l :: B) = '\n' :: flat (l :: B) := by
  simp [flat]

theorem flat_cons (l : Line) (B : List Line) : flat (l :: B) = l ++ flatTail B := rfl

theorem flat_append_of_ne_nil (A B : List Line) (h : A ≠ []) : flat (A ++ B) = flat A ++ flatTail B := by
  cases A with
  | nil => exact absurd rfl h
  | cons a A => simp [flat, flatTail_append]

theorem flat_snoc (A : List Line) (x : Line) : flat (A ++ [x]) = (flatTail A).drop 1 ++ (if A = [] then x else '\n' :: x) := by
  cases A with
  | nil => simp [flat]
  | cons a A => simp [flat, flatTail_append]

/-- appending characters to the flat text of a non-empty list = appending them to its last line -/
theorem flat_snoc_append (A : List Line) (x y : Line) : flat (A ++ [x]) ++ y = flat (A ++ [x ++ y]) := by
  cases A with
  | nil => simp [flat]
  | cons a A => simp [flat, flatTail_append]

theorem flat_snoc_flatTail (A : List Line) (x : Line) (B : List Line) :
    flat (A ++ [x]) ++ flatTail B = flat (A ++ [x] ++ B) := by
  rw [flat_append_of_ne_nil (A ++ [x]) B (by simp)]

theorem length_flatTail (B : List Line) : (flatTail B).length = (B.map (fun l => l.length + 1)).sum := by
  induction B with
  | nil => rfl
  | cons b B ih => simp [ih]; omega

theorem length_flat_snoc (A : List Line) (x : Line) :
    (flat (A ++ [x])).length = (A.map (fun l => l.length + 1)).sum + x.length := by
  cases A with
  | nil => simp [flat]
  | cons a A =>
    simp [flat, flatTail_append, length_flatTail]; omega

/-! ### list helpers and the normal form of `putSrc` -/

theorem lineAt_eq {L : List Line} {i : Nat} (h : i < L.length) : lineAt L i = L[i] := by
  simp [lineAt, List.getD, h]

theorem set_split {L : List Line} {i : Nat} (h : i < L.length) (x : Line) :
    L.set i x = L.take i ++ x :: L.drop (i + 1) := by
  rw [List.set_eq_take_append_cons_drop, if_pos h]

theorem split_at {L : List Line} {i : Nat} (h : i < L.length) :
    L = L.take i ++ lineAt L i :: L.drop (i + 1) := by
  rw [lineAt_eq h]
  conv => lhs; rw [← List.take_append_drop i L, List.drop_eq_getElem_cons h]

theorem take_app_len {α} (A B : List α) (n : Nat) (h : n = A.length) : (A ++ B).take n = A := by
  subst h; simp
theorem drop_app_len {α} (A B : List α) (n : Nat) (h : n = A.length) : (A ++ B).drop n = B := by
  subst h; simp

theorem wrap_length (pre post : Line) (put : List Line) : (wrap pre put post).length = max 1 put.length := by
  match put with
  | [] => simp [wrap]
  | [p] => simp [wrap]
  | p0 :: p1 :: ps => simp [wrap]


theorem set_at_len {α} (A B : List α) (x y : α) (n : Nat) (h : n = A.length) : (A ++ x :: B).set n y = A ++ y :: B := by
  subst h; simp

theorem dropLast_lastLine (P : List Line) (h : P ≠ []) : P.dropLast ++ [lastLine P] = P := by
  unfold lastLine
  rw [List.getLastD_eq_getLast?, List.getLast?_eq_some_getLast h]
  simp [List.dropLast_concat_getLast]

theorem putSrc_normal (L put : List Line) (ln col endLn endCol : Nat) (h : ValidSpan L ln col endLn endCol) :
    putSrc L put ln col endLn endCol = L.take ln ++ spliceMiddle L put ln col endLn endCol ++ L.drop (endLn + 1) := by
  obtain ⟨hle, hend, hcol, hecol, hord⟩ := h
  have hln : ln < L.length := by omega
  unfold spliceMiddle
  match put with
  | [] =>
    simp only [putSrc, delSrc, wrap]
    by_cases he : endLn = ln
    · have he' := he.symm; subst he'
      by_cases hc : endCol = col
      · subst hc
        simp only [bne_self_eq_false, Bool.false_eq_true, if_false, List.take_append_drop]
        conv => lhs; rw [split_at hln]
        simp
      · have : (endCol != col) = true := by simp [hc]
        simp only [bne_self_eq_false, Bool.false_eq_true, if_false, this, if_true]
        rw [set_split hln]; simp
    · have : (endLn != ln) = true := by simp [he]
      simp only [this, if_true, sliceAssign]
      rw [Nat.max_eq_right (by omega)]
  | [p] =>
    simp only [putSrc, wrap]
    by_cases he : endLn = ln
    · have he' := he.symm; subst he'
      simp only [beq_self_eq_true, if_true]
      rw [set_split hln]; simp
    · have : (endLn == ln) = false := by simp [he]
      simp only [this, Bool.false_eq_true, if_false, sliceAssign]
      rw [Nat.max_eq_right (by omega)]
  | p0 :: p1 :: ps =>
    simp only [putSrc, wrap]
    by_cases he : endLn = ln
    · have he' := he.symm; subst he'
      simp only [beq_self_eq_true, if_true, sliceAssign, Nat.max_self]
      rw [set_split hln]
      have hA : (List.take ln L).length = ln := by simp; omega
      generalize hAe : List.take ln L = A at hA
      generalize List.drop (ln + 1) L = R
      generalize List.take col (lineAt L ln) ++ p0 = x
      have e1 : (A ++ x :: R).take (ln + 1) = A ++ [x] := by
        have := take_app_len (A ++ [x]) R (ln + 1) (by simp [hA]); simpa using this
      have e2 : (A ++ x :: R).drop (ln + 1) = R := by
        have := drop_app_len (A ++ [x]) R (ln + 1) (by simp [hA]); simpa using this
      rw [e1, e2]
      have hP := dropLast_lastLine (p1 :: ps) (by simp)
      have hD : (p1 :: ps).dropLast.length = ps.length := by simp
      generalize lastLine (p1 :: ps) = lst at *
      generalize (p1 :: ps).dropLast = D at *
      rw [← hP]
      have := set_at_len (A ++ [x] ++ D) R lst (lst ++ List.drop endCol (lineAt L ln)) (ln + (ps.length + 2) - 1) (by simp [hA, hD])
      simpa using this
    · have hb : (endLn == ln) = false := by simp [he]
      have hlt : ln < endLn := by omega
      simp only [hb, Bool.false_eq_true, if_false, sliceAssign]
      rw [Nat.max_eq_right (by omega : ln + 1 ≤ endLn)]
      have hmid : middle (p0 :: p1 :: ps) = (p1 :: ps).dropLast := by simp [middle]
      have hat : lineAt (L.set ln (List.take col (lineAt L ln) ++ p0)) endLn = lineAt L endLn := by
        simp [lineAt, List.getD_eq_getElem?_getD, List.getElem?_set_ne (by omega : ln ≠ endLn)]
      rw [hmid, hat]
      generalize List.take col (lineAt L ln) ++ p0 = x
      generalize lastLine (p1 :: ps) ++ List.drop endCol (lineAt L endLn) = y
      have e1 : ((L.set ln x).set endLn y).take (ln + 1) = L.take ln ++ [x] := by
        rw [List.take_set_of_le (by omega), set_split hln]
        have := take_app_len (L.take ln ++ [x]) (L.drop (ln + 1)) (ln + 1) (by simp; omega)
        simpa using this
      have e2 : ((L.set ln x).set endLn y).drop endLn = y :: L.drop (endLn + 1) := by
        rw [set_split (by simpa using hend)]
        rw [drop_app_len _ _ _ (by simp; omega)]
        rw [List.drop_set_of_lt (by omega)]
      rw [e1, e2]; simp


theorem flat_wrap (A : List Line) (pre post : Line) (put : List Line) (R : List Line) (h : put ≠ []) :
    flat (A ++ wrap pre put post ++ R) = flat (A ++ [pre]) ++ flat put ++ post ++ flatTail R := by
  match put with
  | [] => exact absurd rfl h
  | [p] =>
    simp only [wrap]
    rw [flat_append_of_ne_nil _ R (by simp)]
    have : flat [p] = p := by simp [flat]
    rw [this, flat_snoc_append A pre p, flat_snoc_append A (pre ++ p) post]
  | p0 :: p1 :: ps =>
    simp only [wrap]
    rw [flat_append_of_ne_nil _ R (by simp)]
    have hP := dropLast_lastLine (p1 :: ps) (by simp)
    generalize lastLine (p1 :: ps) = lst at *
    generalize (p1 :: ps).dropLast = D at *
    rw [← hP]
    simp only [flat_cons]
    rw [← List.append_assoc (flat (A ++ [pre])), flat_snoc_append]
    have e : A ++ (pre ++ p0) :: (D ++ [lst ++ post]) = (A ++ [pre ++ p0] ++ D) ++ [lst ++ post] := by simp
    rw [e, ← flat_snoc_append, flat_append_of_ne_nil _ [lst] (by simp), flat_append_of_ne_nil _ D (by simp),
      flatTail_append]
    simp

theorem flat_split (L : List Line) (l c : Nat) (h : l < L.length) :
    flat L = flat (L.take l ++ [(lineAt L l).take c]) ++ ((lineAt L l).drop c ++ flatTail (L.drop (l + 1))) := by
  conv => lhs; rw [split_at h]
  rw [← List.append_assoc, flat_snoc_append, List.take_append_drop, flat_snoc_flatTail]
  simp

theorem take_off (L : List Line) (l c : Nat) (h : l < L.length) :
    (flat L).take (off L l c) = flat (L.take l ++ [(lineAt L l).take c]) := by
  conv => lhs; rw [flat_split L l c h]
  simp [off]

theorem drop_off (L : List Line) (l c : Nat) (h : l < L.length) :
    (flat L).drop (off L l c) = (lineAt L l).drop c ++ flatTail (L.drop (l + 1)) := by
  conv => lhs; rw [flat_split L l c h]
  simp [off]

theorem putSrc_flat (L put : List Line) (ln col endLn endCol : Nat) (h : ValidSpan L ln col endLn endCol)
    (hp : put ≠ []) :
    flat (putSrc L put ln col endLn endCol)
      = (flat L).take (off L ln col) ++ flat put ++ (flat L).drop (off L endLn endCol) := by
  rw [putSrc_normal L put ln col endLn endCol h, take_off L ln col (by have := h.hle; have := h.hend; omega),
    drop_off L endLn endCol h.hend, spliceMiddle, flat_wrap _ _ _ _ _ hp]
  simp



/-! ### offsets -/

theorem off_eq (L : List Line) (l c : Nat) : off L l c = lineStart L l + min c (lineAt L l).length := by
  simp [off, lineStart, length_flat_snoc]

theorem lineStart_total (L : List Line) (l : Nat) (h : L.length ≤ l) : lineStart L l = (flatTail L).length := by
  simp [lineStart, length_flatTail, List.take_of_length_le h]

theorem lineAt_append_left (X Y : List Line) (l : Nat) (h : l < X.length) : lineAt (X ++ Y) l = lineAt X l := by
  simp [lineAt, List.getD_eq_getElem?_getD, List.getElem?_append_left h]

theorem lineAt_append_right (X Y : List Line) (k : Nat) : lineAt (X ++ Y) (X.length + k) = lineAt Y k := by
  simp [lineAt, List.getD_eq_getElem?_getD, List.getElem?_append_right]

theorem lineStart_append_left (X Y : List Line) (l : Nat) (h : l ≤ X.length) : lineStart (X ++ Y) l = lineStart X l := by
  simp [lineStart, List.take_append_of_le_length h]

theorem lineStart_append_right (X Y : List Line) (k : Nat) :
    lineStart (X ++ Y) (X.length + k) = (flatTail X).length + lineStart Y k := by
  have : (X ++ Y).take (X.length + k) = X ++ Y.take k := by
    rw [List.take_append]; simp; exact List.take_of_length_le (by omega)
  simp [lineStart, this, length_flatTail]

theorem off_append_left (X Y : List Line) (l c : Nat) (h : l < X.length) : off (X ++ Y) l c = off X l c := by
  rw [off_eq, off_eq, lineAt_append_left X Y l h, lineStart_append_left X Y l (by omega)]

theorem off_append_right (X Y : List Line) (k c : Nat) :
    off (X ++ Y) (X.length + k) c = (flatTail X).length + off Y k c := by
  rw [off_eq, off_eq, lineAt_append_right, lineStart_append_right]; omega

theorem lineStart_succ (L : List Line) (l : Nat) (h : l < L.length) :
    lineStart L (l + 1) = lineStart L l + (lineAt L l).length + 1 := by
  conv => lhs; rw [split_at h]
  have := lineStart_append_right (L.take l) (lineAt L l :: L.drop (l + 1)) 1
  have hl : (L.take l).length = l := by simp; omega
  rw [hl] at this
  rw [this]
  simp [lineStart, length_flatTail]; omega

theorem lineStart_mono (L : List Line) (a b : Nat) (h : a ≤ b) : lineStart L a ≤ lineStart L b := by
  induction b with
  | zero => have : a = 0 := by omega
            subst this; exact Nat.le_refl _
  | succ b ih =>
    by_cases hab : a = b + 1
    · subst hab; exact Nat.le_refl _
    · have := ih (by omega)
      by_cases hb : b < L.length
      · rw [lineStart_succ L b hb]; omega
      · rw [lineStart_total L (b + 1) (by omega)]; rw [lineStart_total L b (by omega)] at this; exact this

theorem lineStart_lt (L : List Line) (a b : Nat) (h : a < b) (ha : a < L.length) :
    lineStart L a + (lineAt L a).length + 1 ≤ lineStart L b := by
  have := lineStart_mono L (a + 1) b (by omega)
  rw [lineStart_succ L a ha] at this; exact this

/-- `off` is monotone in the lexicographic order of points. -/
theorem off_mono (L : List Line) (l1 c1 l2 c2 : Nat) (h : le2 l1 c1 l2 c2) (hc : c2 ≤ (lineAt L l2).length) :
    off L l1 c1 ≤ off L l2 c2 := by
  rw [off_eq, off_eq]
  rcases h with h | ⟨h, h'⟩
  · by_cases ha : l1 < L.length
    · have := lineStart_lt L l1 l2 h ha; omega
    · have h1 : lineAt L l1 = [] := by
        simp [lineAt, List.getD_eq_getElem?_getD, List.getElem?_eq_none (by omega : L.length ≤ l1)]
      have := lineStart_mono L l1 l2 (by omega)
      rw [h1]; simp only [List.length_nil, Nat.min_zero, Nat.add_zero]; omega
  · subst h; omega


theorem off_le_length (L : List Line) (l c : Nat) (h : l < L.length) : off L l c ≤ (flat L).length := by
  have := congrArg List.length (flat_split L l c h)
  simp only [List.length_append] at this
  unfold off; omega

/-! ### second normal form: everything up to the last put line, the joined line, the rest -/

theorem wrap_ne_nil (pre post : Line) (put : List Line) : wrap pre put post ≠ [] := by
  match put with
  | [] => simp [wrap]
  | [p] => simp [wrap]
  | p0 :: p1 :: ps => simp [wrap]

theorem lastLine_snoc (D : List Line) (x : Line) : lastLine (D ++ [x]) = x := by simp [lastLine]

theorem wrap_split (pre post : Line) (put : List Line) :
    wrap pre put post = (wrap pre put []).dropLast ++ [lastLine (wrap pre put []) ++ post] := by
  match put with
  | [] => simp [wrap, lastLine]
  | [p] => simp [wrap, lastLine]
  | p0 :: p1 :: ps =>
    simp only [wrap, List.append_nil]
    have e : (pre ++ p0) :: ((p1 :: ps).dropLast ++ [lastLine (p1 :: ps)])
        = ((pre ++ p0) :: (p1 :: ps).dropLast) ++ [lastLine (p1 :: ps)] := by simp
    rw [e, List.dropLast_concat, lastLine_snoc]; simp

theorem wrap_dropLast_length (pre : Line) (put : List Line) : (wrap pre put []).dropLast.length = put.length - 1 := by
  match put with
  | [] => simp [wrap]
  | [p] => simp [wrap]
  | p0 :: p1 :: ps => simp [wrap]

theorem wrap_last_length (pre : Line) (put : List Line) :
    (lastLine (wrap pre put [])).length = (lastLine put).length + (if put.length ≤ 1 then pre.length else 0) := by
  match put with
  | [] => simp [wrap, lastLine]
  | [p] => simp [wrap, lastLine]; omega
  | p0 :: p1 :: ps =>
    simp only [wrap, List.append_nil]
    have e : (pre ++ p0) :: ((p1 :: ps).dropLast ++ [lastLine (p1 :: ps)])
        = ((pre ++ p0) :: (p1 :: ps).dropLast) ++ [lastLine (p1 :: ps)] := by simp
    rw [e, lastLine_snoc]
    have : lastLine (p0 :: p1 :: ps) = lastLine (p1 :: ps) := by simp [lastLine]
    simp [this]

theorem flat_wrap_nil (A : List Line) (pre : Line) (put : List Line) (hp : put ≠ []) :
    flat (A ++ (wrap pre put []).dropLast ++ [lastLine (wrap pre put [])]) = flat (A ++ [pre]) ++ flat put := by
  have := flat_wrap A pre [] put [] hp
  rw [List.append_assoc, dropLast_lastLine _ (wrap_ne_nil pre [] put)]
  simpa using this

theorem putSrc_normal2 (L put : List Line) (ln col endLn endCol : Nat) (h : ValidSpan L ln col endLn endCol) :
    putSrc L put ln col endLn endCol
      = (L.take ln ++ (wrap ((lineAt L ln).take col) put []).dropLast)
        ++ [lastLine (wrap ((lineAt L ln).take col) put []) ++ (lineAt L endLn).drop endCol] ++ L.drop (endLn + 1) := by
  rw [putSrc_normal L put ln col endLn endCol h, spliceMiddle, wrap_split]; simp

theorem putSrc_length (L put : List Line) (ln col endLn endCol : Nat) (h : ValidSpan L ln col endLn endCol) :
    (putSrc L put ln col endLn endCol).length + (endLn - ln) + 1 = L.length + max 1 put.length := by
  rw [putSrc_normal L put ln col endLn endCol h, spliceMiddle]
  have := h.hle; have := h.hend
  simp [wrap_length]; omega


/-! ### lines and offsets before / after the splice -/

theorem wrap_head (pre post : Line) (put : List Line) : ∃ s rest, wrap pre put post = (pre ++ s) :: rest := by
  match put with
  | [] => exact ⟨post, [], rfl⟩
  | [p] => exact ⟨p ++ post, [], by simp [wrap]⟩
  | p0 :: p1 :: ps => exact ⟨p0, _, rfl⟩

/-- Lines before the first touched line are the same lines at the same index. -/
theorem putSrc_line_before (L put : List Line) (ln col endLn endCol : Nat) (h : ValidSpan L ln col endLn endCol)
    (i : Nat) (hi : i < ln) : (putSrc L put ln col endLn endCol)[i]? = L[i]? := by
  have := h.hle; have := h.hend
  rw [putSrc_normal L put ln col endLn endCol h, List.append_assoc,
    List.getElem?_append_left (by simp; omega), List.getElem?_take_of_lt hi]

/-- Lines after the last touched line are the same lines, shifted by `put.length - 1 - (endLn - ln)`. -/
theorem putSrc_line_after (L put : List Line) (ln col endLn endCol : Nat) (h : ValidSpan L ln col endLn endCol)
    (hp : put ≠ []) (i : Nat) (hi : endLn < i) :
    (putSrc L put ln col endLn endCol)[shiftLn put ln endLn i]? = L[i]? := by
  have := h.hle; have := h.hend
  have hpl : 0 < put.length := List.length_pos_iff.mpr hp
  rw [putSrc_normal L put ln col endLn endCol h, spliceMiddle]
  rw [List.getElem?_append_right (by simp [wrap_length, shiftLn]; omega)]
  simp only [List.getElem?_drop, List.length_append, List.length_take, wrap_length, shiftLn]
  congr 1; omega

theorem off_putSrc_before (L put : List Line) (ln col endLn endCol : Nat) (h : ValidSpan L ln col endLn endCol)
    (l c : Nat) (hb : le2 l c ln col) : off (putSrc L put ln col endLn endCol) l c = off L l c := by
  have hle := h.hle; have hend := h.hend; have hcol := h.hcol
  have hA : (L.take ln).length = ln := by simp; omega
  rw [putSrc_normal L put ln col endLn endCol h, List.append_assoc]
  conv => rhs; rw [← List.take_append_drop ln L]
  rcases hb with hb | ⟨hb, hc⟩
  · rw [off_append_left _ _ l c (by omega), off_append_left _ _ l c (by omega)]
  · subst hb
    rw [off_eq, off_eq, lineStart_append_left _ _ l (by omega), lineStart_append_left _ _ l (by omega)]
    have e1 := lineAt_append_right (L.take l) (spliceMiddle L put l col endLn endCol ++ L.drop (endLn + 1)) 0
    have e2 := lineAt_append_right (L.take l) (L.drop l) 0
    rw [hA] at e1 e2
    simp only [Nat.add_zero] at e1 e2
    rw [e1, e2]
    obtain ⟨s, rest, hw⟩ := wrap_head ((lineAt L l).take col) ((lineAt L endLn).drop endCol) put
    have e3 : lineAt (spliceMiddle L put l col endLn endCol ++ L.drop (endLn + 1)) 0 = (lineAt L l).take col ++ s := by
      unfold spliceMiddle; rw [hw]; simp [lineAt]
    have e4 : lineAt (L.drop l) 0 = lineAt L l := by
      simp [lineAt, List.getD_eq_getElem?_getD]
    rw [e3, e4]
    simp only [List.length_append, List.length_take]
    omega


theorem off_putSrc_after (L put : List Line) (ln col endLn endCol : Nat) (h : ValidSpan L ln col endLn endCol)
    (hp : put ≠ []) (l c : Nat) (hb : le2 endLn endCol l c) (hl : l < L.length) (hc : c ≤ (lineAt L l).length) :
    off (putSrc L put ln col endLn endCol) (shiftLn put ln endLn l) (shiftCol put col endLn endCol l c)
        + off L endLn endCol
      = off L l c + off L ln col + (flat put).length := by
  have hle := h.hle; have hend := h.hend; have hcol := h.hcol; have hecol := h.hecol
  have hpl : 0 < put.length := List.length_pos_iff.mpr hp
  have hA : (L.take ln).length = ln := by simp; omega
  rw [putSrc_normal2 L put ln col endLn endCol h]
  -- abbreviations
  have hfl := congrArg List.length (flat_wrap_nil (L.take ln) ((lineAt L ln).take col) put hp)
  have hoff : off L ln col = (flat (L.take ln ++ [(lineAt L ln).take col])).length := rfl
  rw [List.length_append, ← hoff] at hfl
  have hDl := wrap_dropLast_length ((lineAt L ln).take col) put
  have hwl := wrap_last_length ((lineAt L ln).take col) put
  generalize hB : L.take ln ++ (wrap ((lineAt L ln).take col) put []).dropLast = B at *
  generalize lastLine (wrap ((lineAt L ln).take col) put []) = w at *
  have hBl : B.length = ln + (put.length - 1) := by rw [← hB]; simp [hA, hDl]
  rw [length_flat_snoc, ← length_flatTail] at hfl
  simp only [List.length_take] at hwl hfl
  have hpre : min col (lineAt L ln).length = col := by omega
  rw [hpre] at hwl
  rw [off_eq L endLn endCol, off_eq L l c, Nat.min_eq_left hecol, Nat.min_eq_left hc]
  rcases hb with hb | ⟨hb, hcc⟩
  · -- a later line
    have hk : shiftLn put ln endLn l = (B ++ [w ++ (lineAt L endLn).drop endCol]).length + (l - endLn - 1) := by
      simp [shiftLn, hBl]; omega
    have hsc : shiftCol put col endLn endCol l c = c := by simp [shiftCol]; omega
    rw [hk, hsc, off_append_right, off_eq]
    have hL : L = L.take (endLn + 1) ++ L.drop (endLn + 1) := (List.take_append_drop _ _).symm
    have hEl : (L.take (endLn + 1)).length = endLn + 1 := by simp; omega
    have h1 : lineStart L l = (flatTail (L.take (endLn + 1))).length + lineStart (L.drop (endLn + 1)) (l - endLn - 1) := by
      conv => lhs; rw [hL]
      have := lineStart_append_right (L.take (endLn + 1)) (L.drop (endLn + 1)) (l - endLn - 1)
      rw [hEl] at this
      rw [← this]; congr 1; omega
    have h2 : lineAt L l = lineAt (L.drop (endLn + 1)) (l - endLn - 1) := by
      conv => lhs; rw [hL]
      have := lineAt_append_right (L.take (endLn + 1)) (L.drop (endLn + 1)) (l - endLn - 1)
      rw [hEl] at this
      rw [← this]; congr 1; omega
    have h3 : (flatTail (L.take (endLn + 1))).length = lineStart L endLn + (lineAt L endLn).length + 1 := by
      rw [← lineStart_succ L endLn hend]; simp [lineStart, length_flatTail]
    rw [h1, ← h2, Nat.min_eq_left hc, h3]
    simp only [flatTail_append, List.length_append, flatTail_cons, flatTail_nil, List.length_cons, List.length_nil,
      List.length_drop]
    omega
  · -- the last replaced line
    subst hb
    have hk : shiftLn put ln endLn endLn = B.length + 0 := by simp [shiftLn, hBl]
    have hsc : shiftCol put col endLn endCol endLn c = c - endCol + w.length := by
      simp only [shiftCol, if_true, hwl]
      by_cases h1 : put.length = 1
      · simp [h1]; omega
      · have : ¬ put.length ≤ 1 := by omega
        simp [h1, this]
    rw [hk, hsc, List.append_assoc, off_append_right, off_eq]
    simp only [lineStart, List.take_zero, List.map_nil, List.sum_nil, lineAt, List.singleton_append,
      List.getD_cons_zero, List.length_append, List.length_drop, Nat.zero_add]
    simp only [lineAt] at hecol hc
    omega



/-! ### one-dimensional splice -/
section splice
variable {α : Type}

theorem drop_len_add (A B : List α) (k : Nat) : (A ++ B).drop (A.length + k) = B.drop k := by
  induction A with
  | nil => simp
  | cons a A ih => simp [Nat.succ_add, ih]

theorem take_len_add (A B : List α) (k : Nat) : (A ++ B).take (A.length + k) = A ++ B.take k := by
  induction A with
  | nil => simp
  | cons a A ih => simp [Nat.succ_add, ih]

theorem splice_before (F X : List α) (a b s e : Nat) (ha : a ≤ F.length) (he : e ≤ a) :
    ((F.take a ++ X ++ F.drop b).drop s).take (e - s) = (F.drop s).take (e - s) := by
  rw [← List.drop_take, ← List.drop_take, List.append_assoc, List.take_append_of_le_length (by simp; omega),
    List.take_take, Nat.min_eq_left he]

theorem splice_after (F X : List α) (a b s e s' e' : Nat) (ha : a ≤ b) (hb : b ≤ F.length) (hs : b ≤ s) (hse : s ≤ e)
    (hs' : s' + b = s + a + X.length) (he' : e' + b = e + a + X.length) :
    ((F.take a ++ X ++ F.drop b).drop s').take (e' - s') = (F.drop s).take (e - s) := by
  have hP : (F.take a ++ X).length = a + X.length := by simp; omega
  have h0 : e' - s' = e - s := by omega
  have h1 : s' = (F.take a ++ X).length + (s - b) := by rw [hP]; omega
  rw [h0, h1, drop_len_add, List.drop_drop]
  have : b + (s - b) = s := by omega
  rw [this]

theorem splice_container (F X : List α) (a b s e e' : Nat) (ha : a ≤ b) (hb : b ≤ F.length) (hs : s ≤ a) (hbe : b ≤ e)
    (he' : e' + b = e + a + X.length) :
    ((F.take a ++ X ++ F.drop b).drop s).take (e' - s)
      = (F.drop s).take (a - s) ++ X ++ (F.drop b).take (e - b) := by
  have hP : (F.take a).length = a := by simp; omega
  rw [List.append_assoc, List.drop_append_of_le_length (by omega), List.drop_take]
  have hQ : ((F.drop s).take (a - s) ++ X).length = (a - s) + X.length := by simp; omega
  have h1 : e' - s = ((F.drop s).take (a - s) ++ X).length + (e - b) := by rw [hQ]; omega
  rw [← List.append_assoc, h1, take_len_add]

end splice


theorem le2_trans {a b c d e f : Nat} (h1 : le2 a b c d) (h2 : le2 c d e f) : le2 a b e f := by
  unfold le2 at *; omega

theorem le2_line {a b c d : Nat} (h : le2 a b c d) : a ≤ c := by unfold le2 at h; omega

/-- Text before the splice start is the same text at the same coordinates. -/
theorem getFlat_before (L put : List Line) (ln col endLn endCol : Nat) (h : ValidSpan L ln col endLn endCol)
    (hp : put ≠ []) (l1 c1 l2 c2 : Nat) (h12 : le2 l1 c1 l2 c2) (h2 : le2 l2 c2 ln col) :
    getFlat (putSrc L put ln col endLn endCol) l1 c1 l2 c2 = getFlat L l1 c1 l2 c2 := by
  have hln : ln < L.length := by have := h.hle; have := h.hend; omega
  unfold getFlat
  rw [putSrc_flat L put ln col endLn endCol h hp,
    off_putSrc_before L put ln col endLn endCol h l1 c1 (le2_trans h12 h2),
    off_putSrc_before L put ln col endLn endCol h l2 c2 h2]
  exact splice_before _ _ _ _ _ _ (off_le_length L ln col hln) (off_mono L l2 c2 ln col h2 h.hcol)

/-- Text after the splice end is the same text at the shifted coordinates. -/
theorem getFlat_after (L put : List Line) (ln col endLn endCol : Nat) (h : ValidSpan L ln col endLn endCol)
    (hp : put ≠ []) (l1 c1 l2 c2 : Nat) (h1 : le2 endLn endCol l1 c1) (h12 : le2 l1 c1 l2 c2)
    (hl2 : l2 < L.length) (hc1 : c1 ≤ (lineAt L l1).length) (hc2 : c2 ≤ (lineAt L l2).length) :
    getFlat (putSrc L put ln col endLn endCol) (shiftLn put ln endLn l1) (shiftCol put col endLn endCol l1 c1)
        (shiftLn put ln endLn l2) (shiftCol put col endLn endCol l2 c2)
      = getFlat L l1 c1 l2 c2 := by
  have hl1 : l1 < L.length := by have := le2_line h12; omega
  unfold getFlat
  rw [putSrc_flat L put ln col endLn endCol h hp]
  exact splice_after _ _ _ _ _ _ _ _ (off_mono L ln col endLn endCol h.hord h.hecol)
    (off_le_length L endLn endCol h.hend) (off_mono L _ _ _ _ h1 hc1) (off_mono L _ _ _ _ h12 hc2)
    (off_putSrc_after L put ln col endLn endCol h hp l1 c1 h1 hl1 hc1)
    (off_putSrc_after L put ln col endLn endCol h hp l2 c2 (le2_trans h1 h12) hl2 hc2)

/-- Text of a span that contains the splice = its part before ++ the put text ++ its part after. -/
theorem getFlat_container (L put : List Line) (ln col endLn endCol : Nat) (h : ValidSpan L ln col endLn endCol)
    (hp : put ≠ []) (l1 c1 l2 c2 : Nat) (h1 : le2 l1 c1 ln col) (h2 : le2 endLn endCol l2 c2)
    (hl2 : l2 < L.length) (hc2 : c2 ≤ (lineAt L l2).length) :
    getFlat (putSrc L put ln col endLn endCol) l1 c1 (shiftLn put ln endLn l2) (shiftCol put col endLn endCol l2 c2)
      = getFlat L l1 c1 ln col ++ flat put ++ getFlat L endLn endCol l2 c2 := by
  unfold getFlat
  rw [putSrc_flat L put ln col endLn endCol h hp, off_putSrc_before L put ln col endLn endCol h l1 c1 h1]
  exact splice_container _ _ _ _ _ _ _ (off_mono L ln col endLn endCol h.hord h.hecol)
    (off_le_length L endLn endCol h.hend) (off_mono L _ _ _ _ h1 h.hcol) (off_mono L _ _ _ _ h2 hc2)
    (off_putSrc_after L put ln col endLn endCol h hp l2 c2 h2 hl2 hc2)



/-- deleting (`src` falsy) is putting one empty line -/
theorem putSrc_nil (L : List Line) (ln col endLn endCol : Nat) (h : ValidSpan L ln col endLn endCol) :
    putSrc L [] ln col endLn endCol = putSrc L [[]] ln col endLn endCol := by
  rw [putSrc_normal L [] _ _ _ _ h, putSrc_normal L [[]] _ _ _ _ h]; simp [spliceMiddle, wrap]

/-- `'\n'.join(_get_src(...))` is the flat text between the two points. -/
theorem getSrc_flat (L : List Line) (l1 c1 l2 c2 : Nat) (h12 : le2 l1 c1 l2 c2) (h2 : l2 < L.length) :
    flat (getSrc L l1 c1 l2 c2) = getFlat L l1 c1 l2 c2 := by
  unfold getFlat
  rw [← List.drop_take, take_off L l2 c2 h2]
  have hlen : (L.take l2).length = l2 := by simp; omega
  have hle := le2_line h12
  generalize hL2 : L.take l2 ++ [(lineAt L l2).take c2] = L2
  have hL2len : L2.length = l2 + 1 := by rw [← hL2]; simp [hlen]
  have ht : L2.take l1 = L.take l1 := by
    rw [← hL2, List.take_append_of_le_length (by omega), List.take_take, Nat.min_eq_left hle]
  have hx : (lineAt L2 l1).take c1 = (lineAt L l1).take c1 := by
    rw [← hL2]
    by_cases he : l1 = l2
    · subst he
      have := lineAt_append_right (L.take l1) [(lineAt L l1).take c2] 0
      rw [hlen] at this; simp only [Nat.add_zero] at this
      rw [this]
      have hc : c1 ≤ c2 := by unfold le2 at h12; omega
      simp [lineAt, List.take_take, Nat.min_eq_left hc]
    · rw [lineAt_append_left _ _ _ (by omega)]
      simp [lineAt, List.getD_eq_getElem?_getD, List.getElem?_take_of_lt (by omega : l1 < l2)]
  have ho : off L l1 c1 = off L2 l1 c1 := by unfold off; rw [ht, hx]
  rw [ho, drop_off L2 l1 c1 (by omega)]
  by_cases he : l2 = l1
  · subst he
    have hd : L2.drop (l2 + 1) = [] := List.drop_of_length_le (by omega)
    have hl : lineAt L2 l2 = (lineAt L l2).take c2 := by
      rw [← hL2]
      have := lineAt_append_right (L.take l2) [(lineAt L l2).take c2] 0
      rw [hlen] at this; simp only [Nat.add_zero] at this
      rw [this]; simp [lineAt]
    simp [getSrc, hd, hl, flat]
  · have hb : (l2 == l1) = false := by simp [he]
    have hl : lineAt L2 l1 = lineAt L l1 := by
      rw [← hL2, lineAt_append_left _ _ _ (by omega)]
      simp [lineAt, List.getD_eq_getElem?_getD, List.getElem?_take_of_lt (by omega : l1 < l2)]
    have hd : L2.drop (l1 + 1) = (L.take l2).drop (l1 + 1) ++ [(lineAt L l2).take c2] := by
      rw [← hL2, List.drop_append_of_le_length (by omega)]
    simp [getSrc, hb, hl, hd, flat, flatTail_append]


/-! ### characters and bytes -/

theorem utf8Len_append (a b : Line) : utf8Len (a ++ b) = utf8Len a + utf8Len b := by
  simp [utf8Len, List.map_append, List.sum_append]

theorem c2b_length (a : Line) : c2b a a.length = utf8Len a := by simp [c2b]

theorem c2b_zero (a : Line) : c2b a 0 = 0 := by simp [c2b, utf8Len]

/-- additivity: a column inside the second part of a line -/
theorem c2b_append (a b : Line) (k : Nat) : c2b (a ++ b) (a.length + k) = c2b a a.length + c2b b k := by
  simp [c2b, take_len_add, utf8Len_append]

theorem c2b_append_left (a b : Line) (k : Nat) (h : k ≤ a.length) : c2b (a ++ b) k = c2b a k := by
  simp [c2b, List.take_append_of_le_length h]

theorem c2b_mono (l : Line) (c d : Nat) (h : c ≤ d) : c2b l c ≤ c2b l d := by
  have : l.take d = l.take c ++ (l.take d).drop c := by
    conv => lhs; rw [← List.take_append_drop c (l.take d), List.take_take, Nat.min_eq_left h]
  unfold c2b; rw [this, utf8Len_append]; omega

theorem utf8Len_ge (l : Line) : l.length ≤ utf8Len l := by
  induction l with
  | nil => simp [utf8Len]
  | cons ch l ih =>
    have := Char.utf8Size_pos ch
    simp only [utf8Len, List.map_cons, List.sum_cons, List.length_cons] at *
    omega

/-- a byte column is never smaller than the character column -/
theorem c2b_ge (l : Line) (c : Nat) (h : c ≤ l.length) : c ≤ c2b l c := by
  have := utf8Len_ge (l.take c)
  simp only [List.length_take] at this
  unfold c2b; omega

theorem b2c_c2b (l : Line) (c : Nat) (h : c ≤ l.length) : b2c l (c2b l c) = c := by
  induction l generalizing c with
  | nil => simp at h; subst h; simp [b2c]
  | cons ch l ih =>
    cases c with
    | zero =>
      have := Char.utf8Size_pos ch
      simp [c2b, utf8Len, b2c]; omega
    | succ c =>
      have h' : c ≤ l.length := by simpa using h
      have e : c2b (ch :: l) (c + 1) = ch.utf8Size + c2b l c := by simp [c2b, utf8Len]
      rw [e, b2c, if_pos (by omega)]
      have : ch.utf8Size + c2b l c - ch.utf8Size = c2b l c := by omega
      rw [this, ih c h']


/-- the model of `_params_offset` on lines is `Pfst.Offset.paramsOffset` applied to the three byte lengths -/
theorem paramsOffsetBytes_eq (L put : List Line) (ln col endLn endCol : Nat) :
    let r := Pfst.Offset.paramsOffset put.length ln endLn (c2b (lineAt L endLn) endCol) (utf8Len (lastLine put))
      (c2b (lineAt L ln) col)
    paramsOffsetBytes L put ln col endLn endCol = (endLn, r.2.1, r.2.2.1, r.2.2.2) := by
  simp [paramsOffsetBytes, Pfst.Offset.paramsOffset]

/-- The line on which the splice ends, after the splice. -/
theorem lineAt_putSrc_last (L put : List Line) (ln col endLn endCol : Nat) (h : ValidSpan L ln col endLn endCol)
    (hp : put ≠ []) :
    lineAt (putSrc L put ln col endLn endCol) (shiftLn put ln endLn endLn)
      = lastLine (wrap ((lineAt L ln).take col) put []) ++ (lineAt L endLn).drop endCol := by
  have hle := h.hle; have hend := h.hend
  have hpl : 0 < put.length := List.length_pos_iff.mpr hp
  rw [putSrc_normal2 L put ln col endLn endCol h, List.append_assoc]
  have hB : (L.take ln ++ (wrap ((lineAt L ln).take col) put []).dropLast).length = shiftLn put ln endLn endLn := by
    have := wrap_dropLast_length ((lineAt L ln).take col) put
    simp only [List.length_append, List.length_take, this, shiftLn]; omega
  have := lineAt_append_right (L.take ln ++ (wrap ((lineAt L ln).take col) put []).dropLast)
    ([lastLine (wrap ((lineAt L ln).take col) put []) ++ (lineAt L endLn).drop endCol] ++ L.drop (endLn + 1)) 0
  rw [hB] at this; simp only [Nat.add_zero] at this
  rw [this]; simp [lineAt]

/-- **Byte/char bridge for `_params_offset`**: for a character column `c` at or after the end of the replaced span on
its last line, the byte column of the same character in the new line is the old byte column plus the byte `dcol_offset`
that `_params_offset` computes; the new character column is `shiftCol`. -/
theorem dcol_bytes (L put : List Line) (ln col endLn endCol : Nat) (h : ValidSpan L ln col endLn endCol)
    (hp : put ≠ []) (c : Nat) (hc1 : endCol ≤ c) :
    (c2b (lineAt (putSrc L put ln col endLn endCol) (shiftLn put ln endLn endLn))
        (shiftCol put col endLn endCol endLn c) : Int)
      = (c2b (lineAt L endLn) c : Int) + (paramsOffsetBytes L put ln col endLn endCol).2.2.2 := by
  have hcol := h.hcol; have hecol := h.hecol
  have hpl : 0 < put.length := List.length_pos_iff.mpr hp
  rw [lineAt_putSrc_last L put ln col endLn endCol h hp]
  have hwl := wrap_last_length ((lineAt L ln).take col) put
  simp only [List.length_take] at hwl
  rw [Nat.min_eq_left hcol] at hwl
  -- the last line of the wrapped put: bytes
  have hwb : utf8Len (lastLine (wrap ((lineAt L ln).take col) put []))
      = utf8Len (lastLine put) + (if put.length = 1 then c2b (lineAt L ln) col else 0) := by
    match put, hp with
    | [p], _ => simp [wrap, lastLine, utf8Len_append, c2b]; omega
    | p0 :: p1 :: ps, _ =>
      have e : (((lineAt L ln).take col ++ p0) :: ((p1 :: ps).dropLast ++ [lastLine (p1 :: ps) ++ []]))
          = ((((lineAt L ln).take col ++ p0) :: (p1 :: ps).dropLast) ++ [lastLine (p1 :: ps)]) := by simp
      simp only [wrap]
      rw [e, lastLine_snoc]
      have : lastLine (p0 :: p1 :: ps) = lastLine (p1 :: ps) := by simp [lastLine]
      simp [this]
  have hsc : shiftCol put col endLn endCol endLn c
      = (lastLine (wrap ((lineAt L ln).take col) put [])).length + (c - endCol) := by
    simp only [shiftCol, if_true, hwl]
    by_cases h1 : put.length = 1
    · simp [h1]; omega
    · have : ¬ put.length ≤ 1 := by omega
      simp [h1, this]; omega
  rw [hsc, c2b_append, c2b_length, hwb]
  have hy : c2b (lineAt L endLn) c = c2b (lineAt L endLn) endCol + c2b ((lineAt L endLn).drop endCol) (c - endCol) := by
    conv => lhs; rw [← List.take_append_drop endCol (lineAt L endLn)]
    have := c2b_append ((lineAt L endLn).take endCol) ((lineAt L endLn).drop endCol) (c - endCol)
    simp only [List.length_take, Nat.min_eq_left hecol] at this
    have e : endCol + (c - endCol) = c := by omega
    rw [e] at this
    rw [this]; simp [c2b, List.take_take]
  rw [hy]
  simp only [paramsOffsetBytes]
  by_cases h1 : put.length = 1
  · simp [h1]; omega
  · have : ((put.length : Int) - 1 == 0) = false := by simp; omega
    simp [h1, this]; omega


/-! ### placement of a parsed fragment -/

theorem off_cons (x : Line) (Y : List Line) (l c : Nat) : off (x :: Y) (l + 1) c = x.length + 1 + off Y l c := by
  have := off_append_right [x] Y l c
  simp only [List.length_singleton, List.singleton_append] at this
  rw [Nat.add_comm 1 l] at this
  rw [this]; simp

theorem off_zero (x : Line) (Y : List Line) (c : Nat) : off (x :: Y) 0 c = min c x.length := by
  simp [off_eq, lineStart, lineAt]

/-- offsets inside the wrapped put lines: the first line is longer by the kept prefix -/
theorem wrap_off (pre post : Line) (put : List Line) (l c : Nat) (hl : l < put.length) (hc : c ≤ (lineAt put l).length) :
    off (wrap pre put post) l (placeCol pre.length l c) = pre.length + off put l c := by
  match put, hl with
  | [p], hl =>
    have : l = 0 := by simpa using hl
    subst this
    simp only [lineAt, List.getD_cons_zero] at hc
    simp only [wrap, placeCol, if_true, off_zero, List.length_append]
    omega
  | p0 :: p1 :: ps, hl =>
    simp only [wrap]
    cases l with
    | zero =>
      simp only [lineAt, List.getD_cons_zero] at hc
      simp only [placeCol, if_true, off_zero, List.length_append]
      omega
    | succ l' =>
      have hP := dropLast_lastLine (p1 :: ps) (by simp)
      have hl' : l' < (p1 :: ps).length := by simpa using hl
      have hc' : c ≤ (lineAt (p1 :: ps) l').length := by simpa [lineAt] using hc
      have hpc : placeCol pre.length (l' + 1) c = c := by simp [placeCol]
      rw [hpc, off_cons, off_cons]
      generalize lastLine (p1 :: ps) = lst at *
      generalize (p1 :: ps).dropLast = D at *
      rw [← hP] at hl' hc' ⊢
      simp only [List.length_append, List.length_singleton] at hl'
      by_cases hd : l' < D.length
      · rw [off_append_left D _ l' c hd, off_append_left D _ l' c hd]
        simp only [List.length_append]; omega
      · have he : l' = D.length + 0 := by omega
        rw [he, off_append_right, off_append_right, off_zero, off_zero]
        rw [he, lineAt_append_right] at hc'
        simp only [lineAt, List.getD_cons_zero] at hc'
        simp only [List.length_append]; omega

theorem lineStart_eq_flatTail (L : List Line) (l : Nat) : lineStart L l = (flatTail (L.take l)).length := by
  simp [lineStart, length_flatTail]

/-- **Placement, offsets**: a point `(l, c)` of the put lines lies, in the new document, at `(ln + l, placeCol col l c)`, and its
linear offset is the offset of the splice start plus its offset inside the put text. -/
theorem off_putSrc_placed (L put : List Line) (ln col endLn endCol : Nat) (h : ValidSpan L ln col endLn endCol)
    (l c : Nat) (hl : l < put.length) (hc : c ≤ (lineAt put l).length) :
    off (putSrc L put ln col endLn endCol) (placeLn ln l) (placeCol col l c) = off L ln col + off put l c := by
  have hle := h.hle; have hend := h.hend; have hcol := h.hcol
  have hA : (L.take ln).length = ln := by simp; omega
  rw [putSrc_normal L put ln col endLn endCol h, spliceMiddle, List.append_assoc]
  have h1 := off_append_right (L.take ln)
    (wrap ((lineAt L ln).take col) put ((lineAt L endLn).drop endCol) ++ L.drop (endLn + 1)) l (placeCol col l c)
  rw [hA] at h1
  have hW : l < (wrap ((lineAt L ln).take col) put ((lineAt L endLn).drop endCol)).length := by
    rw [wrap_length]; omega
  have hpre : ((lineAt L ln).take col).length = col := by simp; omega
  have h2 := wrap_off ((lineAt L ln).take col) ((lineAt L endLn).drop endCol) put l c hl hc
  rw [hpre] at h2
  unfold placeLn
  rw [h1, off_append_left _ _ _ _ hW, h2, off_eq L ln col, Nat.min_eq_left hcol, lineStart_eq_flatTail]
  omega

theorem splice_inside {α : Type} (P X S : List α) (x y : Nat) (hy : y ≤ X.length) :
    ((P ++ X ++ S).drop (P.length + x)).take (y - x) = (X.drop x).take (y - x) := by
  rw [List.append_assoc, drop_len_add, ← List.drop_take, ← List.drop_take]
  congr 1
  rw [List.take_append_of_le_length hy]

/-- **Placement, text**: every span of the freshly parsed fragment denotes, at its placed coordinates in the new document,
exactly the text it denoted in the fragment. -/
theorem getFlat_placed (L put : List Line) (ln col endLn endCol : Nat) (h : ValidSpan L ln col endLn endCol)
    (hp : put ≠ []) (l1 c1 l2 c2 : Nat) (hl1 : l1 < put.length) (hl2 : l2 < put.length)
    (hc1 : c1 ≤ (lineAt put l1).length) (hc2 : c2 ≤ (lineAt put l2).length) :
    getFlat (putSrc L put ln col endLn endCol) (placeLn ln l1) (placeCol col l1 c1) (placeLn ln l2) (placeCol col l2 c2)
      = getFlat put l1 c1 l2 c2 := by
  have hln : ln < L.length := by have := h.hle; have := h.hend; omega
  unfold getFlat
  rw [off_putSrc_placed L put ln col endLn endCol h l1 c1 hl1 hc1,
    off_putSrc_placed L put ln col endLn endCol h l2 c2 hl2 hc2, putSrc_flat L put ln col endLn endCol h hp]
  have hP : ((flat L).take (off L ln col)).length = off L ln col := by
    simp; exact Nat.min_eq_left (off_le_length L ln col hln)
  have e : off L ln col + off put l2 c2 - (off L ln col + off put l1 c1) = off put l2 c2 - off put l1 c1 := by omega
  rw [e]
  have := splice_inside ((flat L).take (off L ln col)) (flat put) ((flat L).drop (off L endLn endCol)) (off put l1 c1)
    (off put l2 c2) (off_le_length put l2 c2 hl2)
  rw [hP] at this
  exact this

/-- the first line of the new document that receives put text -/
theorem lineAt_putSrc_first (L put : List Line) (ln col endLn endCol : Nat) (h : ValidSpan L ln col endLn endCol)
    (hp : put ≠ []) :
    ∃ rest, lineAt (putSrc L put ln col endLn endCol) ln = (lineAt L ln).take col ++ lineAt put 0 ++ rest := by
  have hle := h.hle; have hend := h.hend
  have hA : (L.take ln).length = ln := by simp; omega
  rw [putSrc_normal L put ln col endLn endCol h, spliceMiddle, List.append_assoc]
  have := lineAt_append_right (L.take ln)
    (wrap ((lineAt L ln).take col) put ((lineAt L endLn).drop endCol) ++ L.drop (endLn + 1)) 0
  rw [hA] at this; simp only [Nat.add_zero] at this
  rw [this]
  match put, hp with
  | [p], _ => exact ⟨(lineAt L endLn).drop endCol, by simp [wrap, lineAt]⟩
  | p0 :: p1 :: ps, _ => exact ⟨[], by simp [wrap, lineAt]⟩

/-- **Placement, bytes**: on the first put line the byte column of a fragment point is its byte column in the fragment plus
the BYTE length of the kept prefix `lines[ln].c2b(col)` — not the character column `col`. -/
theorem place_bytes (L put : List Line) (ln col endLn endCol : Nat) (h : ValidSpan L ln col endLn endCol)
    (hp : put ≠ []) (c : Nat) (hc : c ≤ (lineAt put 0).length) :
    c2b (lineAt (putSrc L put ln col endLn endCol) (placeLn ln 0)) (placeCol col 0 c)
      = placeColBytes L ln col 0 (c2b (lineAt put 0) c) := by
  obtain ⟨rest, hr⟩ := lineAt_putSrc_first L put ln col endLn endCol h hp
  have hcol := h.hcol
  have hpre : ((lineAt L ln).take col).length = col := by simp; omega
  simp only [placeLn, placeCol, placeColBytes, if_true, Nat.add_zero]
  rw [hr, List.append_assoc]
  have := c2b_append ((lineAt L ln).take col) (lineAt put 0 ++ rest) c
  rw [hpre] at this
  rw [this, c2b_append_left _ _ _ hc]
  simp [c2b, List.take_take]


end Pfst.Text
