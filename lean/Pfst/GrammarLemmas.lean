import Pfst.Grammar
/-! Printing with any policy that covers the grammar's need derives the intended tree. -/
namespace Pfst.Grammar

mutual
theorem pr_derives_aux (P : Slot → Cls → Bool)
    (h1 : ∀ s c, specNeed s c = true → P s c = true)
    (h2 : ∀ s c, P s c = true → accepts s c = true → parenable c = true) :
    ∀ (s : Slot) (e : E), wf s e = true → Derives s (pr P s e) e
  | s, .leaf t c, hw => by
    simp only [wf, Bool.or_eq_true] at hw
    simp only [pr, wrap]
    split
    · next hp =>
      have hpar : parenable c = true := by
        cases hacc : accepts s c with
        | true => exact h2 s c hp hacc
        | false => simpa [hacc] using hw
      exact Derives.paren s [t] (.leaf t c) hpar (Derives.leaf top t c hpar)
    · next hp =>
      have : accepts s c = true := by
        have := h1 s c
        simp only [specNeed] at this
        cases hacc : accepts s c with
        | true => rfl
        | false => simp [hacc] at this; exact absurd this hp
      exact Derives.leaf s t c this
  | s, .node k kids, hw => by
    simp only [wf, Bool.and_eq_true] at hw
    obtain ⟨⟨har, hor⟩, hk⟩ := hw
    have hL := prL_derives_aux P h1 h2 k 0 kids hk
    simp only [pr, wrap]
    split
    · next hp =>
      have hpar : parenable k.cls = true := by
        cases hacc : accepts s k.cls with
        | true => exact h2 s k.cls hp hacc
        | false => simpa [hacc] using hor
      exact Derives.paren s _ (.node k kids) hpar (Derives.node top k kids _ har hpar hL)
    · next hp =>
      have : accepts s k.cls = true := by
        have := h1 s k.cls
        simp only [specNeed] at this
        cases hacc : accepts s k.cls with
        | true => rfl
        | false => simp [hacc] at this; exact absurd this hp
      exact Derives.node s k kids _ har this hL
theorem prL_derives_aux (P : Slot → Cls → Bool)
    (h1 : ∀ s c, specNeed s c = true → P s c = true)
    (h2 : ∀ s c, P s c = true → accepts s c = true → parenable c = true) :
    ∀ (k : Kind) (i : Nat) (es : List E), wfL k i es = true → DerivesL k i es (prL P k i es)
  | k, i, [], _ => DerivesL.nil k i
  | k, i, e :: es, hw => by
    simp only [wfL, Bool.and_eq_true] at hw
    exact DerivesL.cons k i e es _ _ (pr_derives_aux P h1 h2 (k.slot i) e hw.1)
      (prL_derives_aux P h1 h2 k (i + 1) es hw.2)
end

end Pfst.Grammar
