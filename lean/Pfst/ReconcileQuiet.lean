import Pfst.ReconcileCorrect
/-!
Silence of the reconcile trace (`Pfst/Reconcile.lean`) on unchanged subtrees: a subtree all of whose nodes are in place and
whose scalars (fields and `None` / identifier list elements) are the marked ones (value and type) emits no operation (`stillN`), and such a subtree reached
through in-place ancestors lies outside the region rewritten by every operation of the trace (`keptN`).
-/
namespace Pfst.Reconcile

theorem headD_eraseL_drop (l : List T) (i : Nat) : (eraseL (l.drop i)).headD .nil = erase ((l[i]?).getD .nil) := by
  cases h : l.drop i with
  | nil =>
    have : l.length ≤ i := by have := congrArg List.length h; simp at this; omega
    have h2 : l[i]? = none := by simp; omega
    simp [eraseL, h2, erase]
  | cons a tl => simp [eraseL, getElem?_of_drop_cons h]

theorem tail_eraseL_drop (l : List T) (i : Nat) : (eraseL (l.drop i)).tail = eraseL (l.drop (i + 1)) := by
  cases h : l.drop i with
  | nil =>
    have : l.length ≤ i := by have := congrArg List.length h; simp at this; omega
    rw [List.drop_eq_nil_of_le (by omega)]; rfl
  | cons a tl => simp [eraseL, drop_succ_of_cons h]

theorem eraseL_getElem? (l : List T) (i : Nat) : ((eraseL l)[i]?).getD .nil = erase ((l[i]?).getD .nil) := by
  rw [eraseL_eq_map]
  cases h : l[i]? <;> simp [h, erase]

theorem kids_erase (t : T) : (erase t).kids = eraseL t.kids := by
  cases t <;> simp [erase, T.kids, eraseL]

/-- an element in place is not the head of a slice run -/
theorem sliceHead_inPlace (mark : T) (q : Path) (fi : Nat) (ns : Option Nat) (i : Nat) (l : Option Loc)
    (h : inPlace (.fst 0 q) [fi, i] l = true) : sliceHead mark (.fst 0 q) fi ns i (.tree l) = none := by
  cases l with
  | none => simp [sliceHead]
  | some l =>
    obtain ⟨pp, cfi, idx⟩ := l
    simp only [inPlace, Loc.rel, Bool.and_eq_true, beq_iff_eq] at h
    obtain ⟨rfl, h2⟩ := h
    cases idx with
    | none => simp [sliceHead]
    | some ci =>
      simp only [Option.toList, List.cons.injEq, and_true] at h2
      obtain ⟨rfl, rfl⟩ := h2
      simp [sliceHead]

theorem stillN_shape (mark : T) (np : NP) (rel : Path) (n : T) (h : stillN mark np rel n = true) :
    ∃ l k cs, n = .node (.tree l) k cs ∧ inPlace np rel l = true := by
  cases n with
  | node o k cs =>
    cases o with
    | tree l => simp only [stillN, Bool.and_eq_true] at h; exact ⟨l, k, cs, rfl, h.1.1.1⟩
    | _ => simp [stillN] at h
  | _ => simp [stillN] at h

/-- a `None` / primitive list element that is what the slot holds is left alone (repaired `recurse_node`) -/
theorem recNode_scalar_quiet (mark : T) (np : NP) (rel : Path) (outa x : T) (hs : x.isScalar = true)
    (h : pyNe x outa = false) : recNode mark np rel outa x = ⟨[], false⟩ := by
  cases x with
  | nil => rw [recNode]; simp [h]
  | prim v => rw [recNode]; simp [h]
  | _ => simp [T.isScalar] at hs

theorem sliceHead_scalar (mark : T) (np : NP) (fi : Nat) (ns : Option Nat) (i : Nat) (x : T) (hs : x.isScalar = true) :
    sliceHead mark np fi ns i x.origin = none := by
  cases x <;> simp_all [T.isScalar, T.origin, sliceHead]

mutual
theorem recNode_quiet (mark : T) : ∀ (n : T) (np : NP) (rel : Path) (outa : T),
    stillN mark np rel n = true → slot mark np rel outa n → recNode mark np rel outa n = ⟨[], false⟩
  | .node (.tree l) k cs, np, rel, outa, h, hs => by
    simp only [stillN, Bool.and_eq_true, beq_iff_eq] at h
    obtain ⟨⟨⟨hin, hnode⟩, hlen⟩, hfs⟩ := h
    obtain ⟨q', hb, hq⟩ := inPlace_base _ _ _ hin
    simp only [slot, hb] at hs
    rw [← hq] at hs
    have ih := recFields_quiet mark cs (qOf l) 0 hfs
    rw [recNode_tree]
    cases hm : markAt mark (qOf l) with
    | node mo mk mcs =>
      rw [hm] at hs ih
      subst hs
      simp only [T.kids, List.drop_zero] at ih
      simp [hin, erase, T.isNode, T.kids, ih]
    | nil => rw [hm] at hnode; simp [T.isNode] at hnode
    | prim v => rw [hm] at hnode; simp [T.isNode] at hnode
    | many s m x => rw [hm] at hnode; simp [T.isNode] at hnode
  | .node .new _ _, _, _, _, h, _ => by simp [stillN] at h
  | .node (.foreign _ _ _ _) _ _, _, _, _, h, _ => by simp [stillN] at h
  | .nil, _, _, _, h, _ => by simp [stillN] at h
  | .prim _, _, _, _, h, _ => by simp [stillN] at h
  | .many _ _ _, _, _, _, h, _ => by simp [stillN] at h

theorem recFields_quiet (mark : T) : ∀ (fs : List T) (q : Path) (fi : Nat), stillFs mark q fi fs = true →
    recFields mark (.fst 0 q) fi (eraseL ((markAt mark q).kids.drop fi)) fs = ⟨[], false⟩
  | [], q, fi, _ => by rw [recFields]
  | .many s md items :: r, q, fi, h => by
    simp only [stillFs, Bool.and_eq_true, beq_iff_eq] at h
    obtain ⟨⟨hlen, hes⟩, hr⟩ := h
    have ih := recFields_quiet mark r q (fi + 1) hr
    rw [recFields_cons, headD_eraseL_drop, tail_eraseL_drop, ih, ← markAt_snoc]
    have hres : fieldRes mark (.fst 0 q) fi (erase (markAt mark (q ++ [fi]))) (.many s md items) = ⟨[], false⟩ := by
      by_cases h2 : md = 2
      · subst h2
        have hes' : stillPs mark q fi 0 items = true := by simpa using hes
        have := recSliceD_quiet mark items q fi s 0 {} hes' rfl rfl (by simp [hlen])
        simp [fieldRes, T.isNode, kids_erase, this]
      · have hes' : stillEs mark q fi 0 items = true := by simpa [h2] using hes
        replace hes := hes'
        by_cases h1 : md = 1
        · subst h1
          have := recSlice_quiet mark items q fi s 0 {} hes rfl rfl (by simp [hlen])
          simp [fieldRes, T.isNode, kids_erase, this]
        · have := recPlain_quiet mark items q fi 0 hes
          simp only [List.drop_zero] at this
          simp [fieldRes, T.isNode, kids_erase, h1, h2, eraseL_length, hlen, this]
    rw [hres]; simp [seqR, preAll]
  | .node o k cs :: r, q, fi, h => by
    simp only [stillFs, Bool.and_eq_true] at h
    have ih := recFields_quiet mark r q (fi + 1) h.2
    rw [recFields_cons, headD_eraseL_drop, tail_eraseL_drop, ih, ← markAt_snoc]
    have hres : fieldRes mark (.fst 0 q) fi (erase (markAt mark (q ++ [fi]))) (.node o k cs) = ⟨[], false⟩ := by
      have := recNode_quiet mark (.node o k cs) (.fst 0 q) [fi] _ h.1 (slot_mark mark _ q [fi] _ rfl)
      simp [fieldRes, T.isNode, this]
    rw [hres]; simp [seqR, preAll]
  | .nil :: r, q, fi, h => by
    simp only [stillFs, Bool.and_eq_true, Bool.not_eq_true'] at h
    have ih := recFields_quiet mark r q (fi + 1) h.2
    rw [recFields_cons, headD_eraseL_drop, tail_eraseL_drop, ih, ← markAt_snoc]
    simp [fieldRes, T.isNode, h.1, seqR, preAll]
  | .prim v :: r, q, fi, h => by
    simp only [stillFs, Bool.and_eq_true, Bool.not_eq_true'] at h
    have ih := recFields_quiet mark r q (fi + 1) h.2
    rw [recFields_cons, headD_eraseL_drop, tail_eraseL_drop, ih, ← markAt_snoc]
    simp [fieldRes, T.isNode, h.1, seqR, preAll]

theorem recPlain_quiet (mark : T) : ∀ (items : List T) (q : Path) (fi j : Nat), stillEs mark q fi j items = true →
    recPlain mark (.fst 0 q) fi j (eraseL ((markAt mark (q ++ [fi])).kids.drop j)) items = ⟨[], false⟩
  | [], _, _, _, _ => by rw [recPlain]
  | x :: r, q, fi, j, h => by
    simp only [stillEs, Bool.and_eq_true] at h
    have ih := recPlain_quiet mark r q fi (j + 1) h.2
    rw [recPlain_cons, headD_eraseL_drop, tail_eraseL_drop, ih, ← markAt_elem]
    by_cases hsc : x.isScalar = true
    · have h1 := h.1
      simp only [hsc, if_true, Bool.not_eq_true'] at h1
      rw [recNode_scalar_quiet mark _ _ _ x hsc h1]
      simp [seqR, preAll]
    · have h1 := h.1
      simp only [hsc, if_false, Bool.false_eq_true] at h1
      rw [recNode_quiet mark x (.fst 0 q) [fi, j] _ h1 (slot_mark mark _ q [fi, j] _ rfl)]
      simp [seqR, preAll]

theorem recSlice_quiet (mark : T) : ∀ (body : List T) (q : Path) (fi : Nat) (ns : Option Nat) (i : Nat) (run : Run),
    stillEs mark q fi i body = true → run.proc = 0 → run.skip = 0 →
    i + body.length = (markAt mark (q ++ [fi])).kids.length →
    recSliceGo mark (.fst 0 q) fi ns false i run (eraseL (markAt mark (q ++ [fi])).kids) body = ⟨[], false⟩
  | [], q, fi, ns, i, run, _, _, _, hl => by
    rw [recSliceGo_nil]; simp [eraseL_length]; simp at hl; omega
  | x :: r, q, fi, ns, i, run, h, hp, hk, hl => by
    simp only [stillEs, Bool.and_eq_true] at h
    have hsh : sliceHead mark (.fst 0 q) fi ns i x.origin = none := by
      by_cases hsc : x.isScalar = true
      · exact sliceHead_scalar mark _ fi ns i x hsc
      · have h1 := h.1
        simp only [hsc, if_false, Bool.false_eq_true] at h1
        obtain ⟨l, k, cs, rfl, hin⟩ := stillN_shape mark _ _ x h1
        exact sliceHead_inPlace mark q fi ns i l hin
    have hx : recNode mark (.fst 0 q) [fi, i] (erase (markAt mark (q ++ [fi, i]))) x = ⟨[], false⟩ := by
      by_cases hsc : x.isScalar = true
      · have h1 := h.1
        simp only [hsc, if_true, Bool.not_eq_true'] at h1
        exact recNode_scalar_quiet mark _ _ _ x hsc h1
      · have h1 := h.1
        simp only [hsc, if_false, Bool.false_eq_true] at h1
        exact recNode_quiet mark _ (.fst 0 q) [fi, i] _ h1 (slot_mark mark _ q [fi, i] _ rfl)
    have ih := recSlice_quiet mark r q fi ns (i + 1) { proc := 0, skip := 0, lenRead := (markAt mark (q ++ [fi])).kids.length }
      h.2 rfl rfl (by simp at hl ⊢; omega)
    have hlt : i < (markAt mark (q ++ [fi])).kids.length := by simp at hl; omega
    rw [recSliceGo_go _ _ _ _ _ _ _ _ _ _ (by omega)]
    have hd : headState mark (.fst 0 q) fi ns i run (eraseL (markAt mark (q ++ [fi])).kids) x r
        = ([], eraseL (markAt mark (q ++ [fi])).kids, { proc := 1, lenRead := (markAt mark (q ++ [fi])).kids.length }) := by
      simp only [headState, hp, Nat.lt_irrefl, if_false]
      rw [detect_none _ _ _ _ _ _ _ _ hsh, eraseL_length]
    rw [hd]
    have hnot : ¬ (i ≥ (markAt mark (q ++ [fi])).kids.length) := by omega
    simp only [Nat.lt_irrefl, if_false, hnot, decide_false, Bool.false_eq_true, elemRes, eraseL_getElem?, ← markAt_elem,
      hx, Nat.sub_self]
    rw [ih]; simp [preAll]
theorem recSliceD_quiet (mark : T) : ∀ (body : List T) (q : Path) (fi : Nat) (ns : Option Nat) (i : Nat) (run : Run),
    stillPs mark q fi i body = true → run.proc = 0 → run.skip = 0 →
    i + body.length = (markAt mark (q ++ [fi])).kids.length →
    recSliceGo mark (.fst 0 q) fi ns true i run (eraseL (markAt mark (q ++ [fi])).kids) body = ⟨[], false⟩
  | [], q, fi, ns, i, run, _, _, _, hl => by
    rw [recSliceGo_nil]; simp [eraseL_length]; simp at hl; omega
  | .node (.tree l) k kv :: r, q, fi, ns, i, run, h, hp, hk, hl => by
    simp only [stillPs, Bool.and_eq_true] at h
    obtain ⟨⟨hin, hkv⟩, hr⟩ := h
    have ih := recSliceD_quiet mark r q fi ns (i + 1) { proc := 0, skip := 0, lenRead := (markAt mark (q ++ [fi])).kids.length }
      hr rfl rfl (by simp at hl ⊢; omega)
    have hlt : i < (markAt mark (q ++ [fi])).kids.length := by simp at hl; omega
    rw [recSliceGo_go _ _ _ _ _ _ _ _ _ _ (by omega)]
    have hd : headState mark (.fst 0 q) fi ns i run (eraseL (markAt mark (q ++ [fi])).kids) (.node (.tree l) k kv) r
        = ([], eraseL (markAt mark (q ++ [fi])).kids, { proc := 1, lenRead := (markAt mark (q ++ [fi])).kids.length }) := by
      simp only [headState, hp, Nat.lt_irrefl, if_false]
      rw [detect_none _ _ _ _ _ _ _ _ (sliceHead_inPlace mark q fi ns i l hin), eraseL_length]
    rw [hd]
    have hnot : ¬ (i ≥ (markAt mark (q ++ [fi])).kids.length) := by omega
    -- the pair: key and value are silent
    have hpair : recPair mark (.fst 0 (q ++ [fi, i])) (erase (markAt mark (q ++ [fi, i]))).kids kv = ⟨[], false⟩ := by
      cases kv with
      | nil => simp [stillKV] at hkv
      | cons kk r1 =>
        cases r1 with
        | nil => simp [stillKV] at hkv
        | cons vv r2 =>
          cases r2 with
          | cons _ _ => simp [stillKV] at hkv
          | nil =>
            simp only [stillKV, Bool.and_eq_true] at hkv
            have h0 : (erase (markAt mark (q ++ [fi, i]))).kids.headD .nil = erase (markAt mark ((q ++ [fi, i]) ++ [0])) := by
              have := headD_eraseL_drop (markAt mark (q ++ [fi, i])).kids 0
              rw [List.drop_zero] at this
              rw [kids_erase, this, markAt_snoc]
            have h1 : (erase (markAt mark (q ++ [fi, i]))).kids.tail.headD .nil = erase (markAt mark ((q ++ [fi, i]) ++ [1])) := by
              have := tail_eraseL_drop (markAt mark (q ++ [fi, i])).kids 0
              rw [List.drop_zero] at this
              rw [kids_erase, this, headD_eraseL_drop, markAt_snoc]
            have hv := recNode_quiet mark vv (.fst 0 (q ++ [fi, i])) [1] _ hkv.2 (slot_mark mark _ (q ++ [fi, i]) [1] _ rfl)
            rw [recPair_two]
            simp only [h0, h1, hv]
            by_cases hkn : kk.isNode = true
            · simp only [hkn, if_true] at hkv
              have hkq := recNode_quiet mark kk (.fst 0 (q ++ [fi, i])) [0] _ hkv.1 (slot_mark mark _ (q ++ [fi, i]) [0] _ rfl)
              simp only [hkn, if_true, hkq, preAll, List.map_nil, List.append_nil, Bool.false_eq_true, if_false]
            · simp only [hkn, Bool.false_eq_true, if_false, Bool.and_eq_true, Bool.not_eq_true'] at hkv
              simp only [hkn, Bool.false_eq_true, if_false, erase_isNode, hkv.1.2, preAll, List.map_nil, List.append_nil]
    simp only [Nat.lt_irrefl, if_false, hnot, decide_false, Bool.false_eq_true, elemRes, if_true, eraseL_getElem?, ← markAt_elem,
      NP.ext, hpair, Nat.sub_self]
    rw [ih]; simp [preAll]
  | .node .new _ _ :: _, _, _, _, _, _, h, _, _, _ => by simp [stillPs] at h
  | .node (.foreign _ _ _ _) _ _ :: _, _, _, _, _, _, h, _, _, _ => by simp [stillPs] at h
  | .nil :: _, _, _, _, _, _, h, _, _, _ => by simp [stillPs] at h
  | .prim _ :: _, _, _, _, _, _, h, _, _, _ => by simp [stillPs] at h
  | .many _ _ _ :: _, _, _, _, _, _, h, _, _, _ => by simp [stillPs] at h
end

end Pfst.Reconcile
