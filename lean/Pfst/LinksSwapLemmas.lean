import Pfst.LinksLemmas
/-
Helper lemmas for `_set_ast` at a general (non-root) position: the link invariant of the whole tree survives the
replacement of one subtree.  The store part of `_set_ast` (`unmake` the old subtree, `relink`, `makeKids`) is abstracted
by `SwapCtx`; `swap_linked` carries the invariant down the spine from the root to the replaced node.
-/
namespace Pfst.Links

theorem id_mem_ids (t : Ast) : t.id ∈ ids t := by
  cases t; simp [ids, Ast.id]

mutual
theorem findId_some : ∀ (T : Ast) (i : Nat) (o : Ast), findId i T = some o → o.id = i ∧ ∀ y ∈ ids o, y ∈ ids T
  | .mk j k f ks, i, o, h => by
    simp only [findId] at h
    split at h
    · next e => cases h; exact ⟨e, fun y hy => hy⟩
    · obtain ⟨h1, h2⟩ := findIdList_some ks i o h
      exact ⟨h1, fun y hy => by simp [ids, h2 y hy]⟩
theorem findIdList_some : ∀ (l : List Ast) (i : Nat) (o : Ast), findIdList i l = some o →
    o.id = i ∧ ∀ y ∈ ids o, y ∈ idsList l
  | [], i, o, h => by simp [findIdList] at h
  | k :: rest, i, o, h => by
    cases hk : findId i k with
    | some r =>
      simp only [findIdList, hk] at h
      cases h
      obtain ⟨h1, h2⟩ := findId_some k i o hk
      exact ⟨h1, fun y hy => by simp [idsList, h2 y hy]⟩
    | none =>
      simp only [findIdList, hk] at h
      obtain ⟨h1, h2⟩ := findIdList_some rest i o h
      exact ⟨h1, fun y hy => by simp [idsList, h2 y hy]⟩
end

mutual
theorem findId_none : ∀ (T : Ast) (i : Nat), findId i T = none → i ∉ ids T
  | .mk j k f ks, i, h => by
    simp only [findId] at h
    split at h
    · cases h
    · next ne =>
      simp only [ids, List.mem_cons, not_or]
      exact ⟨fun e => ne e.symm, findIdList_none ks i h⟩
theorem findIdList_none : ∀ (l : List Ast) (i : Nat), findIdList i l = none → i ∉ idsList l
  | [], i, _ => by simp [idsList]
  | k :: rest, i, h => by
    cases hk : findId i k with
    | some r => simp [findIdList, hk] at h
    | none =>
      simp only [findIdList, hk] at h
      simp only [idsList, List.mem_append, not_or]
      exact ⟨findId_none k i hk, findIdList_none rest i h⟩
end

mutual
theorem replaceId_notin : ∀ (T : Ast) (i : Nat) (new : Ast), i ∉ ids T → replaceId i new T = T
  | .mk j k f ks, i, new, h => by
    simp only [ids, List.mem_cons, not_or] at h
    simp only [replaceId, if_neg (fun e : j = i => h.1 e.symm), replaceIdList_notin ks i new h.2]
theorem replaceIdList_notin : ∀ (l : List Ast) (i : Nat) (new : Ast), i ∉ idsList l → replaceIdList i new l = l
  | [], _, _, _ => rfl
  | k :: rest, i, new, h => by
    simp only [idsList, List.mem_append, not_or] at h
    simp only [replaceIdList, replaceId_notin k i new h.1, replaceIdList_notin rest i new h.2]
end

theorem linkedB_root (σ : Store) (pf : Option Nat) (t : Ast) (h : linkedB σ pf t = true) (f : Nat)
    (hf : σ.astF t.id = some f) :
    (σ.fst f).a = some t.id ∧ (σ.fst f).parent = pf ∧ (σ.fst f).pfield = t.fld ∧
      linkedListB σ (some f) t.kids = true := by
  obtain ⟨a, k, fl, ks⟩ := t
  simp only [Ast.id] at hf
  simp only [linkedB, hf, Bool.and_eq_true, beq_iff_eq] at h
  exact ⟨h.1.1.1, h.1.1.2, h.1.2, h.2⟩

theorem linkedB_setFld (σ : Store) (pf : Option Nat) (t : Ast) (fl : Option Fld) (f : Nat)
    (hA : σ.astF t.id = some f) (ha : (σ.fst f).a = some t.id) (hp : (σ.fst f).parent = pf)
    (hq : (σ.fst f).pfield = fl) (hk : linkedListB σ (some f) t.kids = true) :
    linkedB σ pf (t.setFld fl) = true := by
  obtain ⟨a, k, fl0, ks⟩ := t
  simp only [Ast.id] at hA ha
  simp only [Ast.kids] at hk
  simp only [Ast.setFld, linkedB, hA, ha, hp, hq, hk, beq_self_eq_true, Bool.and_self]

mutual
theorem linked_back (σ : Store) : ∀ (t : Ast) (pf : Option Nat), linkedB σ pf t = true →
    ∀ x ∈ ids t, ∀ f, σ.astF x = some f → (σ.fst f).a = some x
  | .mk a _ fld kids, pf, h, x, hx, f, hf => by
    simp only [linkedB] at h
    simp only [ids, List.mem_cons] at hx
    cases hg : σ.astF a with
    | none => simp [hg] at h
    | some g =>
      simp only [hg, Bool.and_eq_true, beq_iff_eq] at h
      cases hx with
      | inl e =>
        subst e
        rw [hg] at hf
        cases hf
        exact h.1.1.1
      | inr hk => exact linkedList_back σ kids (some g) h.2 x hk f hf
theorem linkedList_back (σ : Store) : ∀ (l : List Ast) (pf : Option Nat), linkedListB σ pf l = true →
    ∀ x ∈ idsList l, ∀ f, σ.astF x = some f → (σ.fst f).a = some x
  | [], _, _, x, hx, _, _ => by simp [idsList] at hx
  | k :: rest, pf, h, x, hx, f, hf => by
    simp only [linkedListB, Bool.and_eq_true] at h
    simp only [idsList, List.mem_append] at hx
    cases hx with
    | inl h0 => exact linked_back σ k pf h.1 x h0 f hf
    | inr h1 => exact linkedList_back σ rest pf h.2 x h1 f hf
end

mutual
/-- every AST of a linked tree has an FST -/
theorem linked_isSome (σ : Store) : ∀ (t : Ast) (pf : Option Nat), linkedB σ pf t = true →
    ∀ x ∈ ids t, σ.astF x ≠ none
  | .mk a _ fld kids, pf, h, x, hx => by
    simp only [linkedB] at h
    simp only [ids, List.mem_cons] at hx
    cases hg : σ.astF a with
    | none => simp [hg] at h
    | some g =>
      simp only [hg, Bool.and_eq_true] at h
      cases hx with
      | inl e => subst e; rw [hg]; simp
      | inr hk => exact linkedList_isSome σ kids (some g) h.2 x hk
theorem linkedList_isSome (σ : Store) : ∀ (l : List Ast) (pf : Option Nat), linkedListB σ pf l = true →
    ∀ x ∈ idsList l, σ.astF x ≠ none
  | [], _, _, x, hx => by simp [idsList] at hx
  | k :: rest, pf, h, x, hx => by
    simp only [linkedListB, Bool.and_eq_true] at h
    simp only [idsList, List.mem_append] at hx
    cases hx with
    | inl h0 => exact linked_isSome σ k pf h.1 x h0
    | inr h1 => exact linkedList_isSome σ rest pf h.2 x h1
end

mutual
/-- a node found in a linked tree is itself linked: below the FST of its parent, or (the root of the search) below `pf` -/
theorem linked_find (σ : Store) : ∀ (T : Ast) (pf : Option Nat) (i : Nat) (o : Ast), linkedB σ pf T = true →
    findId i T = some o → ∃ po, linkedB σ po o = true ∧ ((po = pf ∧ T.id = i) ∨ (po.isSome = true ∧ T.id ≠ i))
  | .mk j k fl ks, pf, i, o, h, hf => by
    simp only [findId] at hf
    split at hf
    · next e => cases hf; exact ⟨pf, h, Or.inl ⟨rfl, e⟩⟩
    · next ne =>
      simp only [linkedB] at h
      cases hg : σ.astF j with
      | none => simp [hg] at h
      | some g =>
        simp only [hg, Bool.and_eq_true] at h
        obtain ⟨p, hp⟩ := linkedList_find σ ks g i o h.2 hf
        exact ⟨some p, hp, Or.inr ⟨rfl, ne⟩⟩
theorem linkedList_find (σ : Store) : ∀ (l : List Ast) (g : Nat) (i : Nat) (o : Ast),
    linkedListB σ (some g) l = true → findIdList i l = some o → ∃ p, linkedB σ (some p) o = true
  | [], _, _, _, _, hf => by simp [findIdList] at hf
  | k :: rest, g, i, o, h, hf => by
    simp only [linkedListB, Bool.and_eq_true] at h
    cases hk : findId i k with
    | some r =>
      simp only [findIdList, hk] at hf
      cases hf
      obtain ⟨po, hpo, hc⟩ := linked_find σ k (some g) i o h.1 hk
      cases hc with
      | inl c => exact ⟨g, by rw [← c.1]; exact hpo⟩
      | inr c =>
        cases po with
        | none => simp at c
        | some p => exact ⟨p, hpo⟩
    | none =>
      simp only [findIdList, hk] at hf
      exact linkedList_find σ rest g i o h.2 hf
end

/-- What `swap_linked` needs to know about the store `σ3` after `_set_ast` replaced `old` (whose FST is `f`) by `new`:
`R` = the ASTs of the whole tree; every AST in `R` is pointed back at by its FST, which exists; the operation wrote
`a.f` only inside `old` and `new`, FST records only at `f`, at FSTs of `old` and at new objects; the new root is linked
to `f`, which keeps `parent`/`pfield`; the new children are linked below `f`. -/
structure SwapCtx (σ σ3 : Store) (R : List Nat) (old new : Ast) (f : Nat) : Prop where
  back : ∀ x ∈ R, ∀ g, σ.astF x = some g → (σ.fst g).a = some x ∧ g < σ.next
  oldR : ∀ y ∈ ids old, y ∈ R
  oldF : σ.astF old.id = some f
  astF_keep : ∀ x, x ∉ ids old → x ∉ ids new → σ3.astF x = σ.astF x
  fst_keep : ∀ g, g < σ.next ∧ g ≠ f ∧ (∀ y ∈ ids old, σ.astF y ≠ some g) → σ3.fst g = σ.fst g
  newA : σ3.astF new.id = some f
  newFa : (σ3.fst f).a = some new.id
  newFp : (σ3.fst f).parent = (σ.fst f).parent
  newFq : (σ3.fst f).pfield = (σ.fst f).pfield
  newKids : linkedListB σ3 (some f) new.kids = true

theorem SwapCtx.keepP {σ σ3 : Store} {R : List Nat} {old new : Ast} {f : Nat} (C : SwapCtx σ σ3 R old new f)
    (x : Nat) (hx : x ∈ R) (hxo : x ∉ ids old) (g : Nat) (hg : σ.astF x = some g) :
    g < σ.next ∧ g ≠ f ∧ ∀ y ∈ ids old, σ.astF y ≠ some g := by
  have hb := C.back x hx g hg
  refine ⟨hb.2, ?_, ?_⟩
  · intro e
    have hbo := C.back old.id (C.oldR _ (id_mem_ids old)) f C.oldF
    rw [e] at hb
    have := hb.1.symm.trans hbo.1
    injection this with h
    exact hxo (h ▸ id_mem_ids old)
  · intro y hy hyg
    have hby := C.back y (C.oldR y hy) g hyg
    have := hb.1.symm.trans hby.1
    injection this with h
    exact hxo (h ▸ hy)

mutual
/-- the spine: replacing `old` inside a linked tree `T` (pairwise distinct ASTs, none shared with `new`) leaves `T`
with `new` in place of `old` linked in the new store -/
theorem swap_linked {σ σ3 : Store} {R : List Nat} {old new : Ast} {f : Nat} (C : SwapCtx σ σ3 R old new f) :
    ∀ (T : Ast) (pf : Option Nat), linkedB σ pf T = true → (ids T).Nodup → (∀ x ∈ ids T, x ∈ R) →
      (∀ x ∈ ids T, x ∉ ids new) → findId old.id T = some old →
      linkedB σ3 pf (replaceId old.id (new.setFld old.fld) T) = true
  | .mk j k fl ks, pf, hl, hnd, hR, hdn, hfind => by
    by_cases e : j = old.id
    · simp only [findId, if_pos e] at hfind
      have hT : Ast.mk j k fl ks = old := Option.some.inj hfind
      simp only [replaceId, if_pos e]
      rw [hT] at hl
      have ho := linkedB_root σ pf old hl f C.oldF
      exact linkedB_setFld σ3 pf new old.fld f C.newA C.newFa (C.newFp.trans ho.2.1) (C.newFq.trans ho.2.2.1)
        C.newKids
    · simp only [findId, if_neg e] at hfind
      simp only [replaceId, if_neg e]
      simp only [ids, List.nodup_cons] at hnd
      obtain ⟨_, hsub⟩ := findIdList_some ks old.id old hfind
      have hjR : j ∈ R := hR j (by simp [ids])
      have hjo : j ∉ ids old := fun h => hnd.1 (hsub j h)
      have hjn : j ∉ ids new := hdn j (by simp [ids])
      simp only [linkedB] at hl ⊢
      rw [C.astF_keep j hjo hjn]
      cases hg : σ.astF j with
      | none => simp [hg] at hl
      | some g =>
        simp only [hg, Bool.and_eq_true] at hl ⊢
        rw [C.fst_keep g (C.keepP j hjR hjo g hg)]
        exact ⟨hl.1, swap_linkedList C ks (some g) hl.2 hnd.2 (fun x hx => hR x (by simp [ids, hx]))
          (fun x hx => hdn x (by simp [ids, hx])) hfind⟩
theorem swap_linkedList {σ σ3 : Store} {R : List Nat} {old new : Ast} {f : Nat} (C : SwapCtx σ σ3 R old new f) :
    ∀ (l : List Ast) (pf : Option Nat), linkedListB σ pf l = true → (idsList l).Nodup → (∀ x ∈ idsList l, x ∈ R) →
      (∀ x ∈ idsList l, x ∉ ids new) → findIdList old.id l = some old →
      linkedListB σ3 pf (replaceIdList old.id (new.setFld old.fld) l) = true
  | [], _, _, _, _, _, h => by simp [findIdList] at h
  | k :: rest, pf, hl, hnd, hR, hdn, hfind => by
    simp only [linkedListB, Bool.and_eq_true] at hl
    simp only [idsList] at hnd
    have hnd' := List.nodup_append.mp hnd
    simp only [replaceIdList, linkedListB, Bool.and_eq_true]
    cases hk : findId old.id k with
    | some r =>
      simp only [findIdList, hk] at hfind
      have hr : r = old := Option.some.inj hfind
      rw [hr] at hk
      obtain ⟨_, hsub⟩ := findId_some k old.id old hk
      have hirest : old.id ∉ idsList rest := fun h => hnd'.2.2 old.id (hsub _ (id_mem_ids old)) old.id h rfl
      have hxo : ∀ x ∈ idsList rest, x ∉ ids old := fun x hx h => hnd'.2.2 x (hsub x h) x hx rfl
      rw [replaceIdList_notin rest _ _ hirest]
      refine ⟨swap_linked C k pf hl.1 hnd'.1 (fun x hx => hR x (by simp [idsList, hx]))
        (fun x hx => hdn x (by simp [idsList, hx])) hk, ?_⟩
      exact linkedListB_congrP σ σ3 (fun g => g < σ.next ∧ g ≠ f ∧ ∀ y ∈ ids old, σ.astF y ≠ some g) rest pf
        (fun x hx => C.astF_keep x (hxo x hx) (hdn x (by simp [idsList, hx])))
        (fun x hx g hg => C.keepP x (hR x (by simp [idsList, hx])) (hxo x hx) g hg)
        (fun g hP => C.fst_keep g hP) hl.2
    | none =>
      simp only [findIdList, hk] at hfind
      have hik := findId_none k _ hk
      rw [replaceId_notin k _ _ hik]
      obtain ⟨_, hsub⟩ := findIdList_some rest old.id old hfind
      have hxo : ∀ x ∈ ids k, x ∉ ids old := fun x hx h => hnd'.2.2 x hx x (hsub x h) rfl
      refine ⟨?_, swap_linkedList C rest pf hl.2 hnd'.2.1 (fun x hx => hR x (by simp [idsList, hx]))
        (fun x hx => hdn x (by simp [idsList, hx])) hfind⟩
      exact linkedB_congrP σ σ3 (fun g => g < σ.next ∧ g ≠ f ∧ ∀ y ∈ ids old, σ.astF y ≠ some g) k pf
        (fun x hx => C.astF_keep x (hxo x hx) (hdn x (by simp [idsList, hx])))
        (fun x hx g hg => C.keepP x (hR x (by simp [idsList, hx])) (hxo x hx) g hg)
        (fun g hP => C.fst_keep g hP) hl.1
end

/-- the store after `_set_ast` replaced the subtree `old` under the FST `f` by the fresh tree `new` -/
def swapσ (σ : Store) (old : Ast) (f : Nat) (new : Ast) : Store :=
  makeKids (relink (unmake σ old) f new.id) f new.kids

/-- `swapσ` meets `SwapCtx` when the whole tree `R` is pointed back at, `new` is fresh with pairwise distinct ASTs -/
theorem swapσ_ctx (σ : Store) (R : List Nat) (old new : Ast) (f : Nat)
    (back : ∀ x ∈ R, ∀ g, σ.astF x = some g → (σ.fst g).a = some x ∧ g < σ.next)
    (oldR : ∀ y ∈ ids old, y ∈ R) (oldF : σ.astF old.id = some f)
    (hnd : (ids new).Nodup) (hfresh : ∀ x ∈ ids new, σ.astF x = none) :
    SwapCtx σ (swapσ σ old f new) R old new f := by
  obtain ⟨nid, nk, nf, nks⟩ := new
  simp only [ids, List.nodup_cons] at hnd
  have hF : f < σ.next := (back old.id (oldR _ (id_mem_ids old)) f oldF).2
  have hpar := unmake_fst_other old σ f
  have hnext : (unmake σ old).next = σ.next := unmake_next _ _
  obtain ⟨σ1, hσ1⟩ : ∃ σ1 : Store, σ1 = unmake σ old := ⟨_, rfl⟩
  obtain ⟨σ2, hσ2⟩ : ∃ σ2 : Store, σ2 = relink σ1 f nid := ⟨_, rfl⟩
  have h2next : σ2.next = σ.next := by rw [hσ2, hσ1]; exact hnext
  have h2astF : σ2.astF = upd σ1.astF nid (some f) := by rw [hσ2]; rfl
  have h2fst : σ2.fst = upd σ1.fst f { σ1.fst f with a := some nid } := by rw [hσ2]; rfl
  have h2fresh : ∀ x ∈ idsList nks, σ2.astF x = none := by
    intro x hx
    have hxn : x ≠ nid := fun e => hnd.1 (e ▸ hx)
    rw [h2astF, upd_other _ _ _ _ hxn, hσ1]
    exact unmake_keeps_none _ _ _ (hfresh x (by simp [ids, hx]))
  obtain ⟨hfr, hl⟩ := makeKids_spec nks σ2 f (by omega) hnd.2 h2fresh
  have hs : swapσ σ old f (Ast.mk nid nk nf nks) = makeKids σ2 f nks := by
    simp only [swapσ, Ast.id, Ast.kids, hσ2, hσ1]
  have h3F : (makeKids σ2 f nks).fst f = { σ1.fst f with a := some nid } := by
    rw [hfr.fst_old f (by omega), h2fst, upd_same]
  rw [hs]
  refine ⟨back, oldR, oldF, ?_, ?_, ?_, ?_, ?_, ?_, hl⟩
  · intro x hxo hxn
    simp only [ids, List.mem_cons, not_or] at hxn
    rw [hfr.astF_out x hxn.2, h2astF, upd_other _ _ _ _ hxn.1, hσ1]
    exact unmake_astF_frame old σ x hxo
  · intro g hP
    rw [hfr.fst_old g (by omega), h2fst, upd_other _ _ _ _ hP.2.1, hσ1]
    exact unmake_fst_frame old σ g hP.2.2
  · simp only [Ast.id]
    rw [hfr.astF_out nid hnd.1, h2astF, upd_same]
  · rw [h3F]; rfl
  · rw [h3F, hσ1]; exact hpar.1
  · rw [h3F, hσ1]; exact hpar.2

end Pfst.Links

/-! ## `_set_field` at any position -/
namespace Pfst.Links

theorem ids_setFld (t : Ast) (fl : Option Fld) : ids (t.setFld fl) = ids t := by
  cases t; simp [Ast.setFld, ids]

theorem idsList_relabel (name : String) (isList : Bool) : ∀ (l : List Ast) (i : Nat),
    idsList (relabel name isList i l) = idsList l
  | [], _ => rfl
  | k :: rest, i => by simp only [relabel, idsList, ids_setFld, idsList_relabel name isList rest (i + 1)]

theorem idsList_filter_sub (p : Ast → Bool) : ∀ (l : List Ast), ∀ y ∈ idsList (l.filter p), y ∈ idsList l
  | [], y, hy => by simp [idsList] at hy
  | k :: rest, y, hy => by
    simp only [List.filter] at hy
    simp only [idsList, List.mem_append]
    cases hp : p k with
    | true =>
      simp only [hp, idsList, List.mem_append] at hy
      exact hy.imp id (idsList_filter_sub p rest y)
    | false =>
      simp only [hp] at hy
      exact Or.inr (idsList_filter_sub p rest y hy)

/-- under `Nodup`, the two halves of a partition of a child list share no AST -/
theorem idsList_filter_disjoint (p : Ast → Bool) : ∀ (l : List Ast), (idsList l).Nodup →
    ∀ y ∈ idsList (l.filter (fun c => !p c)), y ∉ idsList (l.filter p)
  | [], _, y, hy => by simp [idsList] at hy
  | k :: rest, hnd, y, hy => by
    simp only [idsList] at hnd
    have hnd' := List.nodup_append.mp hnd
    simp only [List.filter] at hy ⊢
    cases hp : p k with
    | true =>
      simp only [hp, Bool.not_true, idsList, List.mem_append, not_or] at hy ⊢
      have hyr := idsList_filter_sub _ rest y hy
      exact ⟨fun h => hnd'.2.2 y h y hyr rfl, idsList_filter_disjoint p rest hnd'.2.1 y hy⟩
    | false =>
      simp only [hp, Bool.not_false, idsList, List.mem_append] at hy ⊢
      cases hy with
      | inl h => exact fun h2 => hnd'.2.2 y h y (idsList_filter_sub _ rest y h2) rfl
      | inr h => exact idsList_filter_disjoint p rest hnd'.2.1 y h

theorem linkedListB_append (σ : Store) (pf : Option Nat) : ∀ (l1 l2 : List Ast),
    linkedListB σ pf (l1 ++ l2) = (linkedListB σ pf l1 && linkedListB σ pf l2)
  | [], l2 => by simp [linkedListB]
  | k :: rest, l2 => by simp only [List.cons_append, linkedListB, linkedListB_append σ pf rest l2, Bool.and_assoc]

theorem linkedListB_filter (σ : Store) (pf : Option Nat) (p : Ast → Bool) : ∀ (l : List Ast),
    linkedListB σ pf l = true → linkedListB σ pf (l.filter p) = true
  | [], _ => by simp [linkedListB]
  | k :: rest, h => by
    simp only [linkedListB, Bool.and_eq_true] at h
    simp only [List.filter]
    cases hp : p k with
    | true => simp only [linkedListB, Bool.and_eq_true]; exact ⟨h.1, linkedListB_filter σ pf p rest h.2⟩
    | false => exact linkedListB_filter σ pf p rest h.2

mutual
theorem setKids_notin : ∀ (T : Ast) (i : Nat) (name : String) (new : List Ast), i ∉ ids T → setKids i name new T = T
  | .mk j k f ks, i, name, new, h => by
    simp only [ids, List.mem_cons, not_or] at h
    simp only [setKids, if_neg (fun e : j = i => h.1 e.symm), setKidsList_notin ks i name new h.2]
theorem setKidsList_notin : ∀ (l : List Ast) (i : Nat) (name : String) (new : List Ast), i ∉ idsList l →
    setKidsList i name new l = l
  | [], _, _, _, _ => rfl
  | k :: rest, i, name, new, h => by
    simp only [idsList, List.mem_append, not_or] at h
    simp only [setKidsList, setKids_notin k i name new h.1, setKidsList_notin rest i name new h.2]
end

theorem setKids_id (T : Ast) (i : Nat) (name : String) (new : List Ast) : (setKids i name new T).id = T.id := by
  obtain ⟨j, k, f, ks⟩ := T
  simp only [setKids]
  split <;> rfl

theorem idsList_kids_sub (t : Ast) : ∀ y ∈ idsList t.kids, y ∈ ids t := by
  obtain ⟨j, k, f, ks⟩ := t
  intro y hy
  simp only [Ast.kids] at hy
  simp [ids, hy]

/-- the elements of field `name` among the children of a node (`getattr(ast, field)`) -/
def fieldOf (name : String) (t : Ast) : List Ast :=
  t.kids.filter (fun c => match c.fld with | some g => g.name == name | none => false)

/-- What `field_linked` needs to know about the store `σ3` after `_set_field` replaced the elements `body` of a field of
the node whose FST is `f` by the fresh elements `new`. -/
structure FieldCtx (σ σ3 : Store) (R : List Nat) (body new : List Ast) (f : Nat) : Prop where
  back : ∀ x ∈ R, ∀ g, σ.astF x = some g → (σ.fst g).a = some x ∧ g < σ.next
  bodyR : ∀ y ∈ idsList body, y ∈ R
  astF_keep : ∀ x, x ∉ idsList body → x ∉ idsList new → σ3.astF x = σ.astF x
  fst_keep : ∀ g, g < σ.next ∧ (∀ y ∈ idsList body, σ.astF y ≠ some g) → σ3.fst g = σ.fst g
  newKids : linkedListB σ3 (some f) new = true

theorem FieldCtx.keepP {σ σ3 : Store} {R : List Nat} {body new : List Ast} {f : Nat} (C : FieldCtx σ σ3 R body new f)
    (x : Nat) (hx : x ∈ R) (hxo : x ∉ idsList body) (g : Nat) (hg : σ.astF x = some g) :
    g < σ.next ∧ ∀ y ∈ idsList body, σ.astF y ≠ some g := by
  have hb := C.back x hx g hg
  refine ⟨hb.2, ?_⟩
  intro y hy hyg
  have hby := C.back y (C.bodyR y hy) g hyg
  have := hb.1.symm.trans hby.1
  injection this with h
  exact hxo (h ▸ hy)

mutual
theorem field_linked {σ σ3 : Store} {R : List Nat} {body new : List Ast} {f : Nat}
    (C : FieldCtx σ σ3 R body new f) (name : String) (P : Ast) (hbody : body = fieldOf name P)
    (hPf : σ.astF P.id = some f) :
    ∀ (T : Ast) (pf : Option Nat), linkedB σ pf T = true → (ids T).Nodup → (∀ x ∈ ids T, x ∈ R) →
      (∀ x ∈ ids T, x ∉ idsList new) → findId P.id T = some P →
      linkedB σ3 pf (setKids P.id name new T) = true
  | .mk j k fl ks, pf, hl, hnd, hR, hdn, hfind => by
    have hjR : j ∈ R := hR j (by simp [ids])
    have hjn : j ∉ idsList new := hdn j (by simp [ids])
    simp only [ids, List.nodup_cons] at hnd
    by_cases e : j = P.id
    · simp only [findId, if_pos e] at hfind
      have hT : Ast.mk j k fl ks = P := Option.some.inj hfind
      have hbk : body = ks.filter (fun c => match c.fld with | some g => g.name == name | none => false) := by
        rw [hbody, ← hT]; rfl
      have hbsub : ∀ y ∈ idsList body, y ∈ idsList ks := by
        intro y hy; rw [hbk] at hy; exact idsList_filter_sub _ ks y hy
      have hjo : j ∉ idsList body := fun h => hnd.1 (hbsub j h)
      have hjf : σ.astF j = some f := by rw [e]; exact hPf
      simp only [setKids, if_pos e]
      simp only [linkedB, hjf, Bool.and_eq_true] at hl
      simp only [linkedB, C.astF_keep j hjo hjn, hjf, C.fst_keep f (C.keepP j hjR hjo f hjf), Bool.and_eq_true]
      refine ⟨hl.1, ?_⟩
      rw [linkedListB_append, Bool.and_eq_true]
      refine ⟨?_, C.newKids⟩
      have hother : ∀ x ∈ idsList (ks.filter (fun c =>
          !(match c.fld with | some g => g.name == name | none => false))), x ∉ idsList body := by
        intro x hx; rw [hbk]
        exact idsList_filter_disjoint (fun c => match c.fld with | some g => g.name == name | none => false) ks hnd.2 x hx
      have hosub := idsList_filter_sub (fun c => !(match c.fld with | some g => g.name == name | none => false)) ks
      exact linkedListB_congrP σ σ3 (fun g => g < σ.next ∧ ∀ y ∈ idsList body, σ.astF y ≠ some g) _ (some f)
        (fun x hx => C.astF_keep x (hother x hx) (hdn x (by simp [ids, hosub x hx])))
        (fun x hx g hg => C.keepP x (hR x (by simp [ids, hosub x hx])) (hother x hx) g hg)
        (fun g hP => C.fst_keep g hP) (linkedListB_filter σ (some f) _ ks hl.2)
    · simp only [findId, if_neg e] at hfind
      simp only [setKids, if_neg e]
      obtain ⟨_, hsub⟩ := findIdList_some ks P.id P hfind
      have hbsub : ∀ y ∈ idsList body, y ∈ idsList ks := by
        intro y hy; rw [hbody] at hy
        exact hsub y (idsList_kids_sub P y (idsList_filter_sub _ _ y hy))
      have hjo : j ∉ idsList body := fun h => hnd.1 (hbsub j h)
      simp only [linkedB] at hl ⊢
      rw [C.astF_keep j hjo hjn]
      cases hg : σ.astF j with
      | none => simp [hg] at hl
      | some g =>
        simp only [hg, Bool.and_eq_true] at hl ⊢
        rw [C.fst_keep g (C.keepP j hjR hjo g hg)]
        exact ⟨hl.1, field_linkedList C name P hbody hPf ks (some g) hl.2 hnd.2
          (fun x hx => hR x (by simp [ids, hx])) (fun x hx => hdn x (by simp [ids, hx])) hfind⟩
theorem field_linkedList {σ σ3 : Store} {R : List Nat} {body new : List Ast} {f : Nat}
    (C : FieldCtx σ σ3 R body new f) (name : String) (P : Ast) (hbody : body = fieldOf name P)
    (hPf : σ.astF P.id = some f) :
    ∀ (l : List Ast) (pf : Option Nat), linkedListB σ pf l = true → (idsList l).Nodup → (∀ x ∈ idsList l, x ∈ R) →
      (∀ x ∈ idsList l, x ∉ idsList new) → findIdList P.id l = some P →
      linkedListB σ3 pf (setKidsList P.id name new l) = true
  | [], _, _, _, _, _, h => by simp [findIdList] at h
  | k :: rest, pf, hl, hnd, hR, hdn, hfind => by
    simp only [linkedListB, Bool.and_eq_true] at hl
    simp only [idsList] at hnd
    have hnd' := List.nodup_append.mp hnd
    simp only [setKidsList, linkedListB, Bool.and_eq_true]
    have hbP : ∀ y ∈ idsList body, y ∈ ids P := by
      intro y hy; rw [hbody] at hy
      exact idsList_kids_sub P y (idsList_filter_sub _ _ y hy)
    cases hk : findId P.id k with
    | some r =>
      simp only [findIdList, hk] at hfind
      have hr : r = P := Option.some.inj hfind
      rw [hr] at hk
      obtain ⟨_, hsub⟩ := findId_some k P.id P hk
      have hirest : P.id ∉ idsList rest := fun h => hnd'.2.2 P.id (hsub _ (id_mem_ids P)) P.id h rfl
      have hxo : ∀ x ∈ idsList rest, x ∉ idsList body := fun x hx h => hnd'.2.2 x (hsub x (hbP x h)) x hx rfl
      rw [setKidsList_notin rest _ _ _ hirest]
      refine ⟨field_linked C name P hbody hPf k pf hl.1 hnd'.1 (fun x hx => hR x (by simp [idsList, hx]))
        (fun x hx => hdn x (by simp [idsList, hx])) hk, ?_⟩
      exact linkedListB_congrP σ σ3 (fun g => g < σ.next ∧ ∀ y ∈ idsList body, σ.astF y ≠ some g) rest pf
        (fun x hx => C.astF_keep x (hxo x hx) (hdn x (by simp [idsList, hx])))
        (fun x hx g hg => C.keepP x (hR x (by simp [idsList, hx])) (hxo x hx) g hg)
        (fun g hP => C.fst_keep g hP) hl.2
    | none =>
      simp only [findIdList, hk] at hfind
      have hik := findId_none k _ hk
      rw [setKids_notin k _ _ _ hik]
      obtain ⟨_, hsub⟩ := findIdList_some rest P.id P hfind
      have hxo : ∀ x ∈ ids k, x ∉ idsList body := fun x hx h => hnd'.2.2 x hx x (hsub x (hbP x h)) rfl
      refine ⟨?_, field_linkedList C name P hbody hPf rest pf hl.2 hnd'.2.1 (fun x hx => hR x (by simp [idsList, hx]))
        (fun x hx => hdn x (by simp [idsList, hx])) hfind⟩
      exact linkedB_congrP σ σ3 (fun g => g < σ.next ∧ ∀ y ∈ idsList body, σ.astF y ≠ some g) k pf
        (fun x hx => C.astF_keep x (hxo x hx) (hdn x (by simp [idsList, hx])))
        (fun x hx g hg => C.keepP x (hR x (by simp [idsList, hx])) (hxo x hx) g hg)
        (fun g hP => C.fst_keep g hP) hl.1
end

/-- the store after `_set_field` (default flags) replaced the elements `body` below the FST `f` by the fresh `new` -/
def fieldσ (σ : Store) (body : List Ast) (f : Nat) (new : List Ast) : Store :=
  makeKids (unmakeList σ body) f new

theorem newElems_eq_makeKids (f : Nat) : ∀ (l : List Ast) (σ : Store), newElems σ f false l = makeKids σ f l
  | [], σ => by simp [newElems, makeKids]
  | k :: rest, σ => by
    obtain ⟨a, kind, fld, kids⟩ := k
    simp only [newElems, makeKids, makeChild, Ast.id, Ast.fld, Ast.kids, Bool.false_eq_true, if_false,
      newElems_eq_makeKids f rest]

theorem fieldσ_ctx (σ : Store) (R : List Nat) (body new : List Ast) (f : Nat) (hF : f < σ.next)
    (back : ∀ x ∈ R, ∀ g, σ.astF x = some g → (σ.fst g).a = some x ∧ g < σ.next)
    (bodyR : ∀ y ∈ idsList body, y ∈ R)
    (hnd : (idsList new).Nodup) (hfresh : ∀ x ∈ idsList new, σ.astF x = none) :
    FieldCtx σ (fieldσ σ body f new) R body new f := by
  have hnext : (unmakeList σ body).next = σ.next := unmakeList_next _ _
  have h1fresh : ∀ x ∈ idsList new, (unmakeList σ body).astF x = none :=
    fun x hx => unmakeList_keeps_none _ _ _ (hfresh x hx)
  obtain ⟨hfr, hl⟩ := makeKids_spec new (unmakeList σ body) f (by omega) hnd h1fresh
  refine ⟨back, bodyR, ?_, ?_, hl⟩
  · intro x hxo hxn
    simp only [fieldσ]
    rw [hfr.astF_out x hxn]
    exact unmakeList_astF_frame body σ x hxo
  · intro g hP
    simp only [fieldσ]
    rw [hfr.fst_old g (by omega)]
    exact unmakeList_fst_frame body σ g hP.2

end Pfst.Links

/-! ## the tree side: pairwise distinct ASTs are kept, and the FST objects of the tree exist -/
namespace Pfst.Links

mutual
theorem replaceId_ids_sub : ∀ (T : Ast) (i : Nat) (new : Ast), ∀ y ∈ ids (replaceId i new T), y ∈ ids T ∨ y ∈ ids new
  | .mk j k f ks, i, new, y, hy => by
    simp only [replaceId] at hy
    split at hy
    · exact Or.inr hy
    · simp only [ids, List.mem_cons] at hy ⊢
      cases hy with
      | inl h => exact Or.inl (Or.inl h)
      | inr h => exact (replaceIdList_ids_sub ks i new y h).imp Or.inr id
theorem replaceIdList_ids_sub : ∀ (l : List Ast) (i : Nat) (new : Ast), ∀ y ∈ idsList (replaceIdList i new l),
    y ∈ idsList l ∨ y ∈ ids new
  | [], _, _, y, hy => by simp [replaceIdList, idsList] at hy
  | k :: rest, i, new, y, hy => by
    simp only [replaceIdList, idsList, List.mem_append] at hy ⊢
    cases hy with
    | inl h => exact (replaceId_ids_sub k i new y h).imp Or.inl id
    | inr h => exact (replaceIdList_ids_sub rest i new y h).imp Or.inr id
end

mutual
theorem replaceId_nodup : ∀ (T : Ast) (i : Nat) (new : Ast), (ids T).Nodup → (ids new).Nodup →
    (∀ x ∈ ids T, x ∉ ids new) → (ids (replaceId i new T)).Nodup
  | .mk j k f ks, i, new, hnd, hn, hd => by
    simp only [replaceId]
    split
    · exact hn
    · simp only [ids, List.nodup_cons] at hnd ⊢
      refine ⟨?_, replaceIdList_nodup ks i new hnd.2 hn (fun x hx => hd x (by simp [ids, hx]))⟩
      intro h
      cases replaceIdList_ids_sub ks i new j h with
      | inl h1 => exact hnd.1 h1
      | inr h2 => exact hd j (by simp [ids]) h2
theorem replaceIdList_nodup : ∀ (l : List Ast) (i : Nat) (new : Ast), (idsList l).Nodup → (ids new).Nodup →
    (∀ x ∈ idsList l, x ∉ ids new) → (idsList (replaceIdList i new l)).Nodup
  | [], _, _, _, _, _ => by simp [replaceIdList, idsList]
  | k :: rest, i, new, hnd, hn, hd => by
    simp only [idsList] at hnd
    have hnd' := List.nodup_append.mp hnd
    have hdk : ∀ x ∈ ids k, x ∉ ids new := fun x hx => hd x (by simp [idsList, hx])
    have hdr : ∀ x ∈ idsList rest, x ∉ ids new := fun x hx => hd x (by simp [idsList, hx])
    simp only [replaceIdList, idsList]
    rw [List.nodup_append]
    by_cases hik : i ∈ ids k
    · have hir : i ∉ idsList rest := fun h => hnd'.2.2 i hik i h rfl
      rw [replaceIdList_notin rest i new hir]
      refine ⟨replaceId_nodup k i new hnd'.1 hn hdk, hnd'.2.1, ?_⟩
      intro a ha b hb hab
      subst hab
      cases replaceId_ids_sub k i new a ha with
      | inl h1 => exact hnd'.2.2 a h1 a hb rfl
      | inr h2 => exact hdr a hb h2
    · rw [replaceId_notin k i new hik]
      refine ⟨hnd'.1, replaceIdList_nodup rest i new hnd'.2.1 hn hdr, ?_⟩
      intro a ha b hb hab
      subst hab
      cases replaceIdList_ids_sub rest i new a hb with
      | inl h1 => exact hnd'.2.2 a ha a h1 rfl
      | inr h2 => exact hdk a ha h2
end

theorem idsList_append : ∀ (l1 l2 : List Ast), idsList (l1 ++ l2) = idsList l1 ++ idsList l2
  | [], l2 => by simp [idsList]
  | k :: rest, l2 => by simp only [List.cons_append, idsList, idsList_append rest l2, List.append_assoc]

theorem idsList_filter_nodup (p : Ast → Bool) : ∀ (l : List Ast), (idsList l).Nodup → (idsList (l.filter p)).Nodup
  | [], _ => by simp [idsList]
  | k :: rest, hnd => by
    simp only [idsList] at hnd
    have hnd' := List.nodup_append.mp hnd
    simp only [List.filter]
    cases hp : p k with
    | true =>
      simp only [idsList]
      rw [List.nodup_append]
      exact ⟨hnd'.1, idsList_filter_nodup p rest hnd'.2.1,
        fun a ha b hb => hnd'.2.2 a ha b (idsList_filter_sub p rest b hb)⟩
    | false => exact idsList_filter_nodup p rest hnd'.2.1

mutual
theorem setKids_ids_sub : ∀ (T : Ast) (i : Nat) (name : String) (new : List Ast),
    ∀ y ∈ ids (setKids i name new T), y ∈ ids T ∨ y ∈ idsList new
  | .mk j k f ks, i, name, new, y, hy => by
    simp only [setKids] at hy
    split at hy
    · simp only [ids, List.mem_cons, idsList_append, List.mem_append] at hy ⊢
      rcases hy with h | h | h
      · exact Or.inl (Or.inl h)
      · exact Or.inl (Or.inr (idsList_filter_sub _ ks y h))
      · exact Or.inr h
    · simp only [ids, List.mem_cons] at hy ⊢
      cases hy with
      | inl h => exact Or.inl (Or.inl h)
      | inr h => exact (setKidsList_ids_sub ks i name new y h).imp Or.inr id
theorem setKidsList_ids_sub : ∀ (l : List Ast) (i : Nat) (name : String) (new : List Ast),
    ∀ y ∈ idsList (setKidsList i name new l), y ∈ idsList l ∨ y ∈ idsList new
  | [], _, _, _, y, hy => by simp [setKidsList, idsList] at hy
  | k :: rest, i, name, new, y, hy => by
    simp only [setKidsList, idsList, List.mem_append] at hy ⊢
    cases hy with
    | inl h => exact (setKids_ids_sub k i name new y h).imp Or.inl id
    | inr h => exact (setKidsList_ids_sub rest i name new y h).imp Or.inr id
end

mutual
theorem setKids_nodup : ∀ (T : Ast) (i : Nat) (name : String) (new : List Ast), (ids T).Nodup → (idsList new).Nodup →
    (∀ x ∈ ids T, x ∉ idsList new) → (ids (setKids i name new T)).Nodup
  | .mk j k f ks, i, name, new, hnd, hn, hd => by
    simp only [ids, List.nodup_cons] at hnd
    simp only [setKids]
    split
    · simp only [ids, List.nodup_cons, idsList_append, List.mem_append, not_or]
      refine ⟨⟨fun h => hnd.1 (idsList_filter_sub _ ks j h), hd j (by simp [ids])⟩, ?_⟩
      rw [List.nodup_append]
      exact ⟨idsList_filter_nodup _ ks hnd.2, hn,
        fun a ha b hb hab => hd a (by simp [ids, idsList_filter_sub _ ks a ha]) (hab ▸ hb)⟩
    · simp only [ids, List.nodup_cons]
      refine ⟨?_, setKidsList_nodup ks i name new hnd.2 hn (fun x hx => hd x (by simp [ids, hx]))⟩
      intro h
      cases setKidsList_ids_sub ks i name new j h with
      | inl h1 => exact hnd.1 h1
      | inr h2 => exact hd j (by simp [ids]) h2
theorem setKidsList_nodup : ∀ (l : List Ast) (i : Nat) (name : String) (new : List Ast), (idsList l).Nodup →
    (idsList new).Nodup → (∀ x ∈ idsList l, x ∉ idsList new) → (idsList (setKidsList i name new l)).Nodup
  | [], _, _, _, _, _, _ => by simp [setKidsList, idsList]
  | k :: rest, i, name, new, hnd, hn, hd => by
    simp only [idsList] at hnd
    have hnd' := List.nodup_append.mp hnd
    have hdk : ∀ x ∈ ids k, x ∉ idsList new := fun x hx => hd x (by simp [idsList, hx])
    have hdr : ∀ x ∈ idsList rest, x ∉ idsList new := fun x hx => hd x (by simp [idsList, hx])
    simp only [setKidsList, idsList]
    rw [List.nodup_append]
    by_cases hik : i ∈ ids k
    · have hir : i ∉ idsList rest := fun h => hnd'.2.2 i hik i h rfl
      rw [setKidsList_notin rest i name new hir]
      refine ⟨setKids_nodup k i name new hnd'.1 hn hdk, hnd'.2.1, ?_⟩
      intro a ha b hb hab
      subst hab
      cases setKids_ids_sub k i name new a ha with
      | inl h1 => exact hnd'.2.2 a h1 a hb rfl
      | inr h2 => exact hdr a hb h2
    · rw [setKids_notin k i name new hik]
      refine ⟨hnd'.1, setKidsList_nodup rest i name new hnd'.2.1 hn hdr, ?_⟩
      intro a ha b hb hab
      subst hab
      cases setKidsList_ids_sub rest i name new a hb with
      | inl h1 => exact hnd'.2.2 a ha a h1 rfl
      | inr h2 => exact hdk a ha h2
end

/-- FST objects of the tree and of `new` exist after `_set_ast`; the ASTs of `old` are dead -/
theorem swapσ_bounds (σ : Store) (old new : Ast) (f : Nat) (hF : f < σ.next)
    (hnd : (ids new).Nodup) (hfresh : ∀ x ∈ ids new, σ.astF x = none) :
    σ.next ≤ (swapσ σ old f new).next ∧
    (∀ y ∈ ids new, ∀ g, (swapσ σ old f new).astF y = some g → g < (swapσ σ old f new).next) ∧
    (∀ y ∈ ids old, y ∉ ids new → (swapσ σ old f new).astF y = none) := by
  obtain ⟨nid, nk, nf, nks⟩ := new
  simp only [ids, List.nodup_cons] at hnd
  have hnext : (unmake σ old).next = σ.next := unmake_next _ _
  have h2fresh : ∀ x ∈ idsList nks, (relink (unmake σ old) f nid).astF x = none := by
    intro x hx
    have hxn : x ≠ nid := fun e => hnd.1 (e ▸ hx)
    simp only [relink, upd_other _ _ _ _ hxn]
    exact unmake_keeps_none _ _ _ (hfresh x (by simp [ids, hx]))
  have h2next : (relink (unmake σ old) f nid).next = σ.next := hnext
  obtain ⟨hfr, _⟩ := makeKids_spec nks (relink (unmake σ old) f nid) f (by omega) hnd.2 h2fresh
  simp only [swapσ, Ast.id, Ast.kids]
  refine ⟨by have := hfr.next_le; omega, ?_, ?_⟩
  · intro y hy g hg
    simp only [ids, List.mem_cons] at hy
    by_cases hyk : y ∈ idsList nks
    · exact hfr.astF_lt y hyk g hg
    · have hyn : y = nid := by cases hy with | inl h => exact h | inr h => exact absurd h hyk
      rw [hfr.astF_out y hyk, hyn] at hg
      simp only [relink, upd_same] at hg
      cases hg
      have := hfr.next_le
      omega
  · intro y hyo hyn
    simp only [ids, List.mem_cons, not_or] at hyn
    rw [hfr.astF_out y hyn.2]
    simp only [relink, upd_other _ _ _ _ hyn.1]
    exact unmake_kills old σ y hyo

/-- FST objects of the tree and of `new` exist after `_set_field`; the ASTs of the old elements are dead -/
theorem fieldσ_bounds (σ : Store) (body new : List Ast) (f : Nat) (hF : f < σ.next)
    (hnd : (idsList new).Nodup) (hfresh : ∀ x ∈ idsList new, σ.astF x = none) :
    σ.next ≤ (fieldσ σ body f new).next ∧
    (∀ y ∈ idsList new, ∀ g, (fieldσ σ body f new).astF y = some g → g < (fieldσ σ body f new).next) ∧
    (∀ y ∈ idsList body, y ∉ idsList new → (fieldσ σ body f new).astF y = none) := by
  have hnext : (unmakeList σ body).next = σ.next := unmakeList_next _ _
  have h1fresh : ∀ x ∈ idsList new, (unmakeList σ body).astF x = none :=
    fun x hx => unmakeList_keeps_none _ _ _ (hfresh x hx)
  obtain ⟨hfr, _⟩ := makeKids_spec new (unmakeList σ body) f (by omega) hnd h1fresh
  simp only [fieldσ]
  refine ⟨by have := hfr.next_le; omega, fun y hy g hg => hfr.astF_lt y hy g hg, ?_⟩
  intro y hyo hyn
  rw [hfr.astF_out y hyn]
  exact unmakeList_kills body σ y hyo

end Pfst.Links

/-! ## operations that only empty caches -/
namespace Pfst.Links

/-- `σ'` differs from `σ` at most in cache contents -/
def CacheOnly (σ σ' : Store) : Prop :=
  σ'.astF = σ.astF ∧ σ'.next = σ.next ∧
    ∀ g, (σ'.fst g).a = (σ.fst g).a ∧ (σ'.fst g).parent = (σ.fst g).parent ∧ (σ'.fst g).pfield = (σ.fst g).pfield

theorem CacheOnly.refl (σ : Store) : CacheOnly σ σ := ⟨rfl, rfl, fun _ => ⟨rfl, rfl, rfl⟩⟩

theorem CacheOnly.trans {σ σ' σ'' : Store} (h1 : CacheOnly σ σ') (h2 : CacheOnly σ' σ'') : CacheOnly σ σ'' :=
  ⟨h2.1.trans h1.1, h2.2.1.trans h1.2.1, fun g =>
    ⟨(h2.2.2 g).1.trans (h1.2.2 g).1, (h2.2.2 g).2.1.trans (h1.2.2 g).2.1, (h2.2.2 g).2.2.trans (h1.2.2 g).2.2⟩⟩

theorem touch_cacheOnly (σ : Store) (f : Nat) : CacheOnly σ (touch σ f) := by
  refine ⟨rfl, rfl, fun g => ?_⟩
  simp only [touch, upd]
  split
  · next e => subst e; exact ⟨rfl, rfl, rfl⟩
  · exact ⟨rfl, rfl, rfl⟩

theorem touchAst_cacheOnly (σ : Store) (a : Nat) : CacheOnly σ (touchAst σ a) := by
  unfold touchAst
  split
  · exact touch_cacheOnly σ _
  · exact CacheOnly.refl σ

mutual
theorem touchTree_cacheOnly : ∀ (t : Ast) (σ : Store), CacheOnly σ (touchTree σ t)
  | .mk a _ _ kids, σ => by
    simp only [touchTree]
    exact (touchAst_cacheOnly σ a).trans (touchTreeList_cacheOnly kids _)
theorem touchTreeList_cacheOnly : ∀ (l : List Ast) (σ : Store), CacheOnly σ (touchTreeList σ l)
  | [], σ => by simp only [touchTreeList]; exact CacheOnly.refl σ
  | k :: rest, σ => by
    simp only [touchTreeList]
    exact (touchTree_cacheOnly k σ).trans (touchTreeList_cacheOnly rest _)
end

theorem touchParents_cacheOnly : ∀ (fuel : Nat) (σ : Store) (f : Nat), CacheOnly σ (touchParents σ fuel f)
  | 0, σ, _ => by simp only [touchParents]; exact CacheOnly.refl σ
  | fuel + 1, σ, f => by
    simp only [touchParents]
    split
    · exact CacheOnly.refl σ
    · next p _ => exact (touch_cacheOnly σ p).trans (touchParents_cacheOnly fuel _ p)

theorem touchall_cacheOnly (σ : Store) (f : Nat) (t : Ast) (p sf c : Bool) : CacheOnly σ (touchall σ f t p sf c) := by
  have h1 : CacheOnly σ (if c then (if sf then touchTree σ t else touchTreeList σ t.kids)
      else if sf then touch σ f else σ) := by
    cases c <;> cases sf <;> simp only [if_true, if_false, Bool.false_eq_true]
    · exact CacheOnly.refl σ
    · exact touch_cacheOnly σ f
    · exact touchTreeList_cacheOnly _ σ
    · exact touchTree_cacheOnly t σ
  simp only [touchall]
  cases p <;> simp only [if_true, if_false, Bool.false_eq_true]
  · exact h1
  · exact h1.trans (touchParents_cacheOnly _ _ f)

mutual
theorem linkedB_cacheOnly {σ σ' : Store} (h : CacheOnly σ σ') : ∀ (t : Ast) (pf : Option Nat),
    linkedB σ' pf t = linkedB σ pf t
  | .mk a _ fld kids, pf => by
    simp only [linkedB, h.1]
    cases σ.astF a with
    | none => rfl
    | some f => simp only [(h.2.2 f).1, (h.2.2 f).2.1, (h.2.2 f).2.2, linkedListB_cacheOnly h kids (some f)]
theorem linkedListB_cacheOnly {σ σ' : Store} (h : CacheOnly σ σ') : ∀ (l : List Ast) (pf : Option Nat),
    linkedListB σ' pf l = linkedListB σ pf l
  | [], _ => rfl
  | k :: rest, pf => by simp only [linkedListB, linkedB_cacheOnly h k pf, linkedListB_cacheOnly h rest pf]
end

end Pfst.Links

/-! ## `_touchall(children=True)` empties the cache of every node of the subtree -/
namespace Pfst.Links

mutual
theorem touchTree_cache_stays : ∀ (t : Ast) (σ : Store) (g : Nat), (σ.fst g).cache = [] →
    ((touchTree σ t).fst g).cache = []
  | .mk a _ _ kids, σ, g, h => by
    simp only [touchTree]
    exact touchTreeList_cache_stays kids _ g (touchAst_cache_stays σ a g h)
theorem touchTreeList_cache_stays : ∀ (l : List Ast) (σ : Store) (g : Nat), (σ.fst g).cache = [] →
    ((touchTreeList σ l).fst g).cache = []
  | [], _, _, h => h
  | k :: rest, σ, g, h => by
    simp only [touchTreeList]
    exact touchTreeList_cache_stays rest _ g (touchTree_cache_stays k σ g h)
end

mutual
theorem touchTree_clears : ∀ (t : Ast) (σ : Store), ∀ x ∈ ids t, ∀ g, σ.astF x = some g →
    ((touchTree σ t).fst g).cache = []
  | .mk a _ _ kids, σ, x, hx, g, hg => by
    simp only [ids, List.mem_cons] at hx
    simp only [touchTree]
    cases hx with
    | inl e =>
      subst e
      apply touchTreeList_cache_stays
      simp only [touchAst, hg]
      exact touch_cache_self σ g
    | inr hk =>
      exact touchTreeList_clears kids _ x hk g (by rw [(touchAst_cacheOnly σ a).1]; exact hg)
theorem touchTreeList_clears : ∀ (l : List Ast) (σ : Store), ∀ x ∈ idsList l, ∀ g, σ.astF x = some g →
    ((touchTreeList σ l).fst g).cache = []
  | [], _, x, hx, _, _ => by simp [idsList] at hx
  | k :: rest, σ, x, hx, g, hg => by
    simp only [idsList, List.mem_append] at hx
    simp only [touchTreeList]
    cases hx with
    | inl h => exact touchTreeList_cache_stays rest _ g (touchTree_clears k σ x h g hg)
    | inr h => exact touchTreeList_clears rest _ x h g (by rw [(touchTree_cacheOnly k σ).1]; exact hg)
end

end Pfst.Links
