import Pfst.Quote

/-!
Helper lemmas for `Pfst/Props/C08.lean`: the decoder consumes the encoder's output token by token.
-/
namespace Pfst.Quote

/-! ### characters and hexadecimal -/

/-- a character that is harmless anywhere in a literal body: no backslash, quote, carriage return, NUL, newline -/
def plainB (h : Char) : Bool := h != BS && h != SQ && h != DQ && h != CR && h != NUL && h != LF

theorem unhex_hexDigit : ∀ n, n < 16 → unhex (hexDigit n) = some n := by decide
theorem plainB_hexDigit_lt : ∀ n, n < 16 → plainB (hexDigit n) = true := by decide
theorem plainB_hexDigit_mod (n : Nat) : plainB (hexDigit (n % 16)) = true :=
  plainB_hexDigit_lt _ (Nat.mod_lt _ (by decide))
theorem unhex_hexDigit_mod (n : Nat) : unhex (hexDigit (n % 16)) = some (n % 16) :=
  unhex_hexDigit _ (Nat.mod_lt _ (by decide))

theorem charOf_toNat (c : Char) : charOf c.toNat = some c := by
  have hv := c.valid
  simp only [UInt32.isValidChar, Nat.isValidChar] at hv
  have : c.toNat = c.val.toNat := rfl
  unfold charOf
  rw [if_pos (by simp only [Bool.or_eq_true, Bool.and_eq_true, decide_eq_true_eq]; omega), Char.ofNat_toNat]

/-! ### `unesc`: one encoder token decodes to one character, whatever follows -/

/-- the encoded form `e` is read as the single character `c`, independent of what follows -/
def Good (e : List Char) (c : Char) : Prop := ∀ rest, unesc .body (e ++ rest) = consO c (unesc .body rest)

theorem unesc_raw {c : Char} (h1 : c ≠ BS) (h2 : c ≠ NUL) (rest : List Char) :
    unesc .body (c :: rest) = consO c (unesc .body rest) := by
  simp [unesc, h1, h2]

theorem good_raw {c : Char} (h1 : c ≠ BS) (h2 : c ≠ NUL) : Good [c] c := fun rest => unesc_raw h1 h2 rest

theorem good_bs : Good [BS, BS] BS := by intro rest; simp [unesc]
theorem good_sq : Good [BS, SQ] SQ := by intro rest; simp [unesc]
theorem good_dq : Good [BS, DQ] DQ := by intro rest; simp [unesc]
theorem good_n : Good [BS, 'n'] LF := by intro rest; simp (decide := true) [unesc]
theorem good_r : Good [BS, 'r'] CR := by intro rest; simp (decide := true) [unesc]
theorem good_t : Good [BS, 't'] TAB := by intro rest; simp (decide := true) [unesc]

theorem unesc_hex_step (m acc n : Nat) (rest : List Char) :
    unesc (.hex (m + 1) acc) (hexDigit (n % 16) :: rest) = unesc (.hex m (acc * 16 + n % 16)) rest := by
  simp [unesc, unhex_hexDigit_mod]

theorem unesc_hex_last (acc n : Nat) (rest : List Char) :
    unesc (.hex 0 acc) (hexDigit (n % 16) :: rest)
      = (charOf (acc * 16 + n % 16)).bind fun ch => consO ch (unesc .body rest) := by
  simp [unesc, unhex_hexDigit_mod]

theorem good_x (c : Char) (h : c.toNat < 256) : Good (BS :: 'x' :: hex2 c.toNat) c := by
  intro rest
  have e : (0 * 16 + c.toNat / 16 % 16) * 16 + c.toNat % 16 = c.toNat := by omega
  show unesc .body (BS :: 'x' :: hexDigit (c.toNat / 16 % 16) :: hexDigit (c.toNat % 16) :: rest) = _
  have h0 : ∀ r, unesc .body (BS :: 'x' :: r) = unesc (.hex 1 0) r := by intro r; simp (decide := true) [unesc]
  rw [h0, unesc_hex_step, unesc_hex_last, e, charOf_toNat]; rfl

theorem good_u (c : Char) (h : c.toNat < 65536) : Good (BS :: 'u' :: hex4 c.toNat) c := by
  intro rest
  have e : (((0 * 16 + c.toNat / 4096 % 16) * 16 + c.toNat / 256 % 16) * 16 + c.toNat / 16 % 16) * 16 + c.toNat % 16
      = c.toNat := by omega
  show unesc .body (BS :: 'u' :: hexDigit (c.toNat / 4096 % 16) :: hexDigit (c.toNat / 256 % 16) ::
    hexDigit (c.toNat / 16 % 16) :: hexDigit (c.toNat % 16) :: rest) = _
  have h0 : ∀ r, unesc .body (BS :: 'u' :: r) = unesc (.hex 3 0) r := by intro r; simp (decide := true) [unesc]
  rw [h0, unesc_hex_step, unesc_hex_step, unesc_hex_step, unesc_hex_last, e, charOf_toNat]; rfl

theorem good_U (c : Char) : Good (BS :: 'U' :: hex8 c.toNat) c := by
  intro rest
  have hv := c.valid
  simp only [UInt32.isValidChar, Nat.isValidChar] at hv
  have hc : c.toNat = c.val.toNat := rfl
  have e : (((((((0 * 16 + c.toNat / 268435456 % 16) * 16 + c.toNat / 16777216 % 16) * 16 + c.toNat / 1048576 % 16) * 16
      + c.toNat / 65536 % 16) * 16 + c.toNat / 4096 % 16) * 16 + c.toNat / 256 % 16) * 16 + c.toNat / 16 % 16) * 16
      + c.toNat % 16 = c.toNat := by omega
  show unesc .body (BS :: 'U' :: hexDigit (c.toNat / 268435456 % 16) :: hexDigit (c.toNat / 16777216 % 16) ::
    hexDigit (c.toNat / 1048576 % 16) :: hexDigit (c.toNat / 65536 % 16) :: hexDigit (c.toNat / 4096 % 16) ::
    hexDigit (c.toNat / 256 % 16) :: hexDigit (c.toNat / 16 % 16) :: hexDigit (c.toNat % 16) :: rest) = _
  have h0 : ∀ r, unesc .body (BS :: 'U' :: r) = unesc (.hex 7 0) r := by intro r; simp (decide := true) [unesc]
  rw [h0, unesc_hex_step, unesc_hex_step, unesc_hex_step, unesc_hex_step, unesc_hex_step, unesc_hex_step,
    unesc_hex_step, unesc_hex_last, e, charOf_toNat]; rfl

theorem good_hexEscape (c : Char) : Good (hexEscape c.toNat) c := by
  unfold hexEscape
  split
  · exact good_x c ‹_›
  · split
    · exact good_u c ‹_›
    · exact good_U c

/-! ### `findClose` -/

/-- prepend `l` to the body part of a `findClose` answer -/
def pre (l : List Char) (o : Option (List Char × List Char)) : Option (List Char × List Char) :=
  o.map (fun p => (l ++ p.1, p.2))

theorem pre_nil (o) : pre [] o = o := by cases o <;> simp [pre]
theorem pre_pre (l1 l2 o) : pre l1 (pre l2 o) = pre (l1 ++ l2) o := by cases o <;> simp [pre]

theorem findClose_esc (q d : Char) (rest : List Char) :
    findClose q false (BS :: d :: rest) = pre [BS, d] (findClose q false rest) := by
  cases h : findClose q false rest <;> simp [findClose, pre, h]

theorem findClose_raw {q c : Char} (h1 : c ≠ BS) (h2 : c ≠ q) (rest : List Char) :
    findClose q false (c :: rest) = pre [c] (findClose q false rest) := by
  simp [findClose, h1, h2, pre]

theorem findClose_q {q : Char} (h1 : q ≠ BS) (rest : List Char) (h : startsQQ q rest = false) :
    findClose q false (q :: rest) = pre [q] (findClose q false rest) := by
  simp [findClose, h1, h, pre]

theorem plainB_ne {h : Char} (hp : plainB h = true) : h ≠ BS ∧ h ≠ SQ ∧ h ≠ DQ ∧ h ≠ CR ∧ h ≠ NUL ∧ h ≠ LF := by
  simp [plainB] at hp
  obtain ⟨⟨⟨⟨⟨a, b⟩, c⟩, d⟩, e⟩, f⟩ := hp
  exact ⟨a, b, c, d, e, f⟩

theorem findClose_plain {q : Char} (hq : q = SQ ∨ q = DQ) (l rest : List Char) (hl : l.all plainB = true) :
    findClose q false (l ++ rest) = pre l (findClose q false rest) := by
  induction l with
  | nil => simp [pre_nil]
  | cons c l ih =>
    simp only [List.all_cons, Bool.and_eq_true] at hl
    have hc := plainB_ne hl.1
    have hne : c ≠ q := by rcases hq with rfl | rfl; exact hc.2.1; exact hc.2.2.1
    rw [List.cons_append, findClose_raw hc.1 hne, ih hl.2, pre_pre]; rfl

/-! ### `hasTriple` -/

theorem startsQQ_append {q : Char} (X Y : List Char) (h : 2 ≤ X.length) : startsQQ q (X ++ Y) = startsQQ q X := by
  match X, h with
  | a :: b :: X', _ => rfl

theorem startsQQ_append_true {q : Char} (X Y : List Char) (h : startsQQ q X = true) : startsQQ q (X ++ Y) = true := by
  match X, h with
  | a :: b :: X', h => exact h

theorem hasTriple_suffix {q : Char} (l X : List Char) (h : hasTriple q (l ++ X) = false) : hasTriple q X = false := by
  induction l with
  | nil => exact h
  | cons c l ih =>
    simp only [List.cons_append, hasTriple, Bool.or_eq_false_iff] at h
    exact ih h.2

theorem hasTriple_prefix {q : Char} (X Y : List Char) (h : hasTriple q (X ++ Y) = false) : hasTriple q X = false := by
  induction X with
  | nil => rfl
  | cons c X ih =>
    simp only [List.cons_append, hasTriple, Bool.or_eq_false_iff] at h ⊢
    refine ⟨?_, ih h.2⟩
    cases hs : startsQQ q X with
    | false => simp
    | true => rw [startsQQ_append_true X Y hs] at h; exact h.1

/-- a non-quote character separates runs of quotes -/
theorem hasTriple_sep {q c : Char} (hc : c ≠ q) (X Y : List Char) :
    hasTriple q (X ++ c :: Y) = (hasTriple q X || hasTriple q (c :: Y)) := by
  induction X with
  | nil => simp [hasTriple]
  | cons a X ih =>
    have hs : startsQQ q (X ++ c :: Y) = startsQQ q X := by
      match X with
      | [] => cases Y <;> simp [startsQQ, hc]
      | [x] => simp [startsQQ, hc]
      | x :: y :: X' => rfl
    simp only [List.cons_append, hasTriple, ih, hs, Bool.or_assoc]

/-- no triple in `X`, `X` does not end with `q`: appending two quotes makes no triple -/
theorem hasTriple_two {q : Char} (X : List Char) (h : hasTriple q X = false) (hl : X.getLast? ≠ some q) :
    hasTriple q (X ++ [q, q]) = false := by
  induction X with
  | nil => simp [hasTriple, startsQQ]
  | cons c X ih =>
    simp only [hasTriple, Bool.or_eq_false_iff] at h
    have hl' : X.getLast? ≠ some q := by
      cases X with
      | nil => simp
      | cons x X' => simpa [List.getLast?_cons_cons] using hl
    simp only [List.cons_append, hasTriple, Bool.or_eq_false_iff]
    refine ⟨?_, ih h.2 hl'⟩
    match X, h, hl with
    | [], _, hl => simpa [startsQQ] using hl
    | [x], _, hl =>
      have : x ≠ q := by simpa using hl
      simp [startsQQ, this]
    | x :: y :: X', h, _ => exact h.1


/-! ### the two main inductions over the encoded string -/

theorem unesc_flatMap (enc : Char → List Char) (hg : ∀ c, Good (enc c) c) (s rest : List Char) :
    unesc .body (s.flatMap enc ++ rest) = (unesc .body rest).map (s ++ ·) := by
  induction s with
  | nil => cases h : unesc .body rest <;> simp [h]
  | cons c s ih =>
    rw [List.flatMap_cons, List.append_assoc, hg c, ih]
    cases h : unesc .body rest <;> simp [consO]

/-- how `findClose` passes over one token -/
def FTok (q c : Char) (e : List Char) : Prop :=
  (e = [c] ∧ c ≠ BS) ∨ (∀ rest, findClose q false (e ++ rest) = pre e (findClose q false rest))

/-- The tokenizer walks over the whole encoded text as long as no raw quote is followed by two more quote characters;
`T1` (at least two characters) is the part of the tail that the look-ahead can reach. -/
theorem findClose_flatMap {q : Char} (hq : q ≠ BS) (enc : Char → List Char) (ht : ∀ c, FTok q c (enc c))
    (s T1 T2 : List Char) (h3 : hasTriple q (s.flatMap enc ++ T1) = false) (h2 : 2 ≤ T1.length) :
    findClose q false (s.flatMap enc ++ (T1 ++ T2)) = pre (s.flatMap enc) (findClose q false (T1 ++ T2)) := by
  induction s with
  | nil => simp [pre_nil]
  | cons c s ih =>
    rw [List.flatMap_cons, List.append_assoc] at h3
    have h3' := hasTriple_suffix _ _ h3
    rw [List.flatMap_cons, List.append_assoc]
    rcases ht c with ⟨he, hc⟩ | hf
    · rw [he] at h3 ⊢
      simp only [List.cons_append, List.nil_append, hasTriple, Bool.or_eq_false_iff] at h3
      by_cases hcq : c = q
      · subst hcq
        have hs : startsQQ c (s.flatMap enc ++ T1) = false := by simpa using h3.1
        have hs' : startsQQ c (s.flatMap enc ++ (T1 ++ T2)) = false := by
          rw [← List.append_assoc, startsQQ_append _ _ (by simp; omega)]; exact hs
        rw [List.singleton_append, findClose_q hq _ hs', ih h3', pre_pre]
      · rw [List.singleton_append, findClose_raw hc hcq, ih h3', pre_pre]
    · rw [hf, ih h3', pre_pre]

/-! ### newline normalisation leaves clean text alone -/

def cleanB (c : Char) : Bool := c != CR && c != NUL

theorem normNL_clean (l : List Char) (h : l.all cleanB = true) : normNL false l = l := by
  induction l with
  | nil => rfl
  | cons c l ih =>
    simp only [List.all_cons, Bool.and_eq_true] at h
    have hc : c ≠ CR := by have := h.1; simp [cleanB] at this; exact this.1
    simp [normNL, hc, ih h.2]

theorem cleanB_of_plainB {c : Char} (h : plainB c = true) : cleanB c = true := by
  have := plainB_ne h; simp [cleanB, this.2.2.2.1, this.2.2.2.2.1]

theorem clean_of_plain (l : List Char) (h : l.all plainB = true) : l.all cleanB = true := by
  rw [List.all_eq_true] at h ⊢
  intro x hx; exact cleanB_of_plainB (h x hx)

theorem clean_flatMap (enc : Char → List Char) (hc : ∀ c, (enc c).all cleanB = true) (s : List Char) :
    (s.flatMap enc).all cleanB = true := by
  induction s with
  | nil => rfl
  | cons c s ih => rw [List.flatMap_cons, List.all_append, hc c, ih]; rfl

/-! ### shapes of the tokens of `_escape_char` -/

/-- letters that follow the backslash in the escapes `unicode_escape` produces -/
def escLetterA (d : Char) : Bool := d == BS || d == 't' || d == 'n' || d == 'r' || d == 'x' || d == 'u' || d == 'U'

theorem escLetterA_facts {d : Char} (h : escLetterA d = true) : d ≠ SQ ∧ d ≠ DQ ∧ cleanB d = true := by
  simp only [escLetterA, Bool.or_eq_true, beq_iff_eq] at h
  rcases h with ((((((rfl | rfl) | rfl) | rfl) | rfl) | rfl) | rfl) <;> decide

theorem hexEscape_shape (n : Nat) :
    ∃ d hs, (d = 'x' ∨ d = 'u' ∨ d = 'U') ∧ hexEscape n = BS :: d :: hs ∧ hs.all plainB = true := by
  unfold hexEscape
  split
  · exact ⟨'x', hex2 n, .inl rfl, rfl, by simp [hex2, plainB_hexDigit_mod]⟩
  · split
    · exact ⟨'u', hex4 n, .inr (.inl rfl), rfl, by simp [hex4, plainB_hexDigit_mod]⟩
    · exact ⟨'U', hex8 n, .inr (.inr rfl), rfl, by simp [hex8, plainB_hexDigit_mod]⟩

/-- what one token of the encoder looks like -/
def ShapeA (c : Char) (e : List Char) : Prop :=
  (e = [c] ∧ c ≠ BS ∧ c ≠ NUL ∧ c ≠ CR) ∨
  (∃ d hs, escLetterA d = true ∧ e = BS :: d :: hs ∧ hs.all plainB = true ∧ Good e c)

theorem toNat_ge_ne_NUL {c : Char} (h : ¬ c.toNat < 32) : c ≠ NUL := by
  intro e; subst e; exact h (by decide)
theorem toNat_ge_ne_CR {c : Char} (h : ¬ c.toNat < 32) : c ≠ CR := by
  intro e; subst e; exact h (by decide)

theorem unicodeEscape_shape (c : Char) : ShapeA c (unicodeEscape c) := by
  unfold unicodeEscape
  by_cases h1 : c = BS
  · subst h1; exact .inr ⟨BS, [], by decide, rfl, rfl, good_bs⟩
  by_cases h2 : c = TAB
  · subst h2; exact .inr ⟨'t', [], by decide, rfl, rfl, good_t⟩
  by_cases h3 : c = LF
  · subst h3; exact .inr ⟨'n', [], by decide, rfl, rfl, good_n⟩
  by_cases h4 : c = CR
  · subst h4; exact .inr ⟨'r', [], by decide, rfl, rfl, good_r⟩
  rw [if_neg (by simpa using h1), if_neg (by simpa using h2), if_neg (by simpa using h3), if_neg (by simpa using h4)]
  split
  · obtain ⟨d, hs, hd, he, hp⟩ := hexEscape_shape c.toNat
    refine .inr ⟨d, hs, ?_, he, hp, good_hexEscape c⟩
    rcases hd with rfl | rfl | rfl <;> decide
  · next h5 =>
    have h5' : ¬ c.toNat < 32 := by
      intro hh; apply h5; simp [hh]
    exact .inl ⟨rfl, h1, toNat_ge_ne_NUL h5', toNat_ge_ne_CR h5'⟩

theorem escapeChar_shape (k : Cls) (hCR : k.printable CR = false) (hNUL : k.printable NUL = false) (c : Char) :
    ShapeA c (escapeChar k c) := by
  unfold escapeChar
  split
  · next h =>
    have : c = LF ∨ c = TAB := by simpa using h
    rcases this with rfl | rfl
    · exact .inl ⟨rfl, by decide, by decide, by decide⟩
    · exact .inl ⟨rfl, by decide, by decide, by decide⟩
  · split
    · exact unicodeEscape_shape c
    · next h =>
      simp only [Bool.or_eq_true, beq_iff_eq, Bool.not_eq_true', not_or, Bool.not_eq_false] at h
      refine .inl ⟨rfl, h.1, ?_, ?_⟩
      · intro e; subst e; rw [hNUL] at h; exact absurd h.2 (by decide)
      · intro e; subst e; rw [hCR] at h; exact absurd h.2 (by decide)

theorem shapeA_good {c e} (h : ShapeA c e) : Good e c := by
  rcases h with ⟨rfl, h1, h2, _⟩ | ⟨_, _, _, _, _, hg⟩
  · exact good_raw h1 h2
  · exact hg

theorem shapeA_clean {c e} (h : ShapeA c e) : e.all cleanB = true := by
  rcases h with ⟨rfl, _, h2, h3⟩ | ⟨d, hs, hd, rfl, hp, _⟩
  · simp [cleanB, h2, h3]
  · simp only [List.all_cons, clean_of_plain hs hp, (escLetterA_facts hd).2.2, Bool.and_true]; decide

theorem shapeA_ftok {q : Char} (hq : q = SQ ∨ q = DQ) {c e} (h : ShapeA c e) : FTok q c e := by
  rcases h with ⟨rfl, h1, _, _⟩ | ⟨d, hs, _, rfl, hp, _⟩
  · exact .inl ⟨rfl, h1⟩
  · refine .inr fun rest => ?_
    rw [List.cons_append, List.cons_append, findClose_esc, findClose_plain hq hs rest hp, pre_pre]; rfl

theorem shapeA_ne_nil {c e} (h : ShapeA c e) : e ≠ [] := by
  rcases h with ⟨rfl, _⟩ | ⟨_, _, _, rfl, _⟩ <;> simp

/-- the last character of a token is a quote only if the token is that quote, raw -/
theorem shapeA_last {q : Char} (hq : q = SQ ∨ q = DQ) {c e} (h : ShapeA c e) (hl : e.getLast? = some q) :
    c = q ∧ e = [q] := by
  rcases h with ⟨rfl, _⟩ | ⟨d, hs, hd, rfl, hp, _⟩
  · simp at hl; subst hl; exact ⟨rfl, rfl⟩
  · exfalso
    have hd' := escLetterA_facts hd
    match hs, hp with
    | [], _ =>
      simp at hl; subst hl
      rcases hq with e | e
      · exact hd'.1 e
      · exact hd'.2.1 e
    | x :: hs', hp =>
      have hmem : q ∈ x :: hs' := by
        have : (x :: hs').getLast? = some q := by simpa [List.getLast?_cons_cons] using hl
        exact List.mem_of_getLast? this
      have := plainB_ne ((List.all_eq_true.mp hp) q hmem)
      rcases hq with e | e
      · exact this.2.1 e
      · exact this.2.2.1 e


/-! ### the branch of `repr_str_multiline` that keeps the text and picks a usable quote -/

theorem findClose_closing {q : Char} (hq : q ≠ BS) : findClose q false [q, q, q] = some ([], []) := by
  simp [findClose, hq, startsQQ]

theorem flatMap_last_quote {q : Char} (hq : q = SQ ∨ q = DQ) (enc : Char → List Char) (hs : ∀ c, ShapeA c (enc c))
    (s : List Char) (hl : (s.flatMap enc).getLast? = some q) :
    ∃ s0, s = s0 ++ [q] ∧ s.flatMap enc = s0.flatMap enc ++ [q] := by
  rcases List.eq_nil_or_concat s with rfl | ⟨s0, c, rfl⟩
  · simp at hl
  · rw [List.concat_eq_append, List.flatMap_append] at hl ⊢
    simp only [List.flatMap_cons, List.flatMap_nil, List.append_nil] at hl ⊢
    have hne := shapeA_ne_nil (hs c)
    rw [List.getLast?_append] at hl
    have hl' : (enc c).getLast? = some q := by
      cases h : (enc c).getLast? with
      | none => exact absurd (List.getLast?_eq_none_iff.mp h) hne
      | some x => rw [h] at hl; simpa using hl
    obtain ⟨rfl, he⟩ := shapeA_last hq (hs c) hl'
    exact ⟨s0, rfl, by rw [he]⟩

theorem quote_clean {q : Char} (hq : q = SQ ∨ q = DQ) : cleanB q = true := by rcases hq with rfl | rfl <;> decide
theorem quote_ne_BS {q : Char} (hq : q = SQ ∨ q = DQ) : q ≠ BS := by rcases hq with rfl | rfl <;> decide

/-- reading of a literal `qqq body qqq` whose body is clean and is passed over by the tokenizer -/
theorem decodeTriple_of {q : Char} (hq : q = SQ ∨ q = DQ) (body : List Char) (hc : body.all cleanB = true)
    (hf : findClose q false (body ++ [q, q, q]) = some (body, [])) :
    decodeTriple ([q, q, q] ++ body ++ [q, q, q]) = unescape body := by
  have hcl : ([q, q, q] ++ body ++ [q, q, q]).all cleanB = true := by
    simp [List.all_append, hc, quote_clean hq]
  unfold decodeTriple
  rw [normNL_clean _ hcl]
  have hqq : (q == SQ || q == DQ) = true := by rcases hq with rfl | rfl <;> decide
  simp only [List.cons_append, List.nil_append, hqq, beq_self_eq_true, Bool.and_self, if_true, hf]

theorem LF_mem_flatMap (enc : Char → List Char) (h : ∀ c, LF ∈ enc c → c = LF) (s : List Char)
    (hm : LF ∈ s.flatMap enc) : LF ∈ s := by
  obtain ⟨c, hc, hl⟩ := List.mem_flatMap.mp hm
  rw [← h c hl]; exact hc

theorem escLetterA_ne_LF {d : Char} (h : escLetterA d = true) : d ≠ LF := by
  simp only [escLetterA, Bool.or_eq_true, beq_iff_eq] at h
  rcases h with ((((((rfl | rfl) | rfl) | rfl) | rfl) | rfl) | rfl) <;> decide

theorem shapeA_LF {c e} (h : ShapeA c e) (hl : LF ∈ e) : c = LF := by
  rcases h with ⟨rfl, _⟩ | ⟨d, hs, hd, rfl, hp, _⟩
  · simp at hl; exact hl.symm
  · exfalso
    simp only [List.mem_cons] at hl
    rcases hl with e | e | e
    · exact absurd e (by decide)
    · exact escLetterA_ne_LF hd e.symm
    · exact (plainB_ne (List.all_eq_true.mp hp LF e)).2.2.2.2.2 rfl

/-- `out` is `qqq body qqq` for a quote `q`, the body has no raw `\r`/NUL, the tokenizer started after the opening
quotes stops exactly at the final three characters, and the body decodes to `s`. -/
def WellQuoted (out s : List Char) : Prop :=
  ∃ q body, (q = SQ ∨ q = DQ) ∧ out = [q, q, q] ++ body ++ [q, q, q] ∧ body.all cleanB = true
    ∧ findClose q false (body ++ [q, q, q]) = some (body, []) ∧ unescape body = some s ∧ (LF ∈ body → LF ∈ s)

theorem WellQuoted.decode {out s : List Char} (h : WellQuoted out s) : decodeTriple out = some s := by
  obtain ⟨q, body, hq, rfl, hc, hf, hu, _⟩ := h
  rw [decodeTriple_of hq body hc hf, hu]

theorem plain_wq (k : Cls) (hCR : k.printable CR = false) (hNUL : k.printable NUL = false)
    (s : List Char) (hs : s ≠ []) (first last : Char) (hf : first = SQ ∨ first = DQ) (hl : last = SQ ∨ last = DQ)
    (h1 : hasTriple first (s.flatMap (escapeChar k)) = false) (h2 : hasTriple last (s.flatMap (escapeChar k)) = false) :
    WellQuoted (plainQuoted (s.flatMap (escapeChar k)) first last) s := by
  have hsh := escapeChar_shape k hCR hNUL
  have hcleanE := clean_flatMap (escapeChar k) (fun c => shapeA_clean (hsh c)) s
  unfold plainQuoted
  generalize hq' : (if lastD (s.flatMap (escapeChar k)) == first then last else first) = q
  have hq : q = SQ ∨ q = DQ := by rw [← hq']; split <;> assumption
  have h3 : hasTriple q (s.flatMap (escapeChar k)) = false := by rw [← hq']; split <;> assumption
  have hqb := quote_ne_BS hq
  have hft : ∀ c, FTok q c (escapeChar k c) := fun c => shapeA_ftok hq (hsh c)
  have hgood : ∀ c, Good (escapeChar k c) c := fun c => shapeA_good (hsh c)
  simp only []
  by_cases hfix : q = lastD (s.flatMap (escapeChar k))
  · -- the text ends with the chosen quote: `...q` becomes `...\q`
    rw [if_pos (by simpa using hfix)]
    have hne : s.flatMap (escapeChar k) ≠ [] := by
      rcases List.exists_cons_of_ne_nil hs with ⟨c, s', rfl⟩
      rw [List.flatMap_cons]; intro h
      exact shapeA_ne_nil (hsh c) (List.append_eq_nil_iff.mp h).1
    have hlast : (s.flatMap (escapeChar k)).getLast? = some q := by
      rw [hfix, lastD, List.getLastD_eq_getLast?]
      cases h : (s.flatMap (escapeChar k)).getLast? with
      | none => exact absurd (List.getLast?_eq_none_iff.mp h) hne
      | some x => rfl
    obtain ⟨s0, rfl, hE⟩ := flatMap_last_quote hq (escapeChar k) hsh s hlast
    rw [← hfix, hE, List.dropLast_concat]
    rw [hE] at h3 hcleanE
    have hE0 : hasTriple q (s0.flatMap (escapeChar k)) = false := hasTriple_prefix _ _ h3
    have hT1 : hasTriple q (s0.flatMap (escapeChar k) ++ [BS, q]) = false := by
      rw [hasTriple_sep (Ne.symm hqb), hE0]; simp [hasTriple, startsQQ, Ne.symm hqb]
    have hfc := findClose_flatMap hqb (escapeChar k) hft s0 [BS, q] [q, q, q] hT1 (by simp)
    have hfc' : findClose q false ((s0.flatMap (escapeChar k) ++ [BS, q]) ++ [q, q, q])
        = some (s0.flatMap (escapeChar k) ++ [BS, q], []) := by
      rw [List.append_assoc, hfc]
      show pre _ (findClose q false (BS :: q :: [q, q, q])) = _
      rw [findClose_esc, findClose_closing hqb]; simp [pre]
    have hcl : (s0.flatMap (escapeChar k) ++ [BS, q]).all cleanB = true := by
      rw [List.all_append] at hcleanE ⊢
      simp only [Bool.and_eq_true] at hcleanE
      simp [hcleanE.1, quote_clean hq]; decide
    have hLF : LF ∈ s0.flatMap (escapeChar k) ++ [BS, q] → LF ∈ s0 ++ [q] := by
      intro hm
      simp only [List.mem_append, List.mem_cons, List.not_mem_nil, or_false] at hm
      rcases hm with hm | hm | hm
      · exact List.mem_append_left _ (LF_mem_flatMap _ (fun c => shapeA_LF (hsh c)) s0 hm)
      · exact absurd hm (by decide)
      · simp [← hm]
    refine ⟨q, _, hq, rfl, hcl, hfc', ?_, hLF⟩
    unfold unescape
    rw [unesc_flatMap _ hgood]
    rcases hq with rfl | rfl
    · have := good_sq []; simp only [List.append_nil] at this; rw [this]; simp [unesc, consO]
    · have := good_dq []; simp only [List.append_nil] at this; rw [this]; simp [unesc, consO]
  · rw [if_neg (by simpa using hfix)]
    have hlast : (s.flatMap (escapeChar k)).getLast? ≠ some q := by
      intro h; apply hfix; rw [lastD, List.getLastD_eq_getLast?, h]; rfl
    have hT1 := hasTriple_two _ h3 hlast
    have hfc := findClose_flatMap hqb (escapeChar k) hft s [q, q] [q] hT1 (by simp)
    have hfc' : findClose q false (s.flatMap (escapeChar k) ++ [q, q, q]) = some (s.flatMap (escapeChar k), []) := by
      have : [q, q, q] = [q, q] ++ [q] := rfl
      rw [this, hfc]
      show pre _ (findClose q false [q, q, q]) = _
      rw [findClose_closing hqb]; simp [pre]
    refine ⟨q, _, hq, rfl, hcleanE, hfc', ?_, LF_mem_flatMap _ (fun c => shapeA_LF (hsh c)) s⟩
    unfold unescape
    have := unesc_flatMap _ hgood s []
    simp only [List.append_nil] at this
    rw [this]; simp [unesc]


/-! ### the `repr` branch: three `str.replace` calls over the tokens of `repr` -/

theorem replace2_cons_ne (a b : Char) (rep : List Char) {c : Char} (h : c ≠ a) (l : List Char) :
    replace2 a b rep (c :: l) = c :: replace2 a b rep l := by
  cases l with
  | nil => simp [replace2]
  | cons d l => simp [replace2, h]

theorem replace2_pass (a b : Char) (rep : List Char) (l rest : List Char) (h : ∀ x ∈ l, x ≠ a) :
    replace2 a b rep (l ++ rest) = l ++ replace2 a b rep rest := by
  induction l with
  | nil => rfl
  | cons c l ih =>
    rw [List.cons_append, replace2_cons_ne a b rep (h c (by simp)), ih (fun x hx => h x (by simp [hx]))]; rfl

theorem replace2_hit (a b : Char) (rep l : List Char) : replace2 a b rep (a :: b :: l) = rep ++ replace2 a b rep l := by
  simp [replace2]

theorem replace2_miss (a b : Char) (rep : List Char) {d : Char} (h1 : d ≠ b) (h2 : d ≠ a) (l : List Char) :
    replace2 a b rep (a :: d :: l) = a :: d :: replace2 a b rep l := by
  rw [replace2]; simp only [h1, beq_self_eq_true, Bool.true_and, beq_iff_eq, if_false]
  rw [replace2_cons_ne a b rep h2]

theorem flatMap_hom (f : List Char → List Char) (enc enc' : Char → List Char)
    (h : ∀ c rest, f (enc c ++ rest) = enc' c ++ f rest) (s rest : List Char) :
    f (s.flatMap enc ++ rest) = s.flatMap enc' ++ f rest := by
  induction s with
  | nil => rfl
  | cons c s ih => rw [List.flatMap_cons, List.flatMap_cons, List.append_assoc, h, ih, List.append_assoc]

/-- letters after the backslash in `repr`'s escapes other than `\\` and `\n` -/
def escLetterC (d : Char) : Bool := d == SQ || d == 't' || d == 'r' || d == 'x' || d == 'u' || d == 'U'

theorem escLetterC_facts {d : Char} (h : escLetterC d = true) : d ≠ BS ∧ d ≠ 'n' ∧ d ≠ NUL ∧ cleanB d = true := by
  simp only [escLetterC, Bool.or_eq_true, beq_iff_eq] at h
  rcases h with (((((rfl | rfl) | rfl) | rfl) | rfl) | rfl) <;> decide

/-- what one token of `repr` (quote `'`) looks like -/
def ShapeC (c : Char) (e : List Char) : Prop :=
  (e = [c] ∧ c ≠ BS ∧ c ≠ SQ ∧ c ≠ NUL ∧ c ≠ CR) ∨
  (∃ d hs, escLetterC d = true ∧ e = BS :: d :: hs ∧ hs.all plainB = true ∧ Good e c)

def ShapeB (c : Char) (e : List Char) : Prop :=
  (c = BS ∧ e = [BS, BS]) ∨ (c = LF ∧ e = [BS, 'n']) ∨ (c ≠ BS ∧ c ≠ LF ∧ ShapeC c e)

theorem reprChar_shape (k : Cls) (c : Char) : ShapeB c (reprChar k SQ c) := by
  unfold reprChar
  by_cases h1 : c = BS
  · subst h1; exact .inl ⟨rfl, rfl⟩
  by_cases h0 : c = SQ
  · subst h0; exact .inr (.inr ⟨by decide, by decide, .inr ⟨SQ, [], by decide, rfl, rfl, good_sq⟩⟩)
  by_cases h2 : c = TAB
  · subst h2; exact .inr (.inr ⟨by decide, by decide, .inr ⟨'t', [], by decide, rfl, rfl, good_t⟩⟩)
  by_cases h3 : c = LF
  · subst h3; exact .inr (.inl ⟨rfl, rfl⟩)
  by_cases h4 : c = CR
  · subst h4; exact .inr (.inr ⟨by decide, by decide, .inr ⟨'r', [], by decide, rfl, rfl, good_r⟩⟩)
  rw [if_neg (by simp [h0, h1]), if_neg (by simpa using h2), if_neg (by simpa using h3), if_neg (by simpa using h4)]
  refine .inr (.inr ⟨h1, h3, ?_⟩)
  split
  · next h5 =>
    have hlt : c.toNat < 256 := by
      simp only [Bool.or_eq_true, decide_eq_true_eq, beq_iff_eq] at h5; omega
    exact .inr ⟨'x', hex2 c.toNat, by decide, rfl, by simp [hex2, plainB_hexDigit_mod], good_x c hlt⟩
  · next h5 =>
    have h5' : ¬ c.toNat < 32 := by intro hh; apply h5; simp [hh]
    split
    · exact .inl ⟨rfl, h1, h0, toNat_ge_ne_NUL h5', toNat_ge_ne_CR h5'⟩
    · split
      · exact .inl ⟨rfl, h1, h0, toNat_ge_ne_NUL h5', toNat_ge_ne_CR h5'⟩
      · obtain ⟨d, hs, hd, he, hp⟩ := hexEscape_shape c.toNat
        refine .inr ⟨d, hs, ?_, he, hp, good_hexEscape c⟩
        rcases hd with rfl | rfl | rfl <;> decide

/-- the token after the three replacements -/
def tokB (k : Cls) (c : Char) : List Char :=
  if c == BS then [BS, BS] else if c == LF then [LF] else reprChar k SQ c

def tok1 (k : Cls) (c : Char) : List Char := if c == BS then [NUL] else reprChar k SQ c
def tok2 (k : Cls) (c : Char) : List Char := if c == BS then [NUL] else if c == LF then [LF] else reprChar k SQ c

theorem plain_ne_BS {hs : List Char} (hp : hs.all plainB = true) : ∀ x ∈ hs, x ≠ BS :=
  fun x hx => (plainB_ne (List.all_eq_true.mp hp x hx)).1
theorem plain_ne_NUL {hs : List Char} (hp : hs.all plainB = true) : ∀ x ∈ hs, x ≠ NUL :=
  fun x hx => (plainB_ne (List.all_eq_true.mp hp x hx)).2.2.2.2.1

theorem step1 (k : Cls) (c : Char) (rest : List Char) :
    replace2 BS BS [NUL] (reprChar k SQ c ++ rest) = tok1 k c ++ replace2 BS BS [NUL] rest := by
  unfold tok1
  rcases reprChar_shape k c with ⟨rfl, he⟩ | ⟨rfl, he⟩ | ⟨h1, _, ⟨he, _⟩ | ⟨d, hs, hd, he, hp, _⟩⟩
  · rw [he]; exact replace2_hit _ _ _ _
  · rw [he, if_neg (by decide)]; exact replace2_miss _ _ _ (by decide) (by decide) _
  · rw [he, if_neg (by simpa using h1)]; exact replace2_cons_ne _ _ _ h1 _
  · have hd' := escLetterC_facts hd
    rw [he, if_neg (by simpa using h1), List.cons_append, List.cons_append, replace2_miss _ _ _ hd'.1 hd'.1,
      replace2_pass _ _ _ _ _ (plain_ne_BS hp)]; rfl

theorem step2 (k : Cls) (c : Char) (rest : List Char) :
    replace2 BS 'n' [LF] (tok1 k c ++ rest) = tok2 k c ++ replace2 BS 'n' [LF] rest := by
  unfold tok1 tok2
  rcases reprChar_shape k c with ⟨rfl, he⟩ | ⟨rfl, he⟩ | ⟨h1, h3, ⟨he, _⟩ | ⟨d, hs, hd, he, hp, _⟩⟩
  · rw [if_pos (by decide), if_pos (by decide)]; exact replace2_cons_ne _ _ _ (by decide) _
  · rw [if_neg (by decide), if_neg (by decide), if_pos (by decide), he]; exact replace2_hit _ _ _ _
  · rw [if_neg (by simpa using h1), if_neg (by simpa using h1), if_neg (by simpa using h3), he]
    exact replace2_cons_ne _ _ _ h1 _
  · have hd' := escLetterC_facts hd
    rw [if_neg (by simpa using h1), if_neg (by simpa using h1), if_neg (by simpa using h3), he,
      List.cons_append, List.cons_append, replace2_miss _ _ _ hd'.2.1 hd'.1, replace2_pass _ _ _ _ _ (plain_ne_BS hp)]
    rfl

theorem replace1_id (a : Char) (rep l : List Char) (h : ∀ x ∈ l, x ≠ a) : replace1 a rep l = l := by
  unfold replace1
  induction l with
  | nil => rfl
  | cons c l ih =>
    rw [List.flatMap_cons, if_neg (by simpa using h c (by simp)), ih (fun x hx => h x (by simp [hx]))]; rfl

theorem replace1_append (a : Char) (rep l1 l2 : List Char) :
    replace1 a rep (l1 ++ l2) = replace1 a rep l1 ++ replace1 a rep l2 := by
  unfold replace1; exact List.flatMap_append

theorem step3 (k : Cls) (c : Char) (rest : List Char) :
    replace1 NUL [BS, BS] (tok2 k c ++ rest) = tokB k c ++ replace1 NUL [BS, BS] rest := by
  rw [replace1_append]; congr 1
  rcases reprChar_shape k c with ⟨rfl, he⟩ | ⟨rfl, he⟩ | ⟨h1, h3, ⟨he, _, _, h4, _⟩ | ⟨d, hs, hd, he, hp, _⟩⟩
  · have e1 : tok2 k BS = [NUL] := by simp [tok2]
    have e2 : tokB k BS = [BS, BS] := by simp [tokB]
    rw [e1, e2]; decide
  · have h : (LF == BS) = false := by decide
    have e1 : tok2 k LF = [LF] := by simp [tok2, h]
    have e2 : tokB k LF = [LF] := by simp [tokB, h]
    rw [e1, e2]; decide
  · have hb : (c == BS) = false := by simpa using h1
    have hl : (c == LF) = false := by simpa using h3
    simp only [tok2, tokB, hb, hl, Bool.false_eq_true, if_false, he]
    exact replace1_id _ _ _ (by simpa using h4)
  · have hd' := escLetterC_facts hd
    have hb : (c == BS) = false := by simpa using h1
    have hl : (c == LF) = false := by simpa using h3
    simp only [tok2, tokB, hb, hl, Bool.false_eq_true, if_false, he]
    apply replace1_id
    intro x hx
    simp only [List.mem_cons] at hx
    rcases hx with rfl | rfl | hx
    · decide
    · exact hd'.2.2.1
    · exact plain_ne_NUL hp x hx

theorem replaced_repr (k : Cls) (s : List Char) :
    replace1 NUL [BS, BS] (replace2 BS 'n' [LF] (replace2 BS BS [NUL] (SQ :: (s.flatMap (reprChar k SQ) ++ [SQ]))))
      = SQ :: (s.flatMap (tokB k) ++ [SQ]) := by
  rw [replace2_cons_ne _ _ _ (by decide), flatMap_hom _ _ _ (step1 k)]
  rw [replace2_cons_ne _ _ _ (by decide), flatMap_hom _ _ _ (step2 k)]
  have e1 : replace2 BS BS [NUL] [SQ] = [SQ] := rfl
  have e2 : replace2 BS 'n' [LF] [SQ] = [SQ] := rfl
  rw [e1, e2]
  have := flatMap_hom _ _ _ (step3 k) s [SQ]
  have e3 : replace1 NUL [BS, BS] [SQ] = [SQ] := by decide
  rw [e3] at this
  show replace1 NUL [BS, BS] ([SQ] ++ (s.flatMap (tok2 k) ++ [SQ])) = _
  rw [replace1_append, this]; rfl


theorem tokB_props (k : Cls) (c : Char) :
    Good (tokB k c) c ∧ (∀ rest, findClose SQ false (tokB k c ++ rest) = pre (tokB k c) (findClose SQ false rest))
      ∧ (tokB k c).all cleanB = true := by
  rcases reprChar_shape k c with ⟨rfl, _⟩ | ⟨rfl, _⟩ | ⟨h1, h3, ⟨he, _, h0, h4, h5⟩ | ⟨d, hs, hd, he, hp, hg⟩⟩
  · have e : tokB k BS = [BS, BS] := by simp [tokB]
    rw [e]; exact ⟨good_bs, fun rest => findClose_esc _ _ _, by decide⟩
  · have h : (LF == BS) = false := by decide
    have e : tokB k LF = [LF] := by simp [tokB, h]
    rw [e]; exact ⟨good_raw (by decide) (by decide), fun rest => findClose_raw (by decide) (by decide) rest, by decide⟩
  · have hb : (c == BS) = false := by simpa using h1
    have hl : (c == LF) = false := by simpa using h3
    have e : tokB k c = [c] := by simp only [tokB, hb, hl, Bool.false_eq_true, if_false, he]
    rw [e]; exact ⟨good_raw h1 h4, fun rest => findClose_raw h1 h0 rest, by simp [cleanB, h4, h5]⟩
  · have hb : (c == BS) = false := by simpa using h1
    have hl : (c == LF) = false := by simpa using h3
    have e : tokB k c = BS :: d :: hs := by simp only [tokB, hb, hl, Bool.false_eq_true, if_false, he]
    rw [e]; rw [he] at hg
    refine ⟨hg, fun rest => ?_, ?_⟩
    · rw [List.cons_append, List.cons_append, findClose_esc, findClose_plain (.inl rfl) hs rest hp, pre_pre]; rfl
    · simp only [List.all_cons, clean_of_plain hs hp, (escLetterC_facts hd).2.2.2, Bool.and_true]; decide

theorem escLetterC_ne_LF {d : Char} (h : escLetterC d = true) : d ≠ LF := by
  simp only [escLetterC, Bool.or_eq_true, beq_iff_eq] at h
  rcases h with (((((rfl | rfl) | rfl) | rfl) | rfl) | rfl) <;> decide

theorem tokB_LF (k : Cls) (c : Char) (hl : LF ∈ tokB k c) : c = LF := by
  rcases reprChar_shape k c with ⟨rfl, _⟩ | ⟨rfl, _⟩ | ⟨h1, h3, ⟨he, _⟩ | ⟨d, hs, hd, he, hp, _⟩⟩
  · have e : tokB k BS = [BS, BS] := by simp [tokB]
    rw [e] at hl; exact absurd hl (by decide)
  · rfl
  · have hb : (c == BS) = false := by simpa using h1
    have hlf : (c == LF) = false := by simpa using h3
    have e : tokB k c = [c] := by simp only [tokB, hb, hlf, Bool.false_eq_true, if_false, he]
    rw [e] at hl; simp at hl; exact hl.symm
  · exfalso
    have hb : (c == BS) = false := by simpa using h1
    have hlf : (c == LF) = false := by simpa using h3
    have e : tokB k c = BS :: d :: hs := by simp only [tokB, hb, hlf, Bool.false_eq_true, if_false, he]
    rw [e] at hl
    simp only [List.mem_cons] at hl
    rcases hl with e | e | e
    · exact absurd e (by decide)
    · exact escLetterC_ne_LF hd e.symm
    · exact (plainB_ne (List.all_eq_true.mp hp LF e)).2.2.2.2.2 rfl

theorem findClose_closed {q : Char} (enc : Char → List Char)
    (h : ∀ c rest, findClose q false (enc c ++ rest) = pre (enc c) (findClose q false rest)) (s rest : List Char) :
    findClose q false (s.flatMap enc ++ rest) = pre (s.flatMap enc) (findClose q false rest) := by
  induction s with
  | nil => simp [pre_nil]
  | cons c s ih => rw [List.flatMap_cons, List.append_assoc, h, ih, pre_pre]

theorem reprQuote_both {s : List Char} (h1 : SQ ∈ s) (h2 : DQ ∈ s) : reprQuote s = SQ := by
  simp [reprQuote, h1, h2]

theorem repr_wq (k : Cls) (s : List Char) (h1 : SQ ∈ s) (h2 : DQ ∈ s) : WellQuoted (reprQuoted k s) s := by
  unfold reprQuoted reprStr
  rw [reprQuote_both h1 h2, replaced_repr]
  simp only [List.headD_cons]
  have hp := tokB_props k
  have hcl := clean_flatMap (tokB k) (fun c => (hp c).2.2) s
  have hfc : findClose SQ false (s.flatMap (tokB k) ++ [SQ, SQ, SQ]) = some (s.flatMap (tokB k), []) := by
    rw [findClose_closed _ (fun c => (hp c).2.1), findClose_closing (by decide)]; simp [pre]
  have e : [SQ, SQ] ++ SQ :: (s.flatMap (tokB k) ++ [SQ]) ++ [SQ, SQ]
      = [SQ, SQ, SQ] ++ s.flatMap (tokB k) ++ [SQ, SQ, SQ] := by simp
  rw [e]
  refine ⟨SQ, _, .inl rfl, rfl, hcl, hfc, ?_, LF_mem_flatMap _ (tokB_LF k) s⟩
  unfold unescape
  have hu := unesc_flatMap _ (fun c => (hp c).1) s []
  simp only [List.append_nil] at hu
  rw [hu]; simp [unesc]

theorem hasTriple_mem {q : Char} (l : List Char) (h : hasTriple q l = true) : q ∈ l := by
  induction l with
  | nil => simp [hasTriple] at h
  | cons c l ih =>
    simp only [hasTriple, Bool.or_eq_true, Bool.and_eq_true, beq_iff_eq] at h
    rcases h with ⟨rfl, _⟩ | h
    · simp
    · exact List.mem_cons_of_mem _ (ih h)

theorem quote_mem_of_flatMap {q : Char} (hq : q = SQ ∨ q = DQ) (enc : Char → List Char) (hs : ∀ c, ShapeA c (enc c))
    (s : List Char) (h : q ∈ s.flatMap enc) : q ∈ s := by
  obtain ⟨c, hc, hqc⟩ := List.mem_flatMap.mp h
  rcases hs c with ⟨he, _⟩ | ⟨d, hs', hd, he, hp, _⟩
  · rw [he] at hqc; simp at hqc; subst hqc; exact hc
  · exfalso
    rw [he] at hqc
    simp only [List.mem_cons] at hqc
    have hd' := escLetterA_facts hd
    rcases hqc with e | e | e
    · exact quote_ne_BS hq e
    · subst e; rcases hq with e | e
      · exact hd'.1 e
      · exact hd'.2.1 e
    · have := plainB_ne (List.all_eq_true.mp hp q e)
      rcases hq with e | e
      · exact this.2.1 e
      · exact this.2.2.1 e


/-- every output of `repr_str_multiline` is a well-formed triple-quoted literal denoting the input -/
theorem reprMultiline_wq (k : Cls) (hCR : k.printable CR = false) (hNUL : k.printable NUL = false) (s : List Char) :
    WellQuoted (reprMultiline k s) s := by
  unfold reprMultiline
  by_cases hs : s = []
  · subst hs
    exact ⟨DQ, [], .inr rfl, rfl, rfl, by decide, rfl, by simp⟩
  rw [if_neg (by simpa using hs)]
  simp only []
  have hsh := escapeChar_shape k hCR hNUL
  cases hd : hasTriple DQ (s.flatMap (escapeChar k)) <;> cases hq : hasTriple SQ (s.flatMap (escapeChar k))
  · exact plain_wq k hCR hNUL s hs DQ SQ (.inr rfl) (.inl rfl) hd hq
  · exact plain_wq k hCR hNUL s hs DQ DQ (.inr rfl) (.inr rfl) hd hd
  · exact plain_wq k hCR hNUL s hs SQ SQ (.inl rfl) (.inl rfl) hq hq
  · exact repr_wq k s (quote_mem_of_flatMap (.inl rfl) _ hsh s (hasTriple_mem _ hq))
      (quote_mem_of_flatMap (.inr rfl) _ hsh s (hasTriple_mem _ hd))

/-- a text without a newline is quoted on one line -/
theorem reprMultiline_noLF (k : Cls) (hCR : k.printable CR = false) (hNUL : k.printable NUL = false) (s : List Char)
    (hs : LF ∉ s) : LF ∉ reprMultiline k s := by
  obtain ⟨q, body, hq, he, _, _, _, hl⟩ := reprMultiline_wq k hCR hNUL s
  rw [he]
  have hq' : q ≠ LF := by rcases hq with rfl | rfl <;> decide
  intro hm
  simp only [List.mem_append, List.mem_cons, List.not_mem_nil, or_false] at hm
  rcases hm with (hm | hm) | hm
  · rcases hm with e | e | e <;> exact hq' e.symm
  · exact hs (hl hm)
  · rcases hm with e | e | e <;> exact hq' e.symm

end Pfst.Quote
