import Pfst.Index
/-
Model of the index arithmetic of `FSTView` (src/fst/view.py): the window `[_start, _stop)` over a field, its self-healing
(`_base_indices`), `_fixup_item_indices`, and what `__getitem__` / `__setitem__` / `__delitem__` / `replace` / `remove` /
`insert` / `append` / `extend` / `prepend` / `prextend` pass to `_put_slice` and how they move `_stop` afterwards.

The field itself is abstract: an edit is `(start, stop)` handed to the base node plus the length of the field after it.
Imports only the import-free `Pfst.Index`.
-/
namespace Pfst.View
open Pfst.Index

/-- `FSTView._start`, `FSTView._stop` (`none` = pinned to the end of the field). -/
structure View where
  start : Nat
  stop : Option Nat
deriving DecidableEq, Repr, Inhabited

/-- `FSTView._base_indices()`: `(start, stop, healed view)` for a field of length `lenField`.  A `_stop` past the end is
pulled back (and stored), then a `_start` past `stop` is pulled back (and stored). -/
def baseIndices (v : View) (lenField : Nat) : Nat × Nat × View :=
  let (stop, v1) :=
    match v.stop with
    | none => (lenField, v)
    | some st => if st > lenField then (lenField, { v with stop := some lenField }) else (st, v)
  if v1.start > stop then (stop, stop, { v1 with start := stop }) else (v1.start, stop, v1)

/-- index argument of `__getitem__` & co: an int or a `slice(a, b)` (step slicing is refused before this point) -/
inductive Key where
  | int (n : Int)
  | slice (a b : Option Int)
deriving DecidableEq, Repr, Inhabited

/-- `idx.start or 0` -/
def keyStart : Option Int → Idx
  | none => .i 0
  | some k => .i k

/-- `'end' if idx.stop is None else idx.stop` -/
def keyStop : Option Int → Idx
  | none => .end
  | some k => .i k

/-- `_fixup_item_indices` (int and slice cases): `(idx_start, idx_stop?)` relative to the window of length `n`. -/
def fixupItem (n : Nat) : Key → Option (Int × Option Int)
  | .int k => (fixupOne n (.i k)).map (fun j => (j, none))
  | .slice a b =>
    (fixupSlice n (keyStart a) (keyStop b)).map (fun (x, y) => (x, some y))

/-- `find_def(name, asts=body[lo:hi])` restricted to direct children: the first position `p` in `[lo, hi)` of the real
field whose element is a def / class of that name (`names[p] = some name`; `none` = not a definition). -/
def findName (names : List (Option String)) (lo hi : Nat) (name : String) : Option Nat :=
  (List.range' lo (hi - lo)).find? (fun p => names[p]? == some (some name))

/-- `_fixup_item_indices(idx: str)` for a direct child: `found.pfield.idx - start - idx_off`, where `idx_off` is the
docstring offset of `_body` (the view's indices are docstring-free, `names` is the real `body`).  `none` = IndexError
('name index not found'). -/
def nameItem (v : View) (names : List (Option String)) (idxOff : Nat) (name : String) : Option (Int × Option Int) :=
  let (start, stop, _) := baseIndices v (names.length - idxOff)
  match findName names (start + idxOff) (stop + idxOff) name with
  | none => none
  | some p => some ((p : Int) - start - idxOff, none)

/-- The result of a view operation: the indices handed to the base node's `_put_slice` / `_put_one`, whether it was the
single-element form, and a function giving the view afterwards from the new length of the field. -/
structure Edit where
  s : Int
  e : Int
  single : Bool
  after : Nat → View

/-- `view[key]` (slice form): the sub-view. -/
def getItem (v : View) (len : Nat) (k : Key) : Option (View ⊕ Int) :=
  let (start, stop, _) := baseIndices v len
  match fixupItem (stop - start) k with
  | none => none
  | some (a, some b) => some (.inl ⟨(start + a).toNat, some (start + b).toNat⟩)
  | some (a, none) => some (.inr (start + a))

def bump (v : View) (lenBefore lenAfter : Nat) : View :=
  match v.stop with
  | none => v
  | some st => { v with stop := some ((st : Int) + ((lenAfter : Int) - lenBefore)).toNat }

/-- `view[key] = code` -/
def setItem (v : View) (len : Nat) (k : Key) : Option Edit :=
  let (start, stop, v1) := baseIndices v len
  match fixupItem (stop - start) k with
  | none => none
  | some (a, some b) => some ⟨start + a, start + b, false, fun la => bump v1 len la⟩
  | some (a, none) => some ⟨start + a, start + a + 1, true, fun la => bump v1 len la⟩

/-- `del view[key]` : `_stop = max(start, stop - n_deleted)` if not pinned -/
def delItem (v : View) (len : Nat) (k : Key) : Option Edit :=
  let (start, stop, v1) := baseIndices v len
  let setStop (n : Int) : View :=
    match v1.stop with
    | none => v1
    | some _ => { v1 with stop := some (max (start : Int) ((stop : Int) - n)).toNat }
  match fixupItem (stop - start) k with
  | none => none
  | some (a, some b) => some ⟨start + a, start + b, false, fun _ => setStop (b - a)⟩
  | some (a, none) => some ⟨start + a, start + a + 1, false, fun _ => setStop 1⟩

/-- `view.replace(code, one)` / `view.remove()` -/
def replace (v : View) (len : Nat) : Edit :=
  let (start, stop, v1) := baseIndices v len
  ⟨start, stop, false, fun la => bump v1 len la⟩

/-- `view.insert(code, idx, one)` : own index arithmetic, not `fixup_slice_indices` -/
def insert (v : View) (len : Nat) (idx : Idx) : Edit :=
  let (start, stop, v1) := baseIndices v len
  let lenView : Int := (stop : Int) - start
  let i : Int :=
    match idx with
    | .end => stop
    | .i k => if k > lenView then stop else start + (if k ≥ 0 then k else max 0 (k + lenView))
  ⟨i, i, false, fun la => bump v1 len la⟩

/-- `view.append(code)` : `_stop = stop + 1` -/
def append (v : View) (len : Nat) : Edit :=
  let (_, stop, v1) := baseIndices v len
  ⟨stop, stop, false, fun _ => match v1.stop with | none => v1 | some _ => { v1 with stop := some (stop + 1) }⟩

/-- `view.extend(code)` : `_stop = stop + (len_after - len_before)` -/
def extend (v : View) (len : Nat) : Edit :=
  let (_, stop, v1) := baseIndices v len
  ⟨stop, stop, false, fun la => match v1.stop with
    | none => v1 | some _ => { v1 with stop := some ((stop : Int) + ((la : Int) - len)).toNat }⟩

/-- `view.prepend(code)` : `_stop += 1` -/
def prepend (v : View) (len : Nat) : Edit :=
  let (start, _, v1) := baseIndices v len
  ⟨start, start, false, fun _ => match v1.stop with | none => v1 | some st => { v1 with stop := some (st + 1) }⟩

/-- `view.prextend(code)` -/
def prextend (v : View) (len : Nat) : Edit :=
  let (start, _, v1) := baseIndices v len
  ⟨start, start, false, fun la => bump v1 len la⟩

/-- the elements a view shows -/
def window {α} (v : View) (xs : List α) : List α :=
  let (s, e, _) := baseIndices v xs.length
  getSlice xs s e

end Pfst.View
