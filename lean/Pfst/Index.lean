/-
Model of pfst's index / slice normalisation (C03).

  * `fixupOne`, `fixupSlice`            — src/fst/fst_misc.py `fixup_one_index`, `fixup_slice_indices`
  * `swizzle`                           — src/fst/fst.py `_swizzle_getput_params`
  * `Entry`, `canon`                    — the argument normalisation done by the public entry points of src/fst/fst.py
                                          (`put_slice`, `put`, `insert`, `append`, `extend`, `prepend`, `prextend`,
                                          `get_slice`, `get`) down to the private call `_put_slice(start, stop, one)` /
                                          `_put_one(idx)` / `_get_slice` / `_get_one`
  * `resolve`                           — what the private call then does with the indices (`fixup_*` in the handlers and
                                          in `_put_one`'s delegation to the slice operation)
  * `putSlice`, `getSlice`              — Python `body[start:stop] = new` / `body[start:stop]` on plain lists
  * `pyClamp`, `pySliceIndices`, `pyIndex` — SPEC, written independently from the above: CPython `slice.indices` (step 1)
                                          and list indexing.

The model mirrors the control structure of the code that exists (the order of the tests in `fixup_slice_indices`, the
`idx or 0` of `put`, the sentinel handling of `'end'`).  No imports: this file is linked into the native driver.
-/
namespace Pfst.Index

/-- An index argument after swizzling: an `int` or the literal `'end'`. -/
inductive Idx where
  | i (n : Int)
  | «end»
deriving DecidableEq, Repr, Inhabited

/-! ### fst_misc.fixup_one_index -/

/-- `fixup_one_index(len_, idx, start_at)`; `none` = `IndexError('index out of range')`. -/
def fixupOne (len : Nat) (idx : Idx) (startAt : Nat := 0) : Option Int :=
  let j : Int :=
    match idx with
    | .end => len                                  -- "yes, this is intended to cause the IndexError"
    | .i n => if n < 0 then n + len else n + startAt
  if (startAt : Int) ≤ j ∧ j < len then some j else none

/-! ### fst_misc.fixup_slice_indices -/

/-- the `start` branch chain -/
def clipStart (len : Nat) (start : Idx) (startAt : Nat) : Int :=
  match start with
  | .end => len
  | .i n =>
    if n > len then len
    else if n < 0 then max (startAt : Int) (n + len)
    else min (len : Int) (n + startAt)

/-- the `stop` branch chain (a separate copy in the source) -/
def clipStop (len : Nat) (stop : Idx) (startAt : Nat) : Int :=
  match stop with
  | .end => len
  | .i n =>
    if n > len then len
    else if n < 0 then max (startAt : Int) (n + len)
    else min (len : Int) (n + startAt)

/-- `fixup_slice_indices(len_, start, stop, start_at)`; `none` = `IndexError('start index must precede stop index')`. -/
def fixupSlice (len : Nat) (start stop : Idx) (startAt : Nat := 0) : Option (Int × Int) :=
  let s := clipStart len start startAt
  let e := clipStop len stop startAt
  if e < s then none else some (s, e)

/-! ### SPEC: CPython list indexing and `slice(a, b).indices(n)` for step 1 (Objects/sliceobject.c, `PySlice_AdjustIndices`) -/

/-- clamp of one slice bound: negative bounds count from the end, then clip into `[0, n]`. -/
def pyClamp (n : Nat) (i : Int) : Int :=
  if i < 0 then (if i + n < 0 then 0 else i + n) else (if i ≥ n then n else i)

/-- `slice(a, b).indices(n)[:2]` -/
def pySliceIndices (n : Nat) (a b : Option Int) : Int × Int :=
  ((match a with | none => 0 | some i => pyClamp n i), (match b with | none => (n : Int) | some i => pyClamp n i))

/-- `range(n)[i]` : the position list indexing with `i` denotes, `none` = `IndexError`. -/
def pyIndex (n : Nat) (i : Int) : Option Int :=
  if i < 0 then (if i + n < 0 then none else some (i + n)) else (if i < n then some i else none)

/-- how pfst's `'end'` reads in Python terms: as a start it is `len`, as a stop it is an omitted bound. -/
def Idx.pyStart (n : Nat) : Idx → Option Int
  | .i k => some k
  | .end => some n
def Idx.pyStop : Idx → Option Int
  | .i k => some k
  | .end => none

/-! ### Python list slice assignment / slice get on plain lists -/

/-- `xs[s:e] = new` for `s ≤ e` (walks to `s`, then drops `e - s` elements; mirrors list_ass_slice). -/
def putSlice {α} : List α → Nat → Nat → List α → List α
  | xs, 0, e, new => new ++ xs.drop e
  | [], _ + 1, _, new => new
  | x :: xs, s + 1, e, new => x :: putSlice xs s (e - 1) new

/-- `xs[s:e]` -/
def getSlice {α} (xs : List α) (s e : Nat) : List α := (xs.take e).drop s

/-! ### fst._swizzle_getput_params -/

/-- A positional argument of the get/put functions as the caller may pass it. -/
inductive Arg where
  | omitted
  | int (n : Int)
  | «end»
  | name (s : String)       -- a `str` other than `'end'`: a field name passed positionally
deriving DecidableEq, Repr, Inhabited

/-- `_swizzle_getput_params(start, stop, field, default_start, default_stop)`.  The third argument (`field`) may itself
only be `none` or a name. -/
def swizzle (start stop field dStart dStop : Arg) : Arg × Arg × Arg :=
  match start with
  | .name _ => (dStart, dStop, start)
  | _ =>
    match stop with
    | .name _ => (start, dStop, stop)
    | _ => (start, stop, field)

/-- Python's three-valued `one` parameter. -/
abbrev One := Option Bool

/-- The public entry points (on a *list* field; the code argument is not part of the index normalisation). -/
inductive Entry where
  | putSlice (start stop field : Arg) (one : One)       -- put_slice(code, start=0, stop='end', field=None, one=False)
  | put (idx stop field : Arg) (one : One)              -- put(code, idx=None, stop=None, field=None, one=True)
  | insert (idx field : Arg) (one : One)                -- insert(code, idx=0, field=None, *, one=True)
  | append (field : Arg)
  | extend (field : Arg) (one : One)                    -- one: False | None
  | prepend (field : Arg)
  | prextend (field : Arg) (one : One)
  | getSlice (start stop field : Arg)                   -- get_slice(start=0, stop='end', field=None)
  | get (idx stop field : Arg)                          -- get(idx=None, stop=None, field=None)
deriving DecidableEq, Repr, Inhabited

/-- The private call an entry point ends in. -/
inductive Canon where
  | slice (start stop : Arg) (field : Arg) (one : One)  -- _put_slice / _get_slice (for get: one = none)
  | one (idx : Arg) (field : Arg)                       -- _put_one / _get_one
  | valueError                                          -- "cannot use 'one=False' in non-slice put()"
deriving DecidableEq, Repr, Inhabited

/-- `idx or 0` : `None` and `0` become `0`, everything else is kept. -/
def orZero : Arg → Arg
  | .omitted => .int 0
  | a => a

def oneFalseOrNone (one : One) : One := if one == none then none else some false

/-- Argument normalisation of the entry points (list field). -/
def canon : Entry → Canon
  | .putSlice start stop field one =>
    let (s, e, f) := swizzle start stop field (.int 0) .end
    .slice s e f one
  | .getSlice start stop field =>
    let (s, e, f) := swizzle start stop field (.int 0) .end
    .slice s e f none
  | .put idx stop field one =>
    let (i, e, f) := swizzle idx stop field .omitted .omitted
    if e != .omitted then .slice (orZero i) e f one
    else if i == .omitted then .slice (.int 0) .end f one
    else if i == .end then .slice .end .end f one
    else if one == some false || one == none then .valueError
    else .one i f
  | .get idx stop field =>
    let (i, e, f) := swizzle idx stop field .omitted .omitted
    if e != .omitted then .slice (orZero i) e f none
    else if i == .omitted then .slice (.int 0) .end f none
    else if i == .end then .slice .end .end f none
    else .one i f
  | .insert idx field one =>
    let (i, _, f) := swizzle idx field field (.int 0) .omitted
    .slice i i f one
  | .append field => .slice .end .end field (some true)
  | .extend field one => .slice .end .end field (oneFalseOrNone one)
  | .prepend field => .slice (.int 0) (.int 0) field (some true)
  | .prextend field one => .slice (.int 0) (.int 0) field (oneFalseOrNone one)

def Arg.toIdx : Arg → Option Idx
  | .int n => some (.i n)
  | .end => some .end
  | _ => none

/-- What the private call does with its indices on a field of (real) length `len` whose addressable part starts at
`startAt` (1 for `_body` of a node with a docstring): slice calls clip with `fixup_slice_indices` in the handler; a
single-element put / delete on a sliceable field is checked with `fixup_one_index` in `_put_one` and then delegated to
the slice operation on `[idx, idx + 1)`.  `none` = IndexError (or malformed arguments). -/
def resolve (len : Nat) (startAt : Nat) : Canon → Option (Int × Int)
  | .slice s e _ _ =>
    match s.toIdx, e.toIdx with
    | some s, some e => fixupSlice len s e startAt
    | _, _ => none
  | .one i _ =>
    match i.toIdx with
    | some i =>
      match fixupOne len i startAt with
      | some j => fixupSlice len (.i j) (.i (j + 1)) 0
      | none => none
    | none => none
  | .valueError => none

end Pfst.Index
