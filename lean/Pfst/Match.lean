/-
Model of the pattern matcher of pfst (src/fst/match.py).  Import-free: linked into the native driver.

Part L  — the LIST matcher: `_match__inside_list` / `_match__inside_list_quantifier` mirrored as written (two counting
          phases, static tags appended when the minimum count is reached, greedy back-off `del matches[idx];
          tgt_iter.idx = tgt_idxs.pop()`, non-greedy extension, sublist bodies matched with `allow_partial=True`
          against the rest of *the sublist* only), over element sequences of an abstract alphabet (one letter per
          element).
Part S  — the SPEC: ordered list-of-successes semantics of the same pattern language (what a backtracking regular
          expression engine enumerates, in priority order).  Written independently of part L: only the element matcher
          `matchE` and the tag-visibility function `visible` are shared.
Part T  — structural matching of generic labelled trees (`_match_node`, `_match_type`, `M/MNOT/MOR/MAND/MMAYBE/MTAG`)
          with tags as an environment in which later bindings override earlier ones.
Part P  — `search`'s leaf-type pre-filter (`_leaf_asts_*`, `M*._leaf_asts`) over an abstract kind table, and `search`
          itself as a filtered pre-order walk.
-/
namespace Pfst.Match

abbrev Name := Nat

/-! ## tag environments -/

/-- A tag value of the list model.  `ms` is the list of `FSTMatch` objects a tagged quantifier builds, flattened to
numbers by `encEntries` (keeps equality decidable; the harness builds the same encoding from the real objects). -/
inductive Val where
  | elem (idx letter : Nat)
  | static (n : Nat)
  | ms (enc : List Nat)
deriving DecidableEq, Repr, Inhabited

/-- Bindings in the order they were produced.  `dict.update` / `{**a, **b}` / `get_tag` walking backwards all mean: the
last binding of a name wins. -/
abbrev Dict := List (Name × Val)

def lookup : Dict → Name → Option Val
  | [], _ => none
  | (k, v) :: r, t =>
    match lookup r t with
    | some w => some w
    | none => if k == t then some v else none

def insertKey (k : Name) : List Name → List Name
  | [] => [k]
  | a :: r => if k < a then k :: a :: r else if k == a then a :: r else a :: insertKey k r

def keys (d : Dict) : List Name := d.foldl (fun acc kv => insertKey kv.1 acc) []

/-- canonical form of a dictionary: sorted distinct keys, last binding -/
def norm (d : Dict) : Dict := (keys d).filterMap (fun k => (lookup d k).map (fun v => (k, v)))

def encVal : Val → List Nat
  | .elem i l => [0, i, l]
  | .static n => [1, n]
  | .ms e => 2 :: e

def encDict (d : Dict) : List Nat :=
  let n := norm d
  n.length :: n.flatMap (fun kv => kv.1 :: encVal kv.2)

/-- One quantifier iteration: the slice `[start, stop)` of the target list it consumed and the tags it produced. -/
structure Entry where
  start : Nat
  stop  : Nat
  tags  : Dict
deriving DecidableEq, Repr, Inhabited

def encEntries (es : List Entry) : List Nat :=
  es.length :: es.flatMap (fun e => e.start :: e.stop :: encDict e.tags)

/-! ## patterns of the list model -/

/-- Element patterns: `'a'` / `Name('a')`, `...`, `M(t=e)`, `MTAG('t')`, and two-member `MAND` / `MOR` whose members may
be given as keywords (the member's own captures are kept next to the member tag). -/
inductive EPat where
  | lit (a : Nat)
  | any
  | cap (t : Name) (e : EPat)
  | ref (t : Name)
  | and2 (t1 : Option Name) (e1 : EPat) (t2 : Option Name) (e2 : EPat)
  | or2 (t1 : Option Name) (e1 : EPat) (t2 : Option Name) (e2 : EPat)
deriving DecidableEq, Repr, Inhabited

/-- `{pat_tag: tgt}` for a keyword member, nothing for an anonymous one -/
def capEnv (t : Option Name) (i x : Nat) : Dict :=
  match t with
  | some n => [(n, Val.elem i x)]
  | none => []

/-- `MQ(pat, min, max, **static)` / `MQ(tag=pat, ...)`, `.NG` variants. `mx = none` is unbounded. -/
structure QSpec where
  mn : Nat
  mx : Option Nat
  greedy : Bool
  tag : Option Name := none
  static : List (Name × Nat) := []
deriving DecidableEq, Repr, Inhabited

inductive LPat where
  | elem (e : EPat)
  | qs (q : QSpec) (e : EPat)          -- quantifier over a single element pattern
  | ql (q : QSpec) (ps : List LPat)    -- quantifier over a sublist
deriving Repr, Inhabited

/-- Element matcher: `_match_str`/`_match_node` on a letter, `_match_Ellipsis`, `M._match`, `MTAG._match`.
`ctx` is everything `mstate.get_tag` can see. -/
def matchE (ctx : Dict) : EPat → Nat → Nat → Option Dict
  | .lit a, _, x => if x == a then some [] else none
  | .any, _, _ => some []
  | .cap t e, i, x =>
    match matchE ctx e i x with
    | none => none
    | some m => some (m ++ [(t, Val.elem i x)])           -- `{**m, pat_tag: tgt, **static_tags}`
  | .ref t, _, x =>
    match lookup ctx t with
    | some (.elem _ l) => if l == x then some [] else none -- the tagged node, used as a pattern
    | _ => none                                            -- no such tag, or not a node
  | .and2 t1 e1 t2 e2, i, x =>                             -- `MAND._match`: `tagss.append({**m, pat_tag: tgtf})` per member
    match matchE ctx e1 i x with
    | none => none
    | some m1 =>
      let d1 := m1 ++ capEnv t1 i x
      match matchE (ctx ++ d1) e2 i x with
      | none => none
      | some m2 => some (d1 ++ (m2 ++ capEnv t2 i x))
  | .or2 t1 e1 t2 e2, i, x =>                              -- `MOR._match`: first member that matches, `{**m, pat_tag: tgt}`
    match matchE ctx e1 i x with
    | some m1 => some (m1 ++ capEnv t1 i x)
    | none =>
      match matchE ctx e2 i x with
      | some m2 => some (m2 ++ capEnv t2 i x)
      | none => none

/-! ## Part L: the list matcher as written -/

/-- Loop state of `_match__inside_list_quantifier`: `count`, `tgt_iter.idx`, the `matches` list, and how many times
`static_tags` has been appended to `tagss`. -/
structure QState where
  count : Nat
  idx : Nat
  entries : List Entry
  nstatic : Nat
deriving DecidableEq, Repr, Inhabited

def staticDict (q : QSpec) : Dict := q.static.map (fun kv => (kv.1, Val.static kv.2))

def statics (q : QSpec) : Nat → Dict
  | 0 => []
  | n + 1 => staticDict q ++ statics q n

/-- What `get_tag` sees of the quantifier's own `tagss`, and what `pop_merge_tagss` returns for it:
`[{pat_tag: matches}]` or the iteration dictionaries themselves, then the static tags. -/
def visible (q : QSpec) (entries : List Entry) (nstatic : Nat) : Dict :=
  (match q.tag with
   | some t => [(t, Val.ms (encEntries entries))]
   | none => entries.flatMap (·.tags)) ++ statics q nstatic

def QState.vis (q : QSpec) (st : QState) : Dict := visible q st.entries st.nstatic

/-- `matches.insert(matches_ins_idx, m)`: always directly after the previous iterations (before the static tags). -/
def QState.push (st : QState) (e : Entry) : QState :=
  { st with count := st.count + 1, idx := e.stop, entries := st.entries ++ [e] }

/-- `count < count_to` with `None` = 0x7fffffffffffffff -/
def ltTo (c : Nat) : Option Nat → Bool
  | none => true
  | some m => decide (c < m)

/-- `while count < count_to: if not match_next_q_pat(): break; count += 1`.  Returns the remaining fuel, the state, and
whether the loop ended without `break` (the `else` branch).  `fuel` only makes the function total. -/
def phase (q : QSpec) (once : Dict → Nat → Option Entry) (ctx : Dict) (countTo : Option Nat) :
    Nat → QState → Nat × QState × Bool
  | 0, st => if ltTo st.count countTo then (0, st, false) else (0, st, true)
  | f + 1, st =>
    if ltTo st.count countTo then
      match once (ctx ++ st.vis q) st.idx with
      | some e => phase q once ctx countTo f (st.push e)
      | none => (f + 1, st, false)
    else (f + 1, st, true)

/-- the `else:` of the first counting loop: `if not phase and (static_tags := pat.static_tags): tagss.append(static_tags)` -/
def addStatic (q : QSpec) (st : QState) : QState :=
  if q.static.isEmpty then st else { st with nstatic := st.nstatic + 1 }

/-- greedy back-off step: `del matches[matches_del_idx]; tgt_iter.idx = tgt_idxs.pop(); count -= 1`.
`matches_del_idx` is -1 in the `matches` list of a tagged quantifier (or in `tagss` without static tags) and -2 in
`tagss` when the static-tags dictionary (appended once) follows the iterations: in every case the last iteration.
`tgt_idxs` holds the target index at which each kept iteration started (`Entry.start`). -/
def dropOne (_q : QSpec) (st : QState) : QState :=
  { st with entries := st.entries.dropLast,
            idx := (match st.entries.getLast? with | some e => e.start | none => st.idx),
            count := st.count - 1 }

/-- greedy: `while True: m = rest; if m: break; if count == last_try_count: fail; <dropOne>` (recursion on `count`) -/
def backOff (q : QSpec) (rest : Dict → Nat → Option (Dict × Nat)) (ctx : Dict) : Nat → QState → Option (Dict × Nat)
  | n, st =>
    match rest (ctx ++ st.vis q) st.idx with
    | some (m, j) => some (st.vis q ++ m, j)
    | none =>
      if st.count == q.mn then none
      else match n with
        | 0 => none
        | n + 1 => backOff q rest ctx n (dropOne q st)

/-- non-greedy: `while True: m = rest; if m: break; if count == q_max: fail; if not match_next_q_pat(): fail` -/
def tryMore (q : QSpec) (once : Dict → Nat → Option Entry) (rest : Dict → Nat → Option (Dict × Nat)) (ctx : Dict) :
    Nat → QState → Option (Dict × Nat)
  | fuel, st =>
    match rest (ctx ++ st.vis q) st.idx with
    | some (m, j) => some (st.vis q ++ m, j)
    | none =>
      if some st.count == q.mx then none
      else match fuel with
        | 0 => none
        | f + 1 =>
          match once (ctx ++ st.vis q) st.idx with
          | none => none
          | some e => tryMore q once rest ctx f (st.push e)

/-- `_match__inside_list_quantifier`.  `once` is `match_next_q_pat` (without the bookkeeping), `rest` is
`_match__inside_list(mstate, pat_iter, tgt_iter, allow_partial)` on the patterns after the quantifier. -/
def matchQuant (fuel : Nat) (q : QSpec) (once : Dict → Nat → Option Entry) (rest : Dict → Nat → Option (Dict × Nat))
    (ctx : Dict) (i : Nat) : Option (Dict × Nat) :=
  let st0 : QState := ⟨0, i, [], 0⟩
  let (f1, st1, done1) := phase q once ctx (some q.mn) fuel st0
  if !done1 then none                                   -- `if count < q_min: ... return discard`
  else
    let st1 := addStatic q st1
    if q.greedy then
      let (_, st2, _) := phase q once ctx q.mx f1 st1
      backOff q rest ctx st2.count st2
    else
      tryMore q once rest ctx f1 st1

/-- fuel for one quantifier: unbounded quantifiers consume at least one element per iteration (enforced by
`MQ.__init__`), bounded ones run at most `max` times -/
def qFuel (q : QSpec) (len : Nat) : Nat := len + q.mx.getD 0 + 2

/-- `match_next_q_pat` for a single element pattern -/
def onceE (xs : List Nat) (e : EPat) (ctx : Dict) (i : Nat) : Option Entry :=
  match xs[i]? with
  | none => none
  | some x =>
    match matchE ctx e i x with
    | none => none
    | some m => some ⟨i, i + 1, m⟩

mutual
/-- one step of the `while (p := pat_iter.next())` loop of `_match__inside_list`, the remaining patterns as `rest` -/
def matchPat (xs : List Nat) : LPat → (Dict → Nat → Option (Dict × Nat)) → Dict → Nat → Option (Dict × Nat)
  | .elem e, rest, ctx, i =>
    match xs[i]? with
    | none => none
    | some x =>
      match matchE ctx e i x with
      | none => none
      | some m =>
        match rest (ctx ++ m) (i + 1) with
        | none => none
        | some (d, j) => some (m ++ d, j)
  | .qs q e, rest, ctx, i => matchQuant (qFuel q xs.length) q (onceE xs e) rest ctx i
  | .ql q ps, rest, ctx, i =>
    matchQuant (qFuel q xs.length) q
      (fun c j => match matchInside xs ps true c j with
                  | none => none
                  | some (d, k) => some ⟨j, k, d⟩)
      rest ctx i
termination_by structural p => p
/-- `_match__inside_list(mstate, pat_iter, tgt_iter, allow_partial)`: tags produced and the final target index -/
def matchInside (xs : List Nat) : List LPat → Bool → Dict → Nat → Option (Dict × Nat)
  | [], allowPartial, _, i => if allowPartial || i == xs.length then some ([], i) else none
  | p :: rest, allowPartial, ctx, i => matchPat xs p (fun c j => matchInside xs rest allowPartial c j) ctx i
termination_by structural ps => ps
end

/-- `_match_list` on a list field: the whole target list must be consumed. -/
def matchList (ps : List LPat) (xs : List Nat) : Option Dict :=
  match matchInside xs ps false [] 0 with
  | none => none
  | some (d, _) => some d

/-! ## Part S: ordered list-of-successes (regular-expression) semantics -/

/-- All ways to iterate a quantifier body from `(count, i, entries)`, in the priority order of a backtracking engine:
greedy tries one more iteration before stopping, non-greedy stops before trying one more.  Each result is the tag
dictionary of the whole quantifier and the index after it.  An iteration of an unbounded quantifier must advance.
The static tags of the quantifier are bound (and visible to back-references) once the minimum count is reached. -/
def allIter (q : QSpec) (body : Dict → Nat → List Entry) (ctx : Dict) : Nat → Nat → Nat → List Entry → List (Dict × Nat)
  | 0, c, i, es => if q.mn ≤ c then [(visible q es 1, i)] else []
  | f + 1, c, i, es =>
    let stop := if q.mn ≤ c then [(visible q es 1, i)] else []
    let more :=
      if ltTo c q.mx then
        (body (ctx ++ visible q es (if q.mn ≤ c then 1 else 0)) i).flatMap (fun e =>
          if q.mx.isSome || i < e.stop then allIter q body ctx f (c + 1) e.stop (es ++ [e]) else [])
      else []
    if q.greedy then more ++ stop else stop ++ more

mutual
def allPat (xs : List Nat) : LPat → Dict → Nat → List (Dict × Nat)
  | .elem e, ctx, i =>
    match xs[i]? with
    | none => []
    | some x =>
      match matchE ctx e i x with
      | none => []
      | some m => [(m, i + 1)]
  | .qs q e, ctx, i =>
    allIter q (fun c j => match onceE xs e c j with | none => [] | some en => [en]) ctx (qFuel q xs.length) 0 i []
  | .ql q ps, ctx, i =>
    allIter q (fun c j => (allSeq xs ps c j).map (fun r => ⟨j, r.2, r.1⟩)) ctx (qFuel q xs.length) 0 i []
termination_by structural p => p
/-- every way the pattern sequence can match a prefix of the target from `i`, best first -/
def allSeq (xs : List Nat) : List LPat → Dict → Nat → List (Dict × Nat)
  | [], _, i => [([], i)]
  | p :: rest, ctx, i =>
    (allPat xs p ctx i).flatMap (fun r => (allSeq xs rest (ctx ++ r.1) r.2).map (fun r' => (r.1 ++ r'.1, r'.2)))
termination_by structural ps => ps
end

/-- every match of the whole target list, best first; the head is what a backtracking engine returns -/
def allMatches (ps : List LPat) (xs : List Nat) : List Dict :=
  ((allSeq xs ps [] 0).filter (fun r => r.2 == xs.length)).map (·.1)

def specMatch (ps : List LPat) (xs : List Nat) : Option Dict := (allMatches ps xs).head?

/-! ## Part T: structural matching of labelled trees -/

/-- A tree: node id (pre-order number, only used to report captures), kind (an AST class, or a pseudo-kind for a list
field, a primitive value or `None`), ordered children (the fields). -/
inductive Tree where
  | node (id kind : Nat) (kids : List Tree)
deriving Repr, Inhabited

def Tree.id : Tree → Nat | .node i _ _ => i
def Tree.kind : Tree → Nat | .node _ k _ => k
def Tree.kids : Tree → List Tree | .node _ _ ks => ks

inductive TVal where
  | node (t : Tree)
  | static (n : Nat)
  | empty                 -- `[]`, what `MMAYBE(tag=...)` binds on a `None` target
deriving Repr, Inhabited

abbrev TEnv := List (Name × TVal)

def tlookup : TEnv → Name → Option TVal
  | [], _ => none
  | (k, v) :: r, t =>
    match tlookup r t with
    | some w => some w
    | none => if k == t then some v else none

/-- Kind tables extracted from `fst.asttypes`: `leafOf k` = `AST2ASTSLEAF[k]` (what the pre-filter uses), `inst k` = the
leaf classes `c` with `issubclass(c, k)` (what `isinstance` in `_match_type` / `_match_node` decides), `all` =
`ASTS_LEAF__ALL`, `noneKind` = the pseudo-kind of a `None` field. -/
structure Kinds where
  leafOf : Nat → List Nat
  inst : Nat → List Nat
  all : List Nat
  noneKind : Nat
  ctxKind : Nat := 0        -- the class `expr_context`

inductive Pat where
  | wild                                                   -- `...`
  | node (kind : Nat) (kids : List Pat)                    -- an AST / leaf `MAST` pattern, one pattern per field
  | type (k : Nat)                                         -- a class used as pattern (`_match_type`), leaf or not
  | ctxInst                                                -- a `Load()` / `Store()` / `Del()` instance (match option ctx=False)
  | types (ks : List Nat)                                  -- `MTYPES((..))` without fields
  | typesF (ks : List Nat) (k : Nat) (kids : List Pat)     -- `MTYPES((..), **fields)` with fields that only class `k` has
  | m (p : Pat) (tag : Option Name) (st : List (Name × Nat))
  | mnot (p : Pat) (tag : Option Name) (st : List (Name × Nat))
  | mor (ps : List (Option Name × Pat))
  | mand (ps : List (Option Name × Pat))
  | mmaybe (p : Pat) (tag : Option Name) (st : List (Name × Nat))
  | ref (t : Name)                                         -- `MTAG('t')`
deriving Repr, Inhabited

def stEnv (st : List (Name × Nat)) : TEnv := st.map (fun kv => (kv.1, TVal.static kv.2))

def tagEnv (tag : Option Name) (v : TVal) : TEnv :=
  match tag with
  | some t => [(t, v)]
  | none => []

mutual
/-- a tree used as a pattern (`_match_node` with an `AST` pattern: class equality, then field by field) -/
def matchTree : Tree → Tree → Bool
  | .node _ k ps, t => k == t.kind && matchTrees ps t.kids
termination_by structural p => p
def matchTrees : List Tree → List Tree → Bool
  | [], ts => ts.isEmpty
  | p :: ps, ts =>
    match ts with
    | [] => false
    | t :: ts' => matchTree p t && matchTrees ps ts'
termination_by structural ps => ps
end

mutual
/-- `_MATCH_FUNCS[pat.__class__](pat, tgt, mstate)`; `ctx` is what `mstate.get_tag` can see. -/
def matchNode (K : Kinds) : Pat → TEnv → Tree → Option TEnv
  | .wild, _, _ => some []
  | .node k ps, ctx, t => if k == t.kind then matchFields K ps ctx t.kids else none
  | .type k, _, t => if (K.inst k).contains t.kind then some [] else none
  | .ctxInst, _, t => if (K.inst K.ctxKind).contains t.kind then some [] else none   -- `_match_node_expr_context`
  | .types ks, _, t => if ks.any (fun k => (K.inst k).contains t.kind) then some [] else none
  | .typesF ks k ps, ctx, t =>
    if ks.any (fun k => (K.inst k).contains t.kind) then
      if k == t.kind then matchFields K ps ctx t.kids else none     -- a field the target class does not have: no match
    else none
  | .m p tag st, ctx, t =>
    match matchNode K p ctx t with
    | none => none
    | some e => some (e ++ tagEnv tag (.node t) ++ stEnv st)
  | .mnot p tag st, ctx, t =>
    match matchNode K p ctx t with
    | some _ => none
    | none => some (tagEnv tag (.node t) ++ stEnv st)
  | .mor ps, ctx, t => matchOr K ps ctx t
  | .mand ps, ctx, t => matchAnd K ps ctx t
  | .mmaybe p tag st, ctx, t =>
    if t.kind == K.noneKind then some (tagEnv tag .empty ++ stEnv st)
    else
      match matchNode K p ctx t with
      | none => none
      | some e => some (e ++ tagEnv tag (.node t) ++ stEnv st)
  | .ref n, ctx, t =>
    match tlookup ctx n with
    | some (.node p) => if matchTree p t then some [] else none
    | _ => none
termination_by structural p => p
/-- the field loop of `_match_node`: tags of earlier fields are visible to later ones -/
def matchFields (K : Kinds) : List Pat → TEnv → List Tree → Option TEnv
  | [], _, ts => if ts.isEmpty then some [] else none
  | p :: ps, ctx, ts =>
    match ts with
    | [] => none
    | t :: ts' =>
      match matchNode K p ctx t with
      | none => none
      | some e =>
        match matchFields K ps (ctx ++ e) ts' with
        | none => none
        | some e' => some (e ++ e')
termination_by structural ps => ps
/-- `MOR._match`: first alternative that matches -/
def matchOr (K : Kinds) : List (Option Name × Pat) → TEnv → Tree → Option TEnv
  | [], _, _ => none
  | (tag, p) :: ps, ctx, t =>
    match matchNode K p ctx t with
    | some e => some (e ++ tagEnv tag (.node t))
    | none => matchOr K ps ctx t
termination_by structural ps => ps
/-- `MAND._match`: all must match, tags accumulate (and are visible to the following conjuncts) -/
def matchAnd (K : Kinds) : List (Option Name × Pat) → TEnv → Tree → Option TEnv
  | [], _, _ => some []
  | (tag, p) :: ps, ctx, t =>
    match matchNode K p ctx t with
    | none => none
    | some e =>
      let e1 := e ++ tagEnv tag (.node t)
      match matchAnd K ps (ctx ++ e1) t with
      | none => none
      | some e' => some (e1 ++ e')
termination_by structural ps => ps
end

mutual
/-- the pattern built from a tree: every field constrained -/
def toPattern : Tree → Pat
  | .node _ k ks => .node k (toPatterns ks)
termination_by structural t => t
def toPatterns : List Tree → List Pat
  | [] => []
  | t :: ts => toPattern t :: toPatterns ts
termination_by structural ts => ts
end

/-! ## Part P: the search pre-filter -/

def union (a b : List Nat) : List Nat := a ++ b.filter (fun x => !a.contains x)
def inter (a b : List Nat) : List Nat := a.filter (fun x => b.contains x)
def diff (a b : List Nat) : List Nat := a.filter (fun x => !b.contains x)

/-- `len(la) >= _LEN_ASTS_LEAF__ALL`: the code compares cardinalities of Python sets of leaf classes; for a set of leaf
classes (a subset of `ASTS_LEAF__ALL` without repetitions) that is the same as covering `ASTS_LEAF__ALL`. -/
def isFull (K : Kinds) (la : List Nat) : Bool := K.all.all (fun x => la.contains x)

/-- `MTYPES._leaf_asts` -/
def leafTypes (K : Kinds) : List Nat → List Nat → List Nat
  | [], acc => acc
  | k :: ks, acc =>
    let la := K.leafOf k
    if isFull K la then la
    else
      let acc' := union acc la
      if isFull K acc' then acc' else leafTypes K ks acc'

/-- `isinstance(p, type) or p is ... or (p.__class__ is MTYPES and not p.fields)`: decided by the node type alone -/
def typeOnly : Pat → Bool
  | .wild => true
  | .type _ => true
  | .types _ => true
  | _ => false

mutual
/-- `_LEAF_ASTS_FUNCS[pat.__class__](pat)`: `none` = indeterminate (check every node) -/
def leafAsts (K : Kinds) : Pat → Option (List Nat)
  | .wild => some K.all                                     -- `_leaf_asts_all`
  | .node k _ => some (K.leafOf k)                          -- `_leaf_asts_default`
  | .type k => some (K.leafOf k)                            -- `_leaf_asts_type`
  | .ctxInst => some (K.leafOf K.ctxKind)                   -- `_leaf_asts_default`: `AST2ASTSLEAF[expr_context]`
  | .types ks => some (leafTypes K ks [])                   -- `MTYPES._leaf_asts`
  | .typesF ks _ _ => some (leafTypes K ks [])              -- (the fields are ignored)
  | .m p _ _ => leafAsts K p                                -- `M_Pattern_One._leaf_asts`
  | .mnot p _ _ =>                                          -- `MNOT._leaf_asts`
    if !typeOnly p then some K.all                          -- inner leaf set is only an upper bound: no complement
    else
      match leafAsts K p with
      | none => none
      | some la =>
        if la.isEmpty then some K.all
        else if isFull K la then some []
        else some (diff K.all la)
  | .mor ps => leafOr K ps []                               -- `MOR._leaf_asts`
  | .mand ps => leafAnd K ps K.all                          -- `MAND._leaf_asts`
  | .mmaybe _ _ _ => some K.all                             -- `_leaf_asts_default`: `AST2ASTSLEAF[AST]`
  | .ref _ => none                                          -- `_leaf_asts_unknown`
termination_by structural p => p
def leafOr (K : Kinds) : List (Option Name × Pat) → List Nat → Option (List Nat)
  | [], acc => some acc
  | (_, p) :: ps, acc =>
    match leafAsts K p with
    | none => none
    | some la =>
      if isFull K la then some la
      else
        let acc' := union acc la
        if isFull K acc' then some acc' else leafOr K ps acc'
termination_by structural ps => ps
def leafAnd (K : Kinds) : List (Option Name × Pat) → List Nat → Option (List Nat)
  | [], acc => some acc
  | (_, p) :: ps, acc =>
    match leafAsts K p with
    | none => none
    | some la =>
      if la.isEmpty then some la
      else
        let acc' := inter acc la
        if acc'.isEmpty then some acc' else leafAnd K ps acc'
termination_by structural ps => ps
end

mutual
/-- `FST.walk(True)`: pre-order over the AST nodes (kinds in `K.all`); pseudo-nodes are passed through -/
def walk (K : Kinds) : Tree → List Tree
  | .node i k ks => if K.all.contains k then .node i k ks :: walkList K ks else walkList K ks
termination_by structural t => t
def walkList (K : Kinds) : List Tree → List Tree
  | [] => []
  | t :: ts => walk K t ++ walkList K ts
termination_by structural ts => ts
end

/-- `search(pat)` (nested=True, on='enter'): walk restricted to the pre-filter's kinds, then `match`. -/
def search (K : Kinds) (p : Pat) (t : Tree) : List Tree :=
  match leafAsts K p with
  | none => (walk K t).filter (fun n => (matchNode K p [] n).isSome)
  | some la =>
    if isFull K la then (walk K t).filter (fun n => (matchNode K p [] n).isSome)       -- `walk_all = True`
    else ((walk K t).filter (fun n => la.contains n.kind)).filter (fun n => (matchNode K p [] n).isSome)

/-! ### `search` as a stream of walk events (`on = 'enter' | 'leave' | 'both'`) -/

mutual
/-- `FST.walk(True, 'both')`: every AST node once with `leaving = false` before its children and once with
`leaving = true` after them -/
def walkBoth (K : Kinds) : Tree → List (Tree × Bool)
  | .node i k ks =>
    if K.all.contains k then (.node i k ks, false) :: (walkBothList K ks ++ [(.node i k ks, true)]) else walkBothList K ks
termination_by structural t => t
def walkBothList (K : Kinds) : List Tree → List (Tree × Bool)
  | [] => []
  | t :: ts => walkBoth K t ++ walkBothList K ts
termination_by structural ts => ts
end

/-- the `on` parameter of `walk` / `search` -/
inductive On where
  | enter | leave | both
deriving DecidableEq, Repr, Inhabited

def On.keeps : On → Bool → Bool
  | .enter, leaving => !leaving
  | .leave, leaving => leaving
  | .both, _ => true

/-- the events `walk(walk_all, on)` delivers to the loop of `search`: the pre-filter restricts the node kinds -/
def walkEvents (K : Kinds) (p : Pat) (on : On) (t : Tree) : List (Tree × Bool) :=
  let evs := (walkBoth K t).filter (fun ev => on.keeps ev.2)
  match leafAsts K p with
  | none => evs
  | some la => if isFull K la then evs else evs.filter (fun ev => la.contains ev.1.kind)

/-- `search(pat, nested=True, on=on)`: at EVERY event `mstate.clear(); m = match_func(pat, f.a, mstate)` for the node
of that event; the event is yielded with that node's own tags (as `(FSTMatch, leaving)` when `on = 'both'`) -/
def searchEvents (K : Kinds) (p : Pat) (on : On) (t : Tree) : List (Tree × Bool × TEnv) :=
  (walkEvents K p on t).filterMap (fun ev =>
    match matchNode K p [] ev.1 with
    | none => none
    | some e => some (ev.1, ev.2, e))

end Pfst.Match
