/-!
# Pfst.Walk — executable model of pfst tree traversal (property C14)

Import-free.  Mirrors `src/fst/fst_traverse.py`:

* `walk` (the three loops for `on='enter'|'leave'|'both'`, parameters `all` (filter), `self_`, `recurse`, `back`;
  no `send`, no `scope`, no `asts`, no tree modification during the walk — those belong to C15),
* `next/prev/first_child/last_child/next_child/prev_child`, `step_fwd/step_back` (without `top`),
* `FST.child_path/child_from_path` (`src/fst/fst.py`).

A tree is `Node id lab cat kind kids`: `kids` is the list `syntax_ordered_children(ast)` without its `None` entries,
`lab` encodes the node's `pfield` (field, idx) injectively, `cat` is the filter category of the node's class (see
`checkAll`), `kind` the class index.  Parent pointers of the implementation are represented by a zipper (`Loc`).

Stack orientation: the Python code uses a `list` as stack and pops from its END.  The Lean stack is a `List` whose
HEAD is the top, i.e. the Python list reversed: Python `stack.extend(children[::-1])` is `children ++ stack` here,
Python `stack.extend(children)` (back=True) is `children.reverse ++ stack`.
-/
namespace Pfst.Walk

inductive Node where
  | mk (id lab cat kind : Nat) (kids : List Node)

namespace Node
def id : Node → Nat | .mk i _ _ _ _ => i
def lab : Node → Nat | .mk _ l _ _ _ => l
def cat : Node → Nat | .mk _ _ c _ _ => c
def kind : Node → Nat | .mk _ _ _ k _ => k
def kids : Node → List Node | .mk _ _ _ _ ks => ks
end Node

mutual
def size : Node → Nat
  | .mk _ _ _ _ ks => 1 + sizeL ks
def sizeL : List Node → Nat
  | [] => 0
  | k :: ks => size k + sizeL ks
end

theorem sizeL_append (a b : List Node) : sizeL (a ++ b) = sizeL a + sizeL b := by
  induction a with
  | nil => simp [sizeL]
  | cons x xs ih => simp [sizeL, ih]; omega

theorem sizeL_reverse (a : List Node) : sizeL a.reverse = sizeL a := by
  induction a with
  | nil => rfl
  | cons x xs ih => simp [sizeL_append, sizeL, ih]; omega

theorem size_eq (n : Node) : size n = 1 + sizeL n.kids := by
  cases n; simp [size, Node.kids]

theorem size_pos (n : Node) : 0 < size n := by
  rw [size_eq]; omega

/-- `children if back else children[::-1]` pushed on the Python stack = this list put in front of the Lean stack. -/
def orient (back : Bool) (l : List α) : List α := bif back then l.reverse else l

theorem sizeL_orient (back : Bool) (a : List Node) : sizeL (orient back a) = sizeL a := by
  cases back <;> simp [orient, sizeL_reverse]

/-! ## the `all` parameter — `_check_all_param` (fst_traverse.py)

`cat`: 0 ordinary node, 1 expr_context (Load/Store/Del), 2 boolop (And/Or), 3 operator / unaryop / cmpop,
4 `arguments` without any argument, 5 `arguments` with at least one argument. -/
inductive AllMode where
  | all                      -- all=True
  | dflt                     -- all=False
  | loc                      -- all='loc'
  | kinds (ks : List Nat)    -- a type or a container of types

def checkAll (m : AllMode) (n : Node) : Bool :=
  match m with
  | .all => true
  | .dflt => !(n.cat == 1 || n.cat == 2 || n.cat == 3 || n.cat == 4)
  | .loc => !(n.cat == 1 || n.cat == 2)
  | .kinds ks => ks.contains n.kind

/-! ## recursive specifications -/
mutual
/-- preorder; `back` = children visited in reverse order at every level -/
def pre (back : Bool) : Node → List Node
  | .mk i l c k ks => .mk i l c k ks :: preL back ks
def preL (back : Bool) : List Node → List Node
  | [] => []
  | k :: ks => bif back then preL back ks ++ pre back k else pre back k ++ preL back ks
end

mutual
def post (back : Bool) : Node → List Node
  | .mk i l c k ks => postL back ks ++ [.mk i l c k ks]
def postL (back : Bool) : List Node → List Node
  | [] => []
  | k :: ks => bif back then postL back ks ++ post back k else post back k ++ postL back ks
end

mutual
/-- bracketed order: `(n, false)` on entering, `(n, true)` on leaving -/
def brk (back : Bool) : Node → List (Node × Bool)
  | .mk i l c k ks => (.mk i l c k ks, false) :: (brkL back ks ++ [(.mk i l c k ks, true)])
def brkL (back : Bool) : List Node → List (Node × Bool)
  | [] => []
  | k :: ks => bif back then brkL back ks ++ brk back k else brk back k ++ brkL back ks
end

mutual
/-- the tree with every child list reversed -/
def mirror : Node → Node
  | .mk i l c k ks => .mk i l c k (mirrorL ks)
def mirrorL : List Node → List Node
  | [] => []
  | k :: ks => mirrorL ks ++ [mirror k]
end

def ids (l : List Node) : List Nat := l.map Node.id
def ids2 (l : List (Node × Bool)) : List (Nat × Bool) := l.map (fun x => (x.1.id, x.2))

/-! ## `walk`, loop `on='enter'` -/

/-- `while stack:` of the `on == 'enter'` branch of `walk` (no send, no scope). -/
def enterLoop (p : Node → Bool) (back recurse : Bool) : List Node → List Nat
  | [] => []
  | n :: st =>
    if p n then                                             -- if check_all_param(fst_): yield; recurse_ = recurse
      if !recurse then n.id :: enterLoop p back recurse st  --   if not recurse_: continue
      else n.id :: enterLoop p back recurse (orient back n.kids ++ st)
    else if !recurse then enterLoop p back recurse st       -- elif not recurse: continue
    else enterLoop p back recurse (orient back n.kids ++ st)  -- stack.extend(children if back else children[::-1])
termination_by st => sizeL st
decreasing_by
  all_goals simp only [sizeL, sizeL_append, sizeL_orient, size_eq]
  all_goals omega

/-- `walk(all, 'enter', self_=, recurse=, back=)`: preamble (yield of `self`) + loop. -/
def walkEnter (p : Node → Bool) (back recurse self_ : Bool) (t : Node) : List Nat :=
  (if self_ && p t then [t.id] else []) ++ enterLoop p back recurse (orient back t.kids)

/-! ## `walk`, loops `on='leave'` and `on='both'`: the stack holds ASTs ("entering") and FSTs ("leaving") -/
inductive Item where
  | enter (n : Node)
  | leave (n : Node)

def weight : List Item → Nat
  | [] => 0
  | .enter n :: r => 2 * size n + weight r
  | .leave _ :: r => 1 + weight r

theorem weight_append (a b : List Item) : weight (a ++ b) = weight a + weight b := by
  induction a with
  | nil => simp [weight]
  | cons x xs ih => cases x <;> simp [weight, ih] <;> omega

theorem weight_enter (l : List Node) : weight (l.map Item.enter) = 2 * sizeL l := by
  induction l with
  | nil => rfl
  | cons x xs ih => simp [weight, sizeL, ih]; omega

/-- `while stack:` of the `is_leave` branch. -/
def leaveLoop (p : Node → Bool) (back : Bool) : List Item → List Nat
  | [] => []
  | .leave n :: st =>                                     -- isinstance(ast, FST): "leaving" node
    if !p n then leaveLoop p back st                      --   if not check_all_param(fst_): continue
    else n.id :: leaveLoop p back st                      --   yield
  | .enter n :: st =>                                     -- "entering" node
    if !p n then leaveLoop p back ((orient back n.kids).map Item.enter ++ st)   -- children still walked
    else if !n.kids.isEmpty then
      leaveLoop p back ((orient back n.kids).map Item.enter ++ Item.leave n :: st)  -- stack.append(fst_); extend
    else n.id :: leaveLoop p back st                      -- no children: yield immediately
termination_by st => weight st
decreasing_by
  all_goals simp only [weight, weight_append, weight_enter, sizeL_orient, size_eq]
  all_goals omega

/-- `walk(all, 'leave', ...)`.  With `recurse=False` the first level of children is put on the stack as FSTs
(`stack = [a.f for a in stack if a]`).  The final yield of `self` is subject to the `all` check like every other yield
(`if self_ and (ast := self.a) and check_all_param(self)`, fix of finding C14-F1). -/
def walkLeave (p : Node → Bool) (back recurse self_ : Bool) (t : Node) : List Nat :=
  leaveLoop p back (bif recurse then (orient back t.kids).map Item.enter else (orient back t.kids).map Item.leave)
    ++ (if self_ && p t then [t.id] else [])

/-- `while stack:` of the `on='both'` branch. -/
def bothLoop (p : Node → Bool) (back recurse : Bool) : List Item → List (Nat × Bool)
  | [] => []
  | .leave n :: st =>
    if !p n then bothLoop p back recurse st
    else (n.id, true) :: bothLoop p back recurse st       -- yield (fst_, True); recurse_ = False: continue
  | .enter n :: st =>
    if p n then                                           -- yield (fst_, False); stack.append(fst_)
      if !recurse then (n.id, false) :: bothLoop p back recurse (Item.leave n :: st)
      else (n.id, false) :: bothLoop p back recurse ((orient back n.kids).map Item.enter ++ Item.leave n :: st)
    else if !recurse then bothLoop p back recurse st      -- elif not recurse: continue
    else bothLoop p back recurse ((orient back n.kids).map Item.enter ++ st)
termination_by st => weight st
decreasing_by
  all_goals simp only [weight, weight_append, weight_enter, sizeL_orient, size_eq]
  all_goals omega

/-- `walk(all, 'both', ...)`: `(self, False)` and the final `(self, True)` are both subject to the `all` check. -/
def walkBoth (p : Node → Bool) (back recurse self_ : Bool) (t : Node) : List (Nat × Bool) :=
  (if self_ && p t then [(t.id, false)] else [])
    ++ bothLoop p back recurse ((orient back t.kids).map Item.enter)
    ++ (if self_ && p t then [(t.id, true)] else [])

/-! ## locations (zipper): a node together with its chain of parents -/
structure Frame where
  par : Node            -- the parent node
  lefts : List Node     -- siblings before the focus, nearest first
  rights : List Node    -- siblings after the focus, in order

structure Loc where
  focus : Node
  ctx : List Frame      -- innermost parent first; `[]` = root

def rootLoc (t : Node) : Loc := ⟨t, []⟩

/-- `self.parent` -/
def Loc.up : Loc → Option Loc
  | ⟨_, []⟩ => none
  | ⟨_, fr :: c⟩ => some ⟨fr.par, c⟩

/-- The loop `while True: self = NEXT_FUNCS[...](parenta, idx); if not self: return None; if check: return self`
shared by `next`, `first_child`, `next_child`: NEXT = successor in the syntax-ordered child list (table_consistent). -/
def nextFrom (p : Node → Bool) (par : Node) (c : List Frame) : List Node → List Node → Option Loc
  | _, [] => none
  | ls, r :: rs => if p r then some ⟨r, ⟨par, ls, rs⟩ :: c⟩ else nextFrom p par c (r :: ls) rs

/-- same for PREV_FUNCS -/
def prevFrom (p : Node → Bool) (par : Node) (c : List Frame) : List Node → List Node → Option Loc
  | [], _ => none
  | l :: ls, rs => if p l then some ⟨l, ⟨par, ls, rs⟩ :: c⟩ else prevFrom p par c ls (l :: rs)

/-- `FST.next(all)` -/
def next (p : Node → Bool) : Loc → Option Loc
  | ⟨_, []⟩ => none                                       -- is_root
  | ⟨f, fr :: c⟩ => nextFrom p fr.par c (f :: fr.lefts) fr.rights

/-- `FST.prev(all)` -/
def prev (p : Node → Bool) : Loc → Option Loc
  | ⟨_, []⟩ => none
  | ⟨f, fr :: c⟩ => prevFrom p fr.par c fr.lefts (f :: fr.rights)

/-- `FST.first_child(all)` -/
def firstChild (p : Node → Bool) (l : Loc) : Option Loc := nextFrom p l.focus l.ctx [] l.focus.kids

/-- `FST.last_child(all)` -/
def lastChild (p : Node → Bool) (l : Loc) : Option Loc := prevFrom p l.focus l.ctx l.focus.kids.reverse []

/-- `FST.next_child(from_child, all)`; `from_child` must be a child of `self` -/
def nextChild (p : Node → Bool) (l : Loc) : Option Loc → Option Loc
  | none => firstChild p l
  | some ch => next p ch

/-- `FST.prev_child(from_child, all)` -/
def prevChild (p : Node → Bool) (l : Loc) : Option Loc → Option Loc
  | none => lastChild p l
  | some ch => prev p ch

/-! ## `step_fwd` / `step_back` (without `top`) -/

/-- `while not (fst_ := self.next(True)): if (self := self.parent) in (None,): return None` -/
def ascendNext (f : Node) : List Frame → Option Loc
  | [] => none
  | ⟨par, ls, r :: rs⟩ :: c => some ⟨r, ⟨par, f :: ls, rs⟩ :: c⟩
  | ⟨par, _, []⟩ :: c => ascendNext par c

def ascendPrev (f : Node) : List Frame → Option Loc
  | [] => none
  | ⟨par, l :: ls, rs⟩ :: c => some ⟨l, ⟨par, ls, f :: rs⟩ :: c⟩
  | ⟨par, [], _⟩ :: c => ascendPrev par c

/-- nodes after `f` in forward preorder that are not below it -/
def restUp : List Frame → List Node
  | [] => []
  | ⟨_, _, rs⟩ :: c => preL false rs ++ restUp c

/-- nodes after the location in forward preorder -/
def rest (l : Loc) : List Node := preL false l.focus.kids ++ restUp l.ctx

def restUpB : List Frame → List Node
  | [] => []
  | ⟨_, ls, _⟩ :: c => preL true ls.reverse ++ restUpB c

/-- nodes after the location in backward (`back=True`) preorder -/
def restB (l : Loc) : List Node := preL true l.focus.kids ++ restUpB l.ctx

/-- The two inner loops of the `while True:` of `step_fwd`, entered with a candidate `fst_`:
`if check(fst_): return fst_; self = fst_; fst_ = self.first_child(True)` and, when that is None, back to
`self.next(True)` / parents.  `fuel` bounds the number of candidates inspected. -/
def fwdLoop (p : Node → Bool) : Nat → Loc → Option Loc
  | 0, _ => none
  | fuel + 1, l =>
    if p l.focus then some l
    else match firstChild (fun _ => true) l with
      | some ch => fwdLoop p fuel ch
      | none => match ascendNext l.focus l.ctx with
        | none => none
        | some n => fwdLoop p fuel n

def backLoop (p : Node → Bool) : Nat → Loc → Option Loc
  | 0, _ => none
  | fuel + 1, l =>
    if p l.focus then some l
    else match lastChild (fun _ => true) l with
      | some ch => backLoop p fuel ch
      | none => match ascendPrev l.focus l.ctx with
        | none => none
        | some n => backLoop p fuel n

/-- `FST.step_fwd(all, recurse_self)`.  The first `while` (descent along first children when `recurse_self`) is the
same check-then-descend loop; the fuel is the number of nodes after the location (proved sufficient: `stepFwd_spec`). -/
def stepFwd (p : Node → Bool) (recurseSelf : Bool) (l : Loc) : Option Loc :=
  let fuel := (rest l).length
  match (if recurseSelf then firstChild (fun _ => true) l else none) with
  | some ch => fwdLoop p fuel ch
  | none => match ascendNext l.focus l.ctx with
    | none => none
    | some n => fwdLoop p fuel n

/-- `FST.step_back(all, recurse_self)` -/
def stepBack (p : Node → Bool) (recurseSelf : Bool) (l : Loc) : Option Loc :=
  let fuel := (restB l).length
  match (if recurseSelf then lastChild (fun _ => true) l else none) with
  | some ch => backLoop p fuel ch
  | none => match ascendPrev l.focus l.ctx with
    | none => none
    | some n => backLoop p fuel n

/-- repeated application, collecting the visited nodes -/
def iter (f : Loc → Option Loc) : Nat → Option Loc → List Node
  | 0, _ => []
  | _ + 1, none => []
  | n + 1, some l => l.focus :: iter f n (f l)

/-! ## paths: `FST.child_path`, `FST.child_from_path` -/

/-- `while child is not self: path.append(child.pfield); child = child.parent` (raise if no parent);
node identity is identity of `id`.  The accumulator is built top-down, Python appends and reverses. -/
def childPathGo (selfId : Nat) (f : Node) (acc : List Nat) : List Frame → Option (List Nat)
  | [] => if f.id == selfId then some acc else none
  | fr :: c => if f.id == selfId then some acc else childPathGo selfId fr.par (f.lab :: acc) c

def childPath (self child : Loc) : Option (List Nat) := childPathGo self.focus.id child.focus [] child.ctx

/-- the child in field/index `lab` (`astfield.get_default`) together with its siblings -/
def findKid (lab : Nat) (par : Node) (c : List Frame) : List Node → List Node → Option Loc
  | _, [] => none
  | ls, r :: rs => if r.lab == lab then some ⟨r, ⟨par, ls, rs⟩ :: c⟩ else findKid lab par c (r :: ls) rs

/-- `for p in path: next = p.get_default(self.a); if next is False: return False; self = next.f` -/
def childFromPath (l : Loc) : List Nat → Option Loc
  | [] => some l
  | lab :: path => match findKid lab l.focus l.ctx [] l.focus.kids with
    | none => none
    | some ch => childFromPath ch path

/-- locate the node with identity `i` (first in forward preorder); used by the driver to address nodes -/
def locate (i : Nat) (t : Node) : Option Loc :=
  if t.id == i then some (rootLoc t) else stepFwd (fun n => n.id == i) true (rootLoc t)

end Pfst.Walk
