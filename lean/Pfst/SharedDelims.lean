import Pfst.Gen.C08Families
import Pfst.Gen.C08Ident
/-
Which fix-up follows a put into an expression slot whose delimiters are shared with its statement (no imports except the
extracted table `Pfst/Gen/C08Families.lean`, regenerated from /repo/src/fst/asttypes.py on every run).

`_put_one_withitem_context_expr` (src/fst/fst_put_one.py): after the put, `_fix_With_items(parent)` (which re-adds the
parentheses that keep a sole parenthesised item from being read as the statement's own item list) runs exactly when the
parent statement is in `ASTS_LEAF_WITH`.
-/
namespace Pfst.SharedDelims
open Pfst.Gen.C08Families

/-- membership of a statement kind in family number `i` of the table (ASTS_LEAF_WITH = 0, _FOR = 1, _FUNCDEF = 2, _TRY = 3) -/
def inFamily (i : Nat) (kind : String) : Bool :=
  match table.find? (fun r => r.1 == kind) with
  | some r => r.2.getD i false
  | none => false

/-- `parent.a.__class__ in ASTS_LEAF_WITH` -/
def fixWithItems (parentKind : String) : Bool := inFamily 0 parentKind

/-- the sync / async twins of the statement grammar -/
def twins : List (String × String) :=
  [("With", "AsyncWith"), ("For", "AsyncFor"), ("FunctionDef", "AsyncFunctionDef")]

/-- `_put_one_AnnAssign_target`: the value written to `AnnAssign.simple` after a put into `target`:
`1 if ret.a.__class__ is Name and not ret.pars().n else 0`. -/
def annSimple (targetIsName : Bool) (npars : Nat) : Nat := if targetIsName && npars == 0 then 1 else 0

/-- CPython (Grammar/python.gram, `assignment`): `simple` is 1 for `NAME ':' expression ['=' ...]`, 0 for
`'(' single_target ')'` and for attribute / subscript targets. -/
def annSimpleSpec (targetIsName : Bool) (npars : Nat) : Nat :=
  match targetIsName, npars with
  | true, 0 => 1
  | _, _ => 0

/-- Every identifier normaliser of `code.py` (`code_as_identifier`, `_dotted`, `_star`, `_alias`) returns, for every code
form (str, list of lines, FST node, pure AST), the NFKC form that CPython will read back from the source it is written to
(table extracted by running the functions on non-NFKC probe spellings on every run). -/
def identFormsNormalised : Bool := Pfst.Gen.C08Ident.table.all (fun r => r.2.2)

/-- `astutil.last_block_header_child`, ClassDef case: the last starred base is the last header child exactly when it
starts after the last keyword in SOURCE ORDER: `(base.lineno, base.col_offset) > (kw.lineno, kw.col_offset)`. -/
def posAfter (l1 c1 l2 c2 : Nat) : Bool := decide (l1 > l2) || (l1 == l2 && decide (c1 > c2))

end Pfst.SharedDelims
