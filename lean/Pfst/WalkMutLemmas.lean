import Pfst.WalkMut

/-!
Well-formedness of a store, the contract a consumer mutation has to meet, and the invariant of the `on='enter'` walk
machine with its preservation lemmas.
-/
namespace Pfst.WalkMut

/-- `x` hangs in the tree: reachable from the tree root through live parents. -/
inductive Reach (σ : Store) : AstId → Prop where
  | root {x} : σ.a σ.rootF = some x → Reach σ x
  | kid {p x} : Reach σ p → σ.f p ≠ none → x ∈ σ.kids p → Reach σ x

/-- What the object graph looks like between two operations (`_make_fst_tree` / `_unmake_fst_tree` discipline):
links are mutual, every linked ("alive") AST hangs in the tree, children lists are duplicate-free, a node has one
parent, depths increase by one, ids are below the allocation bound. -/
structure WF (σ : Store) : Prop where
  fa : ∀ x φ, σ.f x = some φ → σ.a φ = some x
  af : ∀ φ x, σ.a φ = some x → σ.f x = some φ
  reach : ∀ x, σ.f x ≠ none → Reach σ x
  kids_nodup : ∀ x, σ.f x ≠ none → (σ.kids x).Nodup
  kids_lt : ∀ x k, σ.f x ≠ none → k ∈ σ.kids x → k < σ.bound
  uniq_parent : ∀ x y k, σ.f x ≠ none → σ.f y ≠ none → k ∈ σ.kids x → k ∈ σ.kids y → x = y
  depth_kids : ∀ x k, σ.f x ≠ none → k ∈ σ.kids x → σ.depth k = σ.depth x + 1
  live_lt : ∀ x, σ.f x ≠ none → x < σ.bound
  fst_lt : ∀ φ x, σ.a φ = some x → φ < σ.bound

/-- The contract of a consumer mutation `σ → σ'` (replace / remove / insert of whole subtrees, never a move):
dead stays dead, the children of a surviving AST change only by deletion and by insertion of fresh ids, fresh ASTs have
fresh children, nodes keep their depth, a dead FST stays dead, and an FST changes its AST only to a fresh one that
hangs where the old one hung. -/
structure Mut (σ σ' : Store) : Prop where
  bound_le : σ.bound ≤ σ'.bound
  live_mono : ∀ x, x < σ.bound → σ'.f x ≠ none → σ.f x ≠ none
  kids_old : ∀ p k, p < σ.bound → σ'.f p ≠ none → k ∈ σ'.kids p → k ∈ σ.kids p ∨ σ.bound ≤ k
  kids_new : ∀ p k, σ.bound ≤ p → σ'.f p ≠ none → k ∈ σ'.kids p → σ.bound ≤ k
  depth_old : ∀ x, x < σ.bound → σ'.f x ≠ none → σ'.depth x = σ.depth x
  a_dead : ∀ φ, φ < σ.bound → σ.a φ = none → σ'.a φ = none
  a_change : ∀ φ x x', σ.a φ = some x → σ'.a φ = some x' →
    x' = x ∨ (σ.bound ≤ x' ∧ σ'.depth x' = σ.depth x ∧
              ∀ p, σ'.f p ≠ none → x' ∈ σ'.kids p → σ.f p ≠ none ∧ x ∈ σ.kids p)

theorem Mut.refl (σ : Store) (h : WF σ) : Mut σ σ where
  bound_le := Nat.le_refl _
  live_mono := fun _ _ h => h
  kids_old := fun _ _ _ _ h => .inl h
  kids_new := fun p _ hp hl _ => absurd (h.live_lt p hl) (Nat.not_lt.mpr hp)
  depth_old := fun _ _ _ => rfl
  a_dead := fun _ _ h => h
  a_change := fun φ x x' h1 h2 => .inl (by rw [h1] at h2; exact (Option.some.inj h2).symm)

/-! ### Soundness of the executable checks `Store.wfB` / `Store.mutB` -/

theorem nodupB_iff : ∀ (l : List Nat), nodupB l = true ↔ l.Nodup
  | [] => by simp [nodupB]
  | x :: xs => by simp [nodupB, nodupB_iff xs, List.nodup_cons]

theorem pairwise_symm_forall {α} {R : α → α → Prop} (hs : ∀ a b, R a b → R b a) :
    ∀ {l : List α}, l.Pairwise R → ∀ a ∈ l, ∀ b ∈ l, a ≠ b → R a b := by
  intro l h
  induction h with
  | nil => intro a ha; cases ha
  | @cons c l hx _ ih =>
    intro a ha b hb hab
    rcases List.mem_cons.mp ha with h1 | h1 <;> rcases List.mem_cons.mp hb with h2 | h2
    · exact absurd (h1.trans h2.symm) hab
    · rw [h1]; exact hx b h2
    · rw [h2]; exact hs _ _ (hx a h1)
    · exact ih a h1 b h2 hab

theorem isSome_of_ne_none {α} {o : Option α} (h : o ≠ none) : o.isSome = true := by
  cases o <;> simp_all

theorem mem_allKids {σ : Store} {A : List AstId} {k : AstId} :
    k ∈ σ.allKids A ↔ ∃ p ∈ A, σ.f p ≠ none ∧ k ∈ σ.kids p := by
  unfold Store.allKids
  rw [List.mem_flatMap]
  constructor
  · rintro ⟨p, hp, hk⟩
    by_cases hl : (σ.f p).isSome = true
    · rw [if_pos hl] at hk
      exact ⟨p, hp, by intro h; rw [h] at hl; simp at hl, hk⟩
    · rw [if_neg hl] at hk; cases hk
  · rintro ⟨p, hp, hl, hk⟩
    exact ⟨p, hp, by rw [if_pos (isSome_of_ne_none hl)]; exact hk⟩

/-- if the executable check passes on lists covering everything alive, the store is well-formed -/
theorem wfB_sound {σ : Store} {A F : List Nat} (hA : ∀ x, σ.f x ≠ none → x ∈ A)
    (hF : ∀ φ x, σ.a φ = some x → φ ∈ F) (h : σ.wfB A F = true) : WF σ := by
  unfold Store.wfB at h
  simp only [Bool.and_eq_true, List.all_eq_true] at h
  obtain ⟨⟨h1, h2⟩, h3⟩ := h
  have hnode : ∀ x φ, σ.f x = some φ →
      σ.a φ = some x ∧ x < σ.bound ∧ (σ.kids x).Nodup ∧
      (∀ k ∈ σ.kids x, k < σ.bound ∧ σ.depth k = σ.depth x + 1) ∧
      (σ.a σ.rootF = some x ∨ x ∈ σ.allKids A) := by
    intro x φ hx
    have := h1 x (hA x (by rw [hx]; simp))
    rw [hx] at this
    simp only [Bool.and_eq_true, Bool.or_eq_true, beq_iff_eq, decide_eq_true_eq, List.all_eq_true,
      nodupB_iff, List.contains_iff_mem] at this
    obtain ⟨⟨⟨⟨a1, a2⟩, a3⟩, a4⟩, a5⟩ := this
    exact ⟨a1, a2, a3, a4, a5⟩
  have live_some : ∀ x, σ.f x ≠ none → ∃ φ, σ.f x = some φ := by
    intro x hx; cases hf : σ.f x with
    | none => exact absurd hf hx
    | some φ => exact ⟨φ, rfl⟩
  have hdepth : ∀ x k, σ.f x ≠ none → k ∈ σ.kids x → σ.depth k = σ.depth x + 1 := by
    intro x k hx hk
    obtain ⟨φ, hφ⟩ := live_some x hx
    exact ((hnode x φ hφ).2.2.2.1 k hk).2
  refine { fa := fun x φ hx => (hnode x φ hx).1, af := ?_, reach := ?_, kids_nodup := ?_, kids_lt := ?_,
           uniq_parent := ?_, depth_kids := hdepth, live_lt := ?_, fst_lt := ?_ }
  · intro φ x hx
    have := h2 φ (hF φ x hx)
    rw [hx] at this
    simp only [Bool.and_eq_true, beq_iff_eq, decide_eq_true_eq] at this
    exact this.1
  · -- reach: induction on the depth
    have key : ∀ n x, σ.depth x = n → σ.f x ≠ none → Reach σ x := by
      intro n
      induction n using Nat.strongRecOn with
      | _ n ih =>
        intro x hd hx
        obtain ⟨φ, hφ⟩ := live_some x hx
        rcases (hnode x φ hφ).2.2.2.2 with hr | hk
        · exact .root hr
        · obtain ⟨p, _, hpl, hkp⟩ := mem_allKids.mp hk
          have := hdepth p x hpl hkp
          exact .kid (ih (σ.depth p) (by omega) p rfl hpl) hpl hkp
    intro x hx; exact key _ x rfl hx
  · intro x hx
    obtain ⟨φ, hφ⟩ := live_some x hx
    exact (hnode x φ hφ).2.2.1
  · intro x k hx hk
    obtain ⟨φ, hφ⟩ := live_some x hx
    exact ((hnode x φ hφ).2.2.2.1 k hk).1
  · intro x y k hx hy hkx hky
    by_cases hxy : x = y
    · exact hxy
    · exfalso
      have hn : (σ.allKids A).Nodup := (nodupB_iff _).mp h3
      unfold Store.allKids at hn
      rw [List.nodup_iff_pairwise_ne, List.pairwise_flatMap] at hn
      have := pairwise_symm_forall (R := fun a₁ a₂ => ∀ u ∈ (if (σ.f a₁).isSome then σ.kids a₁ else []),
          ∀ v ∈ (if (σ.f a₂).isSome then σ.kids a₂ else []), u ≠ v)
        (fun a b hab u hu v hv huv => hab v hv u hu huv.symm) hn.2 x (hA x hx) y (hA y hy) hxy
      exact this k (by rw [if_pos (isSome_of_ne_none hx)]; exact hkx) k
        (by rw [if_pos (isSome_of_ne_none hy)]; exact hky) rfl
  · intro x hx
    obtain ⟨φ, hφ⟩ := live_some x hx
    exact (hnode x φ hφ).2.1
  · intro φ x hx
    have := h2 φ (hF φ x hx)
    rw [hx] at this
    simp only [Bool.and_eq_true, beq_iff_eq, decide_eq_true_eq] at this
    exact this.2

/-- if the executable check passes on lists covering everything alive afterwards, the change meets the contract -/
theorem mutB_sound {σ σ' : Store} {A' F' : List Nat} (hA : ∀ x, σ'.f x ≠ none → x ∈ A')
    (hF : ∀ φ x, σ'.a φ = some x → φ ∈ F') (h : σ.mutB σ' A' F' = true) : Mut σ σ' := by
  unfold Store.mutB at h
  simp only [Bool.and_eq_true, List.all_eq_true, decide_eq_true_eq] at h
  obtain ⟨⟨h0, h1⟩, h2⟩ := h
  have live_some : ∀ x, σ'.f x ≠ none → ∃ φ, σ'.f x = some φ := by
    intro x hx; cases hf : σ'.f x with
    | none => exact absurd hf hx
    | some φ => exact ⟨φ, rfl⟩
  have hold : ∀ x, x < σ.bound → σ'.f x ≠ none →
      σ.f x ≠ none ∧ σ'.depth x = σ.depth x ∧ ∀ k ∈ σ'.kids x, σ.bound ≤ k ∨ k ∈ σ.kids x := by
    intro x hb hx
    obtain ⟨φ, hφ⟩ := live_some x hx
    have := h1 x (hA x hx)
    rw [hφ] at this
    simp only [hb, if_true, Bool.and_eq_true, beq_iff_eq, List.all_eq_true, Bool.or_eq_true, decide_eq_true_eq,
      List.contains_iff_mem] at this
    obtain ⟨⟨a1, a2⟩, a3⟩ := this
    refine ⟨?_, a2, a3⟩
    intro hn; rw [hn] at a1; simp at a1
  have hnew : ∀ x, σ.bound ≤ x → σ'.f x ≠ none → ∀ k ∈ σ'.kids x, σ.bound ≤ k := by
    intro x hb hx
    obtain ⟨φ, hφ⟩ := live_some x hx
    have := h1 x (hA x hx)
    rw [hφ] at this
    have hnb : ¬ x < σ.bound := Nat.not_lt.mpr hb
    simp only [hnb, if_false, List.all_eq_true, decide_eq_true_eq] at this
    exact this
  refine { bound_le := h0, live_mono := fun x hb hx => (hold x hb hx).1, kids_old := ?_, kids_new := ?_,
           depth_old := fun x hb hx => (hold x hb hx).2.1, a_dead := ?_, a_change := ?_ }
  · intro p k hb hp hk
    rcases (hold p hb hp).2.2 k hk with h | h
    · exact .inr h
    · exact .inl h
  · intro p k hb hp hk; exact hnew p hb hp k hk
  · intro φ hb hd
    cases hx' : σ'.a φ with
    | none => rfl
    | some x' =>
      have := h2 φ (hF φ x' hx')
      rw [hx', hd] at this
      simp only [decide_eq_true_eq] at this
      exact absurd hb (Nat.not_lt.mpr this)
  · intro φ x x' hx hx'
    have := h2 φ (hF φ x' hx')
    rw [hx', hx] at this
    simp only [Bool.or_eq_true, beq_iff_eq, Bool.and_eq_true, decide_eq_true_eq, List.all_eq_true,
      Bool.not_eq_true', List.contains_iff_mem] at this
    rcases this with h | ⟨⟨a1, a2⟩, a3⟩
    · exact .inl h
    · refine .inr ⟨a1, a2, ?_⟩
      intro p hp hk
      have := a3 p (hA p hp)
      rcases this with h | h
      · rw [Bool.and_eq_false_iff] at h
        rcases h with h | h
        · rw [isSome_of_ne_none hp] at h; cases h
        · have : (σ'.kids p).contains x' = true := List.contains_iff_mem.mpr hk
          rw [this] at h; cases h
      · refine ⟨?_, h.2⟩
        intro hn; rw [hn] at h; simp at h

/-! ### The concrete tree store: everything alive is listed in `aids` / `fids` -/
namespace Tree

mutual
theorem findA_none {x : AstId} : ∀ t : Tree, x ∉ aids t → findA x t = none
  | .mk a f l v ks => by
    intro h
    simp only [aids, List.mem_cons, not_or] at h
    simp only [findA]
    have : (a == x) = false := by simpa using (fun e => h.1 e.symm)
    rw [this]; exact findAs_none ks h.2
theorem findAs_none {x : AstId} : ∀ ts : List Tree, x ∉ aidsL ts → findAs x ts = none
  | [] => by intro _; rfl
  | t :: ts => by
    intro h
    simp only [aidsL, List.mem_append, not_or] at h
    simp only [findAs, findA_none t h.1, findAs_none ts h.2]
end

mutual
theorem findF_none {φ : FstId} : ∀ t : Tree, φ ∉ fids t → findF φ t = none
  | .mk a f l v ks => by
    intro h
    simp only [fids, List.mem_cons, not_or] at h
    simp only [findF]
    have : (f == φ) = false := by simpa using (fun e => h.1 e.symm)
    rw [this]; exact findFs_none ks h.2
theorem findFs_none {φ : FstId} : ∀ ts : List Tree, φ ∉ fidsL ts → findFs φ ts = none
  | [] => by intro _; rfl
  | t :: ts => by
    intro h
    simp only [fidsL, List.mem_append, not_or] at h
    simp only [findFs, findF_none t h.1, findFs_none ts h.2]
end

theorem live_mem_aids (t : Tree) (b : Nat) (g) (x : AstId) (h : (toStore t b g).f x ≠ none) : x ∈ aids t := by
  by_cases hm : x ∈ aids t
  · exact hm
  · exfalso; apply h; simp [toStore, findA_none t hm]

theorem live_mem_fids (t : Tree) (b : Nat) (g) (φ : FstId) (x : AstId) (h : (toStore t b g).a φ = some x) :
    φ ∈ fids t := by
  by_cases hm : φ ∈ fids t
  · exact hm
  · exfalso; simp [toStore, findF_none t hm] at h

end Tree

/-- the driver's per-store check implies well-formedness of the concrete store -/
theorem CStore.wfB_sound {c : CStore} (h : c.wfB = true) : WF c.store :=
  Pfst.WalkMut.wfB_sound (Tree.live_mem_aids c.tree c.next c.grave) (Tree.live_mem_fids c.tree c.next c.grave) h

/-- the driver's per-mutation check implies the consumer contract and well-formedness afterwards -/
theorem CStore.mutB_sound {c c' : CStore} (h : c.mutB c' = true) : Mut c.store c'.store ∧ WF c'.store := by
  unfold CStore.mutB at h
  rw [Bool.and_eq_true] at h
  exact ⟨Pfst.WalkMut.mutB_sound (Tree.live_mem_aids c'.tree c'.next c'.grave)
           (Tree.live_mem_fids c'.tree c'.next c'.grave) h.1, CStore.wfB_sound h.2⟩

namespace Enter

/-- everything on the stacks of the `yield from` chain -/
def stackAll (s : St) : List AstId := s.frames.flatMap (·.stack)

/-- what the state-specific part of the invariant says while the generator is suspended -/
def CtlInv (σ : Store) (s : St) : Prop :=
  match s.ctl with
  | .start => s.frames = [] ∧ s.popped = [] ∧ s.expanded = [] ∧ s.entered = []
  | .rootYield _ => s.frames = [] ∧ s.popped = [] ∧ s.expanded = [] ∧ s.root < σ.bound ∧
      (∀ x, σ.a s.root = some x → σ.depth x = s.d0)
  | .yielded φ _ => s.frames ≠ [] ∧ φ < σ.bound ∧
      ∀ x, σ.a φ = some x → x ∉ stackAll s ∧ x ∉ s.expanded ∧ s.d0 < σ.depth x ∧
        ∀ p, σ.f p ≠ none → x ∈ σ.kids p → p ∈ s.expanded
  | .running => True
  | .done => True

/-- The list part of the invariant, over `S` = everything on the stacks, `P` = popped, `E` = expanded,
`En` = entered, `d0` = depth of the walk root: no AST id is on a stack twice or on a stack after it was popped;
everything the walk holds is below the allocation bound; what is on the stacks is deeper than the walk root; if a child
of a live node was ever pushed then the node was expanded; expanded and entered ids were popped (or are the walk root
itself); no AST id was entered twice. -/
structure Core (σ : Store) (S P E En : List AstId) (d0 : Nat) : Prop where
  wf : WF σ
  nodup : (S ++ P).Nodup
  lt : ∀ x ∈ S ++ P, x < σ.bound
  exp_lt : ∀ x ∈ E, x < σ.bound
  deep : ∀ y ∈ S, σ.f y ≠ none → d0 < σ.depth y
  pushed_parent : ∀ p k, σ.f p ≠ none → k ∈ σ.kids p → k ∈ S ++ P → p ∈ E
  exp_src : ∀ x ∈ E, x ∈ P ∨ (σ.f x ≠ none → σ.depth x = d0)
  ent_nodup : En.Nodup
  ent_src : ∀ x ∈ En, x ∈ P ∨ (σ.f x ≠ none → σ.depth x = d0)
  ent_lt : ∀ x ∈ En, x < σ.bound

/-- The invariant of the `on='enter'` walk machine. -/
structure Inv (σ : Store) (s : St) : Prop where
  core : Core σ (stackAll s) s.popped s.expanded s.entered s.d0
  ctl : CtlInv σ s

theorem mem_order {back : Bool} {ks : List AstId} {k : AstId} : k ∈ order back ks ↔ k ∈ ks := by
  unfold order; split <;> simp

theorem nodup_order {back : Bool} {ks : List AstId} : (order back ks).Nodup ↔ ks.Nodup := by
  unfold order; split
  · exact (List.reverse_perm _).nodup_iff
  · exact Iff.rfl

namespace Core
variable {σ : Store} {S P E En : List AstId} {d0 : Nat}

/-- a live stack entry was not expanded -/
theorem stack_unexp (h : Core σ S P E En d0) {y : AstId} (hy : y ∈ S) (hl : σ.f y ≠ none) : y ∉ E := by
  intro he
  rcases h.exp_src y he with hp | hd
  · have := h.nodup
    rw [List.nodup_append] at this
    exact this.2.2 y hy y hp rfl
  · have := h.deep y hy hl
    rw [hd hl] at this
    exact Nat.lt_irrefl _ this

/-- a live stack entry was not entered -/
theorem stack_unent (h : Core σ S P E En d0) {y : AstId} (hy : y ∈ S) (hl : σ.f y ≠ none) : y ∉ En := by
  intro he
  rcases h.ent_src y he with hp | hd
  · have := h.nodup
    rw [List.nodup_append] at this
    exact this.2.2 y hy y hp rfl
  · have := h.deep y hy hl
    rw [hd hl] at this
    exact Nat.lt_irrefl _ this

/-- `ast = stack.pop()` -/
theorem pop {x : AstId} (h : Core σ (x :: S) P E En d0) : Core σ S (x :: P) E En d0 := by
  have hperm : (S ++ x :: P).Perm (x :: S ++ P) := List.perm_middle
  refine { h with nodup := ?_, lt := ?_, deep := ?_, pushed_parent := ?_, exp_src := ?_, ent_src := ?_ }
  · exact hperm.nodup_iff.mpr h.nodup
  · intro y hy; exact h.lt y (hperm.mem_iff.mp hy)
  · intro y hy; exact h.deep y (List.mem_cons_of_mem _ hy)
  · intro p k hp hk hm; exact h.pushed_parent p k hp hk (hperm.mem_iff.mp hm)
  · intro y hy; rcases h.exp_src y hy with h1 | h1
    · exact .inl (List.mem_cons_of_mem _ h1)
    · exact .inr h1
  · intro y hy; rcases h.ent_src y hy with h1 | h1
    · exact .inl (List.mem_cons_of_mem _ h1)
    · exact .inr h1

/-- record the entry of a node that was just popped alive -/
theorem enter {x : AstId} (h : Core σ (x :: S) P E En d0) (hl : σ.f x ≠ none) :
    Core σ S (x :: P) E (x :: En) d0 := by
  have hx : x ∉ En := h.stack_unent (List.mem_cons_self) hl
  have hp := h.pop
  refine { hp with ent_nodup := ?_, ent_src := ?_, ent_lt := ?_ }
  · exact List.nodup_cons.mpr ⟨hx, h.ent_nodup⟩
  · intro y hy
    rcases List.mem_cons.mp hy with rfl | hy
    · exact .inl List.mem_cons_self
    · exact hp.ent_src y hy
  · intro y hy
    rcases List.mem_cons.mp hy with rfl | hy
    · exact h.lt _ (by simp)
    · exact h.ent_lt y hy

/-- `stack.extend(children)` for a live node that was not expanded before and is popped or at walk-root depth -/
theorem expand {x : AstId} (back : Bool) (h : Core σ S P E En d0) (hl : σ.f x ≠ none) (hx : x ∉ E)
    (hsrc : x ∈ P ∨ σ.depth x = d0) (hd : d0 ≤ σ.depth x) :
    Core σ (order back (σ.kids x) ++ S) P (x :: E) En d0 := by
  have hfresh : ∀ k ∈ σ.kids x, k ∉ S ++ P := fun k hk hm => hx (h.pushed_parent x k hl hk hm)
  refine { h with nodup := ?_, lt := ?_, exp_lt := ?_, deep := ?_, pushed_parent := ?_, exp_src := ?_ }
  · rw [List.append_assoc, List.nodup_append]
    refine ⟨nodup_order.mpr (h.wf.kids_nodup x hl), h.nodup, ?_⟩
    intro a ha b hb hab
    subst hab
    exact hfresh a (mem_order.mp ha) hb
  · intro y hy
    rw [List.append_assoc, List.mem_append] at hy
    rcases hy with hy | hy
    · exact h.wf.kids_lt x y hl (mem_order.mp hy)
    · exact h.lt y hy
  · intro y hy
    rcases List.mem_cons.mp hy with rfl | hy
    · exact h.wf.live_lt _ hl
    · exact h.exp_lt y hy
  · intro y hy hly
    rcases List.mem_append.mp hy with hy | hy
    · have := h.wf.depth_kids x y hl (mem_order.mp hy)
      omega
    · exact h.deep y hy hly
  · intro p k hp hk hm
    rw [List.append_assoc, List.mem_append] at hm
    rcases hm with hm | hm
    · have : p = x := h.wf.uniq_parent p x k hp hl hk (mem_order.mp hm)
      subst this; exact List.mem_cons_self
    · exact List.mem_cons_of_mem _ (h.pushed_parent p k hp hk hm)
  · intro y hy
    rcases List.mem_cons.mp hy with rfl | hy
    · rcases hsrc with h1 | h1
      · exact .inl h1
      · exact .inr (fun _ => h1)
    · exact h.exp_src y hy

/-- history bookkeeping when resuming after a yield: the AST found under the yielded FST counts as popped -/
theorem addPopped {x : AstId} (h : Core σ S P E En d0) (hl : σ.f x ≠ none) (hxS : x ∉ S)
    (hpar : ∀ p, σ.f p ≠ none → x ∈ σ.kids p → p ∈ E) :
    Core σ S (if P.contains x then P else x :: P) E En d0 := by
  by_cases hc : P.contains x = true
  · simp only [hc, if_true]; exact h
  · have hc' : P.contains x = false := by simpa using hc
    rw [hc']
    simp only [Bool.false_eq_true, if_false]
    have hxP : x ∉ P := by simpa using hc
    have hperm : (S ++ x :: P).Perm (x :: (S ++ P)) := List.perm_middle
    refine { h with nodup := ?_, lt := ?_, pushed_parent := ?_, exp_src := ?_, ent_src := ?_ }
    · rw [hperm.nodup_iff, List.nodup_cons]
      exact ⟨by simp [hxS, hxP], h.nodup⟩
    · intro y hy
      rcases List.mem_cons.mp (hperm.mem_iff.mp hy) with rfl | hy
      · exact h.wf.live_lt _ hl
      · exact h.lt y hy
    · intro p k hp hk hm
      rcases List.mem_cons.mp (hperm.mem_iff.mp hm) with rfl | hm
      · exact hpar p hp hk
      · exact h.pushed_parent p k hp hk hm
    · intro y hy; rcases h.exp_src y hy with h1 | h1
      · exact .inl (List.mem_cons_of_mem _ h1)
      · exact .inr h1
    · intro y hy; rcases h.ent_src y hy with h1 | h1
      · exact .inl (List.mem_cons_of_mem _ h1)
      · exact .inr h1

/-- a consumer mutation meeting the contract -/
theorem mutate {σ' : Store} (h : Core σ S P E En d0) (m : Mut σ σ') (wf' : WF σ') : Core σ' S P E En d0 := by
  refine { wf := wf', nodup := h.nodup, lt := ?_, exp_lt := ?_, deep := ?_, pushed_parent := ?_, exp_src := ?_,
           ent_nodup := h.ent_nodup, ent_src := ?_, ent_lt := ?_ }
  · intro y hy; exact Nat.lt_of_lt_of_le (h.lt y hy) m.bound_le
  · intro y hy; exact Nat.lt_of_lt_of_le (h.exp_lt y hy) m.bound_le
  · intro y hy hl
    have hb := h.lt y (List.mem_append_left _ hy)
    rw [m.depth_old y hb hl]
    exact h.deep y hy (m.live_mono y hb hl)
  · intro p k hp hk hm
    have hkb := h.lt k hm
    by_cases hpb : p < σ.bound
    · rcases m.kids_old p k hpb hp hk with h1 | h1
      · exact h.pushed_parent p k (m.live_mono p hpb hp) h1 hm
      · exact absurd hkb (Nat.not_lt.mpr h1)
    · exact absurd hkb (Nat.not_lt.mpr (m.kids_new p k (Nat.not_lt.mp hpb) hp hk))
  · intro y hy
    rcases h.exp_src y hy with h1 | h1
    · exact .inl h1
    · refine .inr (fun hl => ?_)
      have hb := h.exp_lt y hy
      rw [m.depth_old y hb hl]; exact h1 (m.live_mono y hb hl)
  · intro y hy
    rcases h.ent_src y hy with h1 | h1
    · exact .inl h1
    · refine .inr (fun hl => ?_)
      have hb := h.ent_lt y hy
      rw [m.depth_old y hb hl]; exact h1 (m.live_mono y hb hl)
  · intro y hy; exact Nat.lt_of_lt_of_le (h.ent_lt y hy) m.bound_le

end Core

end Enter
end Pfst.WalkMut
