import Pfst.SynOrder
/-!
# Pfst.SynOrderLemmas — permutation / sortedness facts about the child orders of `Pfst.SynOrder` (property C14)
-/
namespace Pfst.SynOrder

/-- `a` does not start after `b` -/
def posLe (a b : PNode) : Prop := posGt a b = false
/-- positions non-decreasing along the list -/
def Sorted (l : List PNode) : Prop := l.Pairwise posLe

theorem posLe_iff (a b : PNode) : posLe a b ↔ (a.ln < b.ln ∨ (a.ln = b.ln ∧ a.col ≤ b.col)) := by
  unfold posLe posGt
  simp
  omega

theorem posGt_iff (a b : PNode) : posGt a b = true ↔ (b.ln < a.ln ∨ (a.ln = b.ln ∧ b.col < a.col)) := by
  unfold posGt
  simp

theorem posLe_trans {a b c : PNode} (h1 : posLe a b) (h2 : posLe b c) : posLe a c := by
  rw [posLe_iff] at *
  omega

theorem posLe_refl (a : PNode) : posLe a a := by
  rw [posLe_iff]; omega

theorem posLe_of_posGt {a b : PNode} (h : posGt a b = true) : posLe b a := by
  rw [posGt_iff] at h
  rw [posLe_iff]
  omega

theorem posGt_asymm {a b : PNode} (h : posGt a b = true) : posGt b a = false :=
  posLe_of_posGt h

theorem posLe_total (a b : PNode) : posLe a b ∨ posLe b a := by
  rw [posLe_iff, posLe_iff]; omega

/-! ## `mix` -/

theorem mix_perm (turnK : Bool) (pend : PNode) (as ks : List PNode) :
    (mix turnK pend as ks).Perm (pend :: (as ++ ks)) := by
  fun_induction mix turnK pend as ks with
  | case1 pend as => simp
  | case2 pend as k ks' h ih =>
    exact (List.Perm.cons pend (ih.trans List.perm_middle.symm))
  | case3 pend as k ks' h ih =>
    exact ((List.Perm.cons k ih).trans (List.Perm.swap pend k _)).trans
      (List.Perm.cons pend List.perm_middle.symm)
  | case4 turnK pend ks hT => simp
  | case5 turnK pend ks hT a as' h ih =>
    exact List.Perm.cons pend ih
  | case6 turnK pend ks hT a as' h ih =>
    exact (List.Perm.cons a ih).trans (List.Perm.swap pend a _)

theorem mem_mix {turnK : Bool} {pend : PNode} {as ks : List PNode} {x : PNode} :
    x ∈ mix turnK pend as ks ↔ x = pend ∨ x ∈ as ∨ x ∈ ks := by
  rw [(mix_perm turnK pend as ks).mem_iff]
  simp

/-- Both modes of `mix` at once: it is a merge of the two sorted runs. -/
theorem mix_sorted (turnK : Bool) (pend : PNode) (as ks : List PNode)
    (h1 : if turnK then Sorted (pend :: as) else Sorted (pend :: ks))
    (h2 : if turnK then Sorted ks else Sorted as) : Sorted (mix turnK pend as ks) := by
  fun_induction mix turnK pend as ks with
  | case1 pend as => simpa using h1
  | case2 pend as k ks' h ih =>
    simp only [if_true] at h1 h2
    simp only [Sorted, List.pairwise_cons] at h1 h2 ⊢
    have hpk : posLe pend k := posLe_of_posGt h
    refine ⟨?_, ?_⟩
    · intro x hx
      rcases mem_mix.1 hx with rfl | hx | hx
      · exact hpk
      · exact h1.1 x hx
      · exact posLe_trans hpk (h2.1 x hx)
    · apply ih
      · simpa [Sorted] using h2
      · simpa [Sorted] using h1.2
  | case3 pend as k ks' h ih =>
    simp only [if_true] at h1 h2
    simp only [Sorted, List.pairwise_cons] at h1 h2 ⊢
    have hkp : posLe k pend := by simpa [posLe] using h
    refine ⟨?_, ?_⟩
    · intro x hx
      rcases mem_mix.1 hx with rfl | hx | hx
      · exact hkp
      · exact posLe_trans hkp (h1.1 x hx)
      · exact h2.1 x hx
    · apply ih
      · simpa [Sorted] using h1
      · simpa [Sorted] using h2.2
  | case4 turnK pend ks hT =>
    have : turnK = false := by simpa using hT
    subst this
    simpa using h1
  | case5 turnK pend ks hT a as' h ih =>
    have : turnK = false := by simpa using hT
    subst this
    simp only [Bool.false_eq_true, if_false] at h1 h2
    simp only [Sorted, List.pairwise_cons] at h1 h2 ⊢
    have hpa : posLe pend a := posLe_of_posGt h
    refine ⟨?_, ?_⟩
    · intro x hx
      rcases mem_mix.1 hx with rfl | hx | hx
      · exact hpa
      · exact posLe_trans hpa (h2.1 x hx)
      · exact h1.1 x hx
    · apply ih
      · simpa [Sorted] using h2
      · simpa [Sorted] using h1.2
  | case6 turnK pend ks hT a as' h ih =>
    have : turnK = false := by simpa using hT
    subst this
    simp only [Bool.false_eq_true, if_false] at h1 h2
    simp only [Sorted, List.pairwise_cons] at h1 h2 ⊢
    have hap : posLe a pend := by simpa [posLe] using h
    refine ⟨?_, ?_⟩
    · intro x hx
      rcases mem_mix.1 hx with rfl | hx | hx
      · exact hap
      · exact h2.1 x hx
      · exact posLe_trans hap (h1.1 x hx)
    · apply ih
      · simpa [Sorted] using h1
      · simpa [Sorted] using h2.2

theorem mix_sorted_K (pend : PNode) (as ks : List PNode) (h1 : Sorted (pend :: as)) (h2 : Sorted ks) :
    Sorted (mix true pend as ks) :=
  mix_sorted true pend as ks (by simpa using h1) (by simpa using h2)

theorem mix_sorted_A (pend : PNode) (as ks : List PNode) (h1 : Sorted (pend :: ks)) (h2 : Sorted as) :
    Sorted (mix false pend as ks) :=
  mix_sorted false pend as ks (by simpa using h1) (by simpa using h2)

/-! ## `mergeArgsKws`, Call, ClassDef -/

theorem mergeArgsKws_perm (args kws : List PNode) : (mergeArgsKws args kws).Perm (args ++ kws) := by
  unfold mergeArgsKws
  split
  · exact List.Perm.refl _
  · exact List.Perm.refl _
  · split
    · exact List.Perm.refl _
    · exact (mix_perm _ _ _ _).trans List.perm_middle.symm

theorem merge_sorted (args kws : List PNode) (ha : Sorted args) (hk : Sorted kws)
    (hsep : (∀ last, args.getLast? = some last → last.star = false → ∀ a ∈ args, ∀ k ∈ kws, posLe a k)) :
    Sorted (mergeArgsKws args kws) ∧ (mergeArgsKws args kws).Perm (args ++ kws) := by
  refine ⟨?_, mergeArgsKws_perm args kws⟩
  unfold mergeArgsKws
  split
  · next hnone =>
    have : args = [] := by simpa using hnone
    subst this
    simpa using hk
  · simpa using ha
  · next last kw0 kwt hlast =>
    split
    · next hs =>
      have hs' : last.star = false := by simpa using hs
      unfold Sorted
      rw [List.pairwise_append]
      exact ⟨ha, hk, hsep last hlast hs'⟩
    · exact mix_sorted_A kw0 args kwt hk ha

theorem callOrder_perm (func : Nat) (args kws : List PNode) :
    (callOrder func args kws).Perm (func :: (args ++ kws).map PNode.id) := by
  unfold callOrder
  exact List.Perm.cons _ ((mergeArgsKws_perm args kws).map _)

theorem classDefOrder_perm (decos tparams : List Nat) (bases kws : List PNode) (body : List Nat) :
    (classDefOrder decos tparams bases kws body).Perm
      (decos ++ tparams ++ (bases ++ kws).map PNode.id ++ body) := by
  unfold classDefOrder
  exact List.Perm.append_right _ (List.Perm.append_left _ ((mergeArgsKws_perm bases kws).map _))

/-! ## Dict / MatchMapping, Compare, arguments -/

theorem zipKV_perm_noNone (ks vs : List Nat) (h : ks.length = vs.length) :
    (zipKV (ks.map some) vs).Perm (ks ++ vs) := by
  induction ks generalizing vs with
  | nil =>
    cases vs with
    | nil => simp [zipKV]
    | cons v vs => simp at h
  | cons k ks ih =>
    cases vs with
    | nil => simp at h
    | cons v vs =>
      simp only [List.length_cons, Nat.add_right_cancel_iff] at h
      simp only [List.map_cons, zipKV, List.cons_append]
      exact List.Perm.cons k ((List.Perm.cons v (ih vs h)).trans List.perm_middle.symm)

theorem dictOrder_perm_noNone (ks vs : List Nat) (h : ks.length = vs.length) :
    (dictOrder (ks.map some) vs).Perm (ks ++ vs) :=
  zipKV_perm_noNone ks vs h

theorem interleave_perm (as bs : List Nat) (h : as.length = bs.length) :
    (interleave as bs).Perm (as ++ bs) := by
  induction as generalizing bs with
  | nil =>
    cases bs with
    | nil => simp [interleave]
    | cons v vs => simp at h
  | cons a as ih =>
    cases bs with
    | nil => simp at h
    | cons b bs =>
      simp only [List.length_cons, Nat.add_right_cancel_iff] at h
      simp only [interleave, List.cons_append]
      exact List.Perm.cons a ((List.Perm.cons b (ih bs h)).trans List.perm_middle.symm)

theorem compareOrder_perm (left : Nat) (ops comps : List Nat) :
    (compareOrder left ops comps).Perm (left :: (ops ++ comps)) := by
  unfold compareOrder
  simp only
  split
  · next h =>
    refine List.Perm.cons _ ?_
    have h1 := interleave_perm ops (comps.take ops.length) (by simp [List.length_take]; omega)
    have h2 := h1.append_right (comps.drop ops.length)
    rw [List.append_assoc, List.take_append_drop] at h2
    exact h2
  · split
    · next h =>
      exact List.Perm.cons _ (interleave_perm ops comps (by simpa using h))
    · next h1 h2 =>
      refine List.Perm.cons _ ?_
      have hne : ¬ ops.length = comps.length := by simpa using h2
      have h3 := interleave_perm (ops.take comps.length) comps (by simp [List.length_take]; omega)
      have h4 := h3.append_right (ops.drop comps.length)
      refine h4.trans ?_
      -- take ++ comps ++ drop ~ take ++ drop ++ comps
      rw [List.append_assoc]
      refine (List.Perm.append_left _ List.perm_append_comm).trans ?_
      rw [← List.append_assoc, List.take_append_drop]

theorem zipAD_perm (as : List Nat) (ds : List (Option Nat)) (h : ds.length = as.length) :
    (argumentsOrder.zipAD as ds).Perm (as ++ ds.filterMap id) := by
  induction as generalizing ds with
  | nil =>
    cases ds with
    | nil => simp [argumentsOrder.zipAD]
    | cons v vs => simp at h
  | cons a as ih =>
    cases ds with
    | nil => simp at h
    | cons d ds =>
      simp only [List.length_cons, Nat.add_right_cancel_iff] at h
      cases d with
      | none =>
        simp only [argumentsOrder.zipAD, List.cons_append, List.filterMap_cons, id]
        exact List.Perm.cons a (ih ds h)
      | some d =>
        simp only [argumentsOrder.zipAD, List.cons_append, List.filterMap_cons, id]
        exact List.Perm.cons a ((List.Perm.cons d (ih ds h)).trans List.perm_middle.symm)

theorem argumentsOrder_perm_simple (po args defaults : List Nat) (vararg : Option Nat) (kwonly : List Nat)
    (kwDefaults : List (Option Nat)) (kwarg : Option Nat)
    (hd : defaults.length ≤ args.length) (hk : kwDefaults.length = kwonly.length) :
    (argumentsOrder po args defaults vararg kwonly kwDefaults kwarg).Perm
      (po ++ args ++ defaults ++ vararg.toList ++ kwonly ++ kwDefaults.filterMap id ++ kwarg.toList) := by
  unfold argumentsOrder
  simp only
  have hhead : (if defaults.isEmpty then po ++ args
      else if defaults.length ≤ args.length then
        po ++ args.take (args.length - defaults.length)
          ++ interleave (args.drop (args.length - defaults.length)) defaults
      else
        po.take (po.length - (defaults.length - args.length))
          ++ interleave (po.drop (po.length - (defaults.length - args.length)))
              (defaults.take (defaults.length - args.length))
          ++ interleave args (defaults.drop (defaults.length - args.length))).Perm
      (po ++ args ++ defaults) := by
    split
    · next he =>
      have : defaults = [] := by simpa using he
      subst this
      simp
    · have h1 := interleave_perm (args.drop (args.length - defaults.length)) defaults
        (by simp [List.length_drop]; omega)
      have h2 := h1.append_left (po ++ args.take (args.length - defaults.length))
      refine h2.trans ?_
      rw [List.append_assoc po, ← List.append_assoc (args.take _), List.take_append_drop,
        ← List.append_assoc]
  have hkw : (if kwDefaults.isEmpty then kwonly else argumentsOrder.zipAD kwonly kwDefaults).Perm
      (kwonly ++ kwDefaults.filterMap id) := by
    split
    · next he =>
      have : kwDefaults = [] := by simpa using he
      subst this
      simp
    · exact zipAD_perm kwonly kwDefaults hk
  have := ((hhead.append_right vararg.toList).append hkw).append_right kwarg.toList
  refine this.trans ?_
  simp [List.append_assoc]

/-! ## Non-vacuity -/

/-- `f(a, k=1, *b)` -/
example :
    let args : List PNode := [⟨1, 2, 10, false⟩, ⟨1, 12, 12, true⟩]
    let kws : List PNode := [⟨1, 5, 11, false⟩]
    Sorted args ∧ Sorted kws ∧
    (∀ last, args.getLast? = some last → last.star = false → ∀ a ∈ args, ∀ k ∈ kws, posLe a k) ∧
    (mergeArgsKws args kws).map PNode.id = [10, 11, 12] := by
  intro args kws
  refine ⟨?_, ?_, ?_, ?_⟩
  · simp [args, Sorted, posLe, posGt]
  · simp [kws, Sorted]
  · intro last h hs
    simp [args] at h
    subst h
    simp at hs
  · simp [args, kws, mergeArgsKws, mix, posGt]

/-- `f(*a, k=1, *b, j=2, *c)` -/
example :
    let args : List PNode := [⟨1, 2, 10, true⟩, ⟨1, 12, 12, true⟩, ⟨2, 3, 14, true⟩]
    let kws : List PNode := [⟨1, 6, 11, false⟩, ⟨2, 0, 13, false⟩]
    Sorted args ∧ Sorted kws ∧
    (∀ last, args.getLast? = some last → last.star = false → ∀ a ∈ args, ∀ k ∈ kws, posLe a k) ∧
    (mergeArgsKws args kws).map PNode.id = [10, 11, 12, 13, 14] ∧
    Sorted (mergeArgsKws args kws) := by
  intro args kws
  have hA : Sorted args := by simp [args, Sorted, posLe, posGt]
  have hK : Sorted kws := by simp [kws, Sorted, posLe, posGt]
  have hsep : ∀ last, args.getLast? = some last → last.star = false → ∀ a ∈ args, ∀ k ∈ kws, posLe a k := by
    intro last h hs
    simp [args] at h
    subst h
    simp at hs
  refine ⟨hA, hK, hsep, ?_, (merge_sorted args kws hA hK hsep).1⟩
  simp [args, kws, mergeArgsKws, mix, posGt]

end Pfst.SynOrder
