/-
Model of pfst's expression <-> pattern coercion (src/fst/code.py): `_coerce_to_pattern_ast` and its per-class functions,
`_coerce_to_expr_ast` and its pattern functions, the sequence re-wrapping of `_code_as_expr(parse_Tuple)` /
`_coerce_to_List` / `_coerce_to_Set`, and the kind guard of `_code_as`.

The functions mirror the Python case by case AS WRITTEN (explicit `Starred` refusals, the `MatchOr` flattening of a left
operand, the wildcard `_`, `**rest` handling, `MatchValue` keys of a `Dict`, ...).  The Python functions return either an
error string or a node; the model returns `none` for every refusal (including the one place where the real code raises
`AttributeError`: a `BinOp |` used as a `Dict` key).  The model describes the tree with the C19 repairs applied
(Ellipsis `Dict` key refused; left operand of `|` coerced before the right one).

`fmt` is Python's `is_FST`: the node carries source.  Structure depends on it in exactly two places, both modelled:
* `_coerce_to_pattern_ast_BinOp`: a left `MatchOr` is NOT flattened when the left operand is parenthesised in source
  (`left.f.pars().n`) - field `lpar` of `Expr.binop` (always `false` for a pure AST);
* `_coerce_to_expr_ast_MatchSequence`: `[...]` gives a `List`, `(...)`/bare gives a `Tuple`; a pure AST always a `List`
  - field `delim` of `Pattern.seq`.

`ctx` (Load/Store) is not represented.  Identifiers are assumed non-empty (AST invariant), so Python's `if rest` /
`name or '_'` / `if not arg` are `isSome`/`getD "_"`/`isNone`.
No imports: this file is linked into the native driver.
-/
namespace Pfst.Coerce

/-- `Constant.value`, as far as the coercion code looks at it.  `neg` is Python's `value < 0` (`value.imag < 0` for
`imag`); `repr` is `repr(value)` (opaque to the model). -/
inductive Const where
  | none
  | bool (b : Bool)
  | ellipsis
  | int (neg : Bool) (repr : String)
  | float (neg : Bool) (repr : String)
  | imag (neg : Bool) (repr : String)      -- complex with falsy real part
  | cplx (repr : String)                   -- complex with truthy real part (constructible in a pure AST only)
  | str (repr : String)
  | bytes (repr : String)
deriving DecidableEq, Repr, Inhabited

inductive BOp where
  | add | sub | bitor | other (name : String)
deriving DecidableEq, Repr, Inhabited

inductive UOp where
  | usub | other (name : String)
deriving DecidableEq, Repr, Inhabited

/-- Expressions.  `kv`/`dstar` are the items of a `Dict` (`key: value` / `**value`, i.e. key `None`), `kw` the items of
`Call.keywords`; they live in the same type so that all recursion is over `Expr` / `List Expr`.
`other` is any expression class without a coercion function (Compare, Subscript, Lambda, Slice, ...). -/
inductive Expr where
  | name (id : String)
  | const (c : Const)
  | attr (value : Expr) (attr : String)
  | list (elts : List Expr)
  | tuple (elts : List Expr)
  | set (elts : List Expr)
  | starred (value : Expr)
  | dict (items : List Expr)
  | kv (key : Expr) (value : Expr)
  | dstar (value : Expr)
  | call (func : Expr) (args : List Expr) (kws : List Expr)
  | kw (arg : Option String) (value : Expr)
  | binop (left : Expr) (op : BOp) (right : Expr) (lpar : Bool)
  | unop (op : UOp) (operand : Expr)
  | other (kind : String) (kids : List Expr)
deriving Repr, Inhabited

/-- How a `MatchSequence` is delimited in source (`is_delimited_matchseq() == '[]'` or not). -/
inductive Delim where
  | brackets | other
deriving DecidableEq, Repr, Inhabited

/-- Patterns.  `mkv` are the (key, pattern) pairs of a `MatchMapping`, `pkw` the (kwd_attr, kwd_pattern) pairs of a
`MatchClass`.  `capture none` is the wildcard `_`; `asPat` is a `MatchAs` with a sub-pattern (`p as name`). -/
inductive Pattern where
  | value (e : Expr)
  | singleton (c : Const)
  | capture (name : Option String)
  | asPat (pat : Pattern) (name : Option String)
  | seq (delim : Delim) (pats : List Pattern)
  | star (name : Option String)
  | mapping (items : List Pattern) (rest : Option String)
  | mkv (key : Expr) (pat : Pattern)
  | cls (c : Expr) (pats : List Pattern) (kws : List Pattern)
  | pkw (attr : String) (pat : Pattern)
  | or_ (pats : List Pattern)
deriving Repr, Inhabited

/-- `if (name := x.id) == '_': name = None` -/
def wild (id : String) : Option String := if id == "_" then none else some id

/-- `name = ast.name or '_'` -/
def unwild (n : Option String) : String := n.getD "_"

def Expr.isStarred : Expr → Bool
  | .starred _ => true
  | _ => false

def Expr.isSlice : Expr → Bool
  | .other k _ => k == "Slice"
  | _ => false

/-- `isinstance(value, (int, float)) and not isinstance(value, bool) and not value < 0` -/
def Const.nonNegReal : Const → Bool
  | .int neg _ => !neg
  | .float neg _ => !neg
  | _ => false

/-- `isinstance(value, complex) and not value.real and not value.imag < 0` -/
def Const.nonNegImag : Const → Bool
  | .imag neg _ => !neg
  | _ => false

/-- The walk of `_coerce_to_pattern_ast_Attribute` from `ast.value` downwards: the chain of `Attribute`s must end in a
`Name` other than `_`. -/
def attrBaseOk : Expr → Bool
  | .attr v _ => attrBaseOk v
  | .name id => id != "_"
  | _ => false

/-- `_coerce_to_pattern_ast_UnaryOp`: `-<int|float|pure imaginary, not negative>`. -/
def unaryOk (op : UOp) (operand : Expr) : Bool :=
  match op, operand with
  | .usub, .const c => c.nonNegReal || c.nonNegImag
  | _, _ => false

/-- The `Add`/`Sub` branch of `_coerce_to_pattern_ast_BinOp`: `[-]real (+ or -) imag`. -/
def complexOk (left right : Expr) : Bool :=
  (match right with
   | .const c => c.nonNegImag
   | _ => false)
  &&
  (match left with
   | .const c => c.nonNegReal
   | .unop .usub (.const c) => c.nonNegReal
   | _ => false)

/-- func check of `_coerce_to_pattern_ast_Call` -/
def funcOk : Expr → Bool
  | .attr v _ => attrBaseOk v
  | .name id => id != "_"
  | _ => false

/-- `key_cls is Constant`: used as is -/
def Expr.isConst : Expr → Bool
  | .const _ => true
  | _ => false

/-- `key.value is ...`: refused as a mapping key ('key cannot be Ellipsis') -/
def Expr.isEllipsis : Expr → Bool
  | .const .ellipsis => true
  | _ => false

/-- `key.__class__ in (UnaryOp, BinOp, Attribute)`: walked through their coercion function -/
def Expr.isKeyWalk : Expr → Bool
  | .unop _ _ => true
  | .binop _ _ _ _ => true
  | .attr _ _ => true
  | _ => false

/-- `key[0].value`: the expression inside the `MatchValue` the key coerced to.  A `MatchOr` (from `a | b`) has no
`.value` (AttributeError in the real code). -/
def valueOf : Option Pattern → Option Expr
  | some (.value e) => some e
  | _ => none

mutual
/-- `_AST_COERCE_TO_PATTERN_FUNCS.get(cls, ret_empty_str)(ast, is_FST, ...)` on an expression. -/
def toPattern (fmt : Bool) : Expr → Option Pattern
  | .const c =>                                                   -- _coerce_to_pattern_ast_Constant
    match c with
    | .none => some (.singleton c)
    | .bool _ => some (.singleton c)
    | .ellipsis => none
    | _ => some (.value (.const c))
  | .attr v a =>                                                  -- _coerce_to_pattern_ast_Attribute
    if attrBaseOk v then some (.value (.attr v a)) else none
  | .starred v =>                                                 -- _coerce_to_pattern_ast_Starred
    match v with
    | .name id => some (.star (wild id))
    | _ => none
  | .name id => some (.capture (wild id))                         -- _coerce_to_pattern_ast_Name
  | .dict items =>                                                -- _coerce_to_pattern_ast_Dict
    match dictGo fmt items false with
    | some (ms, rest) => some (.mapping ms rest)
    | none => none
  | .call f args kws =>                                           -- _coerce_to_pattern_ast_Call
    if funcOk f then
      match callArgs fmt args with
      | none => none
      | some ps =>
        match callKws fmt kws with
        | none => none
        | some ks => some (.cls f ps ks)
    else none
  | .binop l op r lpar =>                                         -- _coerce_to_pattern_ast_BinOp
    match op with
    | .add => if complexOk l r then some (.value (.binop l op r lpar)) else none
    | .sub => if complexOk l r then some (.value (.binop l op r lpar)) else none
    | .bitor =>                                                   -- left operand first, then the right one
      if l.isStarred then none else
      match toPattern fmt l with
      | none => none
      | some pl =>
        if r.isStarred then none else
        match toPattern fmt r with
        | none => none
        | some pr =>
          match pl with
          | .or_ ps => if fmt && lpar then some (.or_ [pl, pr]) else some (.or_ (ps ++ [pr]))
          | _ => some (.or_ [pl, pr])
    | .other _ => none
  | .unop op operand =>                                           -- _coerce_to_pattern_ast_UnaryOp
    if unaryOk op operand then some (.value (.unop op operand)) else none
  | .list es =>                                                   -- _coerce_to_pattern_ast_seq
    match seqGo fmt es with
    | some ps => some (.seq .brackets ps)
    | none => none
  | .tuple es =>
    match seqGo fmt es with
    | some ps => some (.seq .other ps)
    | none => none
  | .set es =>                                                    -- source delimiters rewritten to `[` `]`
    match seqGo fmt es with
    | some ps => some (.seq .brackets ps)
    | none => none
  | .kv _ _ => none
  | .dstar _ => none
  | .kw _ _ => none
  | .other _ _ => none                                            -- _coerce_to_pattern_ast_ret_empty_str

/-- the element loop of `_coerce_to_pattern_ast_seq` -/
def seqGo (fmt : Bool) : List Expr → Option (List Pattern)
  | [] => some []
  | e :: rest =>
    match toPattern fmt e with
    | none => none
    | some p =>
      match seqGo fmt rest with
      | none => none
      | some ps => some (p :: ps)

/-- the `ast.args` loop of `_coerce_to_pattern_ast_Call` -/
def callArgs (fmt : Bool) : List Expr → Option (List Pattern)
  | [] => some []
  | e :: rest =>
    if e.isStarred then none else
    match toPattern fmt e with
    | none => none
    | some p =>
      match callArgs fmt rest with
      | none => none
      | some ps => some (p :: ps)

/-- the `ast.keywords` loop of `_coerce_to_pattern_ast_Call` -/
def callKws (fmt : Bool) : List Expr → Option (List Pattern)
  | [] => some []
  | .kw (some a) v :: rest =>
    match toPattern fmt v with
    | none => none
    | some p =>
      match callKws fmt rest with
      | none => none
      | some ps => some (.pkw a p :: ps)
  | _ :: _ => none                                                -- `**kwargs` (arg None)

/-- The `zip(keys, values)` loop of `_coerce_to_pattern_ast_Dict`; `seenRest` is `rest is not None`. Returns the
(key, pattern) pairs and `rest`. -/
def dictGo (fmt : Bool) : List Expr → Bool → Option (List Pattern × Option String)
  | [], _ => some ([], none)
  | .dstar v :: tl, seenRest =>
    if seenRest then none else                                    -- "multiple '**' values found"
    match v with
    | .name id =>
      if id == "_" then none else                                 -- "'**' key cannot be '_'"
      match dictGo fmt tl true with
      | none => none
      | some (ms, _) => some (ms, some id)
    | _ => none
  | .kv k v :: tl, seenRest =>
    if seenRest then none else                                    -- "values cannot follow '**' key"
    match (if k.isConst then (if k.isEllipsis then none else some k)
           else if k.isKeyWalk then valueOf (toPattern fmt k) else none) with
    | none => none
    | some k' =>
      match toPattern fmt v with
      | none => none
      | some p =>
        match dictGo fmt tl seenRest with
        | none => none
        | some (ms, rest) => some (.mkv k' p :: ms, rest)
  | _ :: _, _ => none

end

mutual
/-- `_AST_COERCE_TO_EXPR_FUNCS[cls](ast, is_FST, ...)` on a pattern. -/
def toExpr (fmt : Bool) : Pattern → Option Expr
  | .value e => some e                                            -- _coerce_to_expr_ast_MatchValue
  | .singleton c => some (.const c)                               -- _coerce_to_expr_ast_MatchSingleton
  | .star n => some (.starred (.name (unwild n)))                 -- _coerce_to_expr_ast_MatchStar
  | .capture n => some (.name (unwild n))                         -- _coerce_to_expr_ast_MatchAs
  | .asPat _ _ => none                                            --   'MatchAs has pattern'
  | .seq d ps =>                                                  -- _coerce_to_expr_ast_MatchSequence
    match toExprs fmt ps with
    | none => none
    | some es => if fmt && d != .brackets then some (.tuple es) else some (.list es)
  | .mapping items rest =>                                        -- _coerce_to_expr_ast_MatchMapping
    match mapGo fmt items with
    | none => none
    | some its =>
      match rest with
      | some r => some (.dict (its ++ [.dstar (.name r)]))
      | none => some (.dict its)
  | .cls c ps kws =>                                              -- _coerce_to_expr_ast_MatchClass
    match toExprs fmt ps with
    | none => none
    | some args =>
      match clsKws fmt kws with
      | none => none
      | some ks => some (.call c args ks)
  | .or_ ps =>                                                    -- _coerce_to_expr_ast_MatchOr
    match ps with
    | [] => none                                                  --   'no elements'
    | p :: rest =>
      match toExpr fmt p with
      | none => none
      | some e => orGo fmt e rest
  | .mkv _ _ => none
  | .pkw _ _ => none

def toExprs (fmt : Bool) : List Pattern → Option (List Expr)
  | [] => some []
  | p :: rest =>
    match toExpr fmt p with
    | none => none
    | some e =>
      match toExprs fmt rest with
      | none => none
      | some es => some (e :: es)

/-- `for key, pat in zip(ast.keys, ast.patterns)` -/
def mapGo (fmt : Bool) : List Pattern → Option (List Expr)
  | [] => some []
  | .mkv k p :: rest =>
    match toExpr fmt p with
    | none => none
    | some v =>
      match mapGo fmt rest with
      | none => none
      | some its => some (.kv k v :: its)
  | _ :: _ => none

/-- `for arg_, pat in zip(ast.kwd_attrs, ast.kwd_patterns)` -/
def clsKws (fmt : Bool) : List Pattern → Option (List Expr)
  | [] => some []
  | .pkw a p :: rest =>
    match toExpr fmt p with
    | none => none
    | some v =>
      match clsKws fmt rest with
      | none => none
      | some ks => some (.kw (some a) v :: ks)
  | _ :: _ => none

/-- `for pat in patterns[1:]: ret = BinOp(left=ret, op=BitOr(), right=right)` -/
def orGo (fmt : Bool) (acc : Expr) : List Pattern → Option Expr
  | [] => some acc
  | p :: rest =>
    match toExpr fmt p with
    | none => none
    | some r => orGo fmt (.binop acc .bitor r false) rest
end

/-! ### leaves: names and constants in source order -/

inductive Leaf where
  | name (s : String)
  | const (c : Const)
deriving DecidableEq, Repr, Inhabited

mutual
def Expr.leaves : Expr → List Leaf
  | .name id => [.name id]
  | .const c => [.const c]
  | .attr v a => v.leaves ++ [.name a]
  | .list es => leavesE es
  | .tuple es => leavesE es
  | .set es => leavesE es
  | .starred v => v.leaves
  | .dict items => leavesE items
  | .kv k v => k.leaves ++ v.leaves
  | .dstar v => v.leaves
  | .call f args kws => f.leaves ++ (leavesE args ++ leavesE kws)
  | .kw a v => (match a with | some s => [.name s] | none => []) ++ v.leaves
  | .binop l _ r _ => l.leaves ++ r.leaves
  | .unop _ operand => operand.leaves
  | .other _ kids => leavesE kids
def leavesE : List Expr → List Leaf
  | [] => []
  | e :: rest => e.leaves ++ leavesE rest
end

mutual
/-- The wildcard counts as the name `_` (that is what it is in source). -/
def Pattern.leaves : Pattern → List Leaf
  | .value e => e.leaves
  | .singleton c => [.const c]
  | .capture n => [.name (unwild n)]
  | .asPat p n => p.leaves ++ [.name (unwild n)]
  | .seq _ ps => leavesP ps
  | .star n => [.name (unwild n)]
  | .mapping items rest => leavesP items ++ (match rest with | some r => [.name r] | none => [])
  | .mkv k p => k.leaves ++ p.leaves
  | .cls c ps kws => c.leaves ++ (leavesP ps ++ leavesP kws)
  | .pkw a p => .name a :: p.leaves
  | .or_ ps => leavesP ps
def leavesP : List Pattern → List Leaf
  | [] => []
  | p :: rest => p.leaves ++ leavesP rest
end

/-! ### the round trip's normal form -/

mutual
/-- What `toExpr false (toPattern false e)` gives back: every converted `Tuple`/`Set` has become a `List` and the
`lpar` annotation of converted `|` operators is gone; everything kept inside a `MatchValue`, `Dict` keys and the
`Call.func` are untouched. -/
def Expr.norm : Expr → Expr
  | .list es => .list (normE es)
  | .tuple es => .list (normE es)
  | .set es => .list (normE es)
  | .dict items => .dict (normE items)
  | .kv k v => .kv k v.norm
  | .call f args kws => .call f (normE args) (normE kws)
  | .kw a v => .kw a v.norm
  | .binop l .bitor r _ => .binop l.norm .bitor r.norm false
  | e => e
def normE : List Expr → List Expr
  | [] => []
  | e :: rest => e.norm :: normE rest
end

/-! ### sequence re-wrapping and the top-level guard -/

inductive SeqKind where
  | tuple | list | set
deriving DecidableEq, Repr, Inhabited

def Expr.seqKind : Expr → Option SeqKind
  | .tuple _ => some .tuple
  | .list _ => some .list
  | .set _ => some .set
  | _ => none

def Expr.elts : Expr → List Expr
  | .tuple es => es
  | .list es => es
  | .set es => es
  | _ => []

def SeqKind.wrap : SeqKind → List Expr → Expr
  | .tuple, es => .tuple es
  | .list, es => .list es
  | .set, es => .set es

inductive Node where
  | e (e : Expr)
  | p (p : Pattern)
deriving Repr, Inhabited

def Node.leaves : Node → List Leaf
  | .e x => x.leaves
  | .p x => x.leaves

/-- requested mode: `'expr'`, `'pattern'`, `'Tuple'` / `'List'` / `'Set'` -/
inductive Target where
  | expr | pattern | seq (k : SeqKind)
deriving DecidableEq, Repr, Inhabited

/-- `isinstance(codea, ast_type)` / `ast_cls in no_coerce_clss` -/
def kindOK : Node → Target → Bool
  | .e _, .expr => true
  | .p _, .pattern => true
  | .e e, .seq k => e.seqKind == some k
  | _, _ => false

/-- `two_step` of `_coerce_to_expr_ast`: `False`, `True`, or the target class -/
inductive TwoStep where
  | no | yes | to (k : SeqKind)
deriving DecidableEq, Repr, Inhabited

/-- first dispatch of `_coerce_to_expr_ast`: `_AST_COERCE_TO_EXPR_FUNCS.get(cls, maybe_expr)` -/
def firstStep (fmt : Bool) : Node → Option Expr
  | .e (.list es) => some (.tuple es)                             -- _coerce_to_expr_ast_List_or_Set
  | .e (.set es) => some (.tuple es)
  | .e (.tuple es) => if es.any Expr.isSlice then none else some (.tuple es)   -- _coerce_to_expr_ast_Tuple
  | .e e => some e                                                -- _coerce_to_expr_ast_maybe_expr
  | .p p => toExpr fmt p

/-- The second step of `two_step`: `_coerce_to_expr_ast_List_or_Set(ret, ...)` on the freshly built `List`/`Set`.
As written it first does `ret.f = nspace(..., (f := ast.f)._lines, ...)`, i.e. it reads the ORIGINAL node's `.f`
whatever `is_FST` is: on a pure AST that is an `AttributeError` (modelled as a refusal). -/
def secondStep (fmt : Bool) (r : Expr) : Option Expr :=
  if fmt then some (.tuple r.elts) else none

/-- `_coerce_to_expr_ast(ast, is_FST, ..., two_step)` -/
def exprAst (fmt : Bool) (ts : TwoStep) (n : Node) : Option Expr :=
  match firstStep fmt n with
  | none => none
  | some r =>
    match ts, r.seqKind with
    | .no, _ => some r
    | .yes, some .list => secondStep fmt r
    | .yes, some .set => secondStep fmt r
    | .to k, some .list => if k == .list then some r else secondStep fmt r
    | .to k, some .set => if k == .set then some r else secondStep fmt r
    | _, _ => some r

/-- `code_as(code, mode, coerce=True)` for the five modelled modes: the kind guard of `_code_as` / `_code_as_expr`
(return the operand itself), else the coercion function of the mode. -/
def coerce (fmt : Bool) (t : Target) (n : Node) : Option Node :=
  if kindOK n t then some n else
  match t with
  | .pattern =>                                                   -- _coerce_to_pattern
    match n with
    | .e e => (toPattern fmt e).map .p
    | .p _ => none
  | .expr =>                                                      -- _code_as_expr(parse_expr)
    (exprAst fmt .no n).map .e
  | .seq .tuple =>                                                -- _code_as_expr(parse_Tuple): no_coerce_clss = (Tuple,)
    match exprAst fmt .yes n with
    | some (.tuple es) => some (.e (.tuple es))
    | _ => none
  | .seq k =>                                                     -- _coerce_to_List(to_cls)
    match exprAst fmt (.to k) n with
    | none => none
    | some r =>
      if r.seqKind == some k then some (.e r)
      else match r with
        | .tuple es => some (.e (k.wrap es))
        | _ => none

end Pfst.Coerce
