import Pfst.ReconcileQuiet
/-!
Untouched subtrees of the edited tree lie outside the region rewritten by every operation of the reconcile trace
(`Pfst/Reconcile.lean`).  `slice_ops_char` describes the shape of the trace of the `recurse_slice` loop; `kept_node` is the
mutual induction along the path to the untouched subtree.
-/
namespace Pfst.Reconcile

/-! ### the region an operation rewrites -/

theorem touches_pre (o : Op) (j i : Nat) (p : Path) : touches (o.pre j) (i :: p) = (j == i && touches o p) := by
  simp [touches, Op.pre, touchesAt]

/-- the element is an in-tree node in place (only such an element can be part of an untouched region) -/
def keptElem (np : NP) (fi j : Nat) : T → Bool
  | .node (.tree l) _ _ => inPlace np [fi, j] l
  | _ => false

theorem putsFirst_not_kept (np : NP) (fi j : Nat) (y : T) (h : putsFirst np [fi, j] y = true) : keptElem np fi j y = false := by
  cases y with
  | node o k cs =>
    cases o with
    | tree l => simpa [putsFirst, keptElem] using h
    | _ => simp [keptElem]
  | _ => simp [keptElem]

theorem okOrigin_not_kept (np : NP) (fi j : Nat) (y : T) (h : okOrigin y.origin = true) : keptElem np fi j y = false := by
  cases y with
  | node o k cs =>
    cases o with
    | tree l => simp [T.origin, okOrigin] at h
    | _ => simp [keptElem]
  | _ => simp [keptElem]

theorem runFree_get (np : NP) (fi : Nat) : ∀ (body : List T) (i g : Nat), runFree np fi i g body = true →
    ∀ j, j < g → ∀ y, body[j]? = some y → runElem np fi (i + j) y = true
  | [], _, _, _, _, _, _, hy => by simp at hy
  | x :: rest, i, 0, _, j, hj, _, _ => by omega
  | x :: rest, i, g + 1, h, j, hj, y, hy => by
    simp only [runFree, Bool.and_eq_true] at h
    cases j with
    | zero => simp at hy; subst hy; exact h.1
    | succ j =>
      simp at hy
      have := runFree_get np fi rest (i + 1) g h.2 j (by omega) y hy
      rw [show i + (j + 1) = i + 1 + j by omega]; exact this

theorem allOk_get : ∀ (l : List T), allOk l = true → ∀ (j : Nat) (y : T), l[j]? = some y → okOrigin y.origin = true
  | [], _, _, _, hy => by simp at hy
  | x :: rest, h, j, y, hy => by
    simp only [allOk, Bool.and_eq_true] at h
    cases j with
    | zero => simp at hy; subst hy; exact h.1
    | succ j => simp at hy; exact allOk_get rest h.2 j y hy

/-- the slice operation emitted at the head of a run only covers elements that are not in place -/
theorem head_ops (mark : T) (np : NP) (fi : Nat) (ns : Option Nat) (i : Nat) (run : Run) (cur : List T) (x : T)
    (rest : List T) (hwf : elemsOK mark (x :: rest) = true) :
    ∀ op ∈ (headState mark np fi ns i run cur x rest).1, ∃ n src pl, op = ⟨[], .putSlice i (i + n) src false pl⟩ ∧
      ∀ j, i ≤ j → j < i + n → ∃ y, (x :: rest)[j - i]? = some y ∧ keptElem np fi j y = false := by
  intro op hop
  by_cases hp : run.proc > 0
  · simp [headState, hp] at hop
  · simp only [headState, hp, if_false] at hop
    cases hsh : sliceHead mark np fi ns i x.origin with
    | none => rw [detect_none _ _ _ _ _ _ _ _ hsh] at hop; simp at hop
    | some v =>
      obtain ⟨tid, pp, cfi, ci⟩ := v
      have hn : runLen tid pp cfi (ci + 1) rest ≤ rest.length := runLen_le _ _ _ _ _
      rw [detect_some _ _ _ _ _ _ _ _ _ _ _ _ hsh] at hop
      simp only [elemsOK, Bool.and_eq_true] at hwf
      by_cases ht : tid = 0
      · subst ht
        obtain ⟨⟨k, cs, rfl⟩, hC⟩ := sliceHead_zero mark np fi ns i x pp cfi ci hwf.1 hsh
        simp only [beq_self_eq_true, if_true, List.mem_singleton] at hop
        refine ⟨_, _, _, hop, ?_⟩
        intro j h1 h2
        have hfree : runFree np fi i (1 + runLen 0 pp cfi (ci + 1) rest)
            (.node (.tree (some ⟨pp, cfi, some ci⟩)) k cs :: rest) = true := by
          rw [Nat.add_comm 1, runFree]
          have h0 := hC 0
          simp only [Nat.add_zero] at h0
          simp only [runElem, h0, Bool.not_false, Bool.true_and]
          exact runFree_runLen np fi i pp cfi ci hC rest 1
        have hlt : j - i < (T.node (.tree (some ⟨pp, cfi, some ci⟩)) k cs :: rest).length := by simp; omega
        refine ⟨_, List.getElem?_eq_getElem hlt, ?_⟩
        have := runFree_get np fi _ i _ hfree (j - i) (by omega) _ (List.getElem?_eq_getElem hlt)
        rw [show i + (j - i) = j by omega] at this
        exact putsFirst_not_kept np fi j _ (runElem_putsFirst np fi j _ this)
      · have ht' : (tid == 0) = false := by simp [ht]
        simp only [ht', Bool.false_eq_true, if_false] at hop
        by_cases hok : allOk ((x :: rest).take (1 + runLen tid pp cfi (ci + 1) rest)) = true
        · simp only [hok, if_true, List.mem_singleton] at hop
          refine ⟨_, _, _, hop, ?_⟩
          intro j h1 h2
          have hlt : j - i < (x :: rest).length := by simp; omega
          refine ⟨_, List.getElem?_eq_getElem hlt, ?_⟩
          have hg : ((x :: rest).take (1 + runLen tid pp cfi (ci + 1) rest))[j - i]? = some (x :: rest)[j - i] := by
            rw [List.getElem?_take]; simp only [show j - i < 1 + runLen tid pp cfi (ci + 1) rest by omega, if_true]
            exact List.getElem?_eq_getElem hlt
          exact okOrigin_not_kept np fi j _ (allOk_get _ hok _ _ hg)
        · simp [hok] at hop

/-! ### shape of the trace of the slice loop -/

/-- an operation of the loop started at index `i` on `body`: a slice put covering only elements that are not in place, the
final tail deletion, or an operation of `recurse_node` on element `j` run on a slot content `ok` that is either irrelevant
(the node is put again first) or the one the slot hypothesis names -/
def SliceOp (mark : T) (np : NP) (fi i : Nat) (body : List T) (op : Op) : Prop :=
  (∃ a b src one pl, op = ⟨[], .putSlice a b src one pl⟩ ∧ i ≤ a ∧
      ∀ j, a ≤ j → j < b → ∃ y, body[j - i]? = some y ∧ keptElem np fi j y = false)
  ∨ (∃ a, op = ⟨[], .delTail a⟩ ∧ a = i + body.length)
  ∨ (∃ j y ok op', i ≤ j ∧ body[j - i]? = some y ∧ (putsFirst np [fi, j] y = true ∨ slot mark np [fi, j] ok y) ∧
      op' ∈ (recNode mark np [fi, j] ok y).ops ∧ op = op'.pre j)

theorem SliceOp_cons (mark : T) (np : NP) (fi i : Nat) (x : T) (rest : List T) (op : Op)
    (h : SliceOp mark np fi (i + 1) rest op) : SliceOp mark np fi i (x :: rest) op := by
  have hidx : ∀ j, i + 1 ≤ j → (x :: rest)[j - i]? = rest[j - (i + 1)]? := by
    intro j hj
    rw [show j - i = (j - (i + 1)) + 1 by omega]; simp
  rcases h with ⟨a, b, src, one, pl, rfl, ha, hr⟩ | ⟨a, rfl, ha⟩ | ⟨j, y, ok, op', hj, hy, hs, hm, rfl⟩
  · refine Or.inl ⟨a, b, src, one, pl, rfl, by omega, ?_⟩
    intro j h1 h2
    obtain ⟨y, hy, hk⟩ := hr j h1 h2
    exact ⟨y, by rw [hidx j (by omega)]; exact hy, hk⟩
  · exact Or.inr (Or.inl ⟨a, rfl, by simp; omega⟩)
  · exact Or.inr (Or.inr ⟨j, y, ok, op', by omega, by rw [hidx j hj]; exact hy, hs, hm, rfl⟩)

theorem slice_ops_char (mark : T) (np : NP) (fi : Nat) (ns : Option Nat) :
    ∀ (body : List T) (i : Nat) (run : Run) (cur bt : List T) (g : Nat),
    wfEs mark body = true → elemSlots mark np fi false i bt body → SI np fi i run cur body bt g →
    ∀ op ∈ (recSliceGo mark np fi ns false i run cur body).ops, SliceOp mark np fi i body op
  | [], i, run, cur, bt, g, _, _, _, op, hop => by
    rw [recSliceGo_nil] at hop
    split at hop
    · simp only [List.mem_singleton] at hop
      exact Or.inr (Or.inl ⟨i, hop, by simp⟩)
    · simp at hop
  | x :: rest, i, run, cur, bt, g, hwf, hsl, hsi, op, hop => by
    have hwf' := hwf
    simp only [wfEs, Bool.and_eq_true] at hwf'
    have IH : ∀ (run' : Run) (cur' : List T) (g' : Nat), SI np fi (i + 1) run' cur' rest bt.tail g' →
        ∀ op ∈ (recSliceGo mark np fi ns false (i + 1) run' cur' rest).ops, SliceOp mark np fi i (x :: rest) op :=
      fun run' cur' g' hs' op hop => SliceOp_cons mark np fi i x rest op
        (slice_ops_char mark np fi ns rest (i + 1) run' cur' bt.tail g' hwf'.2 (elemSlots_tail mark np fi false i bt x rest hsl) hs' op hop)
    by_cases hk : run.skip > 0
    · rw [recSliceGo_skip _ _ _ _ _ _ _ _ _ _ hk] at hop
      unfold SI at hsi
      simp only [hk, if_true] at hsi
      exact IH _ cur 0 (skip_post np fi i run cur bt x rest hk hsi).2 op hop
    · unfold SI at hsi
      simp only [hk, if_false] at hsi
      obtain ⟨hg, hfree, htail, hlen⟩ := hsi
      rw [recSliceGo_go _ _ _ _ _ _ _ _ _ _ hk] at hop
      have hdone : (List.replicate i T.nil).length = i := by simp
      have helems := wfEs_elemsOK mark _ hwf
      have hp := head_post mark np fi ns i run cur x rest bt (List.replicate i T.nil) g none 0 helems hdone (by omega) hg hfree
        htail hlen
      have hho := head_ops mark np fi ns i run cur x rest helems
      generalize headState mark np fi ns i run cur x rest = d at hop hp hho
      obtain ⟨ops0, cur1, run1⟩ := d
      simp only at hop hp hho
      have hhead : ∀ op ∈ ops0, SliceOp mark np fi i (x :: rest) op := by
        intro op hop
        obtain ⟨n, src, pl, rfl, hr⟩ := hho op hop
        exact Or.inl ⟨i, i + n, src, false, pl, rfl, Nat.le_refl _, hr⟩
      obtain ⟨_, hcase⟩ := hp
      cases hcase with
      | inl h =>
        obtain ⟨hsk, hrest⟩ := h
        simp only [hsk, if_true, List.mem_append] at hop
        cases hop with
        | inl h0 => exact hhead op h0
        | inr h2 => exact IH _ cur1 0 (skip_post np fi i run1 cur1 bt x rest hsk hrest).2 op h2
      | inr h =>
        obtain ⟨hsk0, hpr, g1, hg1, hfree1, htl1, hmax⟩ := h
        have hsk0' : ¬ run1.skip > 0 := by omega
        simp only [hsk0', if_false, elemRes, Bool.false_eq_true, Bool.not_false] at hop
        generalize hc2 : (if decide (i ≥ run1.lenRead) = true then List.take i cur1 ++ [erase x] ++ List.drop i cur1 else cur1)
          = cur2 at hop
        generalize hoi : (if decide (i ≥ run1.lenRead) = true then [(⟨[], .putSlice i i .ast true [erase x]⟩ : Op)] else [])
          = opsIns at hop
        obtain ⟨ok, tl, hdrop, _, heh, _, hsi2⟩ := go_post mark np fi none 0 false i run1 cur1 (List.replicate i T.nil) bt g1 x rest
          true hdone hsl hsk0 hpr hg1 hfree1 htl1 hmax cur2 opsIns hc2 hoi
        have hslot := ElemHyp_plain mark np fi i ok x heh
        have hok : cur2[i]?.getD .nil = ok := by rw [getElem?_of_drop_cons hdrop]; rfl
        rw [hok] at hop
        have hins : ∀ op ∈ opsIns, SliceOp mark np fi i (x :: rest) op := by
          intro op hop
          rw [← hoi] at hop
          split at hop
          · simp only [List.mem_singleton] at hop
            exact Or.inl ⟨i, i, _, _, _, hop, Nat.le_refl _, fun j h1 h2 => by omega⟩
          · simp at hop
        have hel : ∀ op ∈ preAll i (recNode mark np [fi, i] ok x).ops, SliceOp mark np fi i (x :: rest) op := by
          intro op hop
          simp only [preAll, List.mem_map] at hop
          obtain ⟨op', hm, rfl⟩ := hop
          exact Or.inr (Or.inr ⟨i, x, ok, op', Nat.le_refl _, by simp, hslot, hm, rfl⟩)
        by_cases hrf : (recNode mark np [fi, i] ok x).fail = true
        · simp only [hrf, if_true, List.mem_append] at hop
          rcases hop with (h0 | h1) | h2
          · exact hhead op h0
          · exact hins op h1
          · exact hel op h2
        · simp only [hrf, if_false, Bool.false_eq_true, List.mem_append] at hop
          rcases hop with ((h0 | h1) | h2) | h3
          · exact hhead op h0
          · exact hins op h1
          · exact hel op h2
          · exact IH _ cur2 (g1 - 1) hsi2 op h3

theorem plain_ops_char (mark : T) (np : NP) (fi : Nat) : ∀ (items : List T) (j : Nat) (oks : List T),
    ∀ op ∈ (recPlain mark np fi j oks items).ops, ∃ j' y op', j ≤ j' ∧ items[j' - j]? = some y ∧
      op' ∈ (recNode mark np [fi, j'] ((oks[j' - j]?).getD .nil) y).ops ∧ op = op'.pre j'
  | [], j, oks, op, hop => by rw [recPlain] at hop; simp at hop
  | c :: rest, j, oks, op, hop => by
    rw [recPlain_cons] at hop
    have hhd : oks.headD .nil = (oks[j - j]?).getD .nil := by cases oks <;> simp
    have h1 : ∀ op ∈ preAll j (recNode mark np [fi, j] (oks.headD .nil) c).ops, ∃ j' y op', j ≤ j' ∧
        (c :: rest)[j' - j]? = some y ∧ op' ∈ (recNode mark np [fi, j'] ((oks[j' - j]?).getD .nil) y).ops ∧ op = op'.pre j' := by
      intro op hop
      simp only [preAll, List.mem_map] at hop
      obtain ⟨op', hm, rfl⟩ := hop
      exact ⟨j, c, op', Nat.le_refl _, by simp, by rw [← hhd]; exact hm, rfl⟩
    have h2 : ∀ op ∈ (recPlain mark np fi (j + 1) oks.tail rest).ops, ∃ j' y op', j ≤ j' ∧
        (c :: rest)[j' - j]? = some y ∧ op' ∈ (recNode mark np [fi, j'] ((oks[j' - j]?).getD .nil) y).ops ∧ op = op'.pre j' := by
      intro op hop
      obtain ⟨j', y, op', hj, hy, hm, rfl⟩ := plain_ops_char mark np fi rest (j + 1) oks.tail op hop
      have e : j' - j = (j' - (j + 1)) + 1 := by omega
      refine ⟨j', y, op', by omega, by rw [e]; simpa using hy, ?_, rfl⟩
      have : oks[j' - j]? = oks.tail[j' - (j + 1)]? := by rw [e]; cases oks <;> simp
      rw [this]; exact hm
    unfold seqR at hop
    split at hop
    · exact h1 op hop
    · simp only [List.mem_append] at hop
      cases hop with
      | inl h => exact h1 op h
      | inr h => exact h2 op h

theorem fields_ops_char (mark : T) (np : NP) : ∀ (fs : List T) (j : Nat) (oks : List T),
    ∀ op ∈ (recFields mark np j oks fs).ops, ∃ j' c op', j ≤ j' ∧ fs[j' - j]? = some c ∧
      op' ∈ (fieldRes mark np j' ((oks[j' - j]?).getD .nil) c).ops ∧ op = op'.pre j'
  | [], j, oks, op, hop => by rw [recFields] at hop; simp at hop
  | c :: rest, j, oks, op, hop => by
    rw [recFields_cons] at hop
    have hhd : oks.headD .nil = (oks[j - j]?).getD .nil := by cases oks <;> simp
    have h1 : ∀ op ∈ preAll j (fieldRes mark np j (oks.headD .nil) c).ops, ∃ j' y op', j ≤ j' ∧
        (c :: rest)[j' - j]? = some y ∧ op' ∈ (fieldRes mark np j' ((oks[j' - j]?).getD .nil) y).ops ∧ op = op'.pre j' := by
      intro op hop
      simp only [preAll, List.mem_map] at hop
      obtain ⟨op', hm, rfl⟩ := hop
      exact ⟨j, c, op', Nat.le_refl _, by simp, by rw [← hhd]; exact hm, rfl⟩
    have h2 : ∀ op ∈ (recFields mark np (j + 1) oks.tail rest).ops, ∃ j' y op', j ≤ j' ∧
        (c :: rest)[j' - j]? = some y ∧ op' ∈ (fieldRes mark np j' ((oks[j' - j]?).getD .nil) y).ops ∧ op = op'.pre j' := by
      intro op hop
      obtain ⟨j', y, op', hj, hy, hm, rfl⟩ := fields_ops_char mark np rest (j + 1) oks.tail op hop
      have e : j' - j = (j' - (j + 1)) + 1 := by omega
      refine ⟨j', y, op', by omega, by rw [e]; simpa using hy, ?_, rfl⟩
      have : oks[j' - j]? = oks.tail[j' - (j + 1)]? := by rw [e]; cases oks <;> simp
      rw [this]; exact hm
    unfold seqR at hop
    split at hop
    · exact h1 op hop
    · simp only [List.mem_append] at hop
      cases hop with
      | inl h => exact h1 op h
      | inr h => exact h2 op h

theorem wfEs_get (mark : T) : ∀ (l : List T) (j : Nat) (y : T), wfEs mark l = true → l[j]? = some y → wfN mark y = true
  | [], _, _, _, hy => by simp at hy
  | x :: r, j, y, h, hy => by
    simp only [wfEs, Bool.and_eq_true] at h
    cases j with
    | zero => simp at hy; subst hy; exact h.1
    | succ j => simp at hy; exact wfEs_get mark r j y h.2 hy

theorem wfFs_get (mark : T) : ∀ (l : List T) (j : Nat) (c : T), wfFs mark l = true → l[j]? = some c →
    (match c with
     | .many _ md items => md ≠ 2 → wfEs mark items = true
     | c => wfN mark c = true)
  | [], _, _, _, hy => by simp at hy
  | x :: r, j, c, h, hy => by
    cases j with
    | zero =>
      simp at hy; subst hy
      cases x with
      | many s md items =>
        simp only [wfFs, Bool.and_eq_true] at h
        intro hmd
        have : (md == 2) = false := by simp [hmd]
        simpa [this] using h.1
      | nil => simp_all [wfFs]
      | prim v => simp_all [wfFs]
      | node o k cs => simp_all [wfFs]
    | succ j =>
      simp at hy
      have hr : wfFs mark r = true := by cases x <;> simp_all [wfFs]
      exact wfFs_get mark r j c hr hy

theorem shapeOK_get : ∀ (ms cs : List T) (j : Nat) (c : T), shapeOK ms cs = true → cs[j]? = some c →
    ∃ m, ms[j]? = some m ∧ fieldOK m c = true
  | [], [], _, _, _, hy => by simp at hy
  | [], _ :: _, _, _, h, _ => by simp [shapeOK] at h
  | _ :: _, [], _, _, h, _ => by simp [shapeOK] at h
  | m :: ms, c' :: cs, j, c, h, hy => by
    simp only [shapeOK, Bool.and_eq_true] at h
    cases j with
    | zero => simp at hy; subst hy; exact ⟨m, by simp, h.1⟩
    | succ j => simp at hy; simpa using shapeOK_get ms cs j c h.2 hy

/-! ### untouched subtrees -/

theorem keptN_inPlace (mark : T) (p : Path) (np : NP) (rel : Path) (n : T) (h : keptN mark p np rel n = true) :
    ∃ l k cs, n = .node (.tree l) k cs ∧ inPlace np rel l = true := by
  cases p with
  | nil => exact stillN_shape mark np rel n (by simpa [keptN] using h)
  | cons fi p =>
    cases n with
    | node o k cs =>
      cases o with
      | tree l => simp only [keptN, Bool.and_eq_true] at h; exact ⟨l, k, cs, rfl, h.1.1⟩
      | _ => simp [keptN] at h
    | _ => simp [keptN] at h

theorem kept_not_putsFirst (np : NP) (fi j : Nat) (y : T) (h : keptElem np fi j y = true) : putsFirst np [fi, j] y = false := by
  cases y with
  | node o k cs =>
    cases o with
    | tree l => simpa [putsFirst, keptElem] using h
    | _ => simp [keptElem] at h
  | _ => simp [keptElem] at h

/-- a list field one of whose elements is kept: no operation on the list touches that element -/
theorem kept_many (mark : T) (q : Path) (fi : Nat) (s : Option Nat) (md : Nat) (items mitems : List T) (i : Nat) (p : Path)
    (x : T) (hmd : md ≠ 2) (hwe : wfEs mark items = true) (hm : markAt mark (q ++ [fi]) = .many s md mitems)
    (hx : items[i]? = some x) (hkx : keptElem (.fst 0 q) fi i x = true)
    (IH : ∀ ok, slot mark (.fst 0 q) [fi, i] ok x → ∀ op ∈ (recNode mark (.fst 0 q) [fi, i] ok x).ops, touches op p = false) :
    ∀ op ∈ (fieldRes mark (.fst 0 q) fi (.many s md (eraseL mitems)) (.many s md items)).ops, touches op (i :: p) = false := by
  intro op hop
  have hnp := kept_not_putsFirst _ _ _ _ hkx
  have hk : (markAt mark (q ++ [fi])).kids = mitems := by rw [hm]; rfl
  by_cases h1 : md = 1
  · subst h1
    have he : fieldRes mark (.fst 0 q) fi (.many s 1 (eraseL mitems)) (.many s 1 items)
        = recSliceGo mark (.fst 0 q) fi s false 0 {} (eraseL mitems) items := by simp [fieldRes, T.isNode, T.kids]
    rw [he] at hop
    have hsl := elemSlots_mark mark q fi items 0 hwe
    rw [hk, List.drop_zero] at hsl
    have hsi : SI (.fst 0 q) fi 0 {} (eraseL mitems) items (eraseL mitems) 0 := by simp [SI, runFree]
    rcases slice_ops_char mark (.fst 0 q) fi s items 0 {} (eraseL mitems) (eraseL mitems) 0 hwe hsl hsi op hop with
      ⟨a, b, src, one, pl, rfl, _, hr⟩ | ⟨a, rfl, ha⟩ | ⟨j, y, ok, op', _, hy, hs, hmem, rfl⟩
    · cases hc : touches ⟨[], .putSlice a b src one pl⟩ (i :: p) with
      | false => rfl
      | true =>
        simp only [touches, touchesAt, Bool.and_eq_true, decide_eq_true_eq] at hc
        obtain ⟨y, hy, hk'⟩ := hr i hc.1 hc.2
        simp only [Nat.sub_zero] at hy
        rw [hx] at hy; cases hy
        rw [hkx] at hk'; cases hk'
    · have hlt : i < items.length := by
        by_cases hh : i < items.length
        · exact hh
        · have : items[i]? = none := by simp; omega
          rw [this] at hx; cases hx
      simp only [touches, touchesAt, decide_eq_false_iff_not]; omega
    · rw [touches_pre]
      by_cases hji : j = i
      · subst hji
        simp only [Nat.sub_zero] at hy
        rw [hx] at hy; cases hy
        cases hs with
        | inl h => rw [hnp] at h; cases h
        | inr h => simp [IH ok h op' hmem]
      · simp [hji]
  · have he : fieldRes mark (.fst 0 q) fi (.many s md (eraseL mitems)) (.many s md items)
        = if items.length != (eraseL mitems).length then ⟨[], true⟩ else recPlain mark (.fst 0 q) fi 0 (eraseL mitems) items := by
      simp [fieldRes, T.isNode, T.kids, h1, hmd]
    rw [he] at hop
    split at hop
    · simp at hop
    · obtain ⟨j, y, op', _, hy, hmem, rfl⟩ := plain_ops_char mark (.fst 0 q) fi items 0 (eraseL mitems) op hop
      rw [touches_pre]
      by_cases hji : j = i
      · subst hji
        simp only [Nat.sub_zero] at hy hmem
        have hyx : y = x := by rw [hx] at hy; exact (Option.some.inj hy).symm
        subst hyx
        have hs : slot mark (.fst 0 q) [fi, j] (((eraseL mitems)[j]?).getD .nil) y := by
          rw [eraseL_getElem?, ← hk, ← markAt_elem]
          exact slot_mark mark _ q _ _ rfl
        simp [IH _ hs op' hmem]
      · simp [hji]

theorem kept_node_aux (mark : T) (N : Nat) : ∀ (p : Path), p.length ≤ N → ∀ (n : T) (np : NP) (rel : Path) (outa : T),
    wfN mark n = true → keptN mark p np rel n = true → slot mark np rel outa n →
    ∀ op ∈ (recNode mark np rel outa n).ops, touches op p = false := by
  have hnil : ∀ (n : T) (np : NP) (rel : Path) (outa : T), keptN mark [] np rel n = true → slot mark np rel outa n →
      ∀ op ∈ (recNode mark np rel outa n).ops, touches op [] = false := by
    intro n np rel outa hk hs op hop
    rw [recNode_quiet mark n np rel outa (by simpa [keptN] using hk) hs] at hop
    simp at hop
  induction N with
  | zero =>
    intro p hp n np rel outa _ hk hs
    have : p = [] := List.eq_nil_of_length_eq_zero (by omega)
    subst this
    exact hnil n np rel outa hk hs
  | succ N ih =>
  intro p hp n np rel outa hwf hk hs op hop
  cases p with
  | nil => exact hnil n np rel outa hk hs op hop
  | cons fi p =>
    simp only [List.length_cons] at hp
    obtain ⟨l, k, cs, rfl, hin⟩ := keptN_inPlace mark _ np rel n hk
    simp only [keptN, Bool.and_eq_true, Bool.not_eq_true'] at hk
    obtain ⟨⟨_, hnf⟩, hmatch⟩ := hk
    simp only [wfN, Bool.and_eq_true] at hwf
    obtain ⟨hm, hcs⟩ := hwf
    obtain ⟨q', hb, hq⟩ := inPlace_base _ _ _ hin
    simp only [slot, hb] at hs
    rw [← hq] at hs
    cases hmq : markAt mark (qOf l) with
    | node mo mk mcs =>
      rw [hmq] at hm hs hnf
      simp only [Bool.and_eq_true, beq_iff_eq] at hm
      obtain ⟨rfl, hshape⟩ := hm
      subst hs
      simp only [T.kids] at hnf
      rw [recNode_tree] at hop
      simp only [hin, hmq, erase, Bool.not_true, Bool.false_eq_true, if_false, T.isNode, T.kids, hnf, List.nil_append] at hop
      obtain ⟨j, c, op', _, hc, hmem, rfl⟩ := fields_ops_char mark (.fst 0 (qOf l)) cs 0 (eraseL mcs) op hop
      rw [touches_pre]
      by_cases hji : j = fi
      · subst hji
        simp only [Nat.sub_zero] at hc hmem
        rw [hc] at hmatch
        have hok : ((eraseL mcs)[j]?).getD .nil = erase (markAt mark (qOf l ++ [j])) := by
          rw [eraseL_getElem?, markAt_snoc, hmq]; rfl
        rw [hok] at hmem
        have hwc := wfFs_get mark cs j c hcs hc
        cases c with
        | nil => simp at hmatch
        | prim v => simp at hmatch
        | node o' k' cs' =>
          simp only at hmatch hwc
          have he : fieldRes mark (.fst 0 (qOf l)) j (erase (markAt mark (qOf l ++ [j]))) (.node o' k' cs')
              = recNode mark (.fst 0 (qOf l)) [j] (erase (markAt mark (qOf l ++ [j]))) (.node o' k' cs') := by
            simp [fieldRes, T.isNode]
          rw [he] at hmem
          have := ih p (by omega) (.node o' k' cs') (.fst 0 (qOf l)) [j] _ hwc hmatch
            (slot_mark mark _ (qOf l) [j] _ rfl) op' hmem
          simp [this]
        | many s md items =>
          simp only [Bool.and_eq_true, bne_iff_ne, ne_eq] at hmatch hwc
          obtain ⟨hmd2, hmatch⟩ := hmatch
          have hwes := hwc hmd2
          cases p with
          | nil => simp at hmatch
          | cons i p' =>
            simp only at hmatch
            cases hx : items[i]? with
            | none => rw [hx] at hmatch; simp at hmatch
            | some x =>
              rw [hx] at hmatch
              simp only at hmatch
              obtain ⟨m, hmj, hfo⟩ := shapeOK_get mcs cs j _ hshape hc
              have hmm : markAt mark (qOf l ++ [j]) = m := by rw [markAt_snoc, hmq]; simp [T.kids, hmj]
              cases m with
              | many s' md' mitems =>
                simp only [fieldOK, Bool.and_eq_true, beq_iff_eq] at hfo
                obtain ⟨⟨rfl, rfl⟩, _⟩ := hfo
                rw [hmm] at hmem
                simp only [erase] at hmem
                obtain ⟨lx, kx, csx, rfl, hinx⟩ := keptN_inPlace mark p' _ _ x hmatch
                have hwx := wfEs_get mark items i _ hwes hx
                have := kept_many mark (qOf l) j s md items mitems i p' _ hmd2 hwes hmm hx (by simpa [keptElem] using hinx)
                  (fun ok hs' op'' hm'' => ih p' (by simp at hp; omega) _ (.fst 0 (qOf l)) [j, i] ok hwx hmatch hs' op'' hm'') op' hmem
                simp [this]
              | _ => simp [fieldOK] at hfo
      · simp [hji]
    | nil => rw [hmq] at hm; simp at hm
    | prim v => rw [hmq] at hm; simp at hm
    | many s m x => rw [hmq] at hm; simp at hm

/-- an untouched subtree (reached through in-place ancestors at which no fallback fires) is outside the region of every
operation emitted for the node -/
theorem kept_node (mark : T) (p : Path) (n : T) (np : NP) (rel : Path) (outa : T)
    (hwf : wfN mark n = true) (hk : keptN mark p np rel n = true) (hs : slot mark np rel outa n) :
    ∀ op ∈ (recNode mark np rel outa n).ops, touches op p = false :=
  kept_node_aux mark p.length p (Nat.le_refl _) n np rel outa hwf hk hs

end Pfst.Reconcile
