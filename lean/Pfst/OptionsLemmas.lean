import Pfst.Options
/-! Helper lemmas for C20: association lists (Python dicts), `update`, `snapshot`, the frame of the interpreter,
the small-step machine. -/
namespace Pfst.Options

/-! ### association lists -/

theorem alook_aput_same {β : Type} (k : Nat) (b : β) (l : List (Nat × β)) : alook k (aput k b l) = some b := by
  induction l with
  | nil => simp [aput, alook]
  | cons h r ih =>
    obtain ⟨k', b'⟩ := h
    by_cases hk : k' = k
    · simp [aput, alook, hk]
    · simp [aput, alook, hk, ih]

theorem alook_aput_ne {β : Type} {k k' : Nat} (b : β) (l : List (Nat × β)) (h : k' ≠ k) :
    alook k' (aput k b l) = alook k' l := by
  induction l with
  | nil =>
    have : ¬ k = k' := fun e => h e.symm
    simp [aput, alook, this]
  | cons hd r ih =>
    obtain ⟨k0, b0⟩ := hd
    by_cases hk : k0 = k
    · subst hk
      have : ¬ k0 = k' := fun e => h e.symm
      simp [aput, alook, this]
    · by_cases hk' : k0 = k'
      · subst hk'
        simp [aput, alook, hk]
      · simp [aput, alook, hk, hk', ih]

theorem aget_aput_same {β : Type} (d : β) (k : Nat) (b : β) (l : List (Nat × β)) : aget d k (aput k b l) = b := by
  simp [aget, alook_aput_same]

theorem aget_aput_ne {β : Type} (d : β) {k k' : Nat} (b : β) (l : List (Nat × β)) (h : k' ≠ k) :
    aget d k' (aput k b l) = aget d k' l := by
  simp [aget, alook_aput_ne b l h]

theorem alook_none_iff {β : Type} (k : Nat) (l : List (Nat × β)) : alook k l = none ↔ k ∉ keys l := by
  induction l with
  | nil => simp [alook, keys]
  | cons hd r ih =>
    obtain ⟨k0, b0⟩ := hd
    by_cases hk : k0 = k
    · simp [alook, keys, hk]
    · have hk2 : ¬ k = k0 := fun e => hk e.symm
      simp only [alook, hk, if_false, ih]
      simp [keys, hk2]

theorem alook_isSome_iff {β : Type} (k : Nat) (l : List (Nat × β)) : (alook k l).isSome ↔ k ∈ keys l := by
  cases h : alook k l with
  | none => simp [(alook_none_iff k l).1 h]
  | some v =>
    have : ¬ (k ∉ keys l) := fun hn => by rw [(alook_none_iff k l).2 hn] at h; cases h
    simp
    exact Classical.not_not.1 this

theorem keys_aput_of_mem {β : Type} (k : Nat) (b : β) (l : List (Nat × β)) (h : k ∈ keys l) :
    keys (aput k b l) = keys l := by
  induction l with
  | nil => simp [keys] at h
  | cons hd r ih =>
    obtain ⟨k0, b0⟩ := hd
    by_cases hk : k0 = k
    · simp [aput, keys, hk]
    · have hk2 : ¬ k = k0 := fun e => hk e.symm
      have hr : k ∈ keys r := by simpa [keys, hk2] using h
      have := ih hr
      simp only [keys] at this
      simp [aput, keys, hk, this]

/-- two dicts with the same (duplicate-free) key sequence and the same lookups are the same dict -/
theorem ext_of_keys_alook {β : Type} : ∀ (m' m : List (Nat × β)), keys m' = keys m → (keys m).Nodup →
    (∀ k, alook k m' = alook k m) → m' = m
  | [], [], _, _, _ => rfl
  | [], _ :: _, hk, _, _ => by simp [keys] at hk
  | _ :: _, [], hk, _, _ => by simp [keys] at hk
  | (k1, v1) :: r1, (k2, v2) :: r2, hk, hn, hl => by
    simp only [keys, List.map_cons, List.cons.injEq] at hk
    obtain ⟨hk12, hkr⟩ := hk
    subst hk12
    have hv : v1 = v2 := by
      have := hl k1
      simpa [alook] using this
    subst hv
    simp only [keys, List.map_cons, List.nodup_cons] at hn
    have hkr' : keys r1 = keys r2 := hkr
    have hnot2 : k1 ∉ keys r2 := hn.1
    have hnot1 : k1 ∉ keys r1 := by rw [hkr']; exact hnot2
    have : r1 = r2 := by
      apply ext_of_keys_alook r1 r2 hkr' hn.2
      intro k
      by_cases h : k1 = k
      · subst h
        rw [(alook_none_iff k1 r1).2 hnot1, (alook_none_iff k1 r2).2 hnot2]
      · have := hl k
        simpa [alook, h] using this
    rw [this]

/-! ### `update` and `snapshot` -/

theorem alook_update_notin (k : Nat) : ∀ (kvs : Kvs) (m : OptMap), k ∉ keys kvs → alook k (update m kvs) = alook k m
  | [], _, _ => rfl
  | (k0, v0) :: r, m, h => by
    have h0 : k ≠ k0 := fun e => h (by simp [keys, e])
    have hr : k ∉ keys r := fun e => h (by simp only [keys, List.map_cons, List.mem_cons]; exact Or.inr e)
    simp only [update]
    rw [alook_update_notin k r _ hr, alook_aput_ne v0 m h0]

theorem keys_update : ∀ (kvs : Kvs) (m : OptMap), (∀ k ∈ keys kvs, k ∈ keys m) → keys (update m kvs) = keys m
  | [], _, _ => rfl
  | (k0, v0) :: r, m, h => by
    have h0 : k0 ∈ keys m := h k0 (by simp [keys])
    have hk : keys (aput k0 v0 m) = keys m := keys_aput_of_mem k0 v0 m h0
    simp only [update]
    rw [keys_update r (aput k0 v0 m) (by
      intro k hkr
      rw [hk]
      exact h k (by simp only [keys, List.map_cons, List.mem_cons]; exact Or.inr hkr)), hk]

/-- updating with pairs that all agree with a function `f` puts `f k` at every updated key -/
theorem alook_update_mem (f : Nat → Option Val) (k : Nat) : ∀ (kvs : Kvs) (m : OptMap),
    (∀ kv ∈ kvs, f kv.1 = some kv.2) → k ∈ keys kvs → alook k (update m kvs) = f k
  | [], _, _, h => by simp [keys] at h
  | (k0, v0) :: r, m, hf, hk => by
    simp only [update]
    by_cases hr : k ∈ keys r
    · exact alook_update_mem f k r _ (fun kv hkv => hf kv (List.mem_cons_of_mem _ hkv)) hr
    · have : k = k0 := by
        simp only [keys, List.map_cons, List.mem_cons] at hk
        rcases hk with h | h
        · exact h
        · exact absurd h hr
      subst this
      rw [alook_update_notin k r _ hr, alook_aput_same]
      exact (hf (k, v0) (by simp)).symm

theorem snapshot_ok : ∀ (kvs : Kvs) (m old : OptMap), snapshot m kvs = .ok old →
    keys old = keys kvs ∧ (∀ kv ∈ old, alook kv.1 m = some kv.2)
  | [], m, old, h => by
    simp only [snapshot] at h
    cases h
    simp [keys]
  | (k0, v0) :: r, m, old, h => by
    simp only [snapshot] at h
    cases hl : alook k0 m with
    | none => rw [hl] at h; cases h
    | some v =>
      rw [hl] at h
      cases hs : snapshot m r with
      | error b => rw [hs] at h; cases h
      | ok o =>
        rw [hs] at h
        cases h
        obtain ⟨ik, il⟩ := snapshot_ok r m o hs
        refine ⟨by simp only [keys, List.map_cons] at ik ⊢; rw [ik], ?_⟩
        intro kv hkv
        simp only [List.mem_cons] at hkv
        rcases hkv with h | h
        · subst h; exact hl
        · exact il kv h

theorem snapshot_error_of_missing (k : Nat) : ∀ (kvs : Kvs) (m : OptMap), k ∈ keys kvs → alook k m = none →
    ∃ b, snapshot m kvs = .error b
  | [], _, h, _ => by simp [keys] at h
  | (k0, v0) :: r, m, hk, hm => by
    simp only [snapshot]
    cases hl : alook k0 m with
    | none => exact ⟨k0, rfl⟩
    | some v =>
      have hne : k ≠ k0 := fun e => by subst e; rw [hm] at hl; cases hl
      have hr : k ∈ keys r := by
        simp only [keys, List.map_cons, List.mem_cons] at hk
        rcases hk with h | h
        · exact absurd h hne
        · exact h
      obtain ⟨b, hb⟩ := snapshot_error_of_missing k r m hr hm
      exact ⟨b, by simp [hb]⟩

/-- what a successful `set_options` does to the dict -/
theorem setOptionsD_ok {c : Cfg} {m m' old : OptMap} {kvs : Kvs} (h : setOptionsD c m kvs = .ok (m', old)) :
    m' = update m kvs ∧ keys old = keys kvs ∧ (∀ kv ∈ old, alook kv.1 m = some kv.2) ∧ (∀ k ∈ keys kvs, k ∈ keys m) := by
  unfold setOptionsD at h
  cases hc : checkOptions c false kvs with
  | some e => rw [hc] at h; cases h
  | none =>
    rw [hc] at h
    cases hs : snapshot m kvs with
    | error b => rw [hs] at h; cases h
    | ok o =>
      rw [hs] at h
      simp only [Except.ok.injEq, Prod.mk.injEq] at h
      obtain ⟨h1, h2⟩ := h
      subst h1 h2
      obtain ⟨ik, il⟩ := snapshot_ok kvs m o hs
      refine ⟨rfl, ik, il, ?_⟩
      intro k hk
      rw [← ik] at hk
      -- k is a key of the snapshot, so it was found in m
      have : ∃ v, (k, v) ∈ o := by
        simp only [keys, List.mem_map] at hk
        obtain ⟨⟨a, b⟩, hab, rfl⟩ := hk
        exact ⟨b, hab⟩
      obtain ⟨v, hv⟩ := this
      have := il (k, v) hv
      exact (alook_isSome_iff k m).1 (by simp [this])

/-- the `finally: update(old_options)` puts back the value every key of the block had at entry -/
theorem restore_lookup {c : Cfg} {m m1 old : OptMap} {kvs : Kvs} (h : setOptionsD c m kvs = .ok (m1, old))
    (m2 : OptMap) (k : Nat) (hk : k ∈ keys kvs) : alook k (update m2 old) = alook k m := by
  obtain ⟨_, ik, il, _⟩ := setOptionsD_ok h
  exact alook_update_mem (fun k => alook k m) k old m2 il (by rw [ik]; exact hk)

/-! ### frame of the interpreter -/

/-- option names a program may leave changed in the running thread's dict: keys of `set_options` statements that are
    not inside a `with options()` block naming the same key -/
def dirty : Prog → List Name
  | .skip => []
  | .seq p q => dirty p ++ dirty q
  | .get _ _ => []
  | .call _ => []
  | .set kvs => keys kvs
  | .block kvs body => (dirty body).filter (fun k => !(keys kvs).contains k)
  | .raise => []
  | .catch body => dirty body

theorem execL_frame (c : Cfg) : ∀ (p : Prog) (m : OptMap),
    keys (execL c p m).m = keys m ∧ ∀ k, k ∉ dirty p → alook k (execL c p m).m = alook k m := by
  intro p
  induction p with
  | skip => intro m; simp [execL]
  | seq p q ihp ihq =>
    intro m
    obtain ⟨kp, fp⟩ := ihp m
    obtain ⟨kq, fq⟩ := ihq (execL c p m).m
    simp only [execL]
    by_cases he : (execL c p m).exc = true
    · simp only [he, if_true]
      exact ⟨kp, fun k hk => fp k (fun h => hk (by simp [dirty, h]))⟩
    · simp only [he]
      refine ⟨by simpa using kq.trans kp, fun k hk => ?_⟩
      have h1 : k ∉ dirty p := fun h => hk (by simp [dirty, h])
      have h2 : k ∉ dirty q := fun h => hk (by simp [dirty, h])
      simpa using (fq k h2).trans (fp k h1)
  | get n opts => intro m; simp [execL]
  | call opts => intro m; simp [execL]
  | raise => intro m; simp [execL]
  | set kvs =>
    intro m
    simp only [execL, doSet]
    cases h : setOptionsD c m kvs with
    | error e => simp
    | ok r =>
      obtain ⟨m', old⟩ := r
      obtain ⟨hm, _, _, hin⟩ := setOptionsD_ok h
      subst hm
      exact ⟨keys_update kvs m hin, fun k hk => alook_update_notin k kvs m (by simpa [dirty] using hk)⟩
  | block kvs body ih =>
    intro m
    simp only [execL]
    cases h : setOptionsD c m kvs with
    | error e => simp
    | ok r =>
      obtain ⟨m1, old⟩ := r
      obtain ⟨hm, ik, il, hin⟩ := setOptionsD_ok h
      obtain ⟨kb, fb⟩ := ih m1
      have k1 : keys m1 = keys m := by rw [hm]; exact keys_update kvs m hin
      have hold : ∀ k ∈ keys old, k ∈ keys (execL c body m1).m := by
        intro k hk
        rw [kb, k1]
        exact hin k (by rw [← ik]; exact hk)
      refine ⟨by simpa using (keys_update old _ hold).trans (kb.trans k1), fun k hk => ?_⟩
      by_cases hkk : k ∈ keys kvs
      · exact restore_lookup h _ k hkk
      · have hnb : k ∉ dirty body := fun hb => hk (by
          simp only [dirty, List.mem_filter]
          exact ⟨hb, by simpa using hkk⟩)
        show alook k (update (execL c body m1).m old) = alook k m
        rw [alook_update_notin k old _ (by rw [ik]; exact hkk), fb k hnb, hm, alook_update_notin k kvs m hkk]
  | «catch» body ih =>
    intro m
    obtain ⟨kb, fb⟩ := ih m
    simp only [execL]
    exact ⟨kb, fun k hk => fb k (by simpa [dirty] using hk)⟩

/-! ### the machine -/

theorem iterL_add (c : Cfg) : ∀ (a b : Nat) (x : OptMap × TS), iterL c (a + b) x = iterL c b (iterL c a x)
  | 0, b, x => by simp [iterL]
  | a + 1, b, x => by
    have : a + 1 + b = (a + b) + 1 := by omega
    rw [this]
    simp only [iterL]
    exact iterL_add c a b _

def outCtl (e : Bool) : Ctl := if e then .exc else .ret

theorem stepL_halted_ret (c : Cfg) (m : OptMap) (tr : List Obs) : stepL c m ⟨.ret, [], tr⟩ = (m, ⟨.ret, [], tr⟩) := rfl
theorem stepL_halted_exc (c : Cfg) (m : OptMap) (tr : List Obs) : stepL c m ⟨.exc, [], tr⟩ = (m, ⟨.exc, [], tr⟩) := rfl

theorem iterL_halted (c : Cfg) (m : OptMap) (e : Bool) (tr : List Obs) :
    ∀ n, iterL c n (m, ⟨outCtl e, [], tr⟩) = (m, ⟨outCtl e, [], tr⟩)
  | 0 => rfl
  | n + 1 => by
    cases e
    · simp only [iterL, outCtl]
      exact iterL_halted c m false tr n
    · simp only [iterL, outCtl]
      exact iterL_halted c m true tr n

end Pfst.Options
