/-!
# Pfst.TableCheck — what the extracted tables of C14 must satisfy (import-free, executable)

`Pfst/Gen/SyntaxOrder.lean` and `Pfst/Gen/NextPrev.lean` are regenerated from the working tree on every run
(`harness/c14_extract.py`).  A row of `shapes` is `[class, nfields, count_1..count_nfields, order...]`: one synthetic
parent node, its AST children labelled 1..k field by field, `order` = the labels as `syntax_ordered_children` returns them.
The aligned row of `tables` is `[class, k, next_0..next_k, prev_0..prev_k]`: what `NEXT_FUNCS` / `PREV_FUNCS` answer from
START (index 0) and from every child (0 = None).

A row is packed into one numeral (little-endian base-128 digits `value+1`, digit 0 = end of row), and the checks read the
digits arithmetically: the kernel evaluates numeral arithmetic natively, so `decide +kernel` stays fast.
-/
namespace Pfst.TableCheck

/-- raw digit `i` of a packed row: 0 = past the end, otherwise value+1 -/
def dig (n i : Nat) : Nat := Nat.land (Nat.shiftRight n (Nat.mul 7 i)) 127

/-- entry `i` of a packed row -/
def val (n i : Nat) : Nat := Nat.sub (dig n i) 1

/-- number of entries of a packed row: every digit is in 1..127, so the length is the number of 7-bit groups -/
def rowLen (n : Nat) : Nat := bif Nat.beq n 0 then 0 else Nat.add (Nat.div (Nat.log2 n) 7) 1

/-- the row as a list (for inspection) -/
def decodeRow (n : Nat) : List Nat := (List.range (rowLen n)).map (val n)

/-- `f i` for every `i < n` -/
def forAll : Nat → (Nat → Bool) → Bool
  | 0, _ => true
  | n + 1, f => f n && forAll n f

/-- `f i` for some `i < n` -/
def forSome : Nat → (Nat → Bool) → Bool
  | 0, _ => false
  | n + 1, f => f n || forSome n f

/-- `val n start + ... + val n (start+cnt-1)` -/
def sumFrom (n start : Nat) : Nat → Nat
  | 0 => 0
  | cnt + 1 => sumFrom n start cnt + val n (start + cnt)

def nFields (s : Nat) : Nat := val s 1
/-- number of AST children of the shape -/
def nKids (s : Nat) : Nat := sumFrom s 2 (nFields s)
/-- length of the syntax-order list of the shape -/
def orderLen (s : Nat) : Nat := rowLen s - (2 + nFields s)
/-- `i`-th label of the syntax-order list -/
def orderAt (s i : Nat) : Nat := val s (2 + nFields s + i)
def nextAt (t a : Nat) : Nat := val t (2 + a)
/-- `k = val t 1` is the number of children (checked against the shape in `rowOk`) -/
def prevAt (t b : Nat) : Nat := val t (3 + val t 1 + b)

/-- **NEXT = successor, PREV = predecessor in the syntax-ordered child list.**  With `o_0 = o_{m+1} = 0` (START / None)
around the order `o_1..o_m`: `NEXT[o_i] = o_{i+1}` and `PREV[o_{i+1}] = o_i` for every `i ≤ m`. -/
def rowOk (s t : Nat) : Bool :=
  let m := orderLen s
  Nat.beq (val s 0) (val t 0) && Nat.beq (val t 1) (nKids s) && Nat.beq (rowLen t) (2 + 2 * (nKids s + 1)) &&
  forAll (m + 1) (fun i =>
    let a := bif Nat.beq i 0 then 0 else orderAt s (i - 1)
    let b := bif Nat.beq i m then 0 else orderAt s i
    Nat.beq (nextAt t a) b && Nat.beq (prevAt t b) a)

def allOk : List Nat → List Nat → Bool
  | [], [] => true
  | s :: ss, t :: ts => rowOk s t && allOk ss ts
  | _, _ => false

/-- the child order lists every AST child 1..k exactly once (length k, every label occurs) -/
def coversOk (s : Nat) : Bool :=
  Nat.beq (orderLen s) (nKids s) && forAll (nKids s) (fun j => forSome (orderLen s) (fun i => Nat.beq (orderAt s i) (j + 1)))

/-- index of the AST field that holds the child labelled `lab` (labels are assigned field by field) -/
def fieldOf (s lab : Nat) : Nat → Nat
  | 0 => 0
  | fi + 1 => bif Nat.blt (sumFrom s 2 (fi + 1)) lab then fi + 1 else fieldOf s lab fi

def lookup (c : Nat) : List (Nat × List Nat) → Option (List Nat)
  | [] => none
  | (c', fo) :: r => bif Nat.beq c c' then some fo else lookup c r

def rank (f : Nat) : List Nat → Nat
  | [] => 0
  | x :: xs => bif Nat.beq x f then 0 else rank f xs + 1

/-- for a class with static child order: the labels come field block after field block in the order `fo` of fields, and
inside a block in index order (the key `rank(field) * 128 + label` increases strictly along the list) -/
def staticOk (fieldOrder : List (Nat × List Nat)) (s : Nat) : Bool :=
  match lookup (val s 0) fieldOrder with
  | none => true
  | some fo =>
    let key := fun i => rank (fieldOf s (orderAt s i) (nFields s)) fo * 128 + orderAt s i
    forAll (orderLen s - 1) (fun i => Nat.blt (key i) (key (i + 1)))
      && forAll (orderLen s) (fun i => Nat.blt (rank (fieldOf s (orderAt s i) (nFields s)) fo) fo.length)

/-- names of the classes that have no static field order -/
def nonStatic (classes : List String) (fieldOrder : List (Nat × List Nat)) : List String :=
  ((List.range classes.length).filter (fun c => (lookup c fieldOrder).isNone)).map (fun c => classes.getD c "")

/-- field order by class name -/
def namedOrder (classes : List String) (fieldOrder : List (Nat × List Nat)) : List (String × List Nat) :=
  fieldOrder.map (fun cf => (classes.getD cf.1 "", cf.2))

end Pfst.TableCheck
