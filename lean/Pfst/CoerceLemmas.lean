import Pfst.Coerce
import Pfst.CoerceArgs

/-!
Lemmas about the coercion model: the leaf sequence is conserved by `toPattern` / `toExpr` (mutual structural induction
over the nested trees and the item loops), the round trip normal form, the two formatted/pure differences.
-/
namespace Pfst.Coerce

theorem leavesP_append (a b : List Pattern) : leavesP (a ++ b) = leavesP a ++ leavesP b := by
  induction a with
  | nil => simp [leavesP]
  | cons p t ih => simp [leavesP, ih, List.append_assoc]

theorem leavesE_append (a b : List Expr) : leavesE (a ++ b) = leavesE a ++ leavesE b := by
  induction a with
  | nil => simp [leavesE]
  | cons p t ih => simp [leavesE, ih, List.append_assoc]

theorem unwild_wild (id : String) : unwild (wild id) = id := by
  unfold wild unwild
  split
  · next h => simp at h; simp [h]
  · simp

/-- the expression inside the `MatchValue` an expression coerces to is the expression itself -/
theorem valueOf_toPattern (fmt : Bool) (k k' : Expr) (hw : k.isKeyWalk = true)
    (h : valueOf (toPattern fmt k) = some k') : k' = k := by
  cases k with
  | unop op o =>
    simp only [toPattern] at h
    split at h <;> simp [valueOf] at h
    exact h.symm
  | attr v a =>
    simp only [toPattern] at h
    split at h <;> simp [valueOf] at h
    exact h.symm
  | binop l op r lpar =>
    cases op with
    | add =>
      simp only [toPattern] at h
      split at h <;> simp [valueOf] at h
      exact h.symm
    | sub =>
      simp only [toPattern] at h
      split at h <;> simp [valueOf] at h
      exact h.symm
    | bitor =>
      exfalso
      simp only [toPattern] at h
      repeat' split at h
      all_goals simp [valueOf] at h
    | other n => simp [toPattern, valueOf] at h
  | _ => simp [Expr.isKeyWalk] at hw

def restLeaf : Option String → List Leaf
  | some r => [.name r]
  | none => []

mutual
theorem toPattern_leaves' (fmt : Bool) : ∀ (e : Expr) (p : Pattern), toPattern fmt e = some p → p.leaves = e.leaves
  | .const c, p, h => by
    cases c <;> simp [toPattern] at h <;> subst h <;> simp [Pattern.leaves, Expr.leaves]
  | .attr v a, p, h => by
    simp only [toPattern] at h
    split at h <;> simp at h
    subst h; simp [Pattern.leaves]
  | .starred v, p, h => by
    cases v <;> simp [toPattern] at h
    subst h; simp [Pattern.leaves, Expr.leaves, unwild_wild]
  | .name id, p, h => by
    simp [toPattern] at h
    subst h; simp [Pattern.leaves, Expr.leaves, unwild_wild]
  | .dict items, p, h => by
    simp only [toPattern] at h
    split at h
    · next ms rest hd =>
      simp at h; subst h
      have := dictGo_leaves' fmt items false ms rest hd
      simp only [Pattern.leaves, Expr.leaves]
      exact this
    · simp at h
  | .call f args kws, p, h => by
    simp only [toPattern] at h
    split at h
    · split at h
      · simp at h
      · next ps hps =>
        split at h
        · simp at h
        · next ks hks =>
          simp at h; subst h
          simp [Pattern.leaves, Expr.leaves, callArgs_leaves' fmt args ps hps, callKws_leaves' fmt kws ks hks]
    · simp at h
  | .binop l op r lpar, p, h => by
    cases op with
    | add =>
      simp only [toPattern] at h
      split at h <;> simp at h
      subst h; simp [Pattern.leaves]
    | sub =>
      simp only [toPattern] at h
      split at h <;> simp at h
      subst h; simp [Pattern.leaves]
    | other n => simp [toPattern] at h
    | bitor =>
      simp only [toPattern] at h
      split at h
      · simp at h
      · split at h
        · simp at h
        · next pl hl =>
          split at h
          · simp at h
          · split at h
            · simp at h
            · next pr hr =>
              have ihl := toPattern_leaves' fmt l pl hl
              have ihr := toPattern_leaves' fmt r pr hr
              split at h
              · next ps =>
                split at h <;> simp at h <;> subst h
                · simp [Pattern.leaves, leavesP, Expr.leaves, ← ihl, ← ihr]
                · simp [Pattern.leaves, leavesP, leavesP_append, Expr.leaves, ← ihl, ← ihr]
              · simp at h; subst h
                simp [Pattern.leaves, leavesP, Expr.leaves, ← ihl, ← ihr]
  | .unop op operand, p, h => by
    simp only [toPattern] at h
    split at h <;> simp at h
    subst h; simp [Pattern.leaves]
  | .list es, p, h => by
    simp only [toPattern] at h
    split at h <;> simp at h
    next ps hps => subst h; simp [Pattern.leaves, Expr.leaves, seqGo_leaves' fmt es ps hps]
  | .tuple es, p, h => by
    simp only [toPattern] at h
    split at h <;> simp at h
    next ps hps => subst h; simp [Pattern.leaves, Expr.leaves, seqGo_leaves' fmt es ps hps]
  | .set es, p, h => by
    simp only [toPattern] at h
    split at h <;> simp at h
    next ps hps => subst h; simp [Pattern.leaves, Expr.leaves, seqGo_leaves' fmt es ps hps]
  | .kv _ _, p, h => by simp [toPattern] at h
  | .dstar _, p, h => by simp [toPattern] at h
  | .kw _ _, p, h => by simp [toPattern] at h
  | .other _ _, p, h => by simp [toPattern] at h

theorem seqGo_leaves' (fmt : Bool) : ∀ (es : List Expr) (ps : List Pattern), seqGo fmt es = some ps →
    leavesP ps = leavesE es
  | [], ps, h => by simp [seqGo] at h; subst h; simp [leavesP, leavesE]
  | e :: rest, ps, h => by
    simp only [seqGo] at h
    split at h
    · simp at h
    · next p hp =>
      split at h
      · simp at h
      · next ps' hps =>
        simp at h; subst h
        simp [leavesP, leavesE, toPattern_leaves' fmt e p hp, seqGo_leaves' fmt rest ps' hps]

theorem callArgs_leaves' (fmt : Bool) : ∀ (es : List Expr) (ps : List Pattern), callArgs fmt es = some ps →
    leavesP ps = leavesE es
  | [], ps, h => by simp [callArgs] at h; subst h; simp [leavesP, leavesE]
  | e :: rest, ps, h => by
    simp only [callArgs] at h
    split at h
    · simp at h
    · split at h
      · simp at h
      · next p hp =>
        split at h
        · simp at h
        · next ps' hps =>
          simp at h; subst h
          simp [leavesP, leavesE, toPattern_leaves' fmt e p hp, callArgs_leaves' fmt rest ps' hps]

theorem callKws_leaves' (fmt : Bool) : ∀ (es : List Expr) (ps : List Pattern), callKws fmt es = some ps →
    leavesP ps = leavesE es
  | [], ps, h => by simp [callKws] at h; subst h; simp [leavesP, leavesE]
  | .kw (some a) v :: rest, ps, h => by
    simp only [callKws] at h
    split at h
    · simp at h
    · next p hp =>
      split at h
      · simp at h
      · next ps' hps =>
        simp at h; subst h
        simp [leavesP, leavesE, Pattern.leaves, Expr.leaves, toPattern_leaves' fmt v p hp,
              callKws_leaves' fmt rest ps' hps]
  | .kw none _ :: _, ps, h => by simp [callKws] at h
  | .name _ :: _, ps, h => by simp [callKws] at h
  | .const _ :: _, ps, h => by simp [callKws] at h
  | .attr _ _ :: _, ps, h => by simp [callKws] at h
  | .list _ :: _, ps, h => by simp [callKws] at h
  | .tuple _ :: _, ps, h => by simp [callKws] at h
  | .set _ :: _, ps, h => by simp [callKws] at h
  | .starred _ :: _, ps, h => by simp [callKws] at h
  | .dict _ :: _, ps, h => by simp [callKws] at h
  | .kv _ _ :: _, ps, h => by simp [callKws] at h
  | .dstar _ :: _, ps, h => by simp [callKws] at h
  | .call _ _ _ :: _, ps, h => by simp [callKws] at h
  | .binop _ _ _ _ :: _, ps, h => by simp [callKws] at h
  | .unop _ _ :: _, ps, h => by simp [callKws] at h
  | .other _ _ :: _, ps, h => by simp [callKws] at h

theorem dictGo_leaves' (fmt : Bool) : ∀ (items : List Expr) (seen : Bool) (ms : List Pattern) (rest : Option String),
    dictGo fmt items seen = some (ms, rest) →
    leavesP ms ++ (match rest with | some r => [Leaf.name r] | none => []) = leavesE items
  | [], seen, ms, rest, h => by
    simp [dictGo] at h; obtain ⟨h1, h2⟩ := h; subst h1; subst h2; simp [leavesP, leavesE]
  | .dstar v :: tl, seen, ms, rest, h => by
    simp only [dictGo] at h
    split at h
    · simp at h
    · cases v with
      | name id =>
        simp only at h
        split at h
        · simp at h
        · split at h
          · simp at h
          · next ms' r' hgo =>
            simp at h; obtain ⟨h1, h2⟩ := h; subst h1; subst h2
            -- after `**rest` nothing else is accepted: the tail is empty
            cases tl with
            | nil =>
              simp [dictGo] at hgo; obtain ⟨h1, _⟩ := hgo; subst h1
              simp [leavesP, leavesE, Expr.leaves]
            | cons x xs =>
              exfalso
              cases x <;> simp [dictGo] at hgo
      | _ => simp at h
  | .kv k v :: tl, seen, ms, rest, h => by
    simp only [dictGo] at h
    split at h
    · simp at h
    · split at h
      · simp at h
      · next k' hk =>
        split at h
        · simp at h
        · next p hp =>
          split at h
          · simp at h
          · next ms' r' hgo =>
            simp at h; obtain ⟨h1, h2⟩ := h; subst h1; subst h2
            have ih := dictGo_leaves' fmt tl seen ms' r' hgo
            have hv := toPattern_leaves' fmt v p hp
            have hk' : k' = k := by
              split at hk
              · split at hk <;> simp at hk
                exact hk.symm
              · split at hk
                · next hw => exact valueOf_toPattern fmt k k' hw hk
                · simp at hk
            subst hk'
            simp only [leavesP, leavesE, Pattern.leaves, Expr.leaves, hv, List.append_assoc]
            rw [ih]
  | .name _ :: _, _, ms, rest, h => by simp [dictGo] at h
  | .const _ :: _, _, ms, rest, h => by simp [dictGo] at h
  | .attr _ _ :: _, _, ms, rest, h => by simp [dictGo] at h
  | .list _ :: _, _, ms, rest, h => by simp [dictGo] at h
  | .tuple _ :: _, _, ms, rest, h => by simp [dictGo] at h
  | .set _ :: _, _, ms, rest, h => by simp [dictGo] at h
  | .starred _ :: _, _, ms, rest, h => by simp [dictGo] at h
  | .dict _ :: _, _, ms, rest, h => by simp [dictGo] at h
  | .kw _ _ :: _, _, ms, rest, h => by simp [dictGo] at h
  | .call _ _ _ :: _, _, ms, rest, h => by simp [dictGo] at h
  | .binop _ _ _ _ :: _, _, ms, rest, h => by simp [dictGo] at h
  | .unop _ _ :: _, _, ms, rest, h => by simp [dictGo] at h
  | .other _ _ :: _, _, ms, rest, h => by simp [dictGo] at h
end

/-! ### pattern -> expression keeps the leaves -/

mutual
theorem toExpr_leaves' (fmt : Bool) : ∀ (p : Pattern) (e : Expr), toExpr fmt p = some e → e.leaves = p.leaves
  | .value v, e, h => by simp [toExpr] at h; subst h; simp [Pattern.leaves]
  | .singleton c, e, h => by simp [toExpr] at h; subst h; simp [Pattern.leaves, Expr.leaves]
  | .star n, e, h => by simp [toExpr] at h; subst h; simp [Pattern.leaves, Expr.leaves]
  | .capture n, e, h => by simp [toExpr] at h; subst h; simp [Pattern.leaves, Expr.leaves]
  | .asPat _ _, e, h => by simp [toExpr] at h
  | .seq d ps, e, h => by
    simp only [toExpr] at h
    split at h
    · simp at h
    · next es hes =>
      have := toExprs_leaves' fmt ps es hes
      split at h <;> simp at h <;> subst h <;> simp [Pattern.leaves, Expr.leaves, this]
  | .mapping items rest, e, h => by
    simp only [toExpr] at h
    split at h
    · simp at h
    · next its hits =>
      have := mapGo_leaves' fmt items its hits
      cases rest with
      | none => simp at h; subst h; simp [Pattern.leaves, Expr.leaves, this]
      | some r => simp at h; subst h; simp [Pattern.leaves, Expr.leaves, leavesE_append, leavesE, this]
  | .cls c ps kws, e, h => by
    simp only [toExpr] at h
    split at h
    · simp at h
    · next args ha =>
      split at h
      · simp at h
      · next ks hk =>
        simp at h; subst h
        simp [Pattern.leaves, Expr.leaves, toExprs_leaves' fmt ps args ha, clsKws_leaves' fmt kws ks hk]
  | .or_ [], e, h => by simp [toExpr] at h
  | .or_ (p :: rest), e, h => by
    simp only [toExpr] at h
    split at h
    · simp at h
    · next e0 h0 =>
      have h1 := toExpr_leaves' fmt p e0 h0
      have h2 := orGo_leaves' fmt rest e0 e h
      simp [Pattern.leaves, leavesP, h2, h1]
  | .mkv _ _, e, h => by simp [toExpr] at h
  | .pkw _ _, e, h => by simp [toExpr] at h

theorem toExprs_leaves' (fmt : Bool) : ∀ (ps : List Pattern) (es : List Expr), toExprs fmt ps = some es →
    leavesE es = leavesP ps
  | [], es, h => by simp [toExprs] at h; subst h; simp [leavesP, leavesE]
  | p :: rest, es, h => by
    simp only [toExprs] at h
    split at h
    · simp at h
    · next e he =>
      split at h
      · simp at h
      · next es' hes =>
        simp at h; subst h
        simp [leavesP, leavesE, toExpr_leaves' fmt p e he, toExprs_leaves' fmt rest es' hes]

theorem orGo_leaves' (fmt : Bool) : ∀ (rest : List Pattern) (acc e : Expr), orGo fmt acc rest = some e →
    e.leaves = acc.leaves ++ leavesP rest
  | [], acc, e, h => by simp [orGo] at h; subst h; simp [leavesP]
  | p :: t, acc, e, h => by
    simp only [orGo] at h
    split at h
    · simp at h
    · next r hr =>
      have := orGo_leaves' fmt t _ e h
      simp [this, Expr.leaves, leavesP, toExpr_leaves' fmt p r hr]

theorem mapGo_leaves' (fmt : Bool) : ∀ (ps : List Pattern) (es : List Expr), mapGo fmt ps = some es →
    leavesE es = leavesP ps
  | [], es, h => by simp [mapGo] at h; subst h; simp [leavesP, leavesE]
  | .mkv k p :: rest, es, h => by
    simp only [mapGo] at h
    split at h
    · simp at h
    · next v hv =>
      split at h
      · simp at h
      · next its hits =>
        simp at h; subst h
        simp [leavesP, leavesE, Pattern.leaves, Expr.leaves, toExpr_leaves' fmt p v hv, mapGo_leaves' fmt rest its hits]
  | .value _ :: _, es, h => by simp [mapGo] at h
  | .singleton _ :: _, es, h => by simp [mapGo] at h
  | .capture _ :: _, es, h => by simp [mapGo] at h
  | .asPat _ _ :: _, es, h => by simp [mapGo] at h
  | .seq _ _ :: _, es, h => by simp [mapGo] at h
  | .star _ :: _, es, h => by simp [mapGo] at h
  | .mapping _ _ :: _, es, h => by simp [mapGo] at h
  | .cls _ _ _ :: _, es, h => by simp [mapGo] at h
  | .pkw _ _ :: _, es, h => by simp [mapGo] at h
  | .or_ _ :: _, es, h => by simp [mapGo] at h

theorem clsKws_leaves' (fmt : Bool) : ∀ (ps : List Pattern) (es : List Expr), clsKws fmt ps = some es →
    leavesE es = leavesP ps
  | [], es, h => by simp [clsKws] at h; subst h; simp [leavesP, leavesE]
  | .pkw a p :: rest, es, h => by
    simp only [clsKws] at h
    split at h
    · simp at h
    · next v hv =>
      split at h
      · simp at h
      · next ks hks =>
        simp at h; subst h
        simp [leavesP, leavesE, Pattern.leaves, Expr.leaves, toExpr_leaves' fmt p v hv, clsKws_leaves' fmt rest ks hks]
  | .value _ :: _, es, h => by simp [clsKws] at h
  | .singleton _ :: _, es, h => by simp [clsKws] at h
  | .capture _ :: _, es, h => by simp [clsKws] at h
  | .asPat _ _ :: _, es, h => by simp [clsKws] at h
  | .seq _ _ :: _, es, h => by simp [clsKws] at h
  | .star _ :: _, es, h => by simp [clsKws] at h
  | .mapping _ _ :: _, es, h => by simp [clsKws] at h
  | .cls _ _ _ :: _, es, h => by simp [clsKws] at h
  | .mkv _ _ :: _, es, h => by simp [clsKws] at h
  | .or_ _ :: _, es, h => by simp [clsKws] at h
end

/-! ### the round trip expression -> pattern -> expression (pure-AST route) -/

theorem orGo_snoc (fmt : Bool) (q : Pattern) (b : Expr) (hq : toExpr fmt q = some b) :
    ∀ (rest : List Pattern) (acc a : Expr), orGo fmt acc rest = some a →
      orGo fmt acc (rest ++ [q]) = some (.binop a .bitor b false)
  | [], acc, a, h => by simp [orGo] at h; subst h; simp [orGo, hq]
  | p :: t, acc, a, h => by
    simp only [orGo] at h
    split at h
    · simp at h
    · next r hr =>
      simp only [List.cons_append, orGo, hr]
      exact orGo_snoc fmt q b hq t _ a h

/-- appending one alternative to a `MatchOr` is one more `|` on the right of its expression -/
theorem or_snoc (fmt : Bool) (ps : List Pattern) (q : Pattern) (a b : Expr)
    (ha : toExpr fmt (.or_ ps) = some a) (hq : toExpr fmt q = some b) :
    toExpr fmt (.or_ (ps ++ [q])) = some (.binop a .bitor b false) := by
  cases ps with
  | nil => simp [toExpr] at ha
  | cons p rest =>
    simp only [toExpr] at ha
    split at ha
    · simp at ha
    · next e0 h0 =>
      simp only [List.cons_append, toExpr, h0]
      exact orGo_snoc fmt q b hq rest e0 a ha

mutual
theorem roundtrip' : ∀ (e : Expr) (p : Pattern), toPattern false e = some p → toExpr false p = some e.norm
  | .const c, p, h => by
    cases c <;> simp [toPattern] at h <;> subst h <;> simp [toExpr, Expr.norm]
  | .attr v a, p, h => by
    simp only [toPattern] at h
    split at h <;> simp at h
    subst h; simp [toExpr, Expr.norm]
  | .starred v, p, h => by
    cases v <;> simp [toPattern] at h
    subst h; simp [toExpr, Expr.norm, unwild_wild]
  | .name id, p, h => by
    simp [toPattern] at h
    subst h; simp [toExpr, Expr.norm, unwild_wild]
  | .dict items, p, h => by
    simp only [toPattern] at h
    split at h
    · next ms rest hd =>
      simp at h; subst h
      obtain ⟨its, h1, h2⟩ := dictGo_rt' items false ms rest hd
      simp only [toExpr, h1, Expr.norm]
      cases rest with
      | none => simp at h2; simp [h2]
      | some r => simp at h2; simp [h2]
    · simp at h
  | .call f args kws, p, h => by
    simp only [toPattern] at h
    split at h
    · split at h
      · simp at h
      · next ps hps =>
        split at h
        · simp at h
        · next ks hks =>
          simp at h; subst h
          simp [toExpr, Expr.norm, callArgs_rt' args ps hps, callKws_rt' kws ks hks]
    · simp at h
  | .binop l op r lpar, p, h => by
    cases op with
    | add =>
      simp only [toPattern] at h
      split at h <;> simp at h
      subst h; simp [toExpr, Expr.norm]
    | sub =>
      simp only [toPattern] at h
      split at h <;> simp at h
      subst h; simp [toExpr, Expr.norm]
    | other n => simp [toPattern] at h
    | bitor =>
      simp only [toPattern] at h
      split at h
      · simp at h
      · split at h
        · simp at h
        · next pl hl =>
          split at h
          · simp at h
          · split at h
            · simp at h
            · next pr hr =>
              have ihl := roundtrip' l pl hl
              have ihr := roundtrip' r pr hr
              split at h
              · next ps =>
                simp at h; subst h
                simp only [Expr.norm]
                exact or_snoc false ps pr _ _ ihl ihr
              · simp at h; subst h
                simp [toExpr, orGo, ihl, ihr, Expr.norm]
  | .unop op operand, p, h => by
    simp only [toPattern] at h
    split at h <;> simp at h
    subst h; simp [toExpr, Expr.norm]
  | .list es, p, h => by
    simp only [toPattern] at h
    split at h <;> simp at h
    next ps hps => subst h; simp [toExpr, Expr.norm, seqGo_rt' es ps hps]
  | .tuple es, p, h => by
    simp only [toPattern] at h
    split at h <;> simp at h
    next ps hps => subst h; simp [toExpr, Expr.norm, seqGo_rt' es ps hps]
  | .set es, p, h => by
    simp only [toPattern] at h
    split at h <;> simp at h
    next ps hps => subst h; simp [toExpr, Expr.norm, seqGo_rt' es ps hps]
  | .kv _ _, p, h => by simp [toPattern] at h
  | .dstar _, p, h => by simp [toPattern] at h
  | .kw _ _, p, h => by simp [toPattern] at h
  | .other _ _, p, h => by simp [toPattern] at h

theorem seqGo_rt' : ∀ (es : List Expr) (ps : List Pattern), seqGo false es = some ps →
    toExprs false ps = some (normE es)
  | [], ps, h => by simp [seqGo] at h; subst h; simp [toExprs, normE]
  | e :: rest, ps, h => by
    simp only [seqGo] at h
    split at h
    · simp at h
    · next p hp =>
      split at h
      · simp at h
      · next ps' hps =>
        simp at h; subst h
        simp [toExprs, normE, roundtrip' e p hp, seqGo_rt' rest ps' hps]

theorem callArgs_rt' : ∀ (es : List Expr) (ps : List Pattern), callArgs false es = some ps →
    toExprs false ps = some (normE es)
  | [], ps, h => by simp [callArgs] at h; subst h; simp [toExprs, normE]
  | e :: rest, ps, h => by
    simp only [callArgs] at h
    split at h
    · simp at h
    · split at h
      · simp at h
      · next p hp =>
        split at h
        · simp at h
        · next ps' hps =>
          simp at h; subst h
          simp [toExprs, normE, roundtrip' e p hp, callArgs_rt' rest ps' hps]

theorem callKws_rt' : ∀ (es : List Expr) (ps : List Pattern), callKws false es = some ps →
    clsKws false ps = some (normE es)
  | [], ps, h => by simp [callKws] at h; subst h; simp [clsKws, normE]
  | .kw (some a) v :: rest, ps, h => by
    simp only [callKws] at h
    split at h
    · simp at h
    · next p hp =>
      split at h
      · simp at h
      · next ps' hps =>
        simp at h; subst h
        simp [clsKws, normE, Expr.norm, roundtrip' v p hp, callKws_rt' rest ps' hps]
  | .kw none _ :: _, ps, h => by simp [callKws] at h
  | .name _ :: _, ps, h => by simp [callKws] at h
  | .const _ :: _, ps, h => by simp [callKws] at h
  | .attr _ _ :: _, ps, h => by simp [callKws] at h
  | .list _ :: _, ps, h => by simp [callKws] at h
  | .tuple _ :: _, ps, h => by simp [callKws] at h
  | .set _ :: _, ps, h => by simp [callKws] at h
  | .starred _ :: _, ps, h => by simp [callKws] at h
  | .dict _ :: _, ps, h => by simp [callKws] at h
  | .kv _ _ :: _, ps, h => by simp [callKws] at h
  | .dstar _ :: _, ps, h => by simp [callKws] at h
  | .call _ _ _ :: _, ps, h => by simp [callKws] at h
  | .binop _ _ _ _ :: _, ps, h => by simp [callKws] at h
  | .unop _ _ :: _, ps, h => by simp [callKws] at h
  | .other _ _ :: _, ps, h => by simp [callKws] at h

theorem dictGo_rt' : ∀ (items : List Expr) (seen : Bool) (ms : List Pattern) (rest : Option String),
    dictGo false items seen = some (ms, rest) →
    ∃ its, mapGo false ms = some its ∧
      (match rest with | some r => its ++ [Expr.dstar (.name r)] | none => its) = normE items
  | [], seen, ms, rest, h => by
    simp [dictGo] at h; obtain ⟨h1, h2⟩ := h; subst h1; subst h2
    exact ⟨[], by simp [mapGo], by simp [normE]⟩
  | .dstar v :: tl, seen, ms, rest, h => by
    simp only [dictGo] at h
    split at h
    · simp at h
    · cases v with
      | name id =>
        simp only at h
        split at h
        · simp at h
        · split at h
          · simp at h
          · next ms' r' hgo =>
            simp at h; obtain ⟨h1, h2⟩ := h; subst h1; subst h2
            cases tl with
            | nil =>
              simp [dictGo] at hgo; obtain ⟨h1, _⟩ := hgo; subst h1
              exact ⟨[], by simp [mapGo], by simp [normE, Expr.norm]⟩
            | cons x xs =>
              exfalso
              cases x <;> simp [dictGo] at hgo
      | _ => simp at h
  | .kv k v :: tl, seen, ms, rest, h => by
    simp only [dictGo] at h
    split at h
    · simp at h
    · split at h
      · simp at h
      · next k' hk =>
        split at h
        · simp at h
        · next p hp =>
          split at h
          · simp at h
          · next ms' r' hgo =>
            simp at h; obtain ⟨h1, h2⟩ := h; subst h1; subst h2
            obtain ⟨its, i1, i2⟩ := dictGo_rt' tl seen ms' r' hgo
            have hv := roundtrip' v p hp
            have hk' : k' = k := by
              split at hk
              · split at hk <;> simp at hk
                exact hk.symm
              · split at hk
                · next hw => exact valueOf_toPattern false k k' hw hk
                · simp at hk
            subst hk'
            refine ⟨.kv k' v.norm :: its, by simp [mapGo, hv, i1], ?_⟩
            cases r' with
            | none => simp at i2; simp [normE, Expr.norm, i2]
            | some r => simp at i2; simp [normE, Expr.norm, i2]
  | .name _ :: _, _, ms, rest, h => by simp [dictGo] at h
  | .const _ :: _, _, ms, rest, h => by simp [dictGo] at h
  | .attr _ _ :: _, _, ms, rest, h => by simp [dictGo] at h
  | .list _ :: _, _, ms, rest, h => by simp [dictGo] at h
  | .tuple _ :: _, _, ms, rest, h => by simp [dictGo] at h
  | .set _ :: _, _, ms, rest, h => by simp [dictGo] at h
  | .starred _ :: _, _, ms, rest, h => by simp [dictGo] at h
  | .dict _ :: _, _, ms, rest, h => by simp [dictGo] at h
  | .kw _ _ :: _, _, ms, rest, h => by simp [dictGo] at h
  | .call _ _ _ :: _, _, ms, rest, h => by simp [dictGo] at h
  | .binop _ _ _ _ :: _, _, ms, rest, h => by simp [dictGo] at h
  | .unop _ _ :: _, _, ms, rest, h => by simp [dictGo] at h
  | .other _ _ :: _, _, ms, rest, h => by simp [dictGo] at h
end

/-! ### the normal form has the same leaves -/

mutual
theorem norm_leaves' : ∀ e : Expr, e.norm.leaves = e.leaves
  | .name _ => by simp [Expr.norm]
  | .const _ => by simp [Expr.norm]
  | .attr _ _ => by simp [Expr.norm]
  | .list es => by simp [Expr.norm, Expr.leaves, normE_leaves' es]
  | .tuple es => by simp [Expr.norm, Expr.leaves, normE_leaves' es]
  | .set es => by simp [Expr.norm, Expr.leaves, normE_leaves' es]
  | .starred _ => by simp [Expr.norm]
  | .dict items => by simp [Expr.norm, Expr.leaves, normE_leaves' items]
  | .kv k v => by simp [Expr.norm, Expr.leaves, norm_leaves' v]
  | .dstar _ => by simp [Expr.norm]
  | .call f args kws => by simp [Expr.norm, Expr.leaves, normE_leaves' args, normE_leaves' kws]
  | .kw a v => by simp [Expr.norm, Expr.leaves, norm_leaves' v]
  | .binop l op r lp => by
    cases op with
    | bitor => simp [Expr.norm, Expr.leaves, norm_leaves' l, norm_leaves' r]
    | _ => simp [Expr.norm]
  | .unop _ _ => by simp [Expr.norm]
  | .other _ _ => by simp [Expr.norm]
theorem normE_leaves' : ∀ es : List Expr, leavesE (normE es) = leavesE es
  | [] => by simp [normE]
  | e :: rest => by simp [normE, leavesE, norm_leaves' e, normE_leaves' rest]
end

/-! ### formatted route = pure route on sources without the two formatting-dependent constructs -/

mutual
/-- no `|` whose left operand is parenthesised in source -/
def Expr.plain : Expr → Bool
  | .name _ => true
  | .const _ => true
  | .attr v _ => v.plain
  | .list es => plainE es
  | .tuple es => plainE es
  | .set es => plainE es
  | .starred v => v.plain
  | .dict items => plainE items
  | .kv k v => k.plain && v.plain
  | .dstar v => v.plain
  | .call f args kws => f.plain && (plainE args && plainE kws)
  | .kw _ v => v.plain
  | .binop l op r lpar => !(op == .bitor && lpar) && (l.plain && r.plain)
  | .unop _ o => o.plain
  | .other _ kids => plainE kids
def plainE : List Expr → Bool
  | [] => true
  | e :: rest => e.plain && plainE rest
end

mutual
theorem toPattern_routes' : ∀ e : Expr, e.plain = true → toPattern true e = toPattern false e
  | .const c, _ => by cases c <;> simp [toPattern]
  | .attr v a, _ => by simp [toPattern]
  | .starred v, _ => by cases v <;> simp [toPattern]
  | .name id, _ => by simp [toPattern]
  | .dict items, h => by
    simp only [Expr.plain] at h
    simp only [toPattern, dictGo_routes' items false h]
  | .call f args kws, h => by
    simp only [Expr.plain, Bool.and_eq_true] at h
    simp only [toPattern, callArgs_routes' args h.2.1, callKws_routes' kws h.2.2]
  | .binop l op r lpar, h => by
    simp only [Expr.plain, Bool.and_eq_true, Bool.not_eq_true'] at h
    cases op with
    | add => simp [toPattern]
    | sub => simp [toPattern]
    | other n => simp [toPattern]
    | bitor =>
      have hl : lpar = false := by simpa using h.1
      subst hl
      simp only [toPattern, toPattern_routes' l h.2.1, toPattern_routes' r h.2.2, Bool.and_false]
  | .unop op operand, _ => by simp [toPattern]
  | .list es, h => by simp only [Expr.plain] at h; simp only [toPattern, seqGo_routes' es h]
  | .tuple es, h => by simp only [Expr.plain] at h; simp only [toPattern, seqGo_routes' es h]
  | .set es, h => by simp only [Expr.plain] at h; simp only [toPattern, seqGo_routes' es h]
  | .kv _ _, _ => by simp [toPattern]
  | .dstar _, _ => by simp [toPattern]
  | .kw _ _, _ => by simp [toPattern]
  | .other _ _, _ => by simp [toPattern]

theorem seqGo_routes' : ∀ es : List Expr, plainE es = true → seqGo true es = seqGo false es
  | [], _ => by simp [seqGo]
  | e :: rest, h => by
    simp only [plainE, Bool.and_eq_true] at h
    simp only [seqGo, toPattern_routes' e h.1, seqGo_routes' rest h.2]

theorem callArgs_routes' : ∀ es : List Expr, plainE es = true → callArgs true es = callArgs false es
  | [], _ => by simp [callArgs]
  | e :: rest, h => by
    simp only [plainE, Bool.and_eq_true] at h
    simp only [callArgs, toPattern_routes' e h.1, callArgs_routes' rest h.2]

theorem callKws_routes' : ∀ es : List Expr, plainE es = true → callKws true es = callKws false es
  | [], _ => by simp [callKws]
  | .kw (some a) v :: rest, h => by
    simp only [plainE, Expr.plain, Bool.and_eq_true] at h
    simp only [callKws, toPattern_routes' v h.1, callKws_routes' rest h.2]
  | .kw none _ :: _, _ => by simp [callKws]
  | .name _ :: _, _ => by simp [callKws]
  | .const _ :: _, _ => by simp [callKws]
  | .attr _ _ :: _, _ => by simp [callKws]
  | .list _ :: _, _ => by simp [callKws]
  | .tuple _ :: _, _ => by simp [callKws]
  | .set _ :: _, _ => by simp [callKws]
  | .starred _ :: _, _ => by simp [callKws]
  | .dict _ :: _, _ => by simp [callKws]
  | .kv _ _ :: _, _ => by simp [callKws]
  | .dstar _ :: _, _ => by simp [callKws]
  | .call _ _ _ :: _, _ => by simp [callKws]
  | .binop _ _ _ _ :: _, _ => by simp [callKws]
  | .unop _ _ :: _, _ => by simp [callKws]
  | .other _ _ :: _, _ => by simp [callKws]

theorem dictGo_routes' : ∀ (items : List Expr) (seen : Bool), plainE items = true →
    dictGo true items seen = dictGo false items seen
  | [], _, _ => by simp [dictGo]
  | .dstar v :: tl, seen, h => by
    simp only [plainE, Bool.and_eq_true] at h
    cases v <;> simp only [dictGo, dictGo_routes' tl true h.2]
  | .kv k v :: tl, seen, h => by
    simp only [plainE, Expr.plain, Bool.and_eq_true] at h
    simp only [dictGo, toPattern_routes' k h.1.1, toPattern_routes' v h.1.2, dictGo_routes' tl seen h.2]
  | .name _ :: _, _, _ => by simp [dictGo]
  | .const _ :: _, _, _ => by simp [dictGo]
  | .attr _ _ :: _, _, _ => by simp [dictGo]
  | .list _ :: _, _, _ => by simp [dictGo]
  | .tuple _ :: _, _, _ => by simp [dictGo]
  | .set _ :: _, _, _ => by simp [dictGo]
  | .starred _ :: _, _, _ => by simp [dictGo]
  | .dict _ :: _, _, _ => by simp [dictGo]
  | .kw _ _ :: _, _, _ => by simp [dictGo]
  | .call _ _ _ :: _, _, _ => by simp [dictGo]
  | .binop _ _ _ _ :: _, _, _ => by simp [dictGo]
  | .unop _ _ :: _, _, _ => by simp [dictGo]
  | .other _ _ :: _, _, _ => by simp [dictGo]
end

/-! ### `arguments` re-read as type parameters / class-pattern attributes: leaf order is kept -/

theorem leavesTs_append (a b : List TParam) : leavesTs (a ++ b) = leavesTs a ++ leavesTs b := by
  induction a with
  | nil => simp [leavesTs]
  | cons p t ih => simp [leavesTs, ih, List.append_assoc]

theorem tvPass_leaves : ∀ ps : List Param, hasDefault ps = false → leavesTs (tvPass ps) = leavesPs ps
  | [], _ => by simp [tvPass, leavesTs, leavesPs]
  | p :: rest, h => by
    simp only [hasDefault, Bool.or_eq_false_iff] at h
    have hd : p.dflt = none := by cases hp : p.dflt <;> simp [hp] at h ⊢
    simp [tvPass, leavesTs, leavesPs, TParam.leaves, Param.leaves, hd, optLeaves, tvPass_leaves rest h.2]

theorem starPart_leaves (mk : String → TParam) (hmk : ∀ n, (mk n).leaves = [.name n]) (o : Option Param)
    (v : List TParam) (h : starPart mk o = some v) : leavesTs v = optParamLeaves o := by
  cases o with
  | none => simp [starPart] at h; subst h; simp [leavesTs, optParamLeaves]
  | some p =>
    simp only [starPart] at h
    split at h
    · simp at h
    · next ha =>
      simp at h; subst h
      have : p.ann = none := by cases hp : p.ann <;> simp [hp] at ha ⊢
      simp [leavesTs, optParamLeaves, hmk, this, optLeaves]

theorem argsToTypeParams_leaves' (a : Arguments) (ts : List TParam) (h : argsToTypeParams a = some ts) :
    leavesTs ts = a.leaves := by
  unfold argsToTypeParams at h
  split at h
  · simp at h
  · next hpos =>
    split at h
    · simp at h
    · next hdef =>
      split at h
      · simp at h
      · split at h
        · next v k hv hk =>
          simp at h; subst h
          have hp : a.posonly = [] := by simpa using hpos
          simp only [Bool.or_eq_true, not_or, Bool.not_eq_true] at hdef
          simp [Arguments.leaves, hp, leavesPs, leavesTs_append, tvPass_leaves _ hdef.1, tvPass_leaves _ hdef.2,
                starPart_leaves _ (by intro n; rfl) _ _ hv, starPart_leaves _ (by intro n; rfl) _ _ hk]
        · simp at h

theorem attrGo_all_defaults (fmt : Bool) : ∀ (l : List Param) (ps ks : List Pattern),
    l.all (fun q => q.dflt.isSome) = true → attrGo fmt l = some (ps, ks) → ps = []
  | [], ps, ks, _, h => by simp [attrGo] at h; exact h.1
  | p :: rest, ps, ks, hall, h => by
    simp only [List.all_cons, Bool.and_eq_true] at hall
    simp only [attrGo] at h
    split at h
    · simp at h
    · cases hd : p.dflt with
      | none => simp [hd] at hall
      | some d =>
        simp only [hd] at h
        split at h
        · simp at h
        · split at h
          · simp at h
          · next ps' ks' hgo =>
            simp at h
            have := attrGo_all_defaults fmt rest ps' ks' hall.2 hgo
            rw [← h.1]; exact this

theorem attrGo_leaves (fmt : Bool) : ∀ (l : List Param) (ps ks : List Pattern),
    defaultsSuffix l = true → attrGo fmt l = some (ps, ks) → leavesP ps ++ leavesP ks = leavesPs l
  | [], ps, ks, _, h => by simp [attrGo] at h; obtain ⟨h1, h2⟩ := h; subst h1; subst h2; simp [leavesP, leavesPs]
  | p :: rest, ps, ks, hs, h => by
    simp only [defaultsSuffix, Bool.and_eq_true, Bool.or_eq_true] at hs
    simp only [attrGo] at h
    split at h
    · simp at h
    · next hann =>
      have ha : p.ann = none := by cases hp : p.ann <;> simp [hp] at hann ⊢
      cases hd : p.dflt with
      | some d =>
        simp only [hd] at h
        split at h
        · simp at h
        · next pat hpat =>
          split at h
          · simp at h
          · next ps' ks' hgo =>
            simp at h; obtain ⟨h1, h2⟩ := h; subst h1; subst h2
            have hall : rest.all (fun q => q.dflt.isSome) = true := by
              rcases hs.1 with h0 | h0
              · simp [hd] at h0
              · exact h0
            have hnil := attrGo_all_defaults fmt rest ps' ks' hall hgo
            subst hnil
            have ih := attrGo_leaves fmt rest [] ks' hs.2 hgo
            simp only [leavesP, List.nil_append] at ih
            simp [leavesP, leavesPs, Pattern.leaves, Param.leaves, ha, hd, optLeaves, toPattern_leaves' fmt d pat hpat, ih]
      | none =>
        simp only [hd] at h
        split at h
        · simp at h
        · next ps' ks' hgo =>
          simp at h; obtain ⟨h1, h2⟩ := h; subst h1; subst h2
          have ih := attrGo_leaves fmt rest ps' ks' hs.2 hgo
          simp [leavesP, leavesPs, Pattern.leaves, Param.leaves, ha, hd, optLeaves, unwild_wild, ← ih]

theorem argsToAttrlikes_leaves' (fmt : Bool) (a : Arguments) (ps ks : List Pattern) (hs : defaultsSuffix a.args = true)
    (h : argsToAttrlikes fmt a = some (ps, ks)) : leavesP ps ++ leavesP ks = a.leaves := by
  unfold argsToAttrlikes at h
  split at h
  · simp at h
  · next hc =>
    simp only [Bool.or_eq_true, not_or, Bool.not_eq_true, Bool.not_eq_false'] at hc
    obtain ⟨⟨⟨hv, hk⟩, hp⟩, hko⟩ := hc
    have hv' : a.vararg = none := by cases hx : a.vararg <;> simp [hx] at hv ⊢
    have hk' : a.kwarg = none := by cases hx : a.kwarg <;> simp [hx] at hk ⊢
    have hp' : a.posonly = [] := by simpa using hp
    have hko' : a.kwonly = [] := by simpa using hko
    simp [Arguments.leaves, hv', hk', hp', hko', leavesPs, optParamLeaves, attrGo_leaves fmt a.args ps ks hs h]

end Pfst.Coerce
