import Pfst.TrailSep
/-! Specification of the repaired trailing-separator patterns and proof that the deterministic scan decides it. -/
namespace Pfst.TrailSep

/-- the strings `(?: [)\s] | \\\n | \#[^\n]*\n )*` matches -/
inductive Trivia : List Char → Prop
  | nil : Trivia []
  | skip (c : Char) (h : isSkip c = true) {r : List Char} : Trivia r → Trivia (c :: r)
  | lcont {r : List Char} : Trivia r → Trivia ('\\' :: '\n' :: r)
  | comment (body : List Char) (hb : ∀ x ∈ body, x ≠ '\n') {r : List Char} : Trivia r → Trivia ('#' :: (body ++ '\n' :: r))

/-- `_re_trailing_<sep>.match(s)` succeeds -/
def Matches (sep : Char) (s : List Char) : Prop := ∃ pre rest, Trivia pre ∧ s = pre ++ sep :: rest

theorem scan_comment_body (sep : Char) (body t : List Char) (hb : ∀ x ∈ body, x ≠ '\n') :
    scan sep .comment (body ++ '\n' :: t) = scan sep .unit t := by
  induction body with
  | nil => simp [scan]
  | cons c cs ih =>
    have hc : c ≠ '\n' := hb c (by simp)
    simp only [List.cons_append, scan, hc, if_false]
    exact ih (fun x hx => hb x (by simp [hx]))

theorem scan_of_matches (sep : Char) (hs : isSkip sep = false) (h1 : sep ≠ '\\') (h2 : sep ≠ '#')
    (pre rest : List Char) (h : Trivia pre) : scan sep .unit (pre ++ sep :: rest) = true := by
  induction h with
  | nil => simp [scan]
  | skip c hc _ ih =>
    have : c ≠ sep := by intro e; rw [e, hs] at hc; exact absurd hc (by simp)
    simp [scan, this, hc, ih]
  | lcont _ ih =>
    have e1 : ¬ ('\\' = sep) := fun e => h1 e.symm
    have e2 : isSkip '\\' = false := by decide
    simp [scan, e1, e2, ih]
  | comment body hb _ ih =>
    have e1 : ¬ ('#' = sep) := fun e => h2 e.symm
    have e2 : isSkip '#' = false := by decide
    have e3 : ¬ ('#' = '\\') := by decide
    simp only [List.cons_append, scan, e1, e2, e3, if_false, Bool.false_eq_true]
    rw [List.append_assoc, List.cons_append, scan_comment_body sep body _ hb]
    exact ih

theorem matches_of_scan (sep : Char) : ∀ s : List Char,
    (scan sep .unit s = true → Matches sep s)
    ∧ (scan sep .comment s = true → ∃ body t, (∀ x ∈ body, x ≠ '\n') ∧ s = body ++ '\n' :: t ∧ Matches sep t)
    ∧ (scan sep .bslash s = true → ∃ t, s = '\n' :: t ∧ Matches sep t) := by
  intro s
  induction s with
  | nil => simp [scan]
  | cons c cs ih =>
    obtain ⟨ihU, ihC, ihB⟩ := ih
    refine ⟨?_, ?_, ?_⟩
    · intro h
      simp only [scan] at h
      by_cases hc : c = sep
      · exact ⟨[], cs, Trivia.nil, by simp [hc]⟩
      · simp only [hc, if_false] at h
        by_cases hk : isSkip c = true
        · simp only [hk, if_true] at h
          obtain ⟨pre, rest, hp, he⟩ := ihU h
          exact ⟨c :: pre, rest, Trivia.skip c hk hp, by simp [he]⟩
        · simp only [hk, Bool.false_eq_true, if_false] at h
          by_cases hb : c = '\\'
          · simp only [hb, if_true] at h
            obtain ⟨t, he, pre, rest, hp, he2⟩ := ihB h
            exact ⟨'\\' :: '\n' :: pre, rest, Trivia.lcont hp, by simp [hb, he, he2]⟩
          · simp only [hb, if_false] at h
            by_cases hh : c = '#'
            · simp only [hh, if_true] at h
              obtain ⟨body, t, hbody, he, pre, rest, hp, he2⟩ := ihC h
              refine ⟨'#' :: (body ++ '\n' :: pre), rest, Trivia.comment body hbody hp, ?_⟩
              simp [hh, he, he2]
            · simp [hh] at h
    · intro h
      simp only [scan] at h
      by_cases hc : c = '\n'
      · simp only [hc, if_true] at h
        exact ⟨[], cs, by simp, by simp [hc], ihU h⟩
      · simp only [hc, if_false] at h
        obtain ⟨body, t, hbody, he, hm⟩ := ihC h
        refine ⟨c :: body, t, ?_, by simp [he], hm⟩
        intro x hx
        simp only [List.mem_cons] at hx
        rcases hx with rfl | hx
        · exact hc
        · exact hbody x hx
    · intro h
      simp only [scan] at h
      by_cases hc : c = '\n'
      · simp only [hc, if_true] at h
        exact ⟨cs, by simp [hc], ihU h⟩
      · simp [hc] at h

/-! ### the pattern before the repair accepts the same strings -/

/-- `(?: \\\\ | \#[^\n]* ) \n` or nothing: the optional tail of one round of the old pattern -/
def OptTail (e : List Char) : Prop :=
  e = [] ∨ e = ['\\', '\n'] ∨ ∃ body, (∀ x ∈ body, x ≠ '\n') ∧ e = '#' :: (body ++ ['\n'])

/-- the strings `(?: [)\s]* (?: (?: \\\\ | \#[^\n]* ) \n )? )*` matches (pattern before the repair: a star over a starred class) -/
inductive TriviaOld : List Char → Prop
  | nil : TriviaOld []
  | round (w e : List Char) (hw : ∀ x ∈ w, isSkip x = true) (he : OptTail e) {r : List Char} :
      TriviaOld r → TriviaOld (w ++ e ++ r)

theorem Trivia.append {a b : List Char} (ha : Trivia a) (hb : Trivia b) : Trivia (a ++ b) := by
  induction ha with
  | nil => simpa using hb
  | skip c hc _ ih => exact Trivia.skip c hc ih
  | lcont _ ih => exact Trivia.lcont ih
  | @comment body hbody r _ ih =>
    have : '#' :: (body ++ '\n' :: r) ++ b = '#' :: (body ++ '\n' :: (r ++ b)) := by simp
    rw [this]
    exact Trivia.comment body hbody ih

theorem Trivia.ofSkips (w : List Char) (hw : ∀ x ∈ w, isSkip x = true) : Trivia w := by
  induction w with
  | nil => exact Trivia.nil
  | cons c cs ih => exact Trivia.skip c (hw c (by simp)) (ih (fun x hx => hw x (by simp [hx])))

theorem Trivia.ofOptTail (e : List Char) (he : OptTail e) : Trivia e := by
  rcases he with rfl | rfl | ⟨body, hb, rfl⟩
  · exact Trivia.nil
  · exact Trivia.lcont Trivia.nil
  · exact Trivia.comment body hb Trivia.nil

theorem triviaOld_iff (s : List Char) : TriviaOld s ↔ Trivia s := by
  constructor
  · intro h
    induction h with
    | nil => exact Trivia.nil
    | round w e hw he _ ih => exact ((Trivia.ofSkips w hw).append (Trivia.ofOptTail e he)).append ih
  · intro h
    induction h with
    | nil => exact TriviaOld.nil
    | skip c hc _ ih =>
      have := TriviaOld.round [c] [] (by simpa using hc) (Or.inl rfl) ih
      simpa using this
    | lcont _ ih =>
      have := TriviaOld.round [] ['\\', '\n'] (by simp) (Or.inr (Or.inl rfl)) ih
      simpa using this
    | comment body hb _ ih =>
      have := TriviaOld.round [] ('#' :: (body ++ ['\n'])) (by simp) (Or.inr (Or.inr ⟨body, hb, rfl⟩)) ih
      simpa using this

end Pfst.TrailSep
