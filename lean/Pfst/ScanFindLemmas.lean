import Pfst.Scan

/-! # `find_contains_loc` / `find_in_loc` / `find_loc` return what a brute-force scan would return

Model: the last section of `Pfst/Scan.lean` (the repaired functions: `allow_exact='top'` honoured inside the descent,
decorators searched before giving up at a definition that does not contain the location).

* `findIn_bruteforce`, `findContains_bruteforce(T)`, `findLoc_bruteforce`: on plainly well-formed lists (`wfList`) the
  passes return the brute-force selections, for all three `allow_exact` modes; `findContainsD_eq_of_wf`: the decorator
  search is inert there.
* `findContainsD_bruteforce(T)`, `findLoc_decorated_partial`: on lists WITH decorated definitions (`wfListD`) and
  non-empty rectangles the repaired `find_contains_loc` returns the brute-force selection over all nodes.
* `bruteContains_deepest`, `bruteContains_top_highest`: what the brute-force selections mean geometrically. -/

namespace Pfst.Scan

set_option linter.unusedSimpArgs false

/-! ## small geometric facts -/

theorem insideQ_eq (f : FNode) (q : Loc) : insideQ f q = (!startsBeforeQ f q && endsWithinQ f q) := by
  rw [Bool.eq_iff_iff]
  simp [insideQ, startsBeforeQ, endsWithinQ]
  omega

theorem posLe_iff (a b : Nat × Nat) : posLe a b = true ↔ (a.1 < b.1 ∨ (a.1 = b.1 ∧ a.2 ≤ b.2)) := by
  simp [posLe]

theorem posLe_false_iff (a b : Nat × Nat) : posLe a b = false ↔ ¬ (a.1 < b.1 ∨ (a.1 = b.1 ∧ a.2 ≤ b.2)) := by
  rw [← posLe_iff]; simp

theorem containsQ_iff (f : FNode) (q : Loc) :
    containsQ f q = true ↔ posLe f.start (q.ln, q.col) = true ∧ posLe (q.endLn, q.endCol) f.stop = true := by
  simp [containsQ, posLe_iff, FNode.start, FNode.stop]
  omega

theorem notContainsQ_eq (f : FNode) (q : Loc) : notContainsQ f q = !containsQ f q := by
  rw [Bool.eq_iff_iff]
  simp [containsQ, notContainsQ]
  omega


/-- unfold every Bool-valued geometric predicate to linear arithmetic over `Nat` and call `omega` -/
macro "geo" : tactic => `(tactic|
  (simp [containsQ, notContainsQ, exactQ, endsBeforeQ, insideQ, startsBeforeQ, endsWithinQ, candContains,
      posLe_iff, posLe_false_iff, FNode.start, FNode.stop] at *
   <;> omega))

/-! ## list facts -/

/-- the sub-list selected by the depth test -/
abbrev deeper (d : Nat) : FNode → Bool := fun g => decide (g.depth > d)

@[simp] theorem deeper_apply (d : Nat) (g : FNode) : deeper d g = decide (g.depth > d) := rfl

theorem takeWhile_split (d d' : Nat) (h : d ≤ d') (l : List FNode) :
    l.takeWhile (deeper d) = l.takeWhile (deeper d') ++ (l.dropWhile (deeper d')).takeWhile (deeper d) := by
  induction l with
  | nil => simp
  | cons a l ih =>
    by_cases h' : a.depth > d'
    · have : a.depth > d := by omega
      simp [List.takeWhile_cons, List.dropWhile_cons, h', this, ih]
    · simp [List.takeWhile_cons, List.dropWhile_cons, h']

theorem mem_takeWhile_p (p : FNode → Bool) (l : List FNode) (g : FNode) (h : g ∈ l.takeWhile p) : p g = true := by
  induction l with
  | nil => simp at h
  | cons a l ih =>
    rw [List.takeWhile_cons] at h
    split at h
    · cases h with
      | head => assumption
      | tail _ h => exact ih h
    · cases h

theorem mem_takeWhile_mem (p : FNode → Bool) (l : List FNode) (g : FNode) (h : g ∈ l.takeWhile p) : g ∈ l :=
  (List.takeWhile_sublist p).subset h

theorem mem_dropWhile_mem (p : FNode → Bool) (l : List FNode) (g : FNode) (h : g ∈ l.dropWhile p) : g ∈ l :=
  (List.dropWhile_sublist p).subset h

theorem mem_take_or_drop (p : FNode → Bool) (l : List FNode) (g : FNode) (h : g ∈ l) :
    g ∈ l.takeWhile p ∨ g ∈ l.dropWhile p := by
  rw [← List.takeWhile_append_dropWhile (p := p) (l := l)] at h
  exact List.mem_append.mp h

theorem wfList_cons (f : FNode) (rest : List FNode) : wfList (f :: rest) = true ↔ wfAt f rest = true ∧ wfList rest = true := by
  simp [wfList]

theorem wfAt_self (f : FNode) (rest : List FNode) (h : wfAt f rest = true) : posLe f.start f.stop = true := by
  simp only [wfAt, Bool.and_eq_true] at h; exact h.1.1

theorem wfAt_in (f : FNode) (rest : List FNode) (h : wfAt f rest = true) (g : FNode)
    (hg : g ∈ rest.takeWhile (deeper f.depth)) : posLe f.start g.start = true ∧ posLe g.stop f.stop = true := by
  simp only [wfAt, Bool.and_eq_true, List.all_eq_true] at h
  exact h.1.2 g hg

theorem wfAt_after (f : FNode) (rest : List FNode) (h : wfAt f rest = true) (g : FNode)
    (hg : g ∈ rest.dropWhile (deeper f.depth)) : posLe f.stop g.start = true := by
  simp only [wfAt, Bool.and_eq_true, List.all_eq_true] at h
  exact h.2 g hg

theorem wfList_mem (l : List FNode) (h : wfList l = true) (g : FNode) (hg : g ∈ l) : posLe g.start g.stop = true := by
  induction l with
  | nil => cases hg
  | cons a l ih =>
    rw [wfList_cons] at h
    cases hg with
    | head => exact wfAt_self _ _ h.1
    | tail _ hg => exact ih h.2 hg

theorem wfList_suffix (l l' : List FNode) (hs : l' <:+ l) (h : wfList l = true) : wfList l' = true := by
  induction l with
  | nil => simp at hs; subst hs; exact h
  | cons a l ih =>
    rw [List.suffix_cons_iff] at hs
    cases hs with
    | inl e => subst e; exact h
    | inr hs => rw [wfList_cons] at h; exact ih hs h.2

/-! ## `find_in_loc` -/

theorem inGo_eq (q : Loc) (rest : List FNode) (hwf : wfList rest = true) (d : Nat) :
    inGo q d rest = (rest.takeWhile (deeper d)).find? (fun f => insideQ f q) := by
  induction rest generalizing d with
  | nil => simp [inGo]
  | cons f rest ih =>
    rw [wfList_cons] at hwf
    obtain ⟨hf, hrest⟩ := hwf
    unfold inGo
    by_cases hd : f.depth ≤ d
    · have : ¬ f.depth > d := by omega
      simp [hd, List.takeWhile_cons, this]
    · have hd' : f.depth > d := by omega
      simp only [hd, if_false, List.takeWhile_cons, deeper_apply, hd', decide_true, if_true, List.find?_cons]
      rw [insideQ_eq]
      cases hsb : startsBeforeQ f q
      · cases hew : endsWithinQ f q
        · simp only [Bool.not_false, Bool.and_false, Bool.false_eq_true, if_false]
          rw [ih hrest f.depth, takeWhile_split d f.depth (by omega) rest, List.find?_append]
          have : ((rest.dropWhile (deeper f.depth)).takeWhile (deeper d)).find? (fun f => insideQ f q) = none := by
            rw [List.find?_eq_none]
            intro g hg
            have hg' := mem_takeWhile_mem _ _ _ hg
            have h1 := wfAt_after f rest hf g hg'
            have h2 := wfList_mem rest hrest g (mem_dropWhile_mem _ _ _ hg')
            have h3 := wfAt_self f rest hf
            geo
          rw [this]; simp
        · simp
      · simp only [Bool.not_true, Bool.false_and, Bool.false_eq_true, if_false, if_true]
        exact ih hrest d

theorem findIn_bruteforce (nodes : List FNode) (q : Loc) (hwf : wfList nodes = true) :
    findIn nodes q = bruteIn nodes q := by
  cases nodes with
  | nil => rfl
  | cons self tail =>
    rw [wfList_cons] at hwf
    simp only [findIn, bruteIn, subtree, List.find?_cons]
    cases h : insideQ self q
    · simp only [Bool.false_eq_true, if_false]
      exact inGo_eq q tail hwf.2 self.depth
    · simp



/-! ## `find_contains_loc` -/

/-- brute force with position: the LAST entry satisfying `p` among the leading entries of depth `> d`, together
with the list that follows it -/
def lastCandT (p : FNode → Bool) (d : Nat) : List FNode → Option (FNode × List FNode)
  | [] => none
  | f :: rest =>
    if f.depth ≤ d then none
    else match lastCandT p d rest with
      | some r => some r
      | none => if p f then some (f, rest) else none

/-- brute force with position for all three `allow_exact` modes: among the leading entries of depth `> d` the FIRST
entry satisfying `p` and `e` when there is one, otherwise the LAST entry satisfying `p`; together with the list that
follows it.  (`p` = candidate, `e` = "exact match and `allow_exact == 'top'`".) -/
def pickT (p e : FNode → Bool) (d : Nat) : List FNode → Option (FNode × List FNode)
  | [] => none
  | f :: rest =>
    if f.depth ≤ d then none
    else if p f && e f then some (f, rest)
    else match pickT p e d rest with
      | some r => some r
      | none => if p f then some (f, rest) else none

/-- the early-exit predicate of `allow_exact='top'` -/
def topE (q : Loc) (ae : AllowExact) (f : FNode) : Bool := exactQ f q && ae == .top

/-- positional variant of `bruteContains`: the node selected and the list that follows it -/
def bruteContainsT (nodes : List FNode) (q : Loc) (ae : AllowExact) : Option (FNode × List FNode) :=
  match nodes with
  | [] => none
  | self :: tail =>
    if containsQ self q then
      if exactQ self q && ae == .no then none
      else if exactQ self q && ae == .top then some (self, tail)
      else
        match pickT (candContains q (ae != .no)) (topE q ae) self.depth tail with
        | some r => some r
        | none => some (self, tail)
    else none

theorem lastCandT_cons (p : FNode → Bool) (d : Nat) (f : FNode) (rest : List FNode) :
    lastCandT p d (f :: rest) =
      if f.depth ≤ d then none
      else match lastCandT p d rest with
        | some r => some r
        | none => if p f then some (f, rest) else none := by
  rw [lastCandT]

theorem pickT_cons (p e : FNode → Bool) (d : Nat) (f : FNode) (rest : List FNode) :
    pickT p e d (f :: rest) =
      if f.depth ≤ d then none
      else if p f && e f then some (f, rest)
      else match pickT p e d rest with
        | some r => some r
        | none => if p f then some (f, rest) else none := by
  rw [pickT]

/-- without an early exit `pickT` is `lastCandT` -/
theorem pickT_false (p : FNode → Bool) (d : Nat) (l : List FNode) :
    pickT p (fun _ => false) d l = lastCandT p d l := by
  induction l with
  | nil => rfl
  | cons f rest ih =>
    rw [pickT_cons, lastCandT_cons, ih]
    simp

theorem lastCandT_map_fst (p : FNode → Bool) (d : Nat) (l : List FNode) :
    (lastCandT p d l).map (·.1) = ((l.takeWhile (deeper d)).filter p).getLast? := by
  induction l with
  | nil => simp [lastCandT]
  | cons f rest ih =>
    unfold lastCandT
    by_cases hd : f.depth ≤ d
    · have : ¬ f.depth > d := by omega
      simp [hd, List.takeWhile_cons, this]
    · have hd' : f.depth > d := by omega
      simp only [hd, if_false, List.takeWhile_cons, deeper_apply, hd', decide_true, if_true, List.filter_cons]
      cases hp : p f
      · simp only [Bool.false_eq_true, if_false]
        rw [← ih]
        cases lastCandT p d rest <;> rfl
      · simp only [if_true, List.getLast?_cons]
        rw [← ih]
        cases lastCandT p d rest <;> rfl

/-- what `pickT` selects: the first `p`-and-`e` entry, else the last `p` entry -/
theorem pickT_map_fst (p e : FNode → Bool) (d : Nat) (l : List FNode) :
    (pickT p e d l).map (·.1) =
      match ((l.takeWhile (deeper d)).filter p).find? e with
      | some f => some f
      | none => ((l.takeWhile (deeper d)).filter p).getLast? := by
  induction l with
  | nil => simp [pickT]
  | cons f rest ih =>
    rw [pickT_cons]
    by_cases hd : f.depth ≤ d
    · have : ¬ f.depth > d := by omega
      simp [hd, List.takeWhile_cons, this]
    · have hd' : f.depth > d := by omega
      simp only [hd, if_false, List.takeWhile_cons, deeper_apply, hd', decide_true, if_true, List.filter_cons]
      revert ih
      generalize pickT p e d rest = a
      generalize List.filter p (List.takeWhile (deeper d) rest) = c
      intro ih
      cases hp : p f
      · simp only [Bool.false_and, Bool.false_eq_true, if_false]
        rw [← ih]
        cases a <;> rfl
      · cases he : e f
        · simp only [Bool.and_false, Bool.false_eq_true, if_false, if_true, List.find?_cons, he,
            List.getLast?_cons]
          cases a <;> cases hb : List.find? e c <;> cases hc : c.getLast? <;> simp_all
        · simp [List.find?_cons, he]

theorem bruteContainsT_map_fst (nodes : List FNode) (q : Loc) (ae : AllowExact) :
    (bruteContainsT nodes q ae).map (·.1) = bruteContains nodes q ae := by
  cases nodes with
  | nil => rfl
  | cons self tail =>
    simp only [bruteContainsT, bruteContains, subtree, List.drop_succ_cons, List.drop_zero]
    split
    · split
      · rfl
      · split
        · rfl
        · have h := pickT_map_fst (candContains q (ae != .no)) (topE q ae) self.depth tail
          change _ = (match (List.filter (candContains q (ae != .no))
              (List.takeWhile (fun f => decide (f.depth > self.depth)) tail)).find? (topE q ae) with
            | some f => some f
            | none => (List.filter (candContains q (ae != AllowExact.no))
              (List.takeWhile (fun f => decide (f.depth > self.depth)) tail)).getLast?) at h
          revert h
          generalize pickT (candContains q (ae != .no)) (topE q ae) self.depth tail = a
          generalize List.filter (candContains q (ae != .no))
              (List.takeWhile (fun f => decide (f.depth > self.depth)) tail) = c
          intro h
          have hfind : (if ae == .top then c.find? (fun f => exactQ f q) else none) = c.find? (topE q ae) := by
            cases ae
            · have : topE q .no = fun _ => false := by funext f; simp [topE]
              rw [this]; exact (List.find?_eq_none.mpr (by simp)).symm
            · have : topE q .yes = fun _ => false := by funext f; simp [topE]
              rw [this]; exact (List.find?_eq_none.mpr (by simp)).symm
            · have : topE q .top = fun f => exactQ f q := by funext f; simp [topE]
              rw [this]; simp
          rw [hfind]
          cases a <;> cases hb : List.find? (topE q ae) c <;> cases hc : c.getLast? <;> simp_all
    · rfl

theorem lastCandT_none_of_all (p : FNode → Bool) (d : Nat) (l : List FNode) (h : ∀ g ∈ l, p g = false) :
    lastCandT p d l = none := by
  induction l with
  | nil => rfl
  | cons f rest ih =>
    unfold lastCandT
    have h1 := ih (fun g hg => h g (List.mem_cons_of_mem _ hg))
    have h2 := h f (List.mem_cons_self)
    simp [h1, h2]

theorem pickT_none_of_all (p e : FNode → Bool) (d : Nat) (l : List FNode) (h : ∀ g ∈ l, p g = false) :
    pickT p e d l = none := by
  induction l with
  | nil => rfl
  | cons f rest ih =>
    rw [pickT_cons]
    have h1 := ih (fun g hg => h g (List.mem_cons_of_mem _ hg))
    have h2 := h f (List.mem_cons_self)
    simp [h1, h2]

theorem lastCandT_depth (p : FNode → Bool) (d d' : Nat) (hd : d ≤ d') (l : List FNode)
    (h : ∀ g ∈ l.dropWhile (deeper d'), p g = false) : lastCandT p d l = lastCandT p d' l := by
  induction l with
  | nil => rfl
  | cons f rest ih =>
    by_cases h' : f.depth > d'
    · have h1 : ¬ f.depth ≤ d' := by omega
      have h2 : ¬ f.depth ≤ d := by omega
      have : List.dropWhile (deeper d') (f :: rest) = List.dropWhile (deeper d') rest := by
        simp [List.dropWhile_cons, h']
      rw [this] at h
      unfold lastCandT
      simp only [h1, h2, if_false]
      rw [ih h]
    · have : List.dropWhile (deeper d') (f :: rest) = f :: rest := by
        simp [List.dropWhile_cons, h']
      rw [this] at h
      rw [lastCandT_none_of_all p d _ h, lastCandT_none_of_all p d' _ h]

/-- if nothing after the leading run of depth `> d'` is a candidate the selection below depth `d ≤ d'` is the one
below `d'` -/
theorem pickT_depth (p e : FNode → Bool) (d d' : Nat) (hd : d ≤ d') (l : List FNode)
    (h : ∀ g ∈ l.dropWhile (deeper d'), p g = false) : pickT p e d l = pickT p e d' l := by
  induction l with
  | nil => rfl
  | cons f rest ih =>
    by_cases h' : f.depth > d'
    · have h1 : ¬ f.depth ≤ d' := by omega
      have h2 : ¬ f.depth ≤ d := by omega
      have : List.dropWhile (deeper d') (f :: rest) = List.dropWhile (deeper d') rest := by
        simp [List.dropWhile_cons, h']
      rw [this] at h
      rw [pickT_cons, pickT_cons]
      simp only [h1, h2, if_false]
      rw [ih h]
    · have : List.dropWhile (deeper d') (f :: rest) = f :: rest := by
        simp [List.dropWhile_cons, h']
      rw [this] at h
      rw [pickT_none_of_all p e d _ h, pickT_none_of_all p e d' _ h]

/-- if nothing in the leading run of depth `> d'` is a candidate the selection skips that run -/
theorem pickT_skip (p e : FNode → Bool) (d d' : Nat) (hd : d ≤ d') (l : List FNode)
    (h : ∀ g ∈ l.takeWhile (deeper d'), p g = false) : pickT p e d l = pickT p e d (l.dropWhile (deeper d')) := by
  induction l with
  | nil => rfl
  | cons f rest ih =>
    by_cases h' : f.depth > d'
    · have h2 : ¬ f.depth ≤ d := by omega
      have e1 : List.takeWhile (deeper d') (f :: rest) = f :: List.takeWhile (deeper d') rest := by
        simp [List.takeWhile_cons, h']
      have e2 : List.dropWhile (deeper d') (f :: rest) = List.dropWhile (deeper d') rest := by
        simp [List.dropWhile_cons, h']
      rw [e1] at h
      rw [e2, pickT_cons, ih (fun g hg => h g (List.mem_cons_of_mem _ hg))]
      have hp := h f List.mem_cons_self
      simp only [h2, if_false, hp, Bool.false_and, Bool.false_eq_true]
      cases pickT p e d (List.dropWhile (deeper d') rest) <;> rfl
    · have : List.dropWhile (deeper d') (f :: rest) = f :: rest := by
        simp [List.dropWhile_cons, h']
      rw [this]

/-- everything after an entry that does not end before `q` and either does not contain `q` or (when exact matches
are not allowed) is exactly `q`, is no candidate -/
theorem no_cand_after (q : Loc) (ax : Bool) (f : FNode) (rest : List FNode) (hf : wfAt f rest = true)
    (heb : endsBeforeQ f q = false)
    (h : notContainsQ f q = true ∨ (ax = false ∧ exactQ f q = true)) :
    ∀ g ∈ rest, candContains q ax g = false := by
  intro g hg
  cases mem_take_or_drop (deeper f.depth) rest g hg with
  | inl hg =>
    have h1 := wfAt_in f rest hf g hg
    cases h with
    | inl h => geo
    | inr h => obtain ⟨h2, h3⟩ := h; subst h2; geo
  | inr hg =>
    have h1 := wfAt_after f rest hf g hg
    geo

theorem no_cand_after_subtree (q : Loc) (ax : Bool) (f : FNode) (rest : List FNode) (hf : wfAt f rest = true)
    (heb : endsBeforeQ f q = false) : ∀ g ∈ rest.dropWhile (deeper f.depth), candContains q ax g = false := by
  intro g hg
  have h1 := wfAt_after f rest hf g hg
  geo

/-- `wfAt` for the entries of the leading run of depth `> d` (all that a pass below a node of depth `d` looks at) -/
def wfSub (d : Nat) : List FNode → Bool
  | [] => true
  | f :: rest => decide (f.depth ≤ d) || (wfAt f rest && wfSub d rest)

theorem wfSub_cons (d : Nat) (f : FNode) (rest : List FNode) (hd : ¬ f.depth ≤ d) :
    wfSub d (f :: rest) = true ↔ wfAt f rest = true ∧ wfSub d rest = true := by
  simp [wfSub, hd]

theorem wfSub_of_wfList (d : Nat) (l : List FNode) (h : wfList l = true) : wfSub d l = true := by
  induction l with
  | nil => rfl
  | cons f rest ih =>
    rw [wfList_cons] at h
    simp [wfSub, h.1, ih h.2]

theorem wfSub_mono (d d' : Nat) (hd : d ≤ d') (l : List FNode) (h : wfSub d l = true) : wfSub d' l = true := by
  induction l with
  | nil => rfl
  | cons f rest ih =>
    by_cases h' : f.depth ≤ d'
    · simp [wfSub, h']
    · have h2 : ¬ f.depth ≤ d := by omega
      rw [wfSub_cons _ _ _ h2] at h
      rw [wfSub_cons _ _ _ h']
      exact ⟨h.1, ih h.2⟩

/-- the descent loop returns the `pickT` selection; only the well-formedness of the entries below `cur` is used -/
theorem containsGo_eq_sub (q : Loc) (ae : AllowExact) (rest : List FNode) (cur : FNode) (ctail : List FNode)
    (hwf : wfSub cur.depth rest = true) :
    containsGo q ae cur ctail rest
      = (pickT (candContains q (ae != .no)) (topE q ae) cur.depth rest).getD (cur, ctail) := by
  induction rest generalizing cur ctail with
  | nil => simp [containsGo, pickT]
  | cons f rest ih =>
    unfold containsGo
    by_cases hd : f.depth ≤ cur.depth
    · simp [hd, pickT]
    · rw [wfSub_cons _ _ _ hd] at hwf
      obtain ⟨hf, hrest⟩ := hwf
      simp only [hd, if_false]
      cases heb : endsBeforeQ f q
      · simp only [Bool.false_eq_true, if_false]
        cases hnc : notContainsQ f q
        · simp only [Bool.false_eq_true, if_false]
          -- the descent step
          have hdesc : candContains q (ae != .no) f = true → topE q ae f = false →
              containsGo q ae f rest rest
                = (pickT (candContains q (ae != .no)) (topE q ae) cur.depth (f :: rest)).getD (cur, ctail) := by
            intro hc he
            rw [ih f rest (wfSub_mono _ _ (by omega) _ hrest), pickT_cons]
            simp only [hd, if_false, hc, he, Bool.and_false, Bool.false_eq_true, if_true]
            rw [pickT_depth _ _ cur.depth f.depth (by omega) rest (no_cand_after_subtree q _ f rest hf heb)]
            cases pickT (candContains q (ae != .no)) (topE q ae) f.depth rest <;> rfl
          cases hex : exactQ f q
          · simp only [Bool.false_and, Bool.false_eq_true, if_false]
            exact hdesc (by simp [candContains, heb, hnc, hex]) (by simp [topE, hex])
          · cases ae
            · -- `allow_exact=False`: stop at the parent
              simp only [Bool.true_and, beq_self_eq_true, if_true]
              have hc : candContains q (AllowExact.no != AllowExact.no) f = false := by
                simp [candContains, hex]
              have hall := no_cand_after q (AllowExact.no != AllowExact.no) f rest hf heb (Or.inr ⟨by simp, hex⟩)
              have hb : (AllowExact.no != AllowExact.no) = false := by decide
              rw [pickT_cons]
              simp only [hb] at hc hall ⊢
              simp [hd, hc, pickT_none_of_all _ _ _ _ hall]
            · -- `allow_exact=True`: descend
              have h1 : (AllowExact.yes == AllowExact.no) = false := by decide
              have h2 : (AllowExact.yes == AllowExact.top) = false := by decide
              simp only [Bool.true_and, h1, h2, Bool.false_eq_true, if_false]
              exact hdesc (by simp [candContains, heb, hnc, h1]) (by simp [topE, h2])
            · -- `allow_exact='top'`: stop at the match
              have h1 : (AllowExact.top == AllowExact.no) = false := by decide
              simp only [Bool.true_and, h1, Bool.false_eq_true, if_false, beq_self_eq_true, if_true]
              have hc : candContains q (AllowExact.top != AllowExact.no) f = true := by
                simp [candContains, heb, hnc, h1]
              have he : topE q .top f = true := by simp [topE, hex]
              rw [pickT_cons]
              simp [hd, hc, he]
        · simp only [if_true]
          have hc : candContains q (ae != .no) f = false := by simp [candContains, hnc]
          have hall := no_cand_after q (ae != .no) f rest hf heb (Or.inl hnc)
          rw [pickT_cons]
          simp [hd, hc, pickT_none_of_all _ _ _ _ hall]
      · simp only [if_true]
        have hc : candContains q (ae != .no) f = false := by simp [candContains, heb]
        rw [ih cur ctail hrest, pickT_cons]
        simp only [hd, if_false, hc, Bool.false_and, Bool.false_eq_true]
        cases pickT (candContains q (ae != .no)) (topE q ae) cur.depth rest <;> rfl

theorem containsGo_eq (q : Loc) (ae : AllowExact) (rest : List FNode) (hwf : wfList rest = true) (cur : FNode)
    (ctail : List FNode) :
    containsGo q ae cur ctail rest
      = (pickT (candContains q (ae != .no)) (topE q ae) cur.depth rest).getD (cur, ctail) :=
  containsGo_eq_sub q ae rest cur ctail (wfSub_of_wfList _ _ hwf)

/-- `find_contains_loc` (no decorated definitions below the start node) returns the brute-force selection, with the
list that follows it; only the well-formedness of the entries below the start node is used -/
theorem findContains_bruteforceT_sub (self : FNode) (tail : List FNode) (q : Loc) (ae : AllowExact)
    (hwf : wfSub self.depth tail = true) :
    findContains (self :: tail) q ae = bruteContainsT (self :: tail) q ae := by
  simp only [findContains, bruteContainsT]
  split
  · split
    · rfl
    · split
      · rfl
      · rw [containsGo_eq_sub q _ tail self tail hwf]
        cases pickT (candContains q (ae != .no)) (topE q ae) self.depth tail <;> rfl
  · rfl

/-- `find_contains_loc` returns the brute-force selection, with the list that follows it -/
theorem findContains_bruteforceT (nodes : List FNode) (q : Loc) (ae : AllowExact) (hwf : wfList nodes = true) :
    findContains nodes q ae = bruteContainsT nodes q ae := by
  cases nodes with
  | nil => rfl
  | cons self tail =>
    rw [wfList_cons] at hwf
    exact findContains_bruteforceT_sub self tail q ae (wfSub_of_wfList _ _ hwf.2)

theorem findContains_bruteforce (nodes : List FNode) (q : Loc) (ae : AllowExact) (hwf : wfList nodes = true) :
    (findContains nodes q ae).map (·.1) = bruteContains nodes q ae := by
  rw [findContains_bruteforceT nodes q ae hwf, bruteContainsT_map_fst]

/-! ## the candidates form a chain: "last candidate" = "deepest candidate" -/

/-- if an entry `f` that does not end before `q` is followed (anywhere later in a well-formed walk list) by an entry `g`
that contains `q`, then `g` lies positionally inside the subtree of `f`: all entries from `f` (exclusive) to `g`
(inclusive) are deeper than `f`.  In particular this holds for two candidates. -/
theorem cand_chain (q : Loc) (pre mid post : List FNode) (f g : FNode)
    (hwf : wfList (pre ++ f :: (mid ++ g :: post)) = true)
    (hf : endsBeforeQ f q = false) (hg : notContainsQ g q = false) :
    ∀ x ∈ mid ++ [g], x.depth > f.depth := by
  have hwf' : wfList (f :: (mid ++ g :: post)) = true :=
    wfList_suffix _ _ (List.suffix_append _ _) hwf
  rw [wfList_cons] at hwf'
  obtain ⟨hwf1, _⟩ := hwf'
  have key : ∀ (mid : List FNode), wfAt f (mid ++ g :: post) = true → ∀ x ∈ mid ++ [g], x.depth > f.depth := by
    intro mid
    induction mid with
    | nil =>
      intro hw x hx
      simp only [List.nil_append, List.mem_singleton] at hx
      subst hx
      by_cases hd : x.depth > f.depth
      · exact hd
      · have := wfAt_after f _ hw x (by simp [List.dropWhile_cons, hd])
        geo
    | cons a mid ih =>
      intro hw x hx
      by_cases hd : a.depth > f.depth
      · have hw' : wfAt f (mid ++ g :: post) = true := by
          simp only [wfAt, Bool.and_eq_true, List.cons_append, List.takeWhile_cons, List.dropWhile_cons, hd,
            decide_true, if_true, List.all_cons] at hw ⊢
          exact ⟨⟨hw.1.1, hw.1.2.2⟩, hw.2⟩
        cases hx with
        | head => exact hd
        | tail _ hx => exact ih hw' x hx
      · have := wfAt_after f _ hw g (by simp [List.dropWhile_cons, hd])
        geo
  exact key mid hwf1

/-- candidate version of `cand_chain` -/
theorem cand_chain_cand (q : Loc) (ax : Bool) (pre mid post : List FNode) (f g : FNode)
    (hwf : wfList (pre ++ f :: (mid ++ g :: post)) = true)
    (hf : candContains q ax f = true) (hg : candContains q ax g = true) :
    g.depth > f.depth ∧ ∀ x ∈ mid, x.depth > f.depth := by
  have h := cand_chain q pre mid post f g hwf (by geo) (by geo)
  exact ⟨h g (by simp), fun x hx => h x (by simp [hx])⟩

/-- along the candidates of a well-formed walk list the depth strictly increases -/
theorem cand_pairwise (q : Loc) (ax : Bool) (l : List FNode) (hwf : wfList l = true) :
    (l.filter (candContains q ax)).Pairwise (fun a b => a.depth < b.depth) := by
  induction l with
  | nil => simp
  | cons f rest ih =>
    rw [wfList_cons] at hwf
    rw [List.filter_cons]
    split
    · rename_i hc
      rw [List.pairwise_cons]
      refine ⟨?_, ih hwf.2⟩
      intro g hg
      rw [List.mem_filter] at hg
      cases mem_take_or_drop (deeper f.depth) rest g hg.1 with
      | inl h => simpa using mem_takeWhile_p _ _ _ h
      | inr h =>
        have h1 := wfAt_after f rest hwf.1 g h
        have h2 := hg.2
        geo
    · exact ih hwf.2

/-- the brute-force choice "last candidate of the subtree" is the unique deepest candidate of the subtree -/
theorem bruteContains_deepest (nodes : List FNode) (q : Loc) (ax : Bool) (r : FNode) (hwf : wfList nodes = true)
    (hlast : (((subtree nodes).drop 1).filter (candContains q ax)).getLast? = some r) :
    candContains q ax r = true ∧ r ∈ (subtree nodes).drop 1 ∧
    ∀ c ∈ (subtree nodes).drop 1, candContains q ax c = true → c.depth ≤ r.depth ∧ (c.depth = r.depth → c = r) := by
  have hsub : ((subtree nodes).drop 1).Sublist nodes := by
    cases nodes with
    | nil => simp [subtree]
    | cons self tail =>
      simp only [subtree, List.drop_succ_cons, List.drop_zero]
      exact (List.takeWhile_sublist _).trans (List.sublist_cons_self _ _)
  have hp := List.Pairwise.sublist (hsub.filter (candContains q ax)) (cand_pairwise q ax nodes hwf)
  rw [List.getLast?_eq_some_iff] at hlast
  obtain ⟨ys, hys⟩ := hlast
  have hr : r ∈ ((subtree nodes).drop 1).filter (candContains q ax) := by rw [hys]; simp
  rw [List.mem_filter] at hr
  refine ⟨hr.2, hr.1, ?_⟩
  intro c hc hcc
  have hmem : c ∈ ((subtree nodes).drop 1).filter (candContains q ax) := List.mem_filter.mpr ⟨hc, hcc⟩
  rw [hys] at hmem hp
  rw [List.pairwise_append] at hp
  rcases List.mem_append.mp hmem with h | h
  · have := hp.2.2 c h r (by simp)
    omega
  · simp only [List.mem_singleton] at h
    subst h
    exact ⟨Nat.le_refl _, fun _ => rfl⟩


/-- `allow_exact='top'`: the brute-force choice "first exact candidate of the subtree" is the HIGHEST of the nodes of
the subtree that share the location -/
theorem bruteContains_top_highest (nodes : List FNode) (q : Loc) (r : FNode) (hwf : wfList nodes = true)
    (hfirst : (((subtree nodes).drop 1).filter (candContains q true)).find? (fun f => exactQ f q) = some r) :
    exactQ r q = true ∧ candContains q true r = true ∧ r ∈ (subtree nodes).drop 1 ∧
    ∀ c ∈ (subtree nodes).drop 1, candContains q true c = true → exactQ c q = true →
      r.depth ≤ c.depth ∧ (c.depth = r.depth → c = r) := by
  have hsub : ((subtree nodes).drop 1).Sublist nodes := by
    cases nodes with
    | nil => simp [subtree]
    | cons self tail =>
      simp only [subtree, List.drop_succ_cons, List.drop_zero]
      exact (List.takeWhile_sublist _).trans (List.sublist_cons_self _ _)
  have hp := List.Pairwise.sublist (hsub.filter (candContains q true)) (cand_pairwise q true nodes hwf)
  rw [List.find?_eq_some_iff_append] at hfirst
  obtain ⟨hex, as, bs, hys, has⟩ := hfirst
  have hr : r ∈ ((subtree nodes).drop 1).filter (candContains q true) := by rw [hys]; simp
  rw [List.mem_filter] at hr
  refine ⟨hex, hr.2, hr.1, ?_⟩
  intro c hc hcc hce
  have hmem : c ∈ ((subtree nodes).drop 1).filter (candContains q true) := List.mem_filter.mpr ⟨hc, hcc⟩
  rw [hys] at hmem hp
  rw [List.pairwise_append] at hp
  rcases List.mem_append.mp hmem with h | h
  · have := has c h
    simp [hce] at this
  · cases h with
    | head => exact ⟨Nat.le_refl _, fun _ => rfl⟩
    | tail _ h =>
      have h2 := hp.2.1
      rw [List.pairwise_cons] at h2
      have := h2.1 c h
      omega

/-- the "first exact candidate" branch of `bruteContains … 'top'` -/
theorem bruteContains_top_of_first (self : FNode) (tail : List FNode) (q : Loc) (r : FNode)
    (hc : containsQ self q = true) (hne : exactQ self q = false)
    (hfirst : (((subtree (self :: tail)).drop 1).filter (candContains q true)).find? (fun f => exactQ f q) = some r) :
    bruteContains (self :: tail) q .top = some r := by
  have h1 : (AllowExact.top != AllowExact.no) = true := by decide
  simp only [bruteContains, hc, hne, if_true, Bool.false_and, Bool.false_eq_true, if_false, h1, beq_self_eq_true]
  rw [hfirst]

/-- under `wfList`: whatever `bruteContains … 'top'` returns through the "first exact candidate" branch is exact and the
highest node of the subtree (below the start node) sharing the location -/
theorem bruteContains_top_highest' (self : FNode) (tail : List FNode) (q : Loc) (r : FNode)
    (hwf : wfList (self :: tail) = true) (hc : containsQ self q = true) (hne : exactQ self q = false)
    (hfirst : (((subtree (self :: tail)).drop 1).filter (candContains q true)).find? (fun f => exactQ f q) = some r) :
    bruteContains (self :: tail) q .top = some r ∧ exactQ r q = true ∧
    ∀ c ∈ (subtree (self :: tail)).drop 1, candContains q true c = true → exactQ c q = true → r.depth ≤ c.depth :=
  ⟨bruteContains_top_of_first self tail q r hc hne hfirst,
   (bruteContains_top_highest _ q r hwf hfirst).1,
   fun c h1 h2 h3 => ((bruteContains_top_highest _ q r hwf hfirst).2.2.2 c h1 h2 h3).1⟩


/-! ## the decorator search is inert on plainly well-formed lists -/

theorem findContains_none_of_not_contains (g : FNode) (rest : List FNode) (q : Loc) (ae : AllowExact)
    (h : containsQ g q = false) : findContains (g :: rest) q ae = none := by
  simp [findContains, h]

/-- no decorator root that contains the location: the decorator search finds nothing -/
theorem decoGo_none (decos : List Nat) (q : Loc) (ae : AllowExact) (d : Nat) (l : List FNode)
    (h : ∀ g ∈ l, containsQ g q = false) : decoGo decos q ae d l = none := by
  induction l with
  | nil => rfl
  | cons g rest ih =>
    unfold decoGo
    have h1 := ih (fun x hx => h x (List.mem_cons_of_mem _ hx))
    rw [findContains_none_of_not_contains g rest q ae (h g List.mem_cons_self), h1]
    simp

/-- everything after an entry that does not end before `q` and does not contain `q` does not contain `q` -/
theorem no_contains_after (q : Loc) (f : FNode) (rest : List FNode) (hf : wfAt f rest = true)
    (heb : endsBeforeQ f q = false) (h : notContainsQ f q = true) :
    ∀ g ∈ rest, containsQ g q = false := by
  intro g hg
  cases mem_take_or_drop (deeper f.depth) rest g hg with
  | inl hg =>
    have h1 := wfAt_in f rest hf g hg
    rw [← Bool.not_eq_true]
    intro hc
    geo
  | inr hg =>
    have h1 := wfAt_after f rest hf g hg
    rw [← Bool.not_eq_true]
    intro hc
    geo

theorem containsGoD_eq_of_wf (decos : List Nat) (q : Loc) (ae : AllowExact) (rest : List FNode)
    (hwf : wfList rest = true) (cur : FNode) (ctail : List FNode) :
    containsGoD decos q ae cur ctail rest = containsGo q ae cur ctail rest := by
  induction rest generalizing cur ctail with
  | nil => simp [containsGo, containsGoD]
  | cons f rest ih =>
    rw [wfList_cons] at hwf
    obtain ⟨hf, hrest⟩ := hwf
    unfold containsGo containsGoD
    by_cases hd : f.depth ≤ cur.depth
    · simp [hd]
    · simp only [hd, if_false]
      cases heb : endsBeforeQ f q
      · simp only [Bool.false_eq_true, if_false]
        cases hnc : notContainsQ f q
        · simp only [Bool.false_eq_true, if_false]
          rw [ih hrest f rest]
        · simp only [if_true]
          rw [decoGo_none decos q ae f.depth rest (no_contains_after q f rest hf heb hnc)]
      · simp only [if_true]
        exact ih hrest cur ctail

/-- on a plainly well-formed list (no decorated definitions) the decorator search of `find_contains_loc` is inert -/
theorem findContainsD_eq_of_wf (decos : List Nat) (nodes : List FNode) (q : Loc) (ae : AllowExact)
    (hwf : wfList nodes = true) : findContainsD decos nodes q ae = findContains nodes q ae := by
  cases nodes with
  | nil => rfl
  | cons self tail =>
    rw [wfList_cons] at hwf
    simp only [findContainsD, findContains]
    rw [containsGoD_eq_of_wf decos q ae tail hwf.2]

theorem findContainsD_bruteforce_wf (decos : List Nat) (nodes : List FNode) (q : Loc) (ae : AllowExact)
    (hwf : wfList nodes = true) : (findContainsD decos nodes q ae).map (·.1) = bruteContains nodes q ae := by
  rw [findContainsD_eq_of_wf decos nodes q ae hwf, findContains_bruteforce nodes q ae hwf]

theorem findContainsD_bruteforceT_wf (decos : List Nat) (nodes : List FNode) (q : Loc) (ae : AllowExact)
    (hwf : wfList nodes = true) : findContainsD decos nodes q ae = bruteContainsT nodes q ae := by
  rw [findContainsD_eq_of_wf decos nodes q ae hwf, findContains_bruteforceT nodes q ae hwf]


/-! ## `find_loc` -/

theorem lastCandT_suffix (p : FNode → Bool) (d : Nat) (l : List FNode) (f : FNode) (ft : List FNode)
    (h : lastCandT p d l = some (f, ft)) : f :: ft <:+ l := by
  induction l with
  | nil => simp [lastCandT] at h
  | cons a rest ih =>
    rw [lastCandT_cons] at h
    split at h
    · cases h
    · cases hr : lastCandT p d rest with
      | some r =>
        rw [hr] at h
        simp only [Option.some.injEq] at h
        subst h
        exact List.IsSuffix.trans (ih hr) (List.suffix_cons _ _)
      | none =>
        rw [hr] at h
        simp only at h
        split at h
        · simp only [Option.some.injEq, Prod.mk.injEq] at h
          obtain ⟨h1, h2⟩ := h
          subst h1; subst h2
          exact List.suffix_refl _
        · cases h

theorem pickT_suffix (p e : FNode → Bool) (d : Nat) (l : List FNode) (f : FNode) (ft : List FNode)
    (h : pickT p e d l = some (f, ft)) : f :: ft <:+ l := by
  induction l with
  | nil => simp [pickT] at h
  | cons a rest ih =>
    rw [pickT_cons] at h
    split at h
    · cases h
    · split at h
      · simp only [Option.some.injEq, Prod.mk.injEq] at h
        obtain ⟨h1, h2⟩ := h
        subst h1; subst h2
        exact List.suffix_refl _
      · cases hr : pickT p e d rest with
        | some r =>
          rw [hr] at h
          simp only [Option.some.injEq] at h
          subst h
          exact List.IsSuffix.trans (ih hr) (List.suffix_cons _ _)
        | none =>
          rw [hr] at h
          simp only at h
          split at h
          · simp only [Option.some.injEq, Prod.mk.injEq] at h
            obtain ⟨h1, h2⟩ := h
            subst h1; subst h2
            exact List.suffix_refl _
          · cases h

theorem bruteContainsT_suffix (nodes : List FNode) (q : Loc) (ae : AllowExact) (f : FNode) (ft : List FNode)
    (h : bruteContainsT nodes q ae = some (f, ft)) : f :: ft <:+ nodes := by
  cases nodes with
  | nil => simp [bruteContainsT] at h
  | cons self tail =>
    simp only [bruteContainsT] at h
    split at h
    · split at h
      · cases h
      · split at h
        · simp only [Option.some.injEq, Prod.mk.injEq] at h
          obtain ⟨h1, h2⟩ := h
          subst h1; subst h2
          exact List.suffix_refl _
        · cases hr : pickT (candContains q (ae != .no)) (topE q ae) self.depth tail with
          | some r =>
            rw [hr] at h
            simp only [Option.some.injEq] at h
            subst h
            exact List.IsSuffix.trans (pickT_suffix _ _ _ _ _ _ hr) (List.suffix_cons _ _)
          | none =>
            rw [hr] at h
            simp only [Option.some.injEq, Prod.mk.injEq] at h
            obtain ⟨h1, h2⟩ := h
            subst h1; subst h2
            exact List.suffix_refl _
    · cases h

/-- brute-force reference for `find_loc`: the same three-way composition built from the brute-force selections -/
def bruteLoc (nodes : List FNode) (q : Loc) (exactTop : Bool) : Option FNode :=
  match bruteContainsT nodes q (if exactTop then .top else .yes) with
  | none => bruteIn nodes q
  | some (f, ftail) =>
    if f.col == q.col && f.endCol == q.endCol && f.ln == q.ln && f.endLn == q.endLn then some f
    else match bruteIn (f :: ftail) q with
      | some g => some g
      | none => some f

theorem findLoc_bruteforce (decos : List Nat) (nodes : List FNode) (q : Loc) (exactTop : Bool)
    (hwf : wfList nodes = true) : findLoc decos nodes q exactTop = bruteLoc nodes q exactTop := by
  unfold findLoc bruteLoc
  rw [findContainsD_bruteforceT_wf decos nodes q _ hwf, findIn_bruteforce nodes q hwf]
  cases h : bruteContainsT nodes q (if exactTop then .top else .yes) with
  | none => rfl
  | some r =>
    obtain ⟨f, ft⟩ := r
    have hwf' := wfList_suffix _ _ (bruteContainsT_suffix _ _ _ _ _ h) hwf
    simp only
    rw [findIn_bruteforce (f :: ft) q hwf']
    rfl


/-! ## lists with decorated definitions: `wfListD` -/

theorem decoPrefix_nil_of_all (decos : List Nat) (d : Nat) (l : List FNode)
    (h : ∀ x ∈ l, decos.contains x.id = false) : decoPrefix decos d false l = [] := by
  cases l with
  | nil => rfl
  | cons g rest =>
    have := h g List.mem_cons_self
    unfold decoPrefix
    rw [this]
    simp

theorem decoPrefix_takeWhile (decos : List Nat) (d : Nat) (b : Bool) (l : List FNode) :
    decoPrefix decos d b (l.takeWhile (deeper d)) = decoPrefix decos d b l := by
  induction l generalizing b with
  | nil => rfl
  | cons g rest ih =>
    by_cases hd : g.depth ≤ d
    · have : ¬ g.depth > d := by omega
      simp [List.takeWhile_cons, this, decoPrefix, hd]
    · have hd' : g.depth > d := by omega
      simp only [List.takeWhile_cons, deeper_apply, hd', decide_true, if_true]
      unfold decoPrefix
      simp only [hd, if_false, ih]

theorem decoPrefix_true_split (decos : List Nat) (d : Nat) (l : List FNode) :
    decoPrefix decos d true l
      = l.takeWhile (deeper (d + 1)) ++ decoPrefix decos d false (l.dropWhile (deeper (d + 1))) := by
  induction l with
  | nil => rfl
  | cons g rest ih =>
    by_cases hd : g.depth > d + 1
    · have h1 : ¬ g.depth ≤ d := by omega
      have h2 : (g.depth == d + 1) = false := by simp; omega
      simp only [List.takeWhile_cons, List.dropWhile_cons, deeper_apply, hd, decide_true, if_true, List.cons_append]
      rw [← ih]
      conv => lhs; unfold decoPrefix
      simp [h1, h2]
    · simp only [List.takeWhile_cons, List.dropWhile_cons, deeper_apply, hd, decide_false, Bool.false_eq_true,
        if_false, List.nil_append]
      unfold decoPrefix
      by_cases h1 : g.depth ≤ d
      · simp [h1]
      · have h2 : (g.depth == d + 1) = true := by simp; omega
        simp [h1, h2]

theorem decoPrefix_prefix (decos : List Nat) (d : Nat) (b : Bool) (l : List FNode) :
    decoPrefix decos d b l <+: l := by
  induction l generalizing b with
  | nil => exact List.prefix_refl _
  | cons g rest ih =>
    unfold decoPrefix
    split
    · exact List.nil_prefix
    · split
      · split
        · exact (List.cons_prefix_cons).mpr ⟨rfl, ih true⟩
        · exact List.nil_prefix
      · split
        · exact (List.cons_prefix_cons).mpr ⟨rfl, ih b⟩
        · exact List.nil_prefix

theorem wfListD_cons (decos : List Nat) (f : FNode) (rest : List FNode) :
    wfListD decos (f :: rest) = true ↔ wfAtD decos f rest = true ∧ wfListD decos rest = true := by
  simp [wfListD]

theorem wfListD_suffix (decos : List Nat) (l l' : List FNode) (hs : l' <:+ l) (h : wfListD decos l = true) :
    wfListD decos l' = true := by
  induction l with
  | nil => simp at hs; subst hs; exact h
  | cons a l ih =>
    rw [List.suffix_cons_iff] at hs
    cases hs with
    | inl e => subst e; exact h
    | inr hs => rw [wfListD_cons] at h; exact ih hs h.2

/-- `wfAtD` spelled out (the decorator part computed on the whole following list) -/
theorem wfAtD_iff (decos : List Nat) (f : FNode) (rest : List FNode) :
    wfAtD decos f rest = true ↔
      posLe f.start f.stop = true
      ∧ (∀ g ∈ decoPrefix decos f.depth false rest,
          posLe g.stop f.start = true ∧ (g.depth = f.depth + 1 ∨ decos.contains g.id = false))
      ∧ (∀ g ∈ (rest.takeWhile (deeper f.depth)).drop (decoPrefix decos f.depth false rest).length,
          posLe f.start g.start = true ∧ posLe g.stop f.stop = true)
      ∧ (∀ g ∈ rest.dropWhile (deeper f.depth), posLe f.stop g.start = true) := by
  have e : decoPrefix decos f.depth false (List.takeWhile (fun g => decide (g.depth > f.depth)) rest)
      = decoPrefix decos f.depth false rest := decoPrefix_takeWhile decos f.depth false rest
  simp only [wfAtD, e, Bool.and_eq_true, List.all_eq_true, Bool.or_eq_true, beq_iff_eq, Bool.not_eq_true',
    deeper]
  constructor
  · rintro ⟨⟨⟨h1, h2⟩, h3⟩, h4⟩
    exact ⟨h1, h2, h3, h4⟩
  · rintro ⟨h1, h2, h3, h4⟩
    exact ⟨⟨⟨h1, h2⟩, h3⟩, h4⟩

theorem wfAtD_after (decos : List Nat) (f : FNode) (rest : List FNode) (h : wfAtD decos f rest = true) (g : FNode)
    (hg : g ∈ rest.dropWhile (deeper f.depth)) : posLe f.stop g.start = true :=
  ((wfAtD_iff decos f rest).mp h).2.2.2 g hg

/-- without a leading decorator `wfAtD` is `wfAt` -/
theorem wfAt_of_wfAtD (decos : List Nat) (f : FNode) (rest : List FNode) (h : wfAtD decos f rest = true)
    (hdp : decoPrefix decos f.depth false rest = []) : wfAt f rest = true := by
  rw [wfAtD_iff, hdp] at h
  simp only [List.length_nil, List.drop_zero] at h
  simp only [wfAt, Bool.and_eq_true, List.all_eq_true]
  exact ⟨⟨h.1, h.2.2.1⟩, h.2.2.2⟩

/-- the entries following `f` are its decorator part, the rest of its subtree, or behind its subtree -/
theorem wfAtD_mem_cases (decos : List Nat) (f : FNode) (rest : List FNode) (g : FNode) (hg : g ∈ rest) :
    g ∈ decoPrefix decos f.depth false rest
    ∨ g ∈ (rest.takeWhile (deeper f.depth)).drop (decoPrefix decos f.depth false rest).length
    ∨ g ∈ rest.dropWhile (deeper f.depth) := by
  cases mem_take_or_drop (deeper f.depth) rest g hg with
  | inr h => exact Or.inr (Or.inr h)
  | inl h =>
    have hp := decoPrefix_prefix decos f.depth false (rest.takeWhile (deeper f.depth))
    rw [decoPrefix_takeWhile] at hp
    obtain ⟨t, ht⟩ := hp
    have : (rest.takeWhile (deeper f.depth)).drop (decoPrefix decos f.depth false rest).length = t := by
      rw [← ht]; simp
    rw [this]
    rw [← ht] at h
    rcases List.mem_append.mp h with h | h
    · exact Or.inl h
    · exact Or.inr (Or.inl h)

/-- below a node whose subtree has no decorator roots `wfListD` gives the plain `wfAt` facts -/
theorem wfSub_of_wfListD (decos : List Nat) (d : Nat) (l : List FNode) (h : wfListD decos l = true)
    (hno : ∀ x ∈ l.takeWhile (deeper d), decos.contains x.id = false) : wfSub d l = true := by
  induction l with
  | nil => rfl
  | cons f rest ih =>
    by_cases hd : f.depth ≤ d
    · simp [wfSub, hd]
    · have hd' : f.depth > d := by omega
      rw [wfListD_cons] at h
      rw [wfSub_cons _ _ _ hd]
      have e : List.takeWhile (deeper d) (f :: rest) = f :: List.takeWhile (deeper d) rest := by
        simp [List.takeWhile_cons, hd']
      rw [e] at hno
      have hno' : ∀ x ∈ List.takeWhile (deeper d) rest, decos.contains x.id = false :=
        fun x hx => hno x (List.mem_cons_of_mem _ hx)
      refine ⟨wfAt_of_wfAtD decos f rest h.1 ?_, ih h.2 hno'⟩
      rw [← decoPrefix_takeWhile]
      apply decoPrefix_nil_of_all
      intro x hx
      apply hno'
      rw [takeWhile_split d f.depth (by omega) rest]
      exact List.mem_append_left _ hx

/-- entries deeper than `d + 1` are skipped by the decorator search -/
theorem decoGo_skip (decos : List Nat) (q : Loc) (ae : AllowExact) (d : Nat) (l : List FNode) :
    decoGo decos q ae d l = decoGo decos q ae d (l.dropWhile (deeper (d + 1))) := by
  induction l with
  | nil => rfl
  | cons g rest ih =>
    by_cases hd : g.depth > d + 1
    · have h1 : ¬ g.depth ≤ d := by omega
      have h2 : (g.depth == d + 1) = false := by simp; omega
      simp only [List.dropWhile_cons, deeper_apply, hd, decide_true, if_true]
      rw [← ih]
      conv => lhs; unfold decoGo
      simp [h1, h2]
    · simp [List.dropWhile_cons, hd]

theorem cand_false_of_not_contains (q : Loc) (ax : Bool) (g : FNode) (h : containsQ g q = false) :
    candContains q ax g = false := by
  have : notContainsQ g q = true := by rw [notContainsQ_eq, h]; rfl
  simp [candContains, this]

/-- a node that contains a NON-EMPTY rectangle does not end at or before its start: for such rectangles the entry test
of `find_contains_loc` and the loop's candidate test agree -/
theorem not_endsBefore_of_contains (q : Loc) (hq : q.ln < q.endLn ∨ (q.ln = q.endLn ∧ q.col < q.endCol)) (g : FNode)
    (h : containsQ g q = true) : endsBeforeQ g q = false := by
  rw [← Bool.not_eq_true]
  intro hc
  geo

theorem cand_of_contains (q : Loc) (ae : AllowExact) (g : FNode) (hc : containsQ g q = true)
    (heb : endsBeforeQ g q = false) (hA : ¬ (exactQ g q && ae == .no) = true) :
    candContains q (ae != .no) g = true := by
  have hnc : notContainsQ g q = false := by rw [notContainsQ_eq, hc]; rfl
  simp only [candContains, heb, hnc, Bool.not_false, Bool.true_and]
  cases ae <;> cases hex : exactQ g q <;> simp_all

/-- everything after (the subtree of) a node that contains the non-empty rectangle `q` is neither a container nor a
candidate -/
theorem after_contains (q : Loc) (hq : q.ln < q.endLn ∨ (q.ln = q.endLn ∧ q.col < q.endCol)) (g x : FNode)
    (hc : containsQ g q = true) (hx : posLe g.stop x.start = true) : containsQ x q = false := by
  rw [← Bool.not_eq_true]
  intro hc'
  geo

/-- THE DECORATOR SEARCH at a definition of depth `d` that does not contain `q`: on a list that consists of decorator
subtrees (without inner decorator roots), followed by entries none of which contains `q`, the search returns the
`pickT` selection over the list. -/
theorem decoGo_eq (decos : List Nat) (q : Loc) (ae : AllowExact)
    (hq : q.ln < q.endLn ∨ (q.ln = q.endLn ∧ q.col < q.endCol)) (d D : Nat) (hD : D ≤ d) :
    ∀ (n : Nat) (l : List FNode), l.length ≤ n → wfListD decos l = true →
      (∀ x ∈ decoPrefix decos d false l, x.depth = d + 1 ∨ decos.contains x.id = false) →
      (∀ x ∈ l.drop (decoPrefix decos d false l).length, containsQ x q = false) →
      decoGo decos q ae d l = pickT (candContains q (ae != .no)) (topE q ae) D l := by
  intro n
  induction n with
  | zero =>
    intro l hl _ _ _
    have : l = [] := List.eq_nil_of_length_eq_zero (by omega)
    subst this
    rfl
  | succ n ih =>
    intro l hl hwf h2 h3
    cases l with
    | nil => rfl
    | cons g rest =>
      -- everything is a non-container when the list does not start with a decorator root
      have hnone : decoPrefix decos d false (g :: rest) = [] →
          decoGo decos q ae d (g :: rest) = pickT (candContains q (ae != .no)) (topE q ae) D (g :: rest) := by
        intro he
        rw [he] at h3
        simp only [List.length_nil, List.drop_zero] at h3
        rw [decoGo_none decos q ae d _ h3,
          pickT_none_of_all _ _ _ _ (fun x hx => cand_false_of_not_contains q _ x (h3 x hx))]
      by_cases hgd : g.depth ≤ d
      · exact hnone (by simp [decoPrefix, hgd])
      · by_cases hroot : (g.depth == d + 1 && decos.contains g.id) = true
        · have hroot' := hroot
          simp only [Bool.and_eq_true, beq_iff_eq] at hroot
          obtain ⟨hg1, hg2⟩ := hroot
          have hgD : ¬ g.depth ≤ D := by omega
          rw [wfListD_cons] at hwf
          obtain ⟨hwg, hwrest⟩ := hwf
          -- the decorator part of the list: `g`, its subtree, the following decorators
          have hdp : decoPrefix decos d false (g :: rest)
              = g :: (rest.takeWhile (deeper (d + 1))
                  ++ decoPrefix decos d false (rest.dropWhile (deeper (d + 1)))) := by
            rw [← decoPrefix_true_split]
            conv => lhs; unfold decoPrefix
            have hb : (g.depth == d + 1) = true := by simp [hg1]
            simp only [hgd, if_false, hb, if_true, hg2]
          have hnoroot : ∀ x ∈ rest.takeWhile (deeper g.depth), decos.contains x.id = false := by
            intro x hx
            rw [hg1] at hx
            have hx1 := mem_takeWhile_p _ _ _ hx
            simp only [deeper_apply, decide_eq_true_eq] at hx1
            have := h2 x (by rw [hdp]; exact List.mem_cons_of_mem _ (List.mem_append_left _ hx))
            rcases this with h | h
            · omega
            · exact h
          have hwfAt : wfAt g rest = true := by
            apply wfAt_of_wfAtD decos g rest hwg
            rw [← decoPrefix_takeWhile]
            exact decoPrefix_nil_of_all _ _ _ hnoroot
          have hsub : wfSub g.depth rest = true := wfSub_of_wfListD decos g.depth rest hwrest hnoroot
          have hfc := findContains_bruteforceT_sub g rest q ae hsub
          cases hcg : containsQ g q
          · -- `g` does not contain `q`: nothing in its subtree does, go on behind its subtree
            conv => lhs; unfold decoGo
            simp only [hgd, if_false, hroot', if_true]
            rw [findContains_none_of_not_contains g rest q ae hcg]
            simp only
            have hpg : candContains q (ae != .no) g = false := cand_false_of_not_contains q _ g hcg
            have hpsub : ∀ x ∈ rest.takeWhile (deeper (d + 1)), candContains q (ae != .no) x = false := by
              intro x hx
              rw [← hg1] at hx
              have h1 := wfAt_in g rest hwfAt x hx
              apply cand_false_of_not_contains
              rw [← Bool.not_eq_true]
              intro hc
              geo
            rw [decoGo_skip, pickT_cons]
            simp only [hgD, if_false, hpg, Bool.false_and, Bool.false_eq_true]
            rw [pickT_skip _ _ D (d + 1) (by omega) rest hpsub]
            have hlen : (rest.dropWhile (deeper (d + 1))).length ≤ n := by
              have := (List.dropWhile_sublist (deeper (d + 1)) (l := rest)).length_le
              simp only [List.length_cons] at hl
              omega
            rw [ih (rest.dropWhile (deeper (d + 1))) hlen
              (wfListD_suffix decos rest _ (List.dropWhile_suffix _) hwrest)
              (fun x hx => h2 x (by
                rw [hdp]; exact List.mem_cons_of_mem _ (List.mem_append_right _ hx)))
              (fun x hx => h3 x (by
                rw [hdp]
                have e : g :: rest = g :: (rest.takeWhile (deeper (d + 1)) ++ rest.dropWhile (deeper (d + 1))) := by
                  rw [List.takeWhile_append_dropWhile]
                rw [e]
                simp only [List.length_cons, List.length_append, List.drop_succ_cons]
                rw [List.drop_length_add_append]
                exact hx))]
            cases pickT (candContains q (ae != .no)) (topE q ae) D (rest.dropWhile (deeper (d + 1))) <;> rfl
          · -- `g` contains `q`: the recursive call decides; nothing behind the subtree of `g` matters
            have heb := not_endsBefore_of_contains q hq g hcg
            have hafter : ∀ x ∈ rest.dropWhile (deeper g.depth), containsQ x q = false :=
              fun x hx => after_contains q hq g x hcg (wfAt_after g rest hwfAt x hx)
            have hpafter : ∀ x ∈ rest.dropWhile (deeper g.depth), candContains q (ae != .no) x = false :=
              fun x hx => cand_false_of_not_contains q _ x (hafter x hx)
            simp only [bruteContainsT, hcg, if_true] at hfc
            conv => lhs; unfold decoGo
            simp only [hgd, if_false, hroot', if_true]
            rw [pickT_cons]
            simp only [hgD, if_false]
            by_cases hA : (exactQ g q && ae == .no) = true
            · -- exact match, not allowed: `None` from the recursive call and no candidates at all
              simp only [hA, if_true] at hfc
              rw [hfc]
              simp only
              rw [decoGo_skip, decoGo_none decos q ae d _ (by rw [← hg1]; exact hafter)]
              simp only [Bool.and_eq_true, beq_iff_eq] at hA
              obtain ⟨hex, hae⟩ := hA
              subst hae
              have hb : (AllowExact.no != AllowExact.no) = false := by decide
              simp only [hb] at *
              have hpg : candContains q false g = false := by simp [candContains, hex]
              have hall := no_cand_after q false g rest hwfAt heb (Or.inr ⟨rfl, hex⟩)
              simp [hpg, pickT_none_of_all _ _ _ _ hall]
            · have hpg : candContains q (ae != .no) g = true := cand_of_contains q ae g hcg heb hA
              simp only [hA, if_false] at hfc
              by_cases hB : (exactQ g q && ae == .top) = true
              · simp only [hB, if_true] at hfc
                rw [hfc]
                have he : topE q ae g = true := hB
                simp [hpg, he]
              · simp only [hB, if_false] at hfc
                rw [hfc]
                have he : topE q ae g = false := by simpa [topE] using hB
                simp only [hpg, he, Bool.and_false, Bool.false_eq_true, if_false, if_true]
                rw [pickT_depth _ _ D g.depth (by omega) rest hpafter]
                cases pickT (candContains q (ae != .no)) (topE q ae) g.depth rest <;> rfl
        · apply hnone
          unfold decoPrefix
          simp only [hgd, if_false]
          by_cases h1 : (g.depth == d + 1) = true
          · simp only [h1, Bool.true_and, Bool.not_eq_true] at hroot
            simp only [h1, if_true, hroot, Bool.false_eq_true, if_false]
          · simp [h1]


theorem no_cand_after_subtreeD (decos : List Nat) (q : Loc) (ax : Bool) (f : FNode) (rest : List FNode)
    (hf : wfAtD decos f rest = true) (heb : endsBeforeQ f q = false) :
    ∀ g ∈ rest.dropWhile (deeper f.depth), candContains q ax g = false := by
  intro g hg
  have h1 := wfAtD_after decos f rest hf g hg
  geo

/-- after an exact match (decorated or not) nothing is a candidate when exact matches are not allowed: its decorators
end at or before its start, the rest of its subtree is inside it, everything else starts at or after its end -/
theorem no_cand_after_exactD (decos : List Nat) (q : Loc) (f : FNode) (rest : List FNode)
    (hf : wfAtD decos f rest = true) (heb : endsBeforeQ f q = false) (hex : exactQ f q = true) :
    ∀ g ∈ rest, candContains q false g = false := by
  intro g hg
  have hw := (wfAtD_iff decos f rest).mp hf
  rcases wfAtD_mem_cases decos f rest g hg with h | h | h
  · have h1 := (hw.2.1 g h).1
    clear hw hf hg h
    geo
  · have h1 := hw.2.2.1 g h
    clear hw hf hg h
    geo
  · have h1 := hw.2.2.2 g h
    clear hw hf hg h
    geo

/-- behind the decorator part of a definition that does not contain `q` (and does not end before it) nothing
contains `q` -/
theorem no_contains_afterD (decos : List Nat) (q : Loc) (f : FNode) (rest : List FNode)
    (hf : wfAtD decos f rest = true) (heb : endsBeforeQ f q = false) (hnc : notContainsQ f q = true) :
    ∀ x ∈ rest.drop (decoPrefix decos f.depth false rest).length, containsQ x q = false := by
  intro x hx
  have hw := (wfAtD_iff decos f rest).mp hf
  have hp := decoPrefix_prefix decos f.depth false (rest.takeWhile (deeper f.depth))
  rw [decoPrefix_takeWhile] at hp
  have hle := hp.length_le
  have h23 := hw.2.2
  clear hw hp hf
  generalize (decoPrefix decos f.depth false rest).length = n at *
  have e : rest.drop n = (rest.takeWhile (deeper f.depth)).drop n ++ rest.dropWhile (deeper f.depth) := by
    conv => lhs; rw [← List.takeWhile_append_dropWhile (p := deeper f.depth) (l := rest)]
    exact List.drop_append_of_le_length hle
  rw [e] at hx
  rw [← Bool.not_eq_true]
  intro hc
  rcases List.mem_append.mp hx with h | h
  · have h1 := h23.1 x h
    clear h23 hx h e
    geo
  · have h1 := h23.2 x h
    clear h23 hx h e
    geo

/-- the repaired loop (with the decorator search) returns the `pickT` selection on lists with decorated definitions,
for non-empty rectangles -/
theorem containsGoD_eq (decos : List Nat) (q : Loc) (ae : AllowExact)
    (hq : q.ln < q.endLn ∨ (q.ln = q.endLn ∧ q.col < q.endCol)) (rest : List FNode)
    (hwf : wfListD decos rest = true) (cur : FNode) (ctail : List FNode) :
    containsGoD decos q ae cur ctail rest
      = (pickT (candContains q (ae != .no)) (topE q ae) cur.depth rest).getD (cur, ctail) := by
  induction rest generalizing cur ctail with
  | nil => simp [containsGoD, pickT]
  | cons f rest ih =>
    rw [wfListD_cons] at hwf
    obtain ⟨hf, hrest⟩ := hwf
    unfold containsGoD
    by_cases hd : f.depth ≤ cur.depth
    · simp [hd, pickT]
    · simp only [hd, if_false]
      cases heb : endsBeforeQ f q
      · simp only [Bool.false_eq_true, if_false]
        cases hnc : notContainsQ f q
        · simp only [Bool.false_eq_true, if_false]
          -- the descent step
          have hdesc : candContains q (ae != .no) f = true → topE q ae f = false →
              containsGoD decos q ae f rest rest
                = (pickT (candContains q (ae != .no)) (topE q ae) cur.depth (f :: rest)).getD (cur, ctail) := by
            intro hc he
            rw [ih hrest f rest, pickT_cons]
            simp only [hd, if_false, hc, he, Bool.and_false, Bool.false_eq_true, if_true]
            rw [pickT_depth _ _ cur.depth f.depth (by omega) rest (no_cand_after_subtreeD decos q _ f rest hf heb)]
            cases pickT (candContains q (ae != .no)) (topE q ae) f.depth rest <;> rfl
          cases hex : exactQ f q
          · simp only [Bool.false_and, Bool.false_eq_true, if_false]
            exact hdesc (by simp [candContains, heb, hnc, hex]) (by simp [topE, hex])
          · cases ae
            · -- `allow_exact=False`: stop at the parent
              simp only [Bool.true_and, beq_self_eq_true, if_true]
              have hb : (AllowExact.no != AllowExact.no) = false := by decide
              have hc : candContains q false f = false := by simp [candContains, hex]
              have hall := no_cand_after_exactD decos q f rest hf heb hex
              rw [pickT_cons]
              simp only [hb]
              simp [hd, hc, pickT_none_of_all _ _ _ _ hall]
            · -- `allow_exact=True`: descend
              have h1 : (AllowExact.yes == AllowExact.no) = false := by decide
              have h2 : (AllowExact.yes == AllowExact.top) = false := by decide
              simp only [Bool.true_and, h1, h2, Bool.false_eq_true, if_false]
              exact hdesc (by simp [candContains, heb, hnc, h1]) (by simp [topE, h2])
            · -- `allow_exact='top'`: stop at the match
              have h1 : (AllowExact.top == AllowExact.no) = false := by decide
              simp only [Bool.true_and, h1, Bool.false_eq_true, if_false, beq_self_eq_true, if_true]
              have hc : candContains q (AllowExact.top != AllowExact.no) f = true := by
                simp [candContains, heb, hnc, h1]
              have he : topE q .top f = true := by simp [topE, hex]
              rw [pickT_cons]
              simp [hd, hc, he]
        · -- `f` does not contain `q`: its decorators are searched
          simp only [if_true]
          have hc : candContains q (ae != .no) f = false := by simp [candContains, hnc]
          have hw := (wfAtD_iff decos f rest).mp hf
          rw [decoGo_eq decos q ae hq f.depth cur.depth (by omega) rest.length rest (Nat.le_refl _) hrest
            (fun x hx => (hw.2.1 x hx).2) (no_contains_afterD decos q f rest hf heb hnc), pickT_cons]
          simp only [hd, if_false, hc, Bool.false_and, Bool.false_eq_true]
          cases pickT (candContains q (ae != .no)) (topE q ae) cur.depth rest <;> rfl
      · simp only [if_true]
        have hc : candContains q (ae != .no) f = false := by simp [candContains, heb]
        rw [ih hrest cur ctail, pickT_cons]
        simp only [hd, if_false, hc, Bool.false_and, Bool.false_eq_true]
        cases pickT (candContains q (ae != .no)) (topE q ae) cur.depth rest <;> rfl

/-- THE REPAIRED `find_contains_loc` on real walk lists WITH decorated definitions returns the brute-force selection
over all nodes of the subtree (non-empty rectangles), with the list that follows it -/
theorem findContainsD_bruteforceT (decos : List Nat) (nodes : List FNode) (q : Loc) (ae : AllowExact)
    (hwf : wfListD decos nodes = true) (hq : q.ln < q.endLn ∨ (q.ln = q.endLn ∧ q.col < q.endCol)) :
    findContainsD decos nodes q ae = bruteContainsT nodes q ae := by
  cases nodes with
  | nil => rfl
  | cons self tail =>
    rw [wfListD_cons] at hwf
    simp only [findContainsD, bruteContainsT]
    split
    · split
      · rfl
      · split
        · rfl
        · rw [containsGoD_eq decos q ae hq tail hwf.2]
          cases pickT (candContains q (ae != .no)) (topE q ae) self.depth tail <;> rfl
    · rfl

theorem findContainsD_bruteforce (decos : List Nat) (nodes : List FNode) (q : Loc) (ae : AllowExact)
    (hwf : wfListD decos nodes = true) (hq : q.ln < q.endLn ∨ (q.ln = q.endLn ∧ q.col < q.endCol)) :
    (findContainsD decos nodes q ae).map (·.1) = bruteContains nodes q ae := by
  rw [findContainsD_bruteforceT decos nodes q ae hwf hq, bruteContainsT_map_fst]

/-- `find_loc` on lists with decorated definitions: the contains-part is the brute-force selection; the inside-part is
still the pass `findIn` (there is no brute-force theorem for `find_in_loc` on decorated lists) -/
theorem findLoc_decorated_partial (decos : List Nat) (nodes : List FNode) (q : Loc) (exactTop : Bool)
    (hwf : wfListD decos nodes = true) (hq : q.ln < q.endLn ∨ (q.ln = q.endLn ∧ q.col < q.endCol)) :
    findLoc decos nodes q exactTop =
      match bruteContainsT nodes q (if exactTop then .top else .yes) with
      | none => findIn nodes q
      | some (f, ftail) =>
        if f.col == q.col && f.endCol == q.endCol && f.ln == q.ln && f.endLn == q.endLn then some f
        else match findIn (f :: ftail) q with
          | some g => some g
          | none => some f := by
  unfold findLoc
  rw [findContainsD_bruteforceT decos nodes q _ hwf hq]
  cases bruteContainsT nodes q (if exactTop then .top else .yes) with
  | none => rfl
  | some r => obtain ⟨f, ft⟩ := r; rfl

/-- a plainly well-formed list is well-formed in the decorated sense when it has no decorator roots at all -/
theorem wfListD_nil_of_wfList (nodes : List FNode) (hwf : wfList nodes = true) : wfListD [] nodes = true := by
  induction nodes with
  | nil => rfl
  | cons f rest ih =>
    rw [wfList_cons] at hwf
    rw [wfListD_cons]
    refine ⟨?_, ih hwf.2⟩
    have hdp : decoPrefix [] f.depth false rest = [] := decoPrefix_nil_of_all [] _ _ (fun _ _ => rfl)
    rw [wfAtD_iff, hdp]
    simp only [List.length_nil, List.drop_zero]
    exact ⟨wfAt_self f rest hwf.1, (fun g hg => by cases hg), fun g hg => wfAt_in f rest hwf.1 g hg,
      fun g hg => wfAt_after f rest hwf.1 g hg⟩


/-! ## non-vacuity: the source `a + b` -/

/-- `Module > Expr > BinOp > (Name a, Add, Name b)` for the source `a + b` -/
def exNodes : List FNode :=
  [⟨0, 0, 0, 0, 5, 0⟩, ⟨1, 0, 0, 0, 5, 1⟩, ⟨2, 0, 0, 0, 5, 2⟩, ⟨3, 0, 0, 0, 1, 3⟩, ⟨4, 0, 2, 0, 3, 3⟩, ⟨5, 0, 4, 0, 5, 3⟩]

example : wfList exNodes = true := by decide
example : wfListD [] exNodes = true := by decide
-- rectangle of `b`: lowest container / first contained / best fit is `Name b`
example : (findContains exNodes ⟨0, 4, 0, 5⟩ .yes).map (·.1) = some ⟨5, 0, 4, 0, 5, 3⟩ := by decide
example : (findContains exNodes ⟨0, 4, 0, 5⟩ .no).map (·.1) = some ⟨2, 0, 0, 0, 5, 2⟩ := by decide
example : (findContains exNodes ⟨0, 4, 0, 5⟩ .top).map (·.1) = some ⟨5, 0, 4, 0, 5, 3⟩ := by decide
example : (findContainsD [] exNodes ⟨0, 4, 0, 5⟩ .yes).map (·.1) = some ⟨5, 0, 4, 0, 5, 3⟩ := by decide
example : findIn exNodes ⟨0, 4, 0, 5⟩ = some ⟨5, 0, 4, 0, 5, 3⟩ := by decide
example : findLoc [] exNodes ⟨0, 4, 0, 5⟩ false = some ⟨5, 0, 4, 0, 5, 3⟩ := by decide
-- whole source: `exact_top` chooses Module, otherwise the lowest exact match BinOp; `allow_exact=False` gives None
example : findLoc [] exNodes ⟨0, 0, 0, 5⟩ true = some ⟨0, 0, 0, 0, 5, 0⟩ := by decide
example : findLoc [] exNodes ⟨0, 0, 0, 5⟩ false = some ⟨2, 0, 0, 0, 5, 2⟩ := by decide
example : findContains exNodes ⟨0, 0, 0, 5⟩ .no = none := by decide
-- `'top'` honoured INSIDE the descent: started at `Expr`'s parent with a rectangle that the Module does not match
-- exactly (list = the subtree of a Module `0,0..1,0` for the source `a + b⏎`): the highest exact match is `Expr`
example : (findContains (⟨9, 0, 0, 1, 0, 0⟩ :: exNodes.drop 1) ⟨0, 0, 0, 5⟩ .top).map (·.1)
    = some ⟨1, 0, 0, 0, 5, 1⟩ := by decide
example : bruteContains (⟨9, 0, 0, 1, 0, 0⟩ :: exNodes.drop 1) ⟨0, 0, 0, 5⟩ .top = some ⟨1, 0, 0, 0, 5, 1⟩ := by decide
example : (findContains (⟨9, 0, 0, 1, 0, 0⟩ :: exNodes.drop 1) ⟨0, 0, 0, 5⟩ .yes).map (·.1)
    = some ⟨2, 0, 0, 0, 5, 2⟩ := by decide
-- `a +` (0,0..0,3): contained by BinOp, first node inside is `Name a`; find_loc prefers the contained one
example : (findContains exNodes ⟨0, 0, 0, 3⟩ .yes).map (·.1) = some ⟨2, 0, 0, 0, 5, 2⟩ := by decide
example : findIn exNodes ⟨0, 0, 0, 3⟩ = some ⟨3, 0, 0, 0, 1, 3⟩ := by decide
example : findLoc [] exNodes ⟨0, 0, 0, 3⟩ false = some ⟨3, 0, 0, 0, 1, 3⟩ := by decide
-- rectangles which reach outside the tree: no container; the first node inside, if any
example : findLoc [] exNodes ⟨0, 2, 1, 4⟩ false = some ⟨4, 0, 2, 0, 3, 3⟩ := by decide
example : findLoc [] exNodes ⟨0, 6, 1, 4⟩ false = none := by decide
-- the functions agree with the brute force on these
example : findLoc [] exNodes ⟨0, 0, 0, 3⟩ false = bruteLoc exNodes ⟨0, 0, 0, 3⟩ false := by decide
example : findLoc [] exNodes ⟨0, 0, 0, 5⟩ true = bruteLoc exNodes ⟨0, 0, 0, 5⟩ true := by decide
-- a list continuing after the subtree of its first node (start node `BinOp` followed by a sibling statement)
example : (findContains (exNodes.drop 2 ++ [⟨6, 1, 0, 1, 1, 1⟩]) ⟨1, 0, 1, 1⟩ .yes) = none := by decide
example : wfList (exNodes.drop 2 ++ [⟨6, 1, 0, 1, 1, 1⟩]) = true := by decide

/-! ## decorated definitions -/

/-- `@deco⏎def f(): pass`: the `FunctionDef` span `1,0..1,13` starts after its decorator child `Name deco 0,1..0,5`;
decorator root id 2 -/
def exDeco : List FNode :=
  [⟨0, 0, 0, 1, 13, 0⟩, ⟨1, 1, 0, 1, 13, 1⟩, ⟨2, 0, 1, 0, 5, 2⟩, ⟨3, 1, 9, 1, 13, 2⟩]

/-- a decorated definition is not `wfList` but `wfListD`; the repaired `find_contains_loc` / `find_loc` find the
decorator `Name`, as the scan over all nodes does -/
theorem findContains_decorated_witness :
    wfList exDeco = false
    ∧ wfListD [2] exDeco = true
    ∧ (findContainsD [2] exDeco ⟨0, 1, 0, 5⟩ .yes).map (·.1) = some ⟨2, 0, 1, 0, 5, 2⟩
    ∧ bruteContains exDeco ⟨0, 1, 0, 5⟩ .yes = some ⟨2, 0, 1, 0, 5, 2⟩
    ∧ findLoc [2] exDeco ⟨0, 2, 0, 4⟩ false = some ⟨2, 0, 1, 0, 5, 2⟩ := by decide

/-- the pass WITHOUT the decorator search (the function before the repair) stops at the Module -/
example : (findContains exDeco ⟨0, 1, 0, 5⟩ .yes).map (·.1) = some ⟨0, 0, 0, 1, 13, 0⟩ := by decide
example : (findContains exDeco ⟨0, 1, 0, 5⟩ .yes).map (·.1) ≠ bruteContains exDeco ⟨0, 1, 0, 5⟩ .yes := by decide

/-- `@a.b⏎@c(d)⏎def f(): pass`: two decorators with subtrees (`Attribute a.b > Name a`, `Call c(d) > Name c, Name d`),
decorator roots 2 and 4 -/
def exDeco2 : List FNode :=
  [⟨0, 0, 0, 2, 13, 0⟩, ⟨1, 2, 0, 2, 13, 1⟩, ⟨2, 0, 1, 0, 4, 2⟩, ⟨3, 0, 1, 0, 2, 3⟩,
   ⟨4, 1, 1, 1, 5, 2⟩, ⟨5, 1, 1, 1, 2, 3⟩, ⟨6, 1, 3, 1, 4, 3⟩, ⟨7, 2, 9, 2, 13, 2⟩]

example : wfList exDeco2 = false ∧ wfListD [2, 4] exDeco2 = true := by decide
-- the second decorator's argument `d`, found through the decorator search; `allow_exact=False` gives the `Call`
example : (findContainsD [2, 4] exDeco2 ⟨1, 3, 1, 4⟩ .yes).map (·.1) = some ⟨6, 1, 3, 1, 4, 3⟩ := by decide
example : (findContainsD [2, 4] exDeco2 ⟨1, 3, 1, 4⟩ .no).map (·.1) = some ⟨4, 1, 1, 1, 5, 2⟩ := by decide
example : (findContainsD [2, 4] exDeco2 ⟨0, 1, 0, 2⟩ .top).map (·.1) = some ⟨3, 0, 1, 0, 2, 3⟩ := by decide
-- an exact match of a decorator root with `allow_exact=False`: the Module, on both sides
example : (findContainsD [2, 4] exDeco2 ⟨0, 1, 0, 4⟩ .no).map (·.1) = some ⟨0, 0, 0, 2, 13, 0⟩
    ∧ bruteContains exDeco2 ⟨0, 1, 0, 4⟩ .no = some ⟨0, 0, 0, 2, 13, 0⟩ := by decide
-- the theorem applies (hypotheses are satisfiable on decorated lists)
example : (findContainsD [2, 4] exDeco2 ⟨1, 3, 1, 4⟩ .yes).map (·.1) = bruteContains exDeco2 ⟨1, 3, 1, 4⟩ .yes :=
  findContainsD_bruteforce [2, 4] exDeco2 _ _ (by decide) (by decide)

/-- `var⏎`: `Module 0,0..1,0 > Expr 0,0..0,3 > Name 0,0..0,3` -/
def exVar : List FNode := [⟨0, 0, 0, 1, 0, 0⟩, ⟨1, 0, 0, 0, 3, 1⟩, ⟨2, 0, 0, 0, 3, 2⟩]

/-- `exact_top` / `allow_exact='top'` below a start node that is not itself the exact match: the highest (`Expr`) of
the nodes sharing the location, without it the lowest (`Name`) -/
theorem findLoc_exactTop_witness :
    wfList exVar = true
    ∧ findLoc [] exVar ⟨0, 0, 0, 3⟩ true = some ⟨1, 0, 0, 0, 3, 1⟩
    ∧ findLoc [] exVar ⟨0, 0, 0, 3⟩ false = some ⟨2, 0, 0, 0, 3, 2⟩
    ∧ (findContainsD [] exVar ⟨0, 0, 0, 3⟩ .top).map (·.1) = some ⟨1, 0, 0, 0, 3, 1⟩
    ∧ bruteContains exVar ⟨0, 0, 0, 3⟩ .top = some ⟨1, 0, 0, 0, 3, 1⟩ := by decide

/-- why `findContainsD_bruteforce` needs a non-empty rectangle: `@d⏎def f(): pass` (`Module`, `FunctionDef 1,0..1,13`,
decorator `Name d 0,1..0,2`), empty rectangle at the END of the decorator: the entry test of the recursive call accepts
the decorator, the ends-at-or-before test of the loop (= the brute-force candidate test) rejects it -/
def exDecoEmpty : List FNode := [⟨0, 0, 0, 5, 0, 0⟩, ⟨1, 1, 0, 1, 13, 1⟩, ⟨2, 0, 1, 0, 2, 2⟩]

example : wfListD [2] exDecoEmpty = true
    ∧ (findContainsD [2] exDecoEmpty ⟨0, 2, 0, 2⟩ .yes).map (·.1) = some ⟨2, 0, 1, 0, 2, 2⟩
    ∧ bruteContains exDecoEmpty ⟨0, 2, 0, 2⟩ .yes = some ⟨0, 0, 0, 5, 0, 0⟩
    ∧ (findContainsD [2] exDecoEmpty ⟨0, 2, 0, 2⟩ .yes).map (·.1) ≠ bruteContains exDecoEmpty ⟨0, 2, 0, 2⟩ .yes := by
  decide

end Pfst.Scan
