import Pfst.Scan

/-! # `find_contains_loc` / `find_in_loc` / `find_loc` return what a brute-force scan would return -/

namespace Pfst.Scan

set_option linter.unusedSimpArgs false

/-! ## small geometric facts -/

theorem insideQ_eq (f : FNode) (q : Loc) : insideQ f q = (!startsBeforeQ f q && endsWithinQ f q) := by
  rw [Bool.eq_iff_iff]
  simp [insideQ, startsBeforeQ, endsWithinQ]
  omega

theorem posLe_iff (a b : Nat × Nat) : posLe a b = true ↔ (a.1 < b.1 ∨ (a.1 = b.1 ∧ a.2 ≤ b.2)) := by
  simp [posLe]

theorem posLe_false_iff (a b : Nat × Nat) : posLe a b = false ↔ ¬ (a.1 < b.1 ∨ (a.1 = b.1 ∧ a.2 ≤ b.2)) := by
  rw [← posLe_iff]; simp

theorem containsQ_iff (f : FNode) (q : Loc) :
    containsQ f q = true ↔ posLe f.start (q.ln, q.col) = true ∧ posLe (q.endLn, q.endCol) f.stop = true := by
  simp [containsQ, posLe_iff, FNode.start, FNode.stop]
  omega

theorem notContainsQ_eq (f : FNode) (q : Loc) : notContainsQ f q = !containsQ f q := by
  rw [Bool.eq_iff_iff]
  simp [containsQ, notContainsQ]
  omega


/-- unfold every Bool-valued geometric predicate to linear arithmetic over `Nat` and call `omega` -/
macro "geo" : tactic => `(tactic|
  (simp [containsQ, notContainsQ, exactQ, endsBeforeQ, insideQ, startsBeforeQ, endsWithinQ, candContains,
      posLe_iff, posLe_false_iff, FNode.start, FNode.stop] at *
   <;> omega))

/-! ## list facts -/

/-- the sub-list selected by the depth test -/
abbrev deeper (d : Nat) : FNode → Bool := fun g => decide (g.depth > d)

@[simp] theorem deeper_apply (d : Nat) (g : FNode) : deeper d g = decide (g.depth > d) := rfl

theorem takeWhile_split (d d' : Nat) (h : d ≤ d') (l : List FNode) :
    l.takeWhile (deeper d) = l.takeWhile (deeper d') ++ (l.dropWhile (deeper d')).takeWhile (deeper d) := by
  induction l with
  | nil => simp
  | cons a l ih =>
    by_cases h' : a.depth > d'
    · have : a.depth > d := by omega
      simp [List.takeWhile_cons, List.dropWhile_cons, h', this, ih]
    · simp [List.takeWhile_cons, List.dropWhile_cons, h']

theorem mem_takeWhile_p (p : FNode → Bool) (l : List FNode) (g : FNode) (h : g ∈ l.takeWhile p) : p g = true := by
  induction l with
  | nil => simp at h
  | cons a l ih =>
    rw [List.takeWhile_cons] at h
    split at h
    · cases h with
      | head => assumption
      | tail _ h => exact ih h
    · cases h

theorem mem_takeWhile_mem (p : FNode → Bool) (l : List FNode) (g : FNode) (h : g ∈ l.takeWhile p) : g ∈ l :=
  (List.takeWhile_sublist p).subset h

theorem mem_dropWhile_mem (p : FNode → Bool) (l : List FNode) (g : FNode) (h : g ∈ l.dropWhile p) : g ∈ l :=
  (List.dropWhile_sublist p).subset h

theorem mem_take_or_drop (p : FNode → Bool) (l : List FNode) (g : FNode) (h : g ∈ l) :
    g ∈ l.takeWhile p ∨ g ∈ l.dropWhile p := by
  rw [← List.takeWhile_append_dropWhile (p := p) (l := l)] at h
  exact List.mem_append.mp h

theorem wfList_cons (f : FNode) (rest : List FNode) : wfList (f :: rest) = true ↔ wfAt f rest = true ∧ wfList rest = true := by
  simp [wfList]

theorem wfAt_self (f : FNode) (rest : List FNode) (h : wfAt f rest = true) : posLe f.start f.stop = true := by
  simp only [wfAt, Bool.and_eq_true] at h; exact h.1.1

theorem wfAt_in (f : FNode) (rest : List FNode) (h : wfAt f rest = true) (g : FNode)
    (hg : g ∈ rest.takeWhile (deeper f.depth)) : posLe f.start g.start = true ∧ posLe g.stop f.stop = true := by
  simp only [wfAt, Bool.and_eq_true, List.all_eq_true] at h
  exact h.1.2 g hg

theorem wfAt_after (f : FNode) (rest : List FNode) (h : wfAt f rest = true) (g : FNode)
    (hg : g ∈ rest.dropWhile (deeper f.depth)) : posLe f.stop g.start = true := by
  simp only [wfAt, Bool.and_eq_true, List.all_eq_true] at h
  exact h.2 g hg

theorem wfList_mem (l : List FNode) (h : wfList l = true) (g : FNode) (hg : g ∈ l) : posLe g.start g.stop = true := by
  induction l with
  | nil => cases hg
  | cons a l ih =>
    rw [wfList_cons] at h
    cases hg with
    | head => exact wfAt_self _ _ h.1
    | tail _ hg => exact ih h.2 hg

theorem wfList_suffix (l l' : List FNode) (hs : l' <:+ l) (h : wfList l = true) : wfList l' = true := by
  induction l with
  | nil => simp at hs; subst hs; exact h
  | cons a l ih =>
    rw [List.suffix_cons_iff] at hs
    cases hs with
    | inl e => subst e; exact h
    | inr hs => rw [wfList_cons] at h; exact ih hs h.2

/-! ## `find_in_loc` -/

theorem inGo_eq (q : Loc) (rest : List FNode) (hwf : wfList rest = true) (d : Nat) :
    inGo q d rest = (rest.takeWhile (deeper d)).find? (fun f => insideQ f q) := by
  induction rest generalizing d with
  | nil => simp [inGo]
  | cons f rest ih =>
    rw [wfList_cons] at hwf
    obtain ⟨hf, hrest⟩ := hwf
    unfold inGo
    by_cases hd : f.depth ≤ d
    · have : ¬ f.depth > d := by omega
      simp [hd, List.takeWhile_cons, this]
    · have hd' : f.depth > d := by omega
      simp only [hd, if_false, List.takeWhile_cons, deeper_apply, hd', decide_true, if_true, List.find?_cons]
      rw [insideQ_eq]
      cases hsb : startsBeforeQ f q
      · cases hew : endsWithinQ f q
        · simp only [Bool.not_false, Bool.and_false, Bool.false_eq_true, if_false]
          rw [ih hrest f.depth, takeWhile_split d f.depth (by omega) rest, List.find?_append]
          have : ((rest.dropWhile (deeper f.depth)).takeWhile (deeper d)).find? (fun f => insideQ f q) = none := by
            rw [List.find?_eq_none]
            intro g hg
            have hg' := mem_takeWhile_mem _ _ _ hg
            have h1 := wfAt_after f rest hf g hg'
            have h2 := wfList_mem rest hrest g (mem_dropWhile_mem _ _ _ hg')
            have h3 := wfAt_self f rest hf
            geo
          rw [this]; simp
        · simp
      · simp only [Bool.not_true, Bool.false_and, Bool.false_eq_true, if_false, if_true]
        exact ih hrest d

theorem findIn_bruteforce (nodes : List FNode) (q : Loc) (hwf : wfList nodes = true) :
    findIn nodes q = bruteIn nodes q := by
  cases nodes with
  | nil => rfl
  | cons self tail =>
    rw [wfList_cons] at hwf
    simp only [findIn, bruteIn, subtree, List.find?_cons]
    cases h : insideQ self q
    · simp only [Bool.false_eq_true, if_false]
      exact inGo_eq q tail hwf.2 self.depth
    · simp


/-! ## `find_contains_loc` -/

/-- brute force with position: the LAST entry satisfying `p` among the leading entries of depth `> d`, together
with the list that follows it -/
def lastCandT (p : FNode → Bool) (d : Nat) : List FNode → Option (FNode × List FNode)
  | [] => none
  | f :: rest =>
    if f.depth ≤ d then none
    else match lastCandT p d rest with
      | some r => some r
      | none => if p f then some (f, rest) else none

/-- positional variant of `bruteContains`: the node selected and the list that follows it -/
def bruteContainsT (nodes : List FNode) (q : Loc) (ae : AllowExact) : Option (FNode × List FNode) :=
  match nodes with
  | [] => none
  | self :: tail =>
    if containsQ self q then
      if exactQ self q && ae == .no then none
      else if exactQ self q && ae == .top then some (self, tail)
      else
        match lastCandT (candContains q (ae != .no)) self.depth tail with
        | some r => some r
        | none => some (self, tail)
    else none

theorem lastCandT_cons (p : FNode → Bool) (d : Nat) (f : FNode) (rest : List FNode) :
    lastCandT p d (f :: rest) =
      if f.depth ≤ d then none
      else match lastCandT p d rest with
        | some r => some r
        | none => if p f then some (f, rest) else none := by
  rw [lastCandT]

theorem lastCandT_map_fst (p : FNode → Bool) (d : Nat) (l : List FNode) :
    (lastCandT p d l).map (·.1) = ((l.takeWhile (deeper d)).filter p).getLast? := by
  induction l with
  | nil => simp [lastCandT]
  | cons f rest ih =>
    unfold lastCandT
    by_cases hd : f.depth ≤ d
    · have : ¬ f.depth > d := by omega
      simp [hd, List.takeWhile_cons, this]
    · have hd' : f.depth > d := by omega
      simp only [hd, if_false, List.takeWhile_cons, deeper_apply, hd', decide_true, if_true, List.filter_cons]
      cases hp : p f
      · simp only [Bool.false_eq_true, if_false]
        rw [← ih]
        cases lastCandT p d rest <;> rfl
      · simp only [if_true, List.getLast?_cons]
        rw [← ih]
        cases lastCandT p d rest <;> rfl

theorem bruteContainsT_map_fst (nodes : List FNode) (q : Loc) (ae : AllowExact) :
    (bruteContainsT nodes q ae).map (·.1) = bruteContains nodes q ae := by
  cases nodes with
  | nil => rfl
  | cons self tail =>
    simp only [bruteContainsT, bruteContains, subtree, List.drop_succ_cons, List.drop_zero]
    split
    · split
      · rfl
      · split
        · rfl
        · have h := lastCandT_map_fst (candContains q (ae != .no)) self.depth tail
          change _ = (List.filter (candContains q (ae != .no))
            (List.takeWhile (fun f => decide (f.depth > self.depth)) tail)).getLast? at h
          rw [← h]
          cases lastCandT (candContains q (ae != .no)) self.depth tail <;> rfl
    · rfl

theorem lastCandT_none_of_all (p : FNode → Bool) (d : Nat) (l : List FNode) (h : ∀ g ∈ l, p g = false) :
    lastCandT p d l = none := by
  induction l with
  | nil => rfl
  | cons f rest ih =>
    unfold lastCandT
    have h1 := ih (fun g hg => h g (List.mem_cons_of_mem _ hg))
    have h2 := h f (List.mem_cons_self)
    simp [h1, h2]

theorem lastCandT_depth (p : FNode → Bool) (d d' : Nat) (hd : d ≤ d') (l : List FNode)
    (h : ∀ g ∈ l.dropWhile (deeper d'), p g = false) : lastCandT p d l = lastCandT p d' l := by
  induction l with
  | nil => rfl
  | cons f rest ih =>
    by_cases h' : f.depth > d'
    · have h1 : ¬ f.depth ≤ d' := by omega
      have h2 : ¬ f.depth ≤ d := by omega
      have : List.dropWhile (deeper d') (f :: rest) = List.dropWhile (deeper d') rest := by
        simp [List.dropWhile_cons, h']
      rw [this] at h
      unfold lastCandT
      simp only [h1, h2, if_false]
      rw [ih h]
    · have : List.dropWhile (deeper d') (f :: rest) = f :: rest := by
        simp [List.dropWhile_cons, h']
      rw [this] at h
      rw [lastCandT_none_of_all p d _ h, lastCandT_none_of_all p d' _ h]

/-- everything after an entry that does not end before `q` and either does not contain `q` or (when exact matches
are not allowed) is exactly `q`, is no candidate -/
theorem no_cand_after (q : Loc) (ax : Bool) (f : FNode) (rest : List FNode) (hf : wfAt f rest = true)
    (heb : endsBeforeQ f q = false)
    (h : notContainsQ f q = true ∨ (ax = false ∧ exactQ f q = true)) :
    ∀ g ∈ rest, candContains q ax g = false := by
  intro g hg
  cases mem_take_or_drop (deeper f.depth) rest g hg with
  | inl hg =>
    have h1 := wfAt_in f rest hf g hg
    cases h with
    | inl h => geo
    | inr h => obtain ⟨h2, h3⟩ := h; subst h2; geo
  | inr hg =>
    have h1 := wfAt_after f rest hf g hg
    geo

theorem no_cand_after_subtree (q : Loc) (ax : Bool) (f : FNode) (rest : List FNode) (hf : wfAt f rest = true)
    (heb : endsBeforeQ f q = false) : ∀ g ∈ rest.dropWhile (deeper f.depth), candContains q ax g = false := by
  intro g hg
  have h1 := wfAt_after f rest hf g hg
  geo

theorem containsGo_eq (q : Loc) (ax : Bool) (rest : List FNode) (hwf : wfList rest = true) (cur : FNode)
    (ctail : List FNode) :
    containsGo q ax cur ctail rest = (lastCandT (candContains q ax) cur.depth rest).getD (cur, ctail) := by
  induction rest generalizing cur ctail with
  | nil => simp [containsGo, lastCandT]
  | cons f rest ih =>
    rw [wfList_cons] at hwf
    obtain ⟨hf, hrest⟩ := hwf
    unfold containsGo
    by_cases hd : f.depth ≤ cur.depth
    · simp [hd, lastCandT]
    · simp only [hd, if_false]
      cases heb : endsBeforeQ f q
      · simp only [Bool.false_eq_true, if_false]
        cases hnc : notContainsQ f q
        · simp only [Bool.false_eq_true, if_false]
          cases hex : (!ax && exactQ f q)
          · simp only [Bool.false_eq_true, if_false]
            have hc : candContains q ax f = true := by
              simp only [candContains, heb, hnc, Bool.not_false, Bool.true_and]
              cases ax <;> simp_all
            rw [ih hrest f rest, lastCandT_cons]
            simp only [hd, if_false, hc, if_true]
            rw [lastCandT_depth _ cur.depth f.depth (by omega) rest (no_cand_after_subtree q ax f rest hf heb)]
            cases lastCandT (candContains q ax) f.depth rest <;> rfl
          · simp only [if_true]
            have hc : candContains q ax f = false := by
              simp only [candContains, heb, hnc, Bool.not_false, Bool.true_and]
              cases ax <;> simp_all
            have hall := no_cand_after q ax f rest hf heb
              (Or.inr (by cases ax <;> simp_all))
            rw [lastCandT_cons]
            simp [hd, hc, lastCandT_none_of_all _ _ _ hall]
        · simp only [if_true]
          have hc : candContains q ax f = false := by simp [candContains, hnc]
          have hall := no_cand_after q ax f rest hf heb (Or.inl hnc)
          rw [lastCandT_cons]
          simp [hd, hc, lastCandT_none_of_all _ _ _ hall]
      · simp only [if_true]
        have hc : candContains q ax f = false := by simp [candContains, heb]
        rw [ih hrest cur ctail, lastCandT_cons]
        simp only [hd, if_false, hc]
        cases lastCandT (candContains q ax) cur.depth rest <;> rfl

/-- `find_contains_loc` returns the brute-force selection, with the list that follows it -/
theorem findContains_bruteforceT (nodes : List FNode) (q : Loc) (ae : AllowExact) (hwf : wfList nodes = true) :
    findContains nodes q ae = bruteContainsT nodes q ae := by
  cases nodes with
  | nil => rfl
  | cons self tail =>
    rw [wfList_cons] at hwf
    simp only [findContains, bruteContainsT]
    split
    · split
      · rfl
      · split
        · rfl
        · rw [containsGo_eq q _ tail hwf.2]
          cases lastCandT (candContains q (ae != .no)) self.depth tail <;> rfl
    · rfl

theorem findContains_bruteforce (nodes : List FNode) (q : Loc) (ae : AllowExact) (hwf : wfList nodes = true) :
    (findContains nodes q ae).map (·.1) = bruteContains nodes q ae := by
  rw [findContains_bruteforceT nodes q ae hwf, bruteContainsT_map_fst]


/-! ## the candidates form a chain: "last candidate" = "deepest candidate" -/

/-- if an entry `f` that does not end before `q` is followed (anywhere later in a well-formed walk list) by an entry `g`
that contains `q`, then `g` lies positionally inside the subtree of `f`: all entries from `f` (exclusive) to `g`
(inclusive) are deeper than `f`.  In particular this holds for two candidates. -/
theorem cand_chain (q : Loc) (pre mid post : List FNode) (f g : FNode)
    (hwf : wfList (pre ++ f :: (mid ++ g :: post)) = true)
    (hf : endsBeforeQ f q = false) (hg : notContainsQ g q = false) :
    ∀ x ∈ mid ++ [g], x.depth > f.depth := by
  have hwf' : wfList (f :: (mid ++ g :: post)) = true :=
    wfList_suffix _ _ (List.suffix_append _ _) hwf
  rw [wfList_cons] at hwf'
  obtain ⟨hwf1, _⟩ := hwf'
  have key : ∀ (mid : List FNode), wfAt f (mid ++ g :: post) = true → ∀ x ∈ mid ++ [g], x.depth > f.depth := by
    intro mid
    induction mid with
    | nil =>
      intro hw x hx
      simp only [List.nil_append, List.mem_singleton] at hx
      subst hx
      by_cases hd : x.depth > f.depth
      · exact hd
      · have := wfAt_after f _ hw x (by simp [List.dropWhile_cons, hd])
        geo
    | cons a mid ih =>
      intro hw x hx
      by_cases hd : a.depth > f.depth
      · have hw' : wfAt f (mid ++ g :: post) = true := by
          simp only [wfAt, Bool.and_eq_true, List.cons_append, List.takeWhile_cons, List.dropWhile_cons, hd,
            decide_true, if_true, List.all_cons] at hw ⊢
          exact ⟨⟨hw.1.1, hw.1.2.2⟩, hw.2⟩
        cases hx with
        | head => exact hd
        | tail _ hx => exact ih hw' x hx
      · have := wfAt_after f _ hw g (by simp [List.dropWhile_cons, hd])
        geo
  exact key mid hwf1

/-- candidate version of `cand_chain` -/
theorem cand_chain_cand (q : Loc) (ax : Bool) (pre mid post : List FNode) (f g : FNode)
    (hwf : wfList (pre ++ f :: (mid ++ g :: post)) = true)
    (hf : candContains q ax f = true) (hg : candContains q ax g = true) :
    g.depth > f.depth ∧ ∀ x ∈ mid, x.depth > f.depth := by
  have h := cand_chain q pre mid post f g hwf (by geo) (by geo)
  exact ⟨h g (by simp), fun x hx => h x (by simp [hx])⟩

/-- along the candidates of a well-formed walk list the depth strictly increases -/
theorem cand_pairwise (q : Loc) (ax : Bool) (l : List FNode) (hwf : wfList l = true) :
    (l.filter (candContains q ax)).Pairwise (fun a b => a.depth < b.depth) := by
  induction l with
  | nil => simp
  | cons f rest ih =>
    rw [wfList_cons] at hwf
    rw [List.filter_cons]
    split
    · rename_i hc
      rw [List.pairwise_cons]
      refine ⟨?_, ih hwf.2⟩
      intro g hg
      rw [List.mem_filter] at hg
      cases mem_take_or_drop (deeper f.depth) rest g hg.1 with
      | inl h => simpa using mem_takeWhile_p _ _ _ h
      | inr h =>
        have h1 := wfAt_after f rest hwf.1 g h
        have h2 := hg.2
        geo
    · exact ih hwf.2

/-- the brute-force choice "last candidate of the subtree" is the unique deepest candidate of the subtree -/
theorem bruteContains_deepest (nodes : List FNode) (q : Loc) (ax : Bool) (r : FNode) (hwf : wfList nodes = true)
    (hlast : (((subtree nodes).drop 1).filter (candContains q ax)).getLast? = some r) :
    candContains q ax r = true ∧ r ∈ (subtree nodes).drop 1 ∧
    ∀ c ∈ (subtree nodes).drop 1, candContains q ax c = true → c.depth ≤ r.depth ∧ (c.depth = r.depth → c = r) := by
  have hsub : ((subtree nodes).drop 1).Sublist nodes := by
    cases nodes with
    | nil => simp [subtree]
    | cons self tail =>
      simp only [subtree, List.drop_succ_cons, List.drop_zero]
      exact (List.takeWhile_sublist _).trans (List.sublist_cons_self _ _)
  have hp := List.Pairwise.sublist (hsub.filter (candContains q ax)) (cand_pairwise q ax nodes hwf)
  rw [List.getLast?_eq_some_iff] at hlast
  obtain ⟨ys, hys⟩ := hlast
  have hr : r ∈ ((subtree nodes).drop 1).filter (candContains q ax) := by rw [hys]; simp
  rw [List.mem_filter] at hr
  refine ⟨hr.2, hr.1, ?_⟩
  intro c hc hcc
  have hmem : c ∈ ((subtree nodes).drop 1).filter (candContains q ax) := List.mem_filter.mpr ⟨hc, hcc⟩
  rw [hys] at hmem hp
  rw [List.pairwise_append] at hp
  rcases List.mem_append.mp hmem with h | h
  · have := hp.2.2 c h r (by simp)
    omega
  · simp only [List.mem_singleton] at h
    subst h
    exact ⟨Nat.le_refl _, fun _ => rfl⟩


/-! ## `find_loc` -/

theorem lastCandT_suffix (p : FNode → Bool) (d : Nat) (l : List FNode) (f : FNode) (ft : List FNode)
    (h : lastCandT p d l = some (f, ft)) : f :: ft <:+ l := by
  induction l with
  | nil => simp [lastCandT] at h
  | cons a rest ih =>
    rw [lastCandT_cons] at h
    split at h
    · cases h
    · cases hr : lastCandT p d rest with
      | some r =>
        rw [hr] at h
        simp only [Option.some.injEq] at h
        subst h
        exact List.IsSuffix.trans (ih hr) (List.suffix_cons _ _)
      | none =>
        rw [hr] at h
        simp only at h
        split at h
        · simp only [Option.some.injEq, Prod.mk.injEq] at h
          obtain ⟨h1, h2⟩ := h
          subst h1; subst h2
          exact List.suffix_refl _
        · cases h

theorem bruteContainsT_suffix (nodes : List FNode) (q : Loc) (ae : AllowExact) (f : FNode) (ft : List FNode)
    (h : bruteContainsT nodes q ae = some (f, ft)) : f :: ft <:+ nodes := by
  cases nodes with
  | nil => simp [bruteContainsT] at h
  | cons self tail =>
    simp only [bruteContainsT] at h
    split at h
    · split at h
      · cases h
      · split at h
        · simp only [Option.some.injEq, Prod.mk.injEq] at h
          obtain ⟨h1, h2⟩ := h
          subst h1; subst h2
          exact List.suffix_refl _
        · cases hr : lastCandT (candContains q (ae != .no)) self.depth tail with
          | some r =>
            rw [hr] at h
            simp only [Option.some.injEq] at h
            subst h
            exact List.IsSuffix.trans (lastCandT_suffix _ _ _ _ _ hr) (List.suffix_cons _ _)
          | none =>
            rw [hr] at h
            simp only [Option.some.injEq, Prod.mk.injEq] at h
            obtain ⟨h1, h2⟩ := h
            subst h1; subst h2
            exact List.suffix_refl _
    · cases h

/-- brute-force reference for `find_loc`: the same three-way composition built from the brute-force selections -/
def bruteLoc (nodes : List FNode) (q : Loc) (exactTop : Bool) : Option FNode :=
  match bruteContainsT nodes q (if exactTop then .top else .yes) with
  | none => bruteIn nodes q
  | some (f, ftail) =>
    if f.col == q.col && f.endCol == q.endCol && f.ln == q.ln && f.endLn == q.endLn then some f
    else match bruteIn (f :: ftail) q with
      | some g => some g
      | none => some f

theorem findLoc_bruteforce (nodes : List FNode) (q : Loc) (exactTop : Bool) (hwf : wfList nodes = true) :
    findLoc nodes q exactTop = bruteLoc nodes q exactTop := by
  unfold findLoc bruteLoc
  rw [findContains_bruteforceT nodes q _ hwf, findIn_bruteforce nodes q hwf]
  cases h : bruteContainsT nodes q (if exactTop then .top else .yes) with
  | none => rfl
  | some r =>
    obtain ⟨f, ft⟩ := r
    have hwf' := wfList_suffix _ _ (bruteContainsT_suffix _ _ _ _ _ h) hwf
    simp only
    rw [findIn_bruteforce (f :: ft) q hwf']
    rfl

/-! ## non-vacuity: the source `a + b` -/

/-- `Module > Expr > BinOp > (Name a, Add, Name b)` for the source `a + b` -/
def exNodes : List FNode :=
  [⟨0, 0, 0, 0, 5, 0⟩, ⟨1, 0, 0, 0, 5, 1⟩, ⟨2, 0, 0, 0, 5, 2⟩, ⟨3, 0, 0, 0, 1, 3⟩, ⟨4, 0, 2, 0, 3, 3⟩, ⟨5, 0, 4, 0, 5, 3⟩]

example : wfList exNodes = true := by decide
-- rectangle of `b`: lowest container / first contained / best fit is `Name b`
example : (findContains exNodes ⟨0, 4, 0, 5⟩ .yes).map (·.1) = some ⟨5, 0, 4, 0, 5, 3⟩ := by decide
example : (findContains exNodes ⟨0, 4, 0, 5⟩ .no).map (·.1) = some ⟨2, 0, 0, 0, 5, 2⟩ := by decide
example : findIn exNodes ⟨0, 4, 0, 5⟩ = some ⟨5, 0, 4, 0, 5, 3⟩ := by decide
example : findLoc exNodes ⟨0, 4, 0, 5⟩ false = some ⟨5, 0, 4, 0, 5, 3⟩ := by decide
-- whole source: `exact_top` chooses Module, otherwise the lowest exact match BinOp; `allow_exact=False` gives None
example : findLoc exNodes ⟨0, 0, 0, 5⟩ true = some ⟨0, 0, 0, 0, 5, 0⟩ := by decide
example : findLoc exNodes ⟨0, 0, 0, 5⟩ false = some ⟨2, 0, 0, 0, 5, 2⟩ := by decide
example : findContains exNodes ⟨0, 0, 0, 5⟩ .no = none := by decide
-- `a +` (0,0..0,3): contained by BinOp, first node inside is `Name a`; find_loc prefers the contained one
example : (findContains exNodes ⟨0, 0, 0, 3⟩ .yes).map (·.1) = some ⟨2, 0, 0, 0, 5, 2⟩ := by decide
example : findIn exNodes ⟨0, 0, 0, 3⟩ = some ⟨3, 0, 0, 0, 1, 3⟩ := by decide
example : findLoc exNodes ⟨0, 0, 0, 3⟩ false = some ⟨3, 0, 0, 0, 1, 3⟩ := by decide
-- rectangles which reach outside the tree: no container; the first node inside, if any
example : findLoc exNodes ⟨0, 2, 1, 4⟩ false = some ⟨4, 0, 2, 0, 3, 3⟩ := by decide
example : findLoc exNodes ⟨0, 6, 1, 4⟩ false = none := by decide
-- the functions agree with the brute force on these
example : findLoc exNodes ⟨0, 0, 0, 3⟩ false = bruteLoc exNodes ⟨0, 0, 0, 3⟩ false := by decide
-- a list continuing after the subtree of its first node (start node `BinOp` followed by a sibling statement)
example : (findContains (exNodes.drop 2 ++ [⟨6, 1, 0, 1, 1, 1⟩]) ⟨1, 0, 1, 1⟩ .yes) = none := by decide
example : wfList (exNodes.drop 2 ++ [⟨6, 1, 0, 1, 1, 1⟩]) = true := by decide

/-- `@deco⏎def f(): pass`: the `FunctionDef` span `1,0..1,13` starts after its decorator child `Name deco 0,1..0,5` -/
def exDeco : List FNode :=
  [⟨0, 0, 0, 1, 13, 0⟩, ⟨1, 1, 0, 1, 13, 1⟩, ⟨2, 0, 1, 0, 5, 2⟩, ⟨3, 1, 9, 1, 13, 2⟩]

example : wfList exDeco = false := by decide

/-- the well-formedness hypothesis is needed: on a decorated function `find_contains_loc` stops at the Module while a
scan over all nodes finds the decorator `Name` -/
theorem findContains_needs_wf :
    (findContains exDeco ⟨0, 1, 0, 5⟩ .yes).map (·.1) = some ⟨0, 0, 0, 1, 13, 0⟩
    ∧ bruteContains exDeco ⟨0, 1, 0, 5⟩ .yes = some ⟨2, 0, 1, 0, 5, 2⟩
    ∧ (findContains exDeco ⟨0, 1, 0, 5⟩ .yes).map (·.1) ≠ bruteContains exDeco ⟨0, 1, 0, 5⟩ .yes := by decide

end Pfst.Scan
