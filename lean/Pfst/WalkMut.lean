/-
Model of `FST.walk` (src/fst/fst_traverse.py:1120-1611) running while a consumer modifies the tree between yields.

The generator is modelled as a small-step machine: one `step` is one iteration of the `while stack:` loop (one pop)
or the code between a `yield` and the next loop iteration.  The consumer acts only while the machine is suspended in a
yield state: it may `send` a bool (changes `recurse_`), or change the store.  The store is the part of the object graph
`walk` reads: `ast.f`, `fst.a`, `syntax_ordered_children(ast)`, `check_all_param(fst)`.

Two layers:
* abstract `Store` (functions) — the walk machines and the theorems are over this;
* concrete `Tree` (rose tree with AST id and FST id per node) with `replaceAt` (`_set_ast`-style: the FST of the
  replaced position is kept, the old subtree is unmade, fresh nodes below) and `removeAt` (slice delete) — used by the
  driver; liveness in the concrete layer is membership in the tree ("detached nodes are marked dead",
  `_unmake_fst_tree`, fst_core.py:655).  The children of a dead node are never read by `walk` except in the
  root-leaving `send(True)` restart (a stale `ast` variable); the concrete store keeps them in a `grave` list.

No imports: this file is linked into the native driver.
-/
namespace Pfst.WalkMut

abbrev AstId := Nat
abbrev FstId := Nat

/-- What `walk` can observe of the object graph. `bound`: every id ever allocated is `< bound`. -/
structure Store where
  f    : AstId → Option FstId      -- `ast.f`   (None after `_unmake_fst_tree`)
  a    : FstId → Option AstId      -- `fst.a`   (None after `_unmake_fst_tree`)
  kids : AstId → List AstId        -- `syntax_ordered_children(ast)` without the `None` entries
  vis  : AstId → Bool              -- `check_all_param` (depends on the class of the node only)
  bound : Nat
  -- not read by `walk` (used by the well-formedness predicate and the theorems only):
  depth : AstId → Nat              -- distance from the tree root
  rootF : FstId                    -- the FST of the tree root (`fst.root`)

/-- `check_all_param(fst_)` looks at `fst_.a`. -/
def Store.checkAll (σ : Store) (φ : FstId) : Bool :=
  match σ.a φ with
  | some x => σ.vis x
  | none => false

/-- The local `recurse_`: `False`, `True` (copied from the `recurse` parameter) or `1` (set by `send(True)` in the
`enter` loop / initial value in the `self_` step). -/
inductive Rec where
  | no | yes | one
deriving DecidableEq, Repr, Inhabited

/-- `stack.extend(children if back else children[::-1])` followed by pops from the end: head of the model list is the
top of the Python stack. -/
def order (back : Bool) (ks : List AstId) : List AstId := if back then ks.reverse else ks

/-! ## `on='enter'` (fst_traverse.py:1353-1446) -/
namespace Enter

/-- One generator of the `yield from` chain: its `stack` and its `recurse` parameter. -/
structure Frame where
  stack : List AstId
  recurse : Bool
deriving Repr, Inhabited

inductive Ctl where
  | start                              -- generator created, not started
  | rootYield (r : Rec)                -- suspended in `yield item` of the `self_` step (line 1372)
  | yielded (φ : FstId) (r : Rec)      -- suspended in `yield fst_` (line 1414) of the innermost generator
  | running                            -- at the top of `while stack:`
  | done
deriving Repr, Inhabited

structure St where
  root : FstId            -- `self` of the outermost generator
  selfFlag : Bool         -- `self_`
  recurse : Bool          -- `recurse` parameter of the outermost generator
  back : Bool
  ctl : Ctl
  frames : List Frame     -- head = innermost generator
  -- history variables (never read by the control flow)
  popped : List AstId     -- every AST id popped, or found under a yielded FST when resuming, newest first
  expanded : List AstId   -- every AST id whose children were pushed, newest first
  entered : List AstId    -- `fst_.a` at each yield, newest first
  d0 : Nat                -- depth of the walk root
deriving Inhabited

def init (root : FstId) (selfFlag recurse back : Bool) : St :=
  { root, selfFlag, recurse, back, ctl := .start, frames := [], popped := [], expanded := [], entered := [], d0 := 0 }

/-- push the children of `x` on the innermost frame (`stack.extend(...)`, line 1443) -/
def pushKids (σ : Store) (s : St) (x : AstId) (fr : Frame) (rest : List Frame) : St :=
  { s with ctl := .running,
           frames := { fr with stack := order s.back (σ.kids x) ++ fr.stack } :: rest,
           expanded := x :: s.expanded }

/-- start a generator on the children of `x`: the first level of the outermost walk, or the nested
`yield from fst_.walk(all, self_=False, back=back)` (line 1425), whose `recurse` is the default `True` -/
def newFrame (σ : Store) (s : St) (x : AstId) (recurse : Bool) (outer : List Frame) : St :=
  { s with ctl := .running,
           frames := { stack := order s.back (σ.kids x), recurse := recurse } :: outer,
           expanded := x :: s.expanded }

/-- history only: when resuming, the AST under the yielded FST is the popped one or the fresh AST a replacement put
there; either way it counts as popped from now on -/
def notePopped (s : St) (x : AstId) : St :=
  { s with popped := if s.popped.contains x then s.popped else x :: s.popped }

/-- One step of the generator. Returns the new state and the yielded FST, if this step ends in a `yield`. -/
def step (σ : Store) (s : St) : St × Option FstId :=
  match s.ctl with
  | .done => (s, none)
  | .start =>
    -- lines 1353-1399 with `asts is None`, `scope=False`
    match σ.a s.root with
    | none => ({ s with ctl := .done }, none)          -- walking a dead node is not modelled
    | some x =>
      if s.selfFlag && σ.checkAll s.root then
        ({ s with ctl := .rootYield .one, entered := x :: s.entered, d0 := σ.depth x }, some s.root)
      else
        (newFrame σ { s with d0 := σ.depth x } x s.recurse [], none)
  | .rootYield r =>
    -- lines 1375-1383
    if r == .no then ({ s with ctl := .done }, none)
    else match σ.a s.root with
      | none => ({ s with ctl := .done }, none)
      | some x => (newFrame σ s x (if r == .yes then true else s.recurse) [], none)
  | .running =>
    match s.frames with
    | [] => ({ s with ctl := .done }, none)
    | fr :: rest =>
      match fr.stack with
      | [] => ({ s with frames := rest }, none)          -- nested generator exhausted: outer loop `continue`s
      | x :: stk =>
        let fr' : Frame := { fr with stack := stk }
        let s' : St := { s with frames := fr' :: rest, popped := x :: s.popped }
        match σ.f x with
        | none => (s', none)                             -- line 1408: removed or replaced somewhere else
        | some φ =>
          if σ.checkAll φ then
            ({ s' with ctl := .yielded φ (if fr.recurse then .yes else .no), entered := x :: s'.entered }, some φ)
          else if !fr.recurse then (s', none)            -- line 1429
          else (pushKids σ s' x fr' rest, none)          -- line 1443
  | .yielded φ r =>
    match s.frames with
    | [] => ({ s with ctl := .done }, none)              -- unreachable
    | fr :: rest =>
      if r == .no then ({ s with ctl := .running }, none)                     -- line 1417
      else match σ.a φ with
        | none => ({ s with ctl := .running }, none)                          -- line 1420: deleted by the consumer
        | some x =>
          let s := notePopped s x
          if r == .one && !fr.recurse then                                    -- lines 1423-1427
            (newFrame σ s x true (fr :: rest), none)
          else (pushKids σ s x fr rest, none)

/-- `gen.send(b)` while suspended (lines 1372-1373 and 1414-1415). -/
def send (b : Bool) (s : St) : St :=
  match s.ctl with
  | .rootYield _ => { s with ctl := .rootYield (if b then .yes else .no) }
  | .yielded φ _ => { s with ctl := .yielded φ (if b then .one else .no) }
  | _ => s

def St.suspended (s : St) : Bool :=
  match s.ctl with
  | .rootYield _ => true
  | .yielded _ _ => true
  | _ => false

def St.isDone (s : St) : Bool :=
  match s.ctl with
  | .done => true
  | _ => false

/-- run until the next yield or the end (`next(gen)`); `fuel` bounds the number of steps -/
def next (σ : Store) : Nat → St → St × Option FstId
  | 0, s => (s, none)
  | fuel + 1, s =>
    if s.isDone then (s, none) else
    match step σ s with
    | (s', some φ) => (s', some φ)
    | (s', none) => next σ fuel s'

end Enter

/-! ## `on='leave'` and `on='both'` (fst_traverse.py:1448-1611) -/
namespace LB

inductive Item where
  | ast (x : AstId)       -- "entering" entry
  | fst (φ : FstId)       -- "leaving" entry
deriving DecidableEq, Repr, Inhabited

inductive Ctl where
  | start
  | rootEnter (r : Rec)                    -- `both`: suspended in the `self_` step yield `(self, False)`
  | yEnter (φ : FstId) (r : Rec)           -- `both`: suspended in `yield (fst_, False)` (line 1571)
  | yLeave (φ : FstId) (r : Bool)          -- suspended in `yield fst_` (1501) / `yield (fst_, True)` (1546)
  | rootLeave (x : AstId) (r : Bool)       -- suspended in the last yield of the walk root; `x` = `ast` at the yield (not read again)
  | running
  | done
deriving Repr, Inhabited

/-- One generator of the `yield from` chain (`both` nests full generators with their own `self_`). -/
structure Gen where
  root : FstId
  selfFlag : Bool
  recurse : Bool
  stack : List Item
  ctl : Ctl
deriving Repr, Inhabited

structure St where
  leave : Bool            -- `on == 'leave'`, else `'both'`
  back : Bool
  gens : List Gen         -- head = innermost
deriving Repr, Inhabited

def init (leave : Bool) (root : FstId) (selfFlag recurse back : Bool) : St :=
  { leave, back, gens := [{ root, selfFlag, recurse, stack := [], ctl := .start }] }

def items (back : Bool) (ks : List AstId) : List Item := (order back ks).map Item.ast

/-- Yield event: the FST and the `leaving` flag. -/
abbrev Ev := FstId × Bool

/-- One step of the innermost `leave` generator (lines 1450-1526). -/
def stepLeave (σ : Store) (back : Bool) (g : Gen) : Gen × Option Ev :=
  match g.ctl with
  | .done => (g, none)
  | .rootEnter _ => ({ g with ctl := .done }, none)      -- unreachable for `leave`
  | .yEnter _ _ => ({ g with ctl := .done }, none)       -- unreachable for `leave`
  | .start =>
    match σ.a g.root with
    | none => ({ g with ctl := .done }, none)
    | some x =>
      let st := items back (σ.kids x)
      -- line 1452: `stack = [a.f for a in stack if a]` when `not recurse`
      let st := if g.recurse then st else
        st.filterMap (fun it => match it with
          | .ast y => (σ.f y).map Item.fst
          | .fst φ => some (.fst φ))
      ({ g with stack := st, ctl := .running }, none)
  | .running =>
    match g.stack with
    | [] =>
      -- lines 1515-1518: `if self_ and (ast := self.a) and check_all_param(self)`
      if g.selfFlag then
        match σ.a g.root with
        | some x =>
          if σ.vis x then ({ g with ctl := .rootLeave x false }, some (g.root, true))
          else ({ g with ctl := .done }, none)
        | none => ({ g with ctl := .done }, none)
      else ({ g with ctl := .done }, none)
    | .fst φ :: stk =>
      let g' := { g with stack := stk }
      match σ.a φ with
      | none => (g', none)
      | some x => if σ.vis x then ({ g' with ctl := .yLeave φ false }, some (φ, true)) else (g', none)
    | .ast x :: stk =>
      let g' := { g with stack := stk }
      match σ.f x with
      | none => (g', none)
      | some φ =>
        if !σ.checkAll φ then ({ g' with stack := items back (σ.kids x) ++ stk }, none)
        else match items back (σ.kids x) with
          | [] => ({ g' with ctl := .yLeave φ false }, some (φ, true))       -- no children: yield immediately
          | ch => ({ g' with stack := ch ++ .fst φ :: stk }, none)
  | .yLeave φ r =>
    -- lines 1504-1511
    if r then
      match σ.a φ with
      | none => ({ g with ctl := .running }, none)
      | some x => ({ g with ctl := .running, stack := items back (σ.kids x) ++ .fst φ :: g.stack }, none)
    else ({ g with ctl := .running }, none)
  | .rootLeave _ r =>
    -- the root restart after the last yield: `if recurse_ and (ast := self.a)`: the root's AST is read again after the yield
    if r then
      match σ.a g.root with
      | none => ({ g with ctl := .done }, none)
      | some x =>
        match items back (σ.kids x) with
        | [] => ({ g with ctl := .done }, none)
        | st => ({ g with stack := st, ctl := .running }, none)
    else ({ g with ctl := .done }, none)

/-- Result of one `both` step: the generator, an optional event, an optional nested generator to start. -/
structure BothOut where
  g : Gen
  ev : Option Ev := none
  nested : Option Gen := none

/-- lines 1567-1592 from `if check_all_param(fst_)` on, for an FST that is known to be linked -/
def bothEnterPart (σ : Store) (g : Gen) (φ : FstId) (x : AstId) (back : Bool) : BothOut :=
  if σ.checkAll φ then
    { g := { g with ctl := .yEnter φ (if g.recurse then .yes else .no) }, ev := some (φ, false) }
  else if !g.recurse then { g := g }
  else { g := { g with stack := items back (σ.kids x) ++ g.stack } }

/-- One step of the innermost `both` generator (lines 1353-1399 and 1530-1611). -/
def stepBoth (σ : Store) (back : Bool) (g : Gen) : BothOut :=
  match g.ctl with
  | .done => { g := g }
  | .start =>
    match σ.a g.root with
    | none => { g := { g with ctl := .done } }
    | some x =>
      if g.selfFlag && σ.checkAll g.root then
        { g := { g with ctl := .rootEnter .one }, ev := some (g.root, false) }
      else { g := { g with stack := items back (σ.kids x), ctl := .running } }
  | .rootEnter r =>
    -- `send(False)` on the root's enter event skips the children; the root is still left (empty stack -> root-leave yield)
    match σ.a g.root with
    | none => { g := { g with ctl := .done } }
    | some x =>
      if r == .no then { g := { g with stack := [], ctl := .running } }
      else
        { g := { g with stack := items back (σ.kids x), ctl := .running,
                        recurse := if r == .yes then true else g.recurse } }
  | .running =>
    match g.stack with
    | [] =>
      -- lines 1596-1600: `if self_ and (ast := self.a) and check_all_param(self)`
      if g.selfFlag then
        match σ.a g.root with
        | some x =>
          if σ.vis x then { g := { g with ctl := .rootLeave x false }, ev := some (g.root, true) }
          else { g := { g with ctl := .done } }
        | none => { g := { g with ctl := .done } }
      else { g := { g with ctl := .done } }
    | .fst φ :: stk =>
      let g' := { g with stack := stk }
      match σ.a φ with
      | none => { g := g' }
      | some x =>
        if σ.vis x then { g := { g' with ctl := .yLeave φ false }, ev := some (φ, true) } else { g := g' }
    | .ast x :: stk =>
      let g' := { g with stack := stk }
      match σ.f x with
      | none => { g := g' }
      | some φ => bothEnterPart σ g' φ x back
  | .yLeave φ r =>
    -- lines 1549-1558, then falls into 1567
    if !r then { g := { g with ctl := .running } }
    else match σ.a φ with
      | none => { g := { g with ctl := .running } }
      | some x =>
        if !g.recurse then
          { g := { g with ctl := .running },
            nested := some { root := φ, selfFlag := true, recurse := true, stack := [], ctl := .start } }
        else bothEnterPart σ { g with ctl := .running } φ x back
  | .yEnter φ r =>
    -- lines 1574-1592
    match σ.a φ with
    | none => { g := { g with ctl := .running } }
    | some x =>
      let g' := { g with ctl := .running, stack := .fst φ :: g.stack }
      if r == .no then { g := g' }
      else if r == .one && !g.recurse then
        { g := g', nested := some { root := φ, selfFlag := false, recurse := true, stack := [], ctl := .start } }
      else { g := { g' with stack := items back (σ.kids x) ++ g'.stack } }
  | .rootLeave _ r =>
    -- the root restart after the last yield: `if recurse_ and (ast := self.a)`: the root's AST is read again after the yield
    if r then
      match σ.a g.root with
      | none => { g := { g with ctl := .done } }
      | some x => { g := { g with stack := [.ast x], selfFlag := false, recurse := true, ctl := .running } }
    else { g := { g with ctl := .done } }

def Gen.isDone (g : Gen) : Bool :=
  match g.ctl with
  | .done => true
  | _ => false

/-- One step of the chain: finished inner generators are dropped (the outer one is at its `continue`). -/
def step (σ : Store) (s : St) : St × Option Ev :=
  match s.gens with
  | [] => (s, none)
  | g :: rest =>
    if g.isDone then ({ s with gens := rest }, none)
    else if s.leave then
      let (g', ev) := stepLeave σ s.back g
      ({ s with gens := g' :: rest }, ev)
    else
      let o := stepBoth σ s.back g
      match o.nested with
      | some n => ({ s with gens := n :: o.g :: rest }, o.ev)
      | none => ({ s with gens := o.g :: rest }, o.ev)

/-- `gen.send(b)`: delivered to the innermost generator. -/
def send (b : Bool) (s : St) : St :=
  match s.gens with
  | [] => s
  | g :: rest =>
    let c := match g.ctl with
      | .rootEnter _ => Ctl.rootEnter (if b then .yes else .no)
      | .yEnter φ _ => .yEnter φ (if b then .one else .no)
      | .yLeave φ _ => .yLeave φ b
      | .rootLeave x _ => .rootLeave x b
      | c => c
    { s with gens := { g with ctl := c } :: rest }

def next (σ : Store) : Nat → St → St × Option Ev
  | 0, s => (s, none)
  | fuel + 1, s =>
    if s.gens.isEmpty then (s, none) else
    match step σ s with
    | (s', some e) => (s', some e)
    | (s', none) => next σ fuel s'

end LB

/-! ## `FST.search` (match.py `search`) as a consumer-side wrapper of `walk` -/
namespace Search

/-- What `search()` forwards to the walk generator for one yielded match, given the values the consumer sent to the
search generator (in order): every consumer `send` is forwarded; only if the consumer sent nothing and `nested=False`
does `search` itself send `False` ("do not recurse into a match").  (match.py, both branches of `search`:
`if (sent := (yield match)) is not None: gen.send(sent); while ...: gen.send(sent)` / `elif not nested: gen.send(False)`) -/
def forwarded (nested : Bool) (sends : List Bool) : List Bool :=
  match sends with
  | [] => if nested then [] else [false]
  | _ => sends

end Search

/-! ## Concrete store: a rose tree of linked (AST, FST) pairs -/

inductive Tree where
  | mk (aid : AstId) (fid : FstId) (lab : Nat) (vis : Bool) (kids : List Tree)
deriving Repr, Inhabited

namespace Tree
def aid : Tree → AstId | .mk a _ _ _ _ => a
def fid : Tree → FstId | .mk _ f _ _ _ => f
def lab : Tree → Nat | .mk _ _ l _ _ => l
def vis : Tree → Bool | .mk _ _ _ v _ => v
def kids : Tree → List Tree | .mk _ _ _ _ k => k

mutual
def findA (x : AstId) : Tree → Option Tree
  | .mk a f l v ks => if a == x then some (.mk a f l v ks) else findAs x ks
def findAs (x : AstId) : List Tree → Option Tree
  | [] => none
  | t :: ts => match findA x t with
    | some r => some r
    | none => findAs x ts
end

mutual
def findF (φ : FstId) : Tree → Option Tree
  | .mk a f l v ks => if f == φ then some (.mk a f l v ks) else findFs φ ks
def findFs (φ : FstId) : List Tree → Option Tree
  | [] => none
  | t :: ts => match findF φ t with
    | some r => some r
    | none => findFs φ ts
end

mutual
def aids : Tree → List AstId
  | .mk a _ _ _ ks => a :: aidsL ks
def aidsL : List Tree → List AstId
  | [] => []
  | t :: ts => aids t ++ aidsL ts
end

mutual
def fids : Tree → List FstId
  | .mk _ f _ _ ks => f :: fidsL ks
def fidsL : List Tree → List FstId
  | [] => []
  | t :: ts => fids t ++ fidsL ts
end

def size (t : Tree) : Nat := (aids t).length

/- `_set_ast` (fst_core.py:714) seen from the outside: at the node whose AST id is `x` put the tree `new`, keeping
the FST id of the replaced position; everything below the old node disappears from the tree (= is unmade). -/
mutual
def replaceAt (x : AstId) (new : Tree) : Tree → Tree
  | .mk a f l v ks =>
    if a == x then .mk new.aid f new.lab new.vis new.kids else .mk a f l v (replaceAtL x new ks)
def replaceAtL (x : AstId) (new : Tree) : List Tree → List Tree
  | [] => []
  | t :: ts => replaceAt x new t :: replaceAtL x new ts
end

/- slice delete of one element: the subtree of `x` disappears, later siblings shift (their ids are unchanged). The
root itself cannot be removed (`ValueError: cannot delete root node`). -/
mutual
def removeAt (x : AstId) : Tree → Tree
  | .mk a f l v ks => .mk a f l v (removeAtL x ks)
def removeAtL (x : AstId) : List Tree → List Tree
  | [] => []
  | t :: ts => if t.aid == x then removeAtL x ts else removeAt x t :: removeAtL x ts
end

mutual
def depthA (x : AstId) (d : Nat) : Tree → Option Nat
  | .mk a _ _ _ ks => if a == x then some d else depthAs x (d + 1) ks
def depthAs (x : AstId) (d : Nat) : List Tree → Option Nat
  | [] => none
  | t :: ts => match depthA x d t with
    | some r => some r
    | none => depthAs x d ts
end

/-- `grave`: the child lists dead nodes had when they were unmade (a stale `ast` variable still sees them) -/
def toStore (t : Tree) (bound : Nat) (grave : List (AstId × List AstId) := []) : Store where
  f := fun x => (findA x t).map Tree.fid
  a := fun φ => (findF φ t).map Tree.aid
  kids := fun x => match findA x t with
    | some n => n.kids.map Tree.aid
    | none => match grave.find? (fun e => e.1 == x) with
      | some e => e.2
      | none => []
  vis := fun x => match findA x t with
    | some n => n.vis
    | none => false
  bound := bound
  depth := fun x => (depthA x 0 t).getD 0
  rootF := t.fid

end Tree

/-- shape of a fresh subtree (what `FST(code)` parses) -/
inductive Shape where
  | mk (lab : Nat) (vis : Bool) (kids : List Shape)
deriving Repr, Inhabited

/- `_make_fst_tree` (fst_core.py:609): a fresh FST for every fresh AST; ids are taken from the counter in preorder,
the same number serves as AST id and FST id of a fresh node. -/
mutual
def alloc : Shape → Nat → Tree × Nat
  | .mk l v ks, n =>
    let (ts, n') := allocL ks (n + 1)
    (.mk n n l v ts, n')
def allocL : List Shape → Nat → List Tree × Nat
  | [], n => ([], n)
  | s :: ss, n =>
    let (t, n1) := alloc s n
    let (ts, n2) := allocL ss n1
    (t :: ts, n2)
end

/-- consumer actions between two resumptions of the generator -/
inductive Action where
  | send (b : Bool)
  | replace (x : AstId) (s : Shape)
  | remove (x : AstId)
  | setTree (t : Tree) (bound : Nat)     -- an observed mutation of the real tree (correspondence on real programs)
deriving Inhabited

/-- the concrete store: live tree and id counter -/
structure CStore where
  tree : Tree
  next : Nat
  grave : List (AstId × List AstId) := []
deriving Inhabited

def CStore.store (c : CStore) : Store := c.tree.toStore c.next c.grave

/-- nodes of `old` that are not in `new` any more, with the children they had -/
def buried (old new : Tree) : List (AstId × List AstId) :=
  ((Tree.aids old).filter (fun x => !(Tree.aids new).contains x)).map (fun x =>
    (x, match Tree.findA x old with
        | some n => n.kids.map Tree.aid
        | none => []))

def CStore.withTree (c : CStore) (t : Tree) (n : Nat) : CStore :=
  { tree := t, next := n, grave := buried c.tree t ++ c.grave }

def CStore.apply (c : CStore) : Action → CStore
  | .send _ => c
  | .replace x s =>
    match Tree.findA x c.tree with
    | none => c
    | some _ =>
      let (new, n') := alloc s c.next
      c.withTree (Tree.replaceAt x new c.tree) n'
  | .remove x =>
    match Tree.findA x c.tree with
    | none => c
    | some _ => c.withTree (Tree.removeAt x c.tree) c.next
  | .setTree t b => c.withTree t (max b c.next)

/-! ## Executable checks of store well-formedness (`WF`) and of the consumer contract (`Mut`), both defined in
`Pfst/WalkMutLemmas.lean` where the checks are proved sound.  `A` / `F` list the AST / FST ids that may be alive. -/

def nodupB : List Nat → Bool
  | [] => true
  | x :: xs => !xs.contains x && nodupB xs

namespace Store

/-- all children of live nodes, concatenated -/
def allKids (σ : Store) (A : List AstId) : List AstId :=
  A.flatMap (fun x => if (σ.f x).isSome then σ.kids x else [])

def wfB (σ : Store) (A F : List Nat) : Bool :=
  let L := σ.allKids A
  A.all (fun x => match σ.f x with
    | none => true
    | some φ => σ.a φ == some x && decide (x < σ.bound) && nodupB (σ.kids x)
                && (σ.kids x).all (fun k => decide (k < σ.bound) && σ.depth k == σ.depth x + 1)
                && (σ.a σ.rootF == some x || L.contains x))
  && F.all (fun φ => match σ.a φ with
    | none => true
    | some x => σ.f x == some φ && decide (φ < σ.bound))
  && nodupB L

def mutB (σ σ' : Store) (A' F' : List Nat) : Bool :=
  decide (σ.bound ≤ σ'.bound)
  && A'.all (fun x => match σ'.f x with
      | none => true
      | some _ =>
        if x < σ.bound then
          (σ.f x).isSome && σ'.depth x == σ.depth x
          && (σ'.kids x).all (fun k => decide (σ.bound ≤ k) || (σ.kids x).contains k)
        else (σ'.kids x).all (fun k => decide (σ.bound ≤ k)))
  && F'.all (fun φ => match σ'.a φ with
      | none => true
      | some x' =>
        match σ.a φ with
        | none => decide (σ.bound ≤ φ)
        | some x => x' == x || (decide (σ.bound ≤ x') && σ'.depth x' == σ.depth x
            && A'.all (fun p => !((σ'.f p).isSome && (σ'.kids p).contains x')
                                || ((σ.f p).isSome && (σ.kids p).contains x))))

end Store

/-- the checks on two consecutive concrete stores (evaluated by the driver on every mutation of a run) -/
def CStore.wfB (c : CStore) : Bool := c.store.wfB (Tree.aids c.tree) (Tree.fids c.tree)
def CStore.mutB (c c' : CStore) : Bool :=
  c.store.mutB c'.store (Tree.aids c'.tree) (Tree.fids c'.tree) && c'.wfB

end Pfst.WalkMut
