import Pfst.JsonUtil
import Pfst.Match
import Pfst.Gen.Leaf
/-! Driver package for C17: list matcher (model and spec), tree matcher, pre-filter, search. -/
namespace Pfst.Drv.C17
open Lean Pfst.JsonUtil Pfst.Match

partial def parseE (j : Json) : Option EPat := do
  let a ← asArr j
  let tag ← asStr a[0]!
  match tag with
  | "lit" => some (.lit (← asNat a[1]!))
  | "any" => some .any
  | "miss" => some (.lit 1000000)       -- a node pattern with a field the target does not have: never matches
  | "cap" => some (.cap (← asNat a[1]!) (← parseE a[2]!))
  | "ref" => some (.ref (← asNat a[1]!))
  | "and2" => some (.and2 (if isNull a[1]! then none else asNat a[1]!) (← parseE a[2]!)
                          (if isNull a[3]! then none else asNat a[3]!) (← parseE a[4]!))
  | "or2" => some (.or2 (if isNull a[1]! then none else asNat a[1]!) (← parseE a[2]!)
                        (if isNull a[3]! then none else asNat a[3]!) (← parseE a[4]!))
  | _ => none

def parsePairs (j : Json) : Option (List (Nat × Nat)) := do
  (← asArr j).toList.mapM (fun p => do
    let l ← asNats p
    match l with
    | [k, v] => some (k, v)
    | _ => none)

def parseQ (j : Json) : Option QSpec := do
  let mn ← getNat j "mn"
  let mx := getNat j "mx"
  let g ← getBool j "g"
  let tag := getNat j "tag"
  let st ← parsePairs (← get j "st")
  some { mn := mn, mx := mx, greedy := g, tag := tag, static := st }

partial def parseL (j : Json) : Option LPat := do
  let a ← asArr j
  let tag ← asStr a[0]!
  match tag with
  | "e" => some (.elem (← parseE a[1]!))
  | "qs" => some (.qs (← parseQ a[1]!) (← parseE a[2]!))
  | "ql" => some (.ql (← parseQ a[1]!) (← (← asArr a[2]!).toList.mapM parseL))
  | _ => none

partial def parseTree (j : Json) : Option Tree := do
  let a ← asArr j
  some (.node (← asNat a[0]!) (← asNat a[1]!) (← (← asArr a[2]!).toList.mapM parseTree))

def optNat (j : Json) : Option Nat := if isNull j then none else asNat j

mutual
partial def parsePat (j : Json) : Option Pat := do
  let a ← asArr j
  let tag ← asStr a[0]!
  match tag with
  | "wild" => some .wild
  | "node" => some (.node (← asNat a[1]!) (← (← asArr a[2]!).toList.mapM parsePat))
  | "type" => some (.type (← asNat a[1]!))
  | "ctx" => some .ctxInst
  | "types" => some (.types (← asNats a[1]!))
  | "typesF" => some (.typesF (← asNats a[1]!) (← asNat a[2]!) (← (← asArr a[3]!).toList.mapM parsePat))
  | "m" => some (.m (← parsePat a[1]!) (optNat a[2]!) (← parsePairs a[3]!))
  | "mnot" => some (.mnot (← parsePat a[1]!) (optNat a[2]!) (← parsePairs a[3]!))
  | "mmaybe" => some (.mmaybe (← parsePat a[1]!) (optNat a[2]!) (← parsePairs a[3]!))
  | "mor" => some (.mor (← parseTagged a[1]!))
  | "mand" => some (.mand (← parseTagged a[1]!))
  | "ref" => some (.ref (← asNat a[1]!))
  | _ => none
partial def parseTagged (j : Json) : Option (List (Option Nat × Pat)) := do
  (← asArr j).toList.mapM (fun p => do
    let a ← asArr p
    some (optNat a[0]!, ← parsePat a[1]!))
end

def tvalJson : TVal → Json
  | .node t => Json.arr #["n", ofNat t.id]
  | .static n => Json.arr #["s", ofNat n]
  | .empty => Json.arr #["e"]

/-- canonical form: distinct names in increasing order, last binding -/
def envJson (e : TEnv) : Json :=
  let ks := e.foldl (fun acc kv => insertKey kv.1 acc) []
  Json.arr (ks.filterMap (fun k => (tlookup e k).map (fun v => Json.arr #[ofNat k, tvalJson v]))).toArray

def sortNats (l : List Nat) : List Nat := l.foldl (fun acc k => insertKey k acc) []

def K : Kinds := Pfst.Gen.Leaf.kinds

def seqs (nl : Nat) : Nat → List (List Nat)
  | 0 => [[]]
  | n + 1 => (List.range nl).flatMap (fun a => (seqs nl n).map (a :: ·))

/-- all sequences over `nl` letters of length ≤ `maxlen`, in `itertools.product` order per length -/
def allTargets (maxlen nl : Nat) : List (List Nat) := (List.range (maxlen + 1)).flatMap (seqs nl)

def optDict (o : Option Dict) : Json := ofOpt (fun d => ofNats (encDict d)) o

def dispatch (f : String) (j : Json) : Option Json :=
  match f with
  | "C17.list" => some <| Id.run do
      let some ps := (get j "ps").bind (fun a => (asArr a).bind (fun l => l.toList.mapM parseL))
        | return Json.mkObj [("err", "bad ps")]
      let some xs := (get j "xs").bind asNats | return Json.mkObj [("err", "bad xs")]
      let m := matchList ps xs
      let s := specMatch ps xs
      return Json.mkObj [("m", ofOpt (fun d => ofNats (encDict d)) m), ("s", ofOpt (fun d => ofNats (encDict d)) s)]
  | "C17.listAll" => some <| Id.run do
      let some ps := (get j "ps").bind (fun a => (asArr a).bind (fun l => l.toList.mapM parseL))
        | return Json.mkObj [("err", "bad ps")]
      let some maxlen := getNat j "maxlen" | return Json.mkObj [("err", "bad maxlen")]
      let some nl := getNat j "nl" | return Json.mkObj [("err", "bad nl")]
      let ts := allTargets maxlen nl
      return Json.mkObj [("m", Json.arr (ts.map (fun xs => optDict (matchList ps xs))).toArray)]
  | "C17.tree" => some <| Id.run do
      let some p := (get j "p").bind parsePat | return Json.mkObj [("err", "bad pat")]
      let some t := (get j "t").bind parseTree | return Json.mkObj [("err", "bad tree")]
      return Json.mkObj [("m", ofOpt envJson (matchNode K p [] t))]
  | "C17.search" => some <| Id.run do
      let some p := (get j "p").bind parsePat | return Json.mkObj [("err", "bad pat")]
      let some t := (get j "t").bind parseTree | return Json.mkObj [("err", "bad tree")]
      return Json.mkObj [("found", ofNats ((search K p t).map Tree.id)),
                         ("walk", ofNats (((walk K t).filter (fun n => (matchNode K p [] n).isSome)).map Tree.id)),
                         ("leaf", ofOpt (fun l => ofNats (sortNats l)) (leafAsts K p))]
  | "C17.searchOn" => some <| Id.run do
      let some p := (get j "p").bind parsePat | return Json.mkObj [("err", "bad pat")]
      let some t := (get j "t").bind parseTree | return Json.mkObj [("err", "bad tree")]
      let on := match getStr j "on" with
        | some "leave" => On.leave
        | some "both" => On.both
        | _ => On.enter
      return Json.mkObj [("events", Json.arr ((searchEvents K p on t).map (fun ev =>
        Json.arr #[ofNat ev.1.id, Json.bool ev.2.1, envJson ev.2.2])).toArray)]
  | _ => none

end Pfst.Drv.C17
