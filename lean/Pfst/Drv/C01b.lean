import Pfst.JsonUtil
import Pfst.Sep
/-! Driver package for the separator / delimiter primitives (C01b.*).
Lines travel as arrays of code points.  A result that contains new lines is sent as a line diff against the input
(`[common prefix, number of old lines replaced, new lines]`); the harness computes the same diff from pfst's lines. -/
namespace Pfst.Drv.C01b
open Lean Pfst.JsonUtil Pfst.Scan Pfst.Sep

def parseLine (j : Json) : Option Line := do
  let l ← asNats j
  some (l.map Char.ofNat)

def parseLines (j : Json) : Option (List Line) := do
  (← asArr j).toList.mapM parseLine

def lineJson (l : Line) : Json := ofNats (l.map Char.toNat)

def commonPrefix : List Line → List Line → Nat
  | a :: r, b :: s => if a == b then commonPrefix r s + 1 else 0
  | _, _ => 0

/-- `[p, k, mid]`: `new = old[:p] ++ mid ++ old[p+k:]` with `p` the longest common prefix and then the longest common
suffix of what remains -/
def diffJson (old new : List Line) : Json :=
  let p := commonPrefix old new
  let o := old.drop p
  let n := new.drop p
  let s := commonPrefix o.reverse n.reverse
  Json.arr #[ofNat p, ofNat (o.length - s), Json.arr ((n.take (n.length - s)).map lineJson).toArray]

def posJson : Option (Nat × Nat) → Json
  | none => Json.null
  | some p => ofNats [p.1, p.2]

def parseDel (n : Nat) : Del := match n with | 1 => .yes | 2 => .aesth | _ => .no

def parseLoc (j : Json) : Option Loc := do
  match (← asNats j) with
  | [a, b, c, d] => some ⟨a, b, c, d⟩
  | _ => none

def parsePair (j : Json) : Option (Nat × Nat) := do
  match (← asNats j) with
  | [a, b] => some (a, b)
  | _ => none

def err (s : String) : Json := Json.mkObj [("err", s)]

def dispatch (f : String) (j : Json) : Option Json :=
  match f with
  | "C01b.trailSep" => some <| Id.run do
      -- qs: [ln, col, endLn, endCol, sep index, del (0 False, 1 True, 2 None)]
      let some lines := (get j "lines").bind parseLines | return err "bad lines"
      let some seps := (get j "seps").bind parseLines | return err "bad seps"
      let some qs := (getArr j "qs").bind (fun a => a.toList.mapM asNats) | return err "bad qs"
      return Json.arr (qs.map (fun q =>
        match q with
        | [ln, col, el, ec, si, d] =>
          let r := trailSep lines ln col el ec (seps.getD si [',']) (parseDel d)
          Json.arr #[posJson r.pos,
            (match r.del with | none => Json.null | some (a, b, c) => ofNats [a, b, c]),
            diffJson lines r.lines]
        | _ => err "bad q")).toArray
  | "C01b.insSep" => some <| Id.run do
      -- qs: [ln, col, space, endLn, endCol, sep index]
      let some lines := (get j "lines").bind parseLines | return err "bad lines"
      let some seps := (get j "seps").bind parseLines | return err "bad seps"
      let some qs := (getArr j "qs").bind (fun a => a.toList.mapM asNats) | return err "bad qs"
      return Json.arr (qs.map (fun q =>
        match q with
        | [ln, col, sp, el, ec, si] =>
          let r := maybeInsSep lines ln col (sp == 1) el ec (seps.getD si [','])
          Json.arr #[
            (match r.put with | none => Json.null | some (a, b, s) => Json.arr #[ofNat a, ofNat b, lineJson s]),
            diffJson lines r.lines]
        | _ => err "bad q")).toArray
  | "C01b.isDelim" => some <| Id.run do
      let some lines := (get j "lines").bind parseLines | return err "bad lines"
      let some self := (get j "self").bind parseLoc | return err "bad self"
      let some n := getNat j "n" | return err "bad n"
      let f0 := ((get j "f0").bind parseLoc).getD ⟨0, 0, 0, 0⟩
      let fn := ((get j "fn").bind parseLoc).getD ⟨0, 0, 0, 0⟩
      let some d := (get j "delims").bind parseLine | return err "bad delims"
      return Json.bool (isDelimitedSeq lines self n f0 fn (d.getD 0 '(') (d.getD 1 ')'))
  | "C01b.fixTuple" => some <| Id.run do
      let some lines := (get j "lines").bind parseLines | return err "bad lines"
      let some self := (get j "self").bind parseLoc | return err "bad self"
      let some n := getNat j "n" | return err "bad n"
      let f0 := ((get j "f0").bind parseLoc).getD ⟨0, 0, 0, 0⟩
      let fn := ((get j "fn").bind parseLoc).getD ⟨0, 0, 0, 0⟩
      let p0 := ((get j "p0").bind parsePair).getD (0, 0)
      let pn := ((get j "pn").bind parsePair).getD (0, 0)
      let isDelim := (get j "isDelim").bind asBool
      let extra := ((get j "extra").bind parseLine).getD []
      let a : TupIn := { self := self, nElts := n, f0 := f0, fn := fn, p0 := p0, pn := pn, isDelim := isDelim,
                         parIfNeeded := (getBool j "par").getD true, isRoot := (getBool j "root").getD false,
                         enclosed := (getBool j "enclosed").getD false, namedExpr := (getBool j "named").getD false,
                         extra := extra }
      let r := fixTuple lines a
      return Json.arr #[Json.bool r.delimited, diffJson lines r.lines]
  | "C01b.singleton" => some <| Id.run do
      let some lines := (get j "lines").bind parseLines | return err "bad lines"
      let some n := getNat j "n" | return err "bad n"
      let some fe := (get j "f0End").bind parsePair | return err "bad f0End"
      let some se := (get j "selfEnd").bind parsePair | return err "bad selfEnd"
      let r := maybeAddSingletonComma lines n fe se ((getBool j "isDelim").getD false)
      return Json.arr #[
        (match r.put with | none => Json.null | some (a, b, s) => Json.arr #[ofNat a, ofNat b, lineJson s]),
        diffJson lines r.lines]
  | "C01b.joined" => some <| Id.run do
      -- qs: [ln, col, hasEnd, endLn, endCol]
      let some lines := (get j "lines").bind parseLines | return err "bad lines"
      let extra := ((get j "extra").bind parseLine).getD []
      let some qs := (getArr j "qs").bind (fun a => a.toList.mapM asNats) | return err "bad qs"
      return Json.arr (qs.map (fun q =>
        match q with
        | [ln, col, he, el, ec] =>
          diffJson lines (fixJoinedAlnums extra lines ln col (if he == 1 then some (el, ec) else none))
        | _ => err "bad q")).toArray
  | "C01b.lineCont" => some <| Id.run do
      -- qs: [line index, endCol, delComments, addLconts]
      let some lines := (get j "lines").bind parseLines | return err "bad lines"
      let some qs := (getArr j "qs").bind (fun a => a.toList.mapM asNats) | return err "bad qs"
      return Json.arr (qs.map (fun q =>
        match q with
        | [i, ec, dc, al] =>
          (match lineContLine (lineAt lines i) ec (dc == 1) (al == 1) with
           | none => Json.null
           | some l => lineJson l)
        | _ => err "bad q")).toArray
  | _ => none

end Pfst.Drv.C01b
