import Pfst.JsonUtil
import Pfst.Modifying
/-! Driver package for C12: run a well-nested history of registry events through the model of `_Modifying`. -/
namespace Pfst.Drv.C12
open Lean Pfst.JsonUtil Pfst.Modifying

def parseRaw (j : Json) : Option RawOpt :=
  match j with
  | .bool false => some .off
  | .bool true => some .on
  | .str "auto" => some .auto
  | _ => none

/-- programs:
  ["raise", catchable] | ["with", root, node, raw, force, [body]] | ["unpar", root, node, do1, [b1], do2, [b2]]
  | ["rootrep", root, node, guardFails, [body]] | ["try", catchAll, [body]] | ["put", root, node, raw(false|"auto"|true), force, guardFails, [handler], [rawBody]] -/
partial def parseProg (j : Json) : Option Prog := do
  let a ← asArr j
  let tag ← asStr (← a[0]?)
  let list (j : Json) : Option (List Prog) := do (← asArr j).toList.mapM parseProg
  match tag with
  | "raise" => some (.raise (← asBool (← a[1]?)))
  | "with" =>
    some (.withM ⟨← asNat (← a[1]?), ← asNat (← a[2]?)⟩ (← asBool (← a[3]?)) (← asBool (← a[4]?)) (← list (← a[5]?)))
  | "unpar" =>
    some (.unpar ⟨← asNat (← a[1]?), ← asNat (← a[2]?)⟩ (← asBool (← a[3]?)) (← list (← a[4]?))
                 (← asBool (← a[5]?)) (← list (← a[6]?)))
  | "try" => some (.try_ (← asBool (← a[1]?)) (← list (← a[2]?)))
  | "put" =>
    some (.put ⟨← asNat (← a[1]?), ← asNat (← a[2]?)⟩ (← parseRaw (← a[3]?)) (← asBool (← a[4]?)) (← asBool (← a[5]?))
               (← list (← a[6]?)) (← list (← a[7]?)))
  | "rootrep" =>
    some (.rootReplace ⟨← asNat (← a[1]?), ← asNat (← a[2]?)⟩ (← asBool (← a[3]?)) (← list (← a[4]?)))
  | _ => none

def regJson (r : Reg) : Json :=
  Json.arr (r.map (fun (k, (n, d)) => ofNats [k, n, d])).toArray

def excJson : Option Exc → Json
  | none => Json.null
  | some (.user true) => "user-catchable"
  | some (.user false) => "user"
  | some .nested => "nested"
  | some .internal => "internal"
  | some .guard => "guard"

def dispatch (f : String) (j : Json) : Option Json :=
  match f with
  | "C12.run" => some <| Id.run do
      let some ps := (get j "prog").bind (fun j => do (← asArr j).toList.mapM parseProg)
        | return Json.mkObj [("err", "bad prog")]
      let r := runList ps []
      return Json.mkObj [("trace", Json.arr (r.trace.map regJson).toArray), ("exc", excJson r.exc),
                         ("reg", regJson r.reg)]
  | _ => none

end Pfst.Drv.C12
