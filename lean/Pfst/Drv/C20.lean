import Pfst.JsonUtil
import Pfst.Options
/-! Driver package for C20: option programs on one thread (`C20.run`), on several threads under a schedule of
lock-step turns (`C20.threads`), and `check_options` on a whole mapping (`C20.check`). -/
namespace Pfst.Drv.C20
open Lean Pfst.JsonUtil Pfst.Options

def parseKvs (j : Json) : Option Kvs := do
  let a ← asArr j
  a.toList.mapM (fun p => do
    let l ← asNats p
    match l with
    | [n, v] => some (n, v)
    | _ => none)

/-- statement = ["get", n, kvs] | ["call", kvs, ...] | ["set", kvs] | ["block", kvs, [stmt..]] | ["raise"] |
    ["catch", [stmt..]] ; a program is a list of statements (folded into `seq`) -/
partial def parseStmts (j : Json) : Option Prog := do
  let a ← asArr j
  let ps ← a.toList.mapM parseStmt
  some (ps.foldr Prog.seq Prog.skip)
where
  parseStmt (j : Json) : Option Prog := do
    let a ← asArr j
    let k ← asStr (← a[0]?)
    match k with
    | "get" => some (.get (← asNat (← a[1]?)) (← parseKvs (← a[2]?)))
    | "call" => some (.call (← parseKvs (← a[1]?)))
    | "set" => some (.set (← parseKvs (← a[1]?)))
    | "block" => some (.block (← parseKvs (← a[1]?)) (← parseStmts (← a[2]?)))
    | "raise" => some .raise
    | "catch" => some (.catch (← parseStmts (← a[1]?)))
    | _ => none

def mapJson (m : OptMap) : Json := Json.arr (m.map (fun (n, v) => ofNats [n, v])).toArray
def optJson (o : Option Val) : Json := ofOpt ofNat o
def optsJson (l : List (Option Val)) : Json := Json.arr (l.map optJson).toArray

def errJson (e : Err) (after : OptMap) : Json :=
  match e with
  | .badName n => Json.arr #["err", "name", ofNat n, mapJson after]
  | .badValue n _ => Json.arr #["err", "value", ofNat n, mapJson after]
  | .crash _ _ => Json.arr #["err", "crash", ofInt (-1), mapJson after]

def obsJson : Obs → Json
  | .val r a => Json.arr #["val", ofNat r, mapJson a]
  | .view vs es a => Json.arr #["view", ofNats vs, optsJson es, mapJson a]
  | .err e a => errJson e a
  | .setOk old a => Json.arr #["set", mapJson old, mapJson a]
  | .enter old a => Json.arr #["enter", mapJson old, mapJson a]
  | .exit a => Json.arr #["exit", mapJson a]
  | .raised a => Json.arr #["raise", mapJson a]

def traceJson (tr : List Obs) : Json := Json.arr (tr.map obsJson).toArray

def resJson (m : OptMap) (tr : List Obs) (exc : Bool) : Json :=
  Json.mkObj [("trace", traceJson tr), ("exc", Json.bool exc), ("final", mapJson m)]

def excOf (s : TS) : Bool := match s.ctl with | .exc => true | _ => false

def dispatch (f : String) (j : Json) : Option Json :=
  match f with
  | "C20.run" => some <| Id.run do
      let some p := (get j "prog").bind parseStmts | return Json.mkObj [("err", "bad prog")]
      let r := execL realCfg p realCfg.defaults
      return resJson r.m r.tr r.exc
  | "C20.threads" => some <| Id.run do
      let some pj := getArr j "progs" | return Json.mkObj [("err", "bad progs")]
      let some ps := pj.toList.mapM parseStmts | return Json.mkObj [("err", "bad prog")]
      let some sched := (get j "sched").bind asNats | return Json.mkObj [("err", "bad sched")]
      let n := ps.length
      let idx := List.range n
      let w0 : World := ⟨[], (idx.zip ps).map (fun (t, p) => (t, ⟨.run p, [], []⟩))⟩
      let fuel := (ps.map Prog.size).foldl Nat.max 0 + 4
      let w := runVis realCfg fuel w0 sched
      let per := idx.map (fun t =>
        let s := aget idle t w.ts
        Json.mkObj [("trace", traceJson s.tr), ("exc", Json.bool (excOf s)), ("final", mapJson (getT realCfg t w.σ)),
                    ("halted", Json.bool s.halted)])
      -- the same programs run alone (big-step): equal by `Pfst.C20.interleave_exec`, recomputed here as a cross-check
      let solo := (idx.zip ps).all (fun (t, p) =>
        let s := aget idle t w.ts
        let r := execL realCfg p realCfg.defaults
        !s.halted || (decide (s.tr = r.tr) && decide (getT realCfg t w.σ = r.m) && (excOf s == r.exc)))
      return Json.mkObj [("threads", Json.arr per.toArray), ("solo_equal", Json.bool solo)]
  | "C20.phase" => some <| Id.run do
      -- thread dict = defaults updated with "defaults"; what a phase sees for each of "keys"
      let some dkv := (get j "defaults").bind parseKvs | return Json.mkObj [("err", "bad defaults")]
      let some top := (get j "top").bind parseKvs | return Json.mkObj [("err", "bad top")]
      let some ks := (get j "keys").bind asNats | return Json.mkObj [("err", "bad keys")]
      let given : Option Kvs := match get j "given" with
        | some g => if isNull g then none else parseKvs g
        | none => none
      let m := update realCfg.defaults dkv
      return Json.arr (ks.map (fun k => ofNats [k, phaseView realCfg m top given k])).toArray
  | "C20.trivia" => some <| Id.run do
      let some ix := (get j "toks").bind asNats | return Json.mkObj [("err", "bad toks")]
      let ts := ix.map realTrivTok
      let tup := (getBool j "tuple").getD true
      match tup, ts with
      | false, [t] => return Json.bool (checkTrivia (.one t))
      | false, _ => return Json.mkObj [("err", "one token expected")]
      | true, _ => return Json.bool (checkTrivia (.tup ts))
  | "C20.check" => some <| Id.run do
      let some kvs := (get j "kvs").bind parseKvs | return Json.mkObj [("err", "bad kvs")]
      let all := (getBool j "all").getD true
      match checkOptions realCfg all kvs with
      | none => return Json.null
      | some (.badName n) => return Json.arr #["name", ofNat n]
      | some (.badValue n _) => return Json.arr #["value", ofNat n]
      | some (.crash _ _) => return Json.arr #["crash", ofInt (-1)]
  | _ => none

end Pfst.Drv.C20
