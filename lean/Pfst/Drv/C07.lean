import Pfst.JsonUtil
import Pfst.Copy
/-! Driver package for C07: `extract` (= `_make_fst_and_dedent`, copy and cut), `dedent` / `indent` (`_dedent_lns`,
`_indent_lns` on a root). Strings are sent as JSON strings, lines as arrays of strings. -/
namespace Pfst.Drv.C07
open Lean Pfst.JsonUtil Pfst.Offset Pfst.Copy

def parsePos (j : Json) : Option (Option Pos) :=
  if isNull j then some none else do
    let l ← asInts j
    match l with
    | [a, b, c, d] => some (some ⟨a, b, c, d⟩)
    | _ => none

/-- tree = [id, pos|null, deco|null, [kids...]] -/
partial def parseNode (j : Json) : Option Node := do
  let a ← asArr j
  if a.size != 4 then none
  let i ← asNat a[0]!
  let p ← parsePos a[1]!
  let d := if isNull a[2]! then none else asInt a[2]!
  let ks ← (← asArr a[3]!).toList.mapM parseNode
  some (.mk i p d ks)

def parseLines (j : Json) : Option Lines := do
  let l ← asStrs j
  some (l.map String.toList)

def parseOptLines (j : Option Json) : Option (Option Lines) :=
  match j with
  | none => some none
  | some j => if isNull j then some none else (parseLines j).map some

def parseLoc (j : Json) : Option Loc := do
  let l ← asNats j
  match l with
  | [a, b, c, d] => some ⟨a, b, c, d⟩
  | _ => none

def posJson (p : Option Pos) : Json :=
  match p with
  | none => Json.null
  | some p => ofInts [p.lno, p.col, p.elno, p.ecol]

def linesJson (L : Lines) : Json := ofStrs (L.map String.ofList)

def treeJson (t : Node) : Json :=
  Json.arr ((flatten t).map (fun (i, p) => Json.arr #[ofNat i, posJson p])).toArray

def err (s : String) : Json := Json.mkObj [("err", s)]

def dispatch (f : String) (j : Json) : Option Json :=
  match f with
  | "C07.extract" => some <| Id.run do
      let some L := (get j "lines").bind parseLines | return err "bad lines"
      let some sub := (get j "tree").bind parseNode | return err "bad tree"
      let some indent := getStr j "indent" | return err "bad indent"
      let some loc := (get j "loc").bind parseLoc | return err "bad loc"
      let some pfx := parseOptLines (get j "pfx") | return err "bad pfx"
      let some sfx := parseOptLines (get j "sfx") | return err "bad sfx"
      let strLns := ((get j "str_lns").bind asNats).getD []
      let a : CopyArgs := { indent := indent.toList, loc, pfx, sfx, strLns }
      match (get j "put_loc").bind parseLoc with
      | none =>
        let r := copyNode ⟨L, sub⟩ sub a
        return Json.mkObj [("lines", linesJson r.2.lines), ("pos", treeJson r.2.tree),
                           ("src_lines", linesJson r.1.lines)]
      | some pl =>
        let some put := parseOptLines (get j "put") | return err "bad put"
        let some st := (get j "src_tree").bind parseNode | return err "bad src_tree"
        let r := cutNode ⟨L, st⟩ sub a pl put
        return Json.mkObj [("lines", linesJson r.2.lines), ("pos", treeJson r.2.tree),
                           ("src_lines", linesJson r.1.lines), ("src_pos", treeJson r.1.tree)]
  | "C07.dedent" | "C07.indent" => some <| Id.run do
      let some L := (get j "lines").bind parseLines | return err "bad lines"
      let some t := (get j "tree").bind parseNode | return err "bad tree"
      let some indent := getStr j "indent" | return err "bad indent"
      let some skip := getNat j "skip" | return err "bad skip"
      let strLns := ((get j "str_lns").bind asNats).getD []
      let r := if f == "C07.dedent" then dedentLns indent.toList skip strLns L t
               else indentLns indent.toList skip strLns L t
      return Json.mkObj [("lines", linesJson r.1), ("pos", treeJson r.2)]
  | _ => none

end Pfst.Drv.C07
