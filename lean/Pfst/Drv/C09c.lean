import Pfst.JsonUtil
import Pfst.Drv.C09
import Pfst.Parse
/-! Driver package for C09c: run the executable precedence-climbing parser on a token list. -/
namespace Pfst.Drv.C09c
open Lean Pfst.JsonUtil Pfst.Grammar Pfst.Parse

def clsJson : Cls → Json
  | .lad l => Json.arr #["lad", ofNat l]
  | .named => Json.arr #["named"] | .tuple => Json.arr #["tuple"] | .yieldc => Json.arr #["yield"]
  | .star => Json.arr #["star"] | .intlit => Json.arr #["int"]

/-- only the kinds the parser can produce; anything else is reported as `["?"]` -/
def kindJson : Kind → Json
  | .bin op => Json.arr #["bin", ofNat op]
  | .un op => Json.arr #["un", ofNat op]
  | .not_ => Json.arr #["not"]
  | .boolop isOr => Json.arr #["boolop", Json.bool isOr]
  | .cmp ops => Json.arr #["cmp", ofNats ops]
  | .ifexp => Json.arr #["ifexp"]
  | .lambda => Json.arr #["lambda"]
  | .await_ => Json.arr #["await"]
  | .attr n => Json.arr #["attr", ofNat n]
  | .subscr => Json.arr #["subscr"]
  | .call na kws => Json.arr #["call", ofNat na, ofNats kws]
  | _ => Json.arr #["?"]

partial def eJson : E → Json
  | .leaf t c => Json.arr #["leaf", Pfst.Drv.C09.tokJson t, clsJson c]
  | .node k kids => Json.arr #["node", kindJson k, Json.arr (kids.map eJson).toArray]

def clsCode : Cls → Nat
  | .lad l => l | .named => 20 | .tuple => 21 | .yieldc => 22 | .star => 23 | .intlit => 24

/-- a covering policy: what the grammar needs, plus pseudo-random extra parentheses (none for seed 0) -/
def policy (seed : Nat) (s : Slot) (c : Cls) : Bool :=
  specNeed s c || (parenable c && decide (seed ≠ 0) && (s.minLad * 31 + clsCode c * 7 + seed) % 3 == 0)

def dispatch (f : String) (j : Json) : Option Json :=
  match f with
  | "C09c.parse" => some <| Id.run do
      -- tokens + slot → the tree of the whole phrase (or null), and the longest-prefix parse (tree, #unconsumed tokens)
      let some ta := getArr j "toks" | return Json.mkObj [("err", "bad toks")]
      let some toks := ta.toList.mapM Pfst.Drv.C09.parseTok | return Json.mkObj [("err", "bad tok")]
      let some s := (get j "slot").bind Pfst.Drv.C09.parseSlot | return Json.mkObj [("err", "bad slot")]
      let whole : Json := match parse s toks with
        | some e => eJson e
        | none => Json.null
      let pre : Json := match parseE s toks with
        | some (e, rest) => Json.mkObj [("e", eJson e), ("rest", ofNat rest.length)]
        | none => Json.null
      return Json.mkObj [("e", whole), ("prefix", pre)]
  | "C09c.roundtrip" => some <| Id.run do
      -- tree + slot + policy seed + continuation: print with an over-parenthesising covering policy (seed 0 = minimal),
      -- parse the phrase, and parse it in front of the continuation `rest`
      let some e := (get j "e").bind Pfst.Drv.C09.parseE | return Json.mkObj [("err", "bad e")]
      let some s := (get j "slot").bind Pfst.Drv.C09.parseSlot | return Json.mkObj [("err", "bad slot")]
      let seed := (getNat j "seed").getD 0
      let some ra := getArr j "rest" | return Json.mkObj [("err", "bad rest")]
      let some rest := ra.toList.mapM Pfst.Drv.C09.parseTok | return Json.mkObj [("err", "bad rest tok")]
      let ts := pr (policy seed) s e
      let whole : Json := match parse s ts with
        | some e' => eJson e'
        | none => Json.null
      let pre : Json := match parseE s (ts ++ rest) with
        | some (e', r) => Json.mkObj [("e", eJson e'), ("rest", ofNat r.length)]
        | none => Json.null
      return Json.mkObj [("wf", Json.bool (wf s e)), ("frag", Json.bool (inFrag e)),
        ("toks", Json.arr (ts.map Pfst.Drv.C09.tokJson).toArray), ("e", whole), ("prefix", pre),
        ("follow", Json.bool (follow s.minLad rest))]
  | _ => none

end Pfst.Drv.C09c
