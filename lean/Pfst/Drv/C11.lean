import Pfst.JsonUtil
import Pfst.OffsetLemmas
import Pfst.Clip
/-! Driver package for C11: `offset` (tree walk) and `params_offset`. -/
namespace Pfst.Drv.C11
open Lean Pfst.JsonUtil Pfst.Offset

def parsePos (j : Json) : Option (Option Pos) :=
  if isNull j then some none else do
    let l ← asInts j
    match l with
    | [a, b, c, d] => some (some ⟨a, b, c, d⟩)
    | _ => none

/-- tree = [id, pos|null, deco|null, [kids...]] -/
partial def parseNode (j : Json) : Option Node := do
  let a ← asArr j
  if a.size != 4 then none
  let i ← asNat a[0]!
  let p ← parsePos a[1]!
  let d := if isNull a[2]! then none else asInt a[2]!
  let ks ← (← asArr a[3]!).toList.mapM parseNode
  some (.mk i p d ks)

def parseTri (j : Json) : Option Tri :=
  match j with
  | .null => some .n
  | .bool true => some .t
  | .bool false => some .f
  | _ => none

def parseParams (j : Json) : Option Params := do
  let lno ← getInt j "lno"
  let colo ← getInt j "colo"
  let dln ← getInt j "dln"
  let dcol ← getInt j "dcol"
  let tail ← parseTri (← get j "tail")
  let head ← parseTri (← get j "head")
  let ex := (get j "exclude").bind asNat
  let oe := (getBool j "offset_excluded").getD true
  some { lno, colo, dln, dcol, tail, head, exclude := ex, offsetExcluded := oe }

def posJson (p : Option Pos) : Json :=
  match p with
  | none => Json.null
  | some p => ofInts [p.lno, p.col, p.elno, p.ecol]

def dispatch (f : String) (j : Json) : Option Json :=
  match f with
  | "C11.offset" => some <| Id.run do
      let some t := (get j "tree").bind parseNode | return Json.mkObj [("err", "bad tree")]
      let some π := (get j "params").bind parseParams | return Json.mkObj [("err", "bad params")]
      let self := (getBool j "self").getD true
      let r := if self then offsetTree π t else offsetKids π t
      let fl := flatten r
      return Json.mkObj [("pos", Json.arr (fl.map (fun (i, p) => Json.arr #[ofNat i, posJson p])).toArray),
                         ("geo", Json.bool (geo t))]
  | "C11.put_src_offset" => some <| Id.run do
      let some t := (get j "tree").bind parseNode | return Json.mkObj [("err", "bad tree")]
      let some self := getNat j "self" | return Json.mkObj [("err", "bad self")]
      let some l := (get j "a").bind asInts | return Json.mkObj [("err", "bad args")]
      match l with
      | [nPut, ln, endLn, ePre, putLast, sPre] =>
        let po := paramsOffset nPut ln endLn ePre putLast sPre
        let fl := flatten (putSrcOffset self po t)
        return Json.mkObj [("pos", Json.arr (fl.map (fun (i, p) => Json.arr #[ofNat i, posJson p])).toArray),
                           ("geo", Json.bool (geo t))]
      | _ => return Json.mkObj [("err", "bad args")]
  | "C11.params_offset" => some <| Id.run do
      let some l := (get j "a").bind asInts | return Json.mkObj [("err", "bad args")]
      match l with
      | [nPut, ln, endLn, ePre, putLast, sPre] =>
        let r := paramsOffset nPut ln endLn ePre putLast sPre
        return ofInts [r.1, r.2.1, r.2.2.1, r.2.2.2]
      | _ => return Json.mkObj [("err", "bad args")]
  | "C11.clip" => some <| Id.run do
      let some lens := (get j "lens").bind asInts | return Json.mkObj [("err", "bad lens")]
      let some cs := (get j "c").bind asArr | return Json.mkObj [("err", "bad coords")]
      if cs.size != 4 then return Json.mkObj [("err", "bad coords")]
      let co (x : Json) : Pfst.Clip.Coord := match asInt x with
        | some i => .idx i
        | none => .fin
      match Pfst.Clip.clip (lens.map Int.toNat) (co cs[0]!) (co cs[1]!) (co cs[2]!) (co cs[3]!) with
      | .ok a b c d => return Json.mkObj [("ok", ofInts [a, b, c, d])]
      | .errLine => return Json.mkObj [("refused", "line")]
      | .errCol => return Json.mkObj [("refused", "col")]
  | _ => none

end Pfst.Drv.C11
