import Pfst.JsonUtil
import Pfst.Props.C01
/-! Driver package for C01: one-dimensional replacement model and the well-formedness checker. -/
namespace Pfst.Drv.C01
open Lean Pfst.JsonUtil Pfst.Edit

/-- tree = [id, [s, e], [kids...]] -/
partial def parseT (j : Json) : Option T := do
  let a ← asArr j
  if a.size != 3 then none
  let i ← asNat a[0]!
  let sp ← asNats a[1]!
  match sp with
  | [s, e] =>
    let ks ← (← asArr a[2]!).toList.mapM parseT
    some (.mk i ⟨s, e⟩ ks)
  | _ => none

def flatJson (t : T) : Json :=
  Json.arr ((flattenT t).map (fun (i, sp) => Json.arr #[ofNat i, ofNat sp.s, ofNat sp.e])).toArray

def dispatch (f : String) (j : Json) : Option Json :=
  match f with
  | "C01.wf" => some <| Id.run do
      let some t := (get j "tree").bind parseT | return Json.mkObj [("err", "bad tree")]
      return Json.bool (wfT t)
  | "C01.replace" => some <| Id.run do
      let some t := (get j "tree").bind parseT | return Json.mkObj [("err", "bad tree")]
      let some sub := (get j "sub").bind parseT | return Json.mkObj [("err", "bad sub")]
      let some path := (get j "path").bind asNats | return Json.mkObj [("err", "bad path")]
      let some s := getNat j "s" | return Json.mkObj [("err", "bad s")]
      let some e := getNat j "e" | return Json.mkObj [("err", "bad e")]
      let some n := getNat j "newlen" | return Json.mkObj [("err", "bad newlen")]
      let ed : Ed Unit := ⟨s, e, List.replicate n ()⟩
      let st : Pfst.C01.Step Unit := ⟨ed, sub, path⟩
      let ok := Pfst.C01.applicable st t
      let r := replaceAt ed sub path t
      return Json.mkObj [("applicable", Json.bool ok), ("wf_pre", Json.bool (wfT t)), ("wf_post", Json.bool (wfT r)),
                         ("flat", flatJson r)]
  | _ => none

end Pfst.Drv.C01
