import Pfst.JsonUtil
import Pfst.Raw
/-! Driver package for C10: `clip` (clip_src_loc), `plan` (region + wrapper + text handed to the parser + return value),
`tree` (tree effect of a successful statement-level reparse). -/
namespace Pfst.Drv.C10
open Lean Pfst.JsonUtil Pfst.Raw

def toLine (s : String) : Line := s.toList
def ofLine (l : Line) : Json := Json.str (String.ofList l)
def ofLines (ls : Lines) : Json := Json.arr (ls.map ofLine).toArray
def getLines (j : Json) (k : String) : Option Lines := do
  let a ← getArr j k
  let ss ← a.toList.mapM asStr
  some (ss.map toLine)

def parseCoord (j : Json) : Option Coord :=
  match j with
  | .str "end" => some .endc
  | _ => (asInt j).map .idx

def parseKind (s : String) : Kind :=
  match s with
  | "match_case" => .matchCase
  | "ExceptHandler" => .exceptHandler
  | "Match" => .match_
  | "Try" => .try_
  | "TryStar" => .tryStar
  | "block" => .block
  | _ => .simple

def parseFacts (j : Json) : Option Facts := do
  let kind := parseKind (← getStr j "kind")
  let isElif ← getBool j "is_elif"
  let selfIsElif ← getBool j "self_is_elif"
  let isRoot ← getBool j "is_root"
  let bloc ← (← get j "bloc").getArr?.toOption
  let b ← bloc.toList.mapM asNat
  let (pln, pcol, pendLn, pendCol) ← match b with | [a, b, c, d] => some (a, b, c, d) | _ => none
  let bh : Nat × Nat := match (get j "blkhead_end").bind asNats with | some [a, b] => (a, b) | _ => (0, 0)
  let indent := ((getStr j "indent").getD "").toList
  some { kind, isElif, selfIsElif, isRoot, pln, pcol, pendLn, pendCol, blkheadEnd := bh, indent }

def pathStr : PathKind → String
  | .body => "body0" | .body2 => "body0.body0" | .bodyOrelse => "body0.orelse0" | .body2Orelse => "body0.body0.orelse0"
  | .bodyHandlers => "body0.handlers0" | .body2Handlers => "body0.body0.handlers0" | .bodyCases => "body0.cases0"
  | .special => "special"

def parsePos (j : Json) : Option (Option Pos) :=
  if isNull j then some none else do
    let l ← asInts j
    match l with
    | [a, b, c, d] => some (some ⟨a, b, c, d⟩)
    | _ => none

/-- node = [kind, pos|null, [kids...]] -/
partial def parseNode (j : Json) : Option Node := do
  let a ← asArr j
  if a.size != 3 then none
  let k ← asNat a[0]!
  let p ← parsePos a[1]!
  let ks ← (← asArr a[2]!).toList.mapM parseNode
  some (.mk k p ks)

/-- frame = [kind, pos|null, [left...], [right...]] -/
def parseFrame (j : Json) : Option Frame := do
  let a ← asArr j
  if a.size != 4 then none
  let k ← asNat a[0]!
  let p ← parsePos a[1]!
  let l ← (← asArr a[2]!).toList.mapM parseNode
  let r ← (← asArr a[3]!).toList.mapM parseNode
  some { kind := k, pos := p, left := l, right := r }

/-- blocks = [body, handlers, orelse, finalbody, cases], each null | [nodes] -/
def parseBlocks (j : Json) : Option Blocks := do
  let a ← asArr j
  if a.size != 5 then none
  let one (x : Json) : Option (Option (List Node)) :=
    if isNull x then some none else do
      let l ← (← asArr x).toList.mapM parseNode
      some (some l)
  some { body := ← one a[0]!, handlers := ← one a[1]!, orelse := ← one a[2]!, finalbody := ← one a[3]!, cases := ← one a[4]! }

def posJson (p : Option Pos) : Json :=
  match p with
  | none => Json.null
  | some p => ofInts [p.lno, p.col, p.elno, p.ecol]

def err (s : String) : Json := Json.mkObj [("err", Json.str s)]

def dispatch (f : String) (j : Json) : Option Json :=
  match f with
  | "C10.clip" => some <| Id.run do
      let some lines := getLines j "lines" | return err "bad lines"
      let some a := getArr j "a" | return err "bad a"
      let some cs := a.toList.mapM parseCoord | return err "bad coord"
      match cs with
      | [ln, col, endLn, endCol] =>
        match clipSrcLoc lines ln col endLn endCol with
        | none => return Json.str "IndexError"
        | some (a, b, c, d) => return ofInts [a, b, c, d]
      | _ => return err "bad a"
  | "C10.plan" => some <| Id.run do
      let some lines := getLines j "lines" | return err "bad lines"
      let some new := getLines j "new" | return err "bad new"
      let some fs := (get j "facts").bind parseFacts | return err "bad facts"
      let some r := (get j "rect").bind asNats | return err "bad rect"
      match r with
      | [ln, col, endLn, endCol] =>
        let rect : Rect := ⟨ln, col, endLn, endCol⟩
        match plan lines fs endLn endCol with
        | .error .degenerate => return Json.mkObj [("raise", "NotImplementedError")]
        | .error .assertion => return Json.mkObj [("raise", "AssertionError")]
        | .ok p =>
          let re := retEnd new rect
          return Json.mkObj [
            ("special", Json.bool p.special), ("in_blkhead", Json.bool p.inBlkhead),
            ("copy_lines", ofLines p.copyLines), ("handed", ofLines (handed p new rect)),
            ("path", Json.str (pathStr p.path)), ("set_ast", Json.bool p.setAst),
            ("first_lineno", ofNat p.firstLineno), ("delta", ofInt p.delta),
            ("pend", ofNats [p.pendLn, p.pendCol]), ("rect_in_region", Json.bool (rectInRegion fs rect)),
            ("head_end_new", let h := headEndAfter (p.pendLn, p.pendCol) new rect; ofNats [h.1, h.2]),
            ("ret", ofNats [re.1, re.2]), ("src", ofLines (putSrc lines new rect))]
      | _ => return err "bad rect"
  | "C10.splice" => some <| Id.run do
      let some lines := getLines j "lines" | return err "bad lines"
      let some new := getLines j "new" | return err "bad new"
      let some r := (get j "rect").bind asNats | return err "bad rect"
      match r with
      | [ln, col, endLn, endCol] =>
        let rect : Rect := ⟨ln, col, endLn, endCol⟩
        let re := retEnd new rect
        return Json.mkObj [("src", ofLines (putSrc lines new rect)), ("ret", ofNats [re.1, re.2])]
      | _ => return err "bad rect"
  | "C10.tree" => some <| Id.run do
      let some ctx := (getArr j "ctx").bind (fun a => a.toList.mapM parseFrame) | return err "bad ctx"
      let some focus := (get j "focus").bind parseNode | return err "bad focus"
      let some sub := (get j "sub").bind parseNode | return err "bad sub"
      let some o := (get j "off").bind asInts | return err "bad off"
      let some m := get j "mode" | return err "bad mode"
      match o with
      | [nPut, ln, endLn, ePre, putLast, sPre] =>
        let off := paramsOffset nPut ln endLn ePre putLast sPre
        let mode : TreeMode := {
          setAst := (getBool m "set_ast").getD true,
          firstLineno := (getNat m "first_lineno").getD 0, delta := (getInt m "delta").getD 0,
          nOldHead := (getNat m "n_old_head").getD 0, nNewHead := (getNat m "n_new_head").getD 0,
          noEndCopy := (getBool m "no_end_copy").getD false, follows := (getBool m "follows").getD false,
          oldBlocks := ((get m "old_blocks").bind parseBlocks).getD {},
          newBlocks := ((get m "new_blocks").bind parseBlocks).getD {},
          headEndSame := (getBool m "head_end_same").getD true,
          sameStart := getBool m "same_start", sameParentKind := (getBool m "same_parent_kind").getD true }
        let g := guardOk mode focus (applyDelta mode.firstLineno mode.delta sub)
        let z := reparseTree off mode ⟨ctx, focus⟩ sub
        return Json.mkObj [("guard", Json.bool g),
          ("tree", Json.arr ((flatten z.tree).map (fun (k, p) => Json.arr #[ofNat k, posJson p])).toArray)]
      | _ => return err "bad off"
  | _ => none

end Pfst.Drv.C10
