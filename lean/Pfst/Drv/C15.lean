import Pfst.JsonUtil
import Pfst.WalkMut
/-! Driver package for C15: run the walk machines against a scripted consumer.

case: `{"f":"C15.run", "on":"enter"|"leave"|"both", "self":bool, "recurse":bool, "back":bool,
        "tree":[aid,fid,lab,vis,[kids]], "next":n, "root":fid,
        "script":[[k,[action,...]],...]}`    action = `["send",b] | ["replace",aid,shape] | ["remove",aid] | ["settree",tree,next]`
answer: `{"yields":[[fid,aid|null,leaving],...], "tree":..., "next":n, "mutok":bool, "end":"done"|"fuel"|"cap"}` -/
namespace Pfst.Drv.C15
open Lean Pfst.JsonUtil Pfst.WalkMut

partial def parseTree (j : Json) : Option Tree := do
  let a ← asArr j
  if a.size != 5 then none
  let aid ← asNat a[0]!
  let fid ← asNat a[1]!
  let lab ← asNat a[2]!
  let vis ← asBool a[3]!
  let ks ← (← asArr a[4]!).toList.mapM parseTree
  some (.mk aid fid lab vis ks)

partial def parseShape (j : Json) : Option Shape := do
  let a ← asArr j
  if a.size != 3 then none
  let lab ← asNat a[0]!
  let vis ← asBool a[1]!
  let ks ← (← asArr a[2]!).toList.mapM parseShape
  some (.mk lab vis ks)

partial def treeJson : Tree → Json
  | .mk a f l v ks => Json.arr #[ofNat a, ofNat f, ofNat l, Json.bool v, Json.arr (ks.map treeJson).toArray]

def parseAction (j : Json) : Option Action := do
  let a ← asArr j
  if a.size < 2 then none
  match ← asStr a[0]! with
  | "send" => some (.send (← asBool a[1]!))
  | "replace" => if a.size != 3 then none else some (.replace (← asNat a[1]!) (← parseShape a[2]!))
  | "remove" => some (.remove (← asNat a[1]!))
  | "settree" => if a.size != 3 then none else some (.setTree (← parseTree a[1]!) (← asNat a[2]!))
  | _ => none

def parseScript (j : Json) : Option (List (Nat × List Action)) := do
  (← asArr j).toList.mapM (fun e => do
    let a ← asArr e
    if a.size != 2 then none
    let k ← asNat a[0]!
    let acts ← (← asArr a[1]!).toList.mapM parseAction
    some (k, acts))

def actionsAt (script : List (Nat × List Action)) (k : Nat) : List Action :=
  (script.filter (fun e => e.1 == k)).flatMap (·.2)

structure Acc where
  yields : List (FstId × Option AstId × Bool) := []
  mutok : Bool := true

/-- apply the consumer actions of one yield to the concrete store, checking the contract on each tree change -/
def applyStore (c : CStore) (acc : Acc) : List Action → CStore × Acc
  | [] => (c, acc)
  | .send _ :: as => applyStore c acc as
  | act :: as =>
    let c' := c.apply act
    applyStore c' { acc with mutok := acc.mutok && c.mutB c' } as

def stepFuel : Nat := 1000000

/-- the `send`s of one yield as the walk generator receives them: directly, or through `search(nested=…)` -/
def sendsOf (nested : Option Bool) (acts : List Action) : List Bool :=
  let ss := acts.filterMap (fun a => match a with | .send b => some b | _ => none)
  match nested with
  | some n => Search.forwarded n ss
  | none => ss

def runEnter (nested : Option Bool) (script : List (Nat × List Action)) : Nat → Nat → CStore → Enter.St → Acc → CStore × Acc × String
  | 0, _, c, _, acc => (c, acc, "cap")
  | cap + 1, k, c, s, acc =>
    match Enter.next c.store stepFuel s with
    | (s', none) => (c, acc, if s'.isDone then "done" else "fuel")
    | (s', some φ) =>
      let acc := { acc with yields := (φ, c.store.a φ, false) :: acc.yields }
      let acts := actionsAt script k
      let (c', acc) := applyStore c acc acts
      let s'' := (sendsOf nested acts).foldl (fun s b => Enter.send b s) s'
      runEnter nested script cap (k + 1) c' s'' acc

def runLB (nested : Option Bool) (script : List (Nat × List Action)) : Nat → Nat → CStore → LB.St → Acc → CStore × Acc × String
  | 0, _, c, _, acc => (c, acc, "cap")
  | cap + 1, k, c, s, acc =>
    match LB.next c.store stepFuel s with
    | (s', none) => (c, acc, if s'.gens.isEmpty then "done" else "fuel")
    | (s', some (φ, lv)) =>
      let acc := { acc with yields := (φ, c.store.a φ, lv) :: acc.yields }
      let acts := actionsAt script k
      let (c', acc) := applyStore c acc acts
      let s'' := (sendsOf nested acts).foldl (fun s b => LB.send b s) s'
      runLB nested script cap (k + 1) c' s'' acc

def dispatch (f : String) (j : Json) : Option Json :=
  match f with
  | "C15.run" => some <| Id.run do
      let some t := (get j "tree").bind parseTree | return Json.mkObj [("err", "bad tree")]
      let some nxt := getNat j "next" | return Json.mkObj [("err", "bad next")]
      let some root := getNat j "root" | return Json.mkObj [("err", "bad root")]
      let some script := (get j "script").bind parseScript | return Json.mkObj [("err", "bad script")]
      let on := (getStr j "on").getD "enter"
      let self := (getBool j "self").getD true
      let recurse := (getBool j "recurse").getD true
      let back := (getBool j "back").getD false
      let cap := (getNat j "cap").getD 100000
      let nested := getBool j "nested"
      let c : CStore := { tree := t, next := nxt }
      let acc0 : Acc := { mutok := c.wfB }
      let (c', acc, e) :=
        if on == "enter" then runEnter nested script cap 0 c (Enter.init root self recurse back) acc0
        else runLB nested script cap 0 c (LB.init (on == "leave") root self recurse back) acc0
      return Json.mkObj [
        ("yields", Json.arr (acc.yields.reverse.map (fun (φ, x, lv) =>
          Json.arr #[ofNat φ, ofOpt ofNat x, Json.bool lv])).toArray),
        ("tree", treeJson c'.tree), ("next", ofNat c'.next), ("mutok", Json.bool acc.mutok), ("end", Json.str e)]
  | _ => none

end Pfst.Drv.C15
