import Pfst.JsonUtil
import Pfst.Index
import Pfst.View
import Pfst.Virt
/-! Driver package for C03: index normalisation, entry-point canonicalisation, view arithmetic, virtual field maps. -/
namespace Pfst.Drv.C03
open Lean Pfst.JsonUtil Pfst.Index Pfst.View Pfst.Virt

def parseIdx (j : Json) : Option Idx :=
  match j with
  | .str "end" => some .end
  | _ => (asInt j).map .i

def parseArg (j : Json) : Option Arg :=
  match j with
  | .null => some .omitted
  | .str "end" => some .end
  | .str s => some (.name s)
  | _ => (asInt j).map .int

def argJson : Arg → Json
  | .omitted => Json.null
  | .int n => ofInt n
  | .end => Json.str "end"
  | .name s => Json.str s

def parseOne (j : Json) : Option One :=
  match j with
  | .null => some none
  | .bool b => some (some b)
  | _ => none

def oneJson : One → Json
  | none => Json.null
  | some b => Json.bool b

def pairJson : Option (Int × Int) → Json
  | none => Json.str "IndexError"
  | some (a, b) => ofInts [a, b]

def canonJson : Canon → Json
  | .slice s e f one => Json.mkObj [("k", "slice"), ("s", argJson s), ("e", argJson e), ("f", argJson f), ("one", oneJson one)]
  | .one i f => Json.mkObj [("k", "one"), ("i", argJson i), ("f", argJson f)]
  | .valueError => Json.mkObj [("k", "ValueError")]

def parseEntry (name : String) (a : Array Json) (one : One) : Option Entry := do
  let arg (i : Nat) : Option Arg := parseArg (a.getD i Json.null)
  match name with
  | "put_slice" => some (.putSlice (← arg 0) (← arg 1) (← arg 2) one)
  | "get_slice" => some (.getSlice (← arg 0) (← arg 1) (← arg 2))
  | "put" => some (.put (← arg 0) (← arg 1) (← arg 2) one)
  | "get" => some (.get (← arg 0) (← arg 1) (← arg 2))
  | "insert" => some (.insert (← arg 0) (← arg 1) one)
  | "append" => some (.append (← arg 0))
  | "extend" => some (.extend (← arg 0) one)
  | "prepend" => some (.prepend (← arg 0))
  | "prextend" => some (.prextend (← arg 0) one)
  | _ => none

def parseKey (j : Json) : Option Key :=
  match asInt j with
  | some n => some (.int n)
  | none => do
    let a ← asArr j
    if a.size != 2 then none
    let p (x : Json) : Option (Option Int) := if isNull x then some none else (asInt x).map some
    some (.slice (← p a[0]!) (← p a[1]!))

def viewJson (v : View) : Json := Json.arr #[ofNat v.start, ofOpt ofNat v.stop]

def editJson (e : Edit) (lenAfter : Nat) : Json :=
  Json.mkObj [("s", ofInt e.s), ("e", ofInt e.e), ("single", Json.bool e.single), ("view", viewJson (e.after lenAfter))]

def kindStr : ArgKind → String
  | .posonly => "posonly" | .arg => "arg" | .vararg => "vararg" | .kwonly => "kwonly" | .kwarg => "kwarg"

def err (s : String) : Json := Json.mkObj [("err", Json.str s)]

def dispatch (f : String) (j : Json) : Option Json :=
  match f with
  | "C03.fixup_one" => some <| Id.run do
      let some len := getNat j "len" | return err "len"
      let some idx := (get j "idx").bind parseIdx | return err "idx"
      let sa := (getNat j "start_at").getD 0
      return match fixupOne len idx sa with | none => Json.str "IndexError" | some k => ofInt k
  | "C03.fixup_slice" => some <| Id.run do
      let some len := getNat j "len" | return err "len"
      let some s := (get j "start").bind parseIdx | return err "start"
      let some e := (get j "stop").bind parseIdx | return err "stop"
      let sa := (getNat j "start_at").getD 0
      return pairJson (fixupSlice len s e sa)
  | "C03.canon" => some <| Id.run do
      let some name := getStr j "entry" | return err "entry"
      let some a := getArr j "args" | return err "args"
      let some one := parseOne ((get j "one").getD Json.null) | return err "one"
      let some en := parseEntry name a one | return err "bad entry"
      let c := canon en
      match getNat j "len" with
      | none => return canonJson c
      | some len =>
        let sa := (getNat j "start_at").getD 0
        return Json.mkObj [("canon", canonJson c), ("resolved", pairJson (resolve len sa c))]
  | "C03.view" => some <| Id.run do
      let some st := getNat j "start" | return err "start"
      let sp := getNat j "stop"
      let some len := getNat j "len" | return err "len"
      let some op := getStr j "op" | return err "op"
      let la := (getNat j "len_after").getD len
      let v : View := ⟨st, sp⟩
      let key := (get j "key").bind parseKey
      match op with
      | "base" => let (a, b, v1) := baseIndices v len; return Json.arr #[ofNat a, ofNat b, viewJson v1]
      | "get" =>
        let some k := key | return err "key"
        return match getItem v len k with
          | none => Json.str "IndexError"
          | some (.inl w) => Json.mkObj [("view", viewJson w)]
          | some (.inr i) => Json.mkObj [("item", ofInt i)]
      | "set" =>
        let some k := key | return err "key"
        return match setItem v len k with | none => Json.str "IndexError" | some e => editJson e la
      | "del" =>
        let some k := key | return err "key"
        return match delItem v len k with | none => Json.str "IndexError" | some e => editJson e la
      | "replace" => return editJson (replace v len) la
      | "insert" =>
        let some i := (get j "idx").bind parseIdx | return err "idx"
        return editJson (insert v len i) la
      | "append" => return editJson (append v len) la
      | "extend" => return editJson (extend v len) la
      | "prepend" => return editJson (prepend v len) la
      | "prextend" => return editJson (prextend v len) la
      | _ => return err "op"
  | "C03.view_name" => some <| Id.run do
      let some st := getNat j "start" | return err "start"
      let sp := getNat j "stop"
      let some off := getNat j "off" | return err "off"
      let some name := getStr j "name" | return err "name"
      let some arr := getArr j "names" | return err "names"
      let names : List (Option String) := arr.toList.map asStr
      return match nameItem ⟨st, sp⟩ names off name with
        | none => Json.str "IndexError"
        | some (k, _) => Json.mkObj [("item", ofInt k)]
  | "C03.virt" => some <| Id.run do
      let some kind := getStr j "kind" | return err "kind"
      match kind with
      | "arguments" =>
        let some np := getNat j "np" | return err "np"
        let some na := getNat j "na" | return err "na"
        let some nk := getNat j "nk" | return err "nk"
        let some nd := getNat j "nd" | return err "nd"
        let nv := (getBool j "nv").getD false
        let nw := (getBool j "nw").getD false
        let some kwd := (get j "kwd").bind asArr | return err "kwd"
        let kwds : List (Option Nat) := (kwd.toList.zipIdx).map (fun (b, i) => if b == Json.bool true then some (100 + i) else none)
        let a : Arguments Nat Nat :=
          { posonly := List.range np, args := (List.range na).map (· + 100), vararg := if nv then some 200 else none,
            kwonly := (List.range nk).map (· + 300), kwDefaults := kwds, kwarg := if nw then some 400 else none,
            defaults := List.range nd }
        let all := argsAll a
        return Json.mkObj [("len", ofNat (allargs a).length),
          ("all", Json.arr (all.map (fun (k, x, d) => Json.arr #[Json.str (kindStr k), ofNat x, ofOpt ofNat d])).toArray),
          ("roundtrip", Json.bool (argsOfAll all == a))]
      | "merge" =>
        let some ex := (get j "exprs").bind asArr | return err "exprs"
        let some kw := (get j "kws").bind asArr | return err "kws"
        let p (tag : Nat) (l : Array Json) : Option (List (Nat × Nat × (Nat × Nat))) :=
          (l.toList.zipIdx).mapM (fun (x, i) => do
            let q ← asNats x
            match q with | [a, b] => some (tag, i, (a, b)) | _ => none)
        let some exs := p 0 ex | return err "exprs"
        let some kws := p 1 kw | return err "kws"
        let m := mergeArglikes (fun x => x.2.2) exs kws
        return Json.arr (m.map (fun (t, i, _) => Json.arr #[Json.str (if t == 0 then "e" else "k"), ofNat i])).toArray
      | "mapping" =>
        let some nk := getNat j "nkeys" | return err "nkeys"
        let rest := (getBool j "rest").getD false
        let all := mmAll (List.range nk) (List.range nk) (if rest then some 0 else none)
        return Json.mkObj [("len", ofNat (mmLen (List.range nk) (if rest then some 0 else none))),
          ("all", Json.arr (all.map (fun x => match x with
            | .kv k p => Json.arr #[Json.str "kv", ofNat k, ofNat p]
            | .rest _ => Json.arr #[Json.str "rest"])).toArray)]
      | "compare" =>
        let some n := getNat j "n" | return err "n"
        let comps := List.range n
        return Json.mkObj [("len", ofNat (cmpLen comps)),
          ("all", Json.arr ((List.range (n + 1)).map (fun i => match cmpGet 1000 comps i with
            | some 1000 => Json.str "left" | some c => ofNat c | none => Json.null)).toArray)]
      | "attrs" =>
        let some np := getNat j "np" | return err "np"
        let some nk := getNat j "nk" | return err "nk"
        return Json.mkObj [("len", ofNat (attrsLen (List.range np) (List.range nk))),
          ("all", Json.arr ((List.range (np + nk)).map (fun i => match attrsSlot np nk i with
            | some (b, k) => Json.arr #[Json.bool b, ofNat k] | none => Json.null)).toArray)]
      | "body" =>
        let some n := getNat j "len" | return err "len"
        let doc := (getBool j "doc").getD false
        return Json.mkObj [("len", ofNat (bodyLen n doc)),
          ("all", ofNats ((List.range (bodyLen n doc)).map (fun i => bodyReal i doc)))]
      | _ => return err "kind"
  | _ => none

end Pfst.Drv.C03
