import Pfst.JsonUtil
import Pfst.NeedPars
/-! Driver package for C09b: the put-time parenthesisation decision model (`Pfst/NeedPars.lean`) on serialised pfst nodes. -/
namespace Pfst.Drv.C09b
open Lean Pfst.JsonUtil Pfst.NeedPars Pfst.Gen.Precedence Pfst.Gen.Enclose

def parseLoc (j : Json) : Option Loc := do
  let a ← asNats j
  match a with
  | [x, y, z, w] => some ⟨x, y, z, w⟩
  | _ => none

def optBool (j : Json) (k : String) : Option Bool := (get j k).bind asBool

def parseInfo (j : Json) : Option Info := do
  let k ← (getStr j "k").bind kindOfName
  let f := ((getStr j "f").bind fieldOfName).getD .«value»
  let sp : Option (Loc × Nat × Nat) := do
    let a ← asNats (← get j "sp")
    match a with
    | [x, y, z, w, n, b] => some (⟨x, y, z, w⟩, n, b)
    | _ => none
  some { kind := k, field := f, loc := (get j "loc").bind parseLoc, pars := (get j "pars").bind parseLoc,
         n := (getNat j "n").getD 0, ptup := optBool j "ptup", dms := optBool j "dms",
         cstr := (getBool j "cstr").getD false, cint := (getBool j "cint").getD false,
         op := (getStr j "op").bind kindOfName, special := sp, strLns := ((get j "sl").bind asNats).getD [],
         wiVars := (getBool j "wv").getD false, matchAsNone := (getBool j "man").getD false }

partial def parseNode (j : Json) : Option Node := do
  let i ← parseInfo j
  let kids ← match getArr j "kids" with
    | some a => a.toList.mapM parseNode
    | none => some []
  some (.mk i kids)

def parseLines (j : Json) (k : String) : Option (List Line) := do
  let a ← asStrs (← get j k)
  some (a.map String.toList)

def atomStr : AtomRes → String
  | .yes => "yes" | .unencl => "unencl" | .pars => "pars" | .no => "no" | .assertFail => "assert"

def eolStr : EolRes → String
  | .yes => "yes" | .pars => "pars" | .no => "no" | .notImpl => "notimpl"

def srcStr : SrcAct → String
  | .none => "none" | .unpar => "unpar" | .delimit => "delimit" | .group => "group" | .deferred => "deferred"

def optBoolJson : Option Bool → Json
  | some b => Json.bool b
  | none => Json.null

def parseUps (j : Json) (k : String) : Option (List (F × Info)) := do
  let a ← getArr j k
  a.toList.mapM (fun e => do
    let p ← asArr e
    let f ← (asStr p[0]!).bind fieldOfName
    let i ← parseInfo p[1]!
    some (f, i))

def sortNats (l : List Nat) : List Nat := (l.eraseDups.toArray.qsort (· < ·)).toList

/-- every node in preorder: the four `_is_atom` answers, `_is_enclosed_in_parents()`, `_is_enclosed_or_line` with and
without `check_pars`, and the `out_lns` of the latter -/
partial def walkTree (lines : List Line) (ups : List (F × Info)) (nd : Node) : List Json :=
  let i := nd.info
  let a := [isAtom nd false false, isAtom nd false true, isAtom nd true false, isAtom nd true true]
  let lt := eol lines true nd
  let lf := eol lines false nd
  let me := Json.mkObj [("a", Json.arr (a.map (fun r => Json.str (atomStr r))).toArray),
    ("e", Json.bool (enclosedInParents none i ups)),
    ("lt", eolStr lt.1), ("lf", eolStr lf.1), ("o", ofNats (sortNats lf.2)), ("ot", ofNats (sortNats lt.2))]
  me :: (nd.kids.map (fun k => walkTree lines ((k.info.field, i) :: ups) k)).flatten

def parseOpt (s : String) : ParsOpt := if s == "auto" then .auto else if s == "on" then .on else .off

def dispatch (f : String) (j : Json) : Option Json :=
  match f with
  | "C09b.atom" => some <| Id.run do
      let some nd := (get j "node").bind parseNode | return Json.mkObj [("err", "bad node")]
      return Json.str (atomStr (isAtom nd ((getBool j "pars").getD true) ((getBool j "ae").getD false)))
  | "C09b.enc" => some <| Id.run do
      let some self := (get j "self").bind parseInfo | return Json.mkObj [("err", "bad self")]
      let some ups := parseUps j "ups" | return Json.mkObj [("err", "bad ups")]
      let fld := (getStr j "field").bind fieldOfName
      return Json.bool (enclosedInParents fld self ups)
  | "C09b.eol" => some <| Id.run do
      let some nd := (get j "node").bind parseNode | return Json.mkObj [("err", "bad node")]
      let some lines := parseLines j "lines" | return Json.mkObj [("err", "bad lines")]
      let r := eol lines ((getBool j "check_pars").getD true) nd
      return Json.mkObj [("r", eolStr r.1), ("o", ofNats (sortNats r.2))]
  | "C09b.tree" => some <| Id.run do
      let some nd := (get j "root").bind parseNode | return Json.mkObj [("err", "bad root")]
      let some lines := parseLines j "lines" | return Json.mkObj [("err", "bad lines")]
      return Json.arr (walkTree lines [] nd).toArray
  | "C09b.action" => some <| Id.run do
      let some put := (get j "put").bind parseNode | return Json.mkObj [("err", "bad put")]
      let some putLines := parseLines j "putLines" | return Json.mkObj [("err", "bad putLines")]
      let some self := (get j "self").bind parseInfo | return Json.mkObj [("err", "bad self")]
      let some ups := parseUps j "ups" | return Json.mkObj [("err", "bad ups")]
      let some fld := (getStr j "field").bind fieldOfName | return Json.mkObj [("err", "bad field")]
      let dkn := (getBool j "dictKeyNone").getD false
      let agl := (getBool j "arglike").getD false
      let tif := (getBool j "tgtIsFST").getD true
      let tpk := (getStr j "tgtParent").bind kindOfName
      let tn := (getNat j "tgtN").getD 0
      let pz := (getBool j "parenthesizable").getD true
      let x : NPIn := NPIn.mk put putLines self ups fld dkn agl tif tpk tn pz
      let opt := parseOpt ((getStr j "opt").getD "auto")
      let o := action x opt
      let sh := srcHasPars put
      let th := x.tgtIsFST && decide (0 < x.tgtN)
      return Json.mkObj [
        ("atom", atomStr (isAtom put false false)),
        ("enc", Json.bool (enclosedInParents (some fld) self ups)),
        ("eol_t", eolStr (eol putLines true put).1), ("eol_f", eolStr (eol putLines false put).1),
        ("need_f", optBoolJson (needPars x false)), ("need_t", optBoolJson (needPars x true)),
        ("src", match o with | some o => Json.str (srcStr o.src) | none => Json.null),
        ("delTgt", match o with | some o => Json.bool o.delTgt | none => Json.null),
        ("enclosed", match o with | some o => Json.bool (resultEnclosed sh th o) | none => Json.null)]
  | _ => none

end Pfst.Drv.C09b
