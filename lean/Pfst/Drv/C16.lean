import Pfst.JsonUtil
import Pfst.Scope
/-! Driver package for C16: one case = one whole tree; the answer lists, for every scope-defining node, the model's
scope walk (all nodes / symbol filter), the model's `scope_symbols`, the spec's `owned` and `classify`, and the
evaluated hypotheses of the theorems. -/
namespace Pfst.Drv.C16
open Lean Pfst.JsonUtil Pfst.Scope

def kindOf : String → Option Kind
  | "module" => some .module | "funcdef" => some .funcdef | "lambda" => some .lambda | "classdef" => some .classdef
  | "comp" => some .comp | "arguments" => some .arguments | "arg" => some .arg | "tparam" => some .tparam
  | "gen" => some .gen | "namedexpr" => some .namedexpr | "nameLoad" => some .nameLoad | "nameStore" => some .nameStore
  | "nameDel" => some .nameDel | "global" => some .global | "nonlocal" => some .nonlocal | "import" => some .import_
  | "augassign" => some .augassign | "handler" => some .handler | "matchAs" => some .matchAs
  | "matchStar" => some .matchStar | "matchMap" => some .matchMap | "other" => some .other
  | _ => none

def roleOf : String → Option Role
  | "plain" => some .plain | "deco" => some .deco | "tparam" => some .tparam | "args" => some .args
  | "returns" => some .returns | "body" => some .body | "argr" => some .argr | "dflt" => some .dflt
  | "ann" => some .ann | "bound" => some .bound | "base" => some .base | "kw" => some .kw | "elt" => some .elt
  | "gen0" => some .gen0 | "gen" => some .gen | "target" => some .target | "iter" => some .iter | "cond" => some .cond
  | "wtarget" => some .wtarget
  | _ => none

/-- node = [id, kind, role, [names...], [kids...]] -/
partial def parseNode (j : Json) : Option Node := do
  let a ← asArr j
  if a.size != 5 then none
  let i ← asNat a[0]!
  let k ← kindOf (← asStr a[1]!)
  let r ← roleOf (← asStr a[2]!)
  let ns ← asNats a[3]!
  let ks ← (← asArr a[4]!).toList.mapM parseNode
  some (.mk i k r ns ks)

def ids (l : List Node) : Json := ofNats (l.map Node.id)

def symsJson (s : Syms) : Json :=
  Json.mkObj [("load", ofNats s.load), ("store", ofNats s.store), ("del", ofNats s.del), ("global", ofNats s.glob),
              ("nonlocal", ofNats s.nonl), ("local", ofNats s.loc), ("free", ofNats s.free)]

def scopeJson (r : Node) : Json :=
  Json.mkObj [("id", ofNat r.id),
              ("walk", ids (walkRoot false r)),
              ("walk_sym", ids (walkRoot true r)),
              ("walk_back", ids (walkRootB false r)),
              ("walk_asts", ids (walkAsts false r)),
              ("good_asts", Json.bool (goodAsts r)),
              ("owned_asts", ids (ownedAsts r)),
              ("walk_sym_back", ids (walkRootB true r)),
              ("syms", symsJson (symbols r)),
              ("owned", ids (owned r)),
              ("owned_walk", ids (ownedWalk r)),
              ("classify", symsJson (classify r)),
              ("good", Json.bool (goodRoot r))]

def dispatch (f : String) (j : Json) : Option Json :=
  match f with
  | "C16.scopes" => some <| Id.run do
      let some t := (get j "tree").bind parseNode | return Json.mkObj [("err", "bad tree")]
      return Json.mkObj [("scopes", Json.arr ((scopes t).map scopeJson).toArray),
                         ("scope_of", Json.arr ((scopeOf t).map (fun (a, b) => ofNats [a, b])).toArray)]
  | _ => none

end Pfst.Drv.C16
