import Pfst.JsonUtil
import Pfst.Walk
import Pfst.SynOrder
/-! Driver package for C14: walks, sibling/child/step navigation, paths, the six special child orders. -/
namespace Pfst.Drv.C14
open Lean Pfst.JsonUtil Pfst.Walk Pfst.SynOrder

/-- tree = [id, lab, cat, kind, [kids...]] -/
partial def parseNode (j : Json) : Option Node := do
  let a ← asArr j
  if a.size != 5 then none
  let i ← asNat a[0]!
  let l ← asNat a[1]!
  let c ← asNat a[2]!
  let k ← asNat a[3]!
  let ks ← (← asArr a[4]!).toList.mapM parseNode
  some (.mk i l c k ks)

/-- all = "all" | "dflt" | "loc" | [kind, ...] -/
def parseAll (j : Json) : Option AllMode :=
  match j with
  | .str "all" => some .all
  | .str "dflt" => some .dflt
  | .str "loc" => some .loc
  | _ => (asNats j).map .kinds

def optId (l : Option Loc) : Json := ofOpt (fun (x : Loc) => ofNat x.focus.id) l

def err (s : String) : Json := Json.mkObj [("err", Json.str s)]

/-- one walk: [on, back, recurse, self_] -/
def oneWalk (p : Node → Bool) (t : Node) (j : Json) : Option Json := do
  let a ← asArr j
  if a.size != 4 then none
  let on ← asStr a[0]!
  let back ← asBool a[1]!
  let rec_ ← asBool a[2]!
  let self_ ← asBool a[3]!
  match on with
  | "enter" => some (ofNats (walkEnter p back rec_ self_ t))
  | "leave" => some (ofNats (walkLeave p back rec_ self_ t))
  | "both" => some (ofNats ((walkBoth p back rec_ self_ t).map (fun x => 2 * x.1 + (if x.2 then 1 else 0))))
  | _ => none

def chain (f : Loc → Option Loc) (fuel : Nat) (l : Loc) : List Nat := ids (iter f fuel (f l))

def parsePNode (j : Json) : Option PNode := do
  let a ← asArr j
  if a.size != 4 then none
  some ⟨← asNat a[0]!, ← asNat a[1]!, ← asNat a[2]!, ← asBool a[3]!⟩

def parsePNodes (j : Json) : Option (List PNode) := do (← asArr j).toList.mapM parsePNode

def asOptNats (j : Json) : Option (List (Option Nat)) := do
  (← asArr j).toList.mapM (fun x => if isNull x then some none else (asNat x).map some)

def optNat (j : Json) (k : String) : Option Nat := (get j k).bind asNat

/-- navigation op: [name, id] or [name, id, fromId|null] or [name, id, recurseSelf] -/
def oneNav (p : Node → Bool) (t : Node) (j : Json) : Json := Id.run do
  let some a := asArr j | return err "bad op"
  if a.size < 2 then return err "bad op"
  let some op := asStr a[0]! | return err "bad op"
  let some i := asNat a[1]! | return err "bad id"
  let some l := locate i t | return err "no such node"
  let fuel := size t + 1
  match op with
  | "next" => return optId (next p l)
  | "prev" => return optId (prev p l)
  | "first_child" => return optId (firstChild p l)
  | "last_child" => return optId (lastChild p l)
  | "up" => return optId l.up
  | "next_child" | "prev_child" =>
    let from_ := if a.size > 2 && !isNull a[2]! then (asNat a[2]!).bind (fun k => locate k t) else none
    if a.size > 2 && !isNull a[2]! && from_.isNone then return err "no such from"
    return optId (if op == "next_child" then nextChild p l from_ else prevChild p l from_)
  | "step_fwd" => return optId (stepFwd p ((a[2]? >>= asBool).getD true) l)
  | "step_back" => return optId (stepBack p ((a[2]? >>= asBool).getD true) l)
  | "chain_fwd" => return ofNats (chain (stepFwd p true) fuel l)
  | "chain_back" => return ofNats (chain (stepBack p true) fuel l)
  | "chain_next" => return ofNats (chain (next p) fuel l)
  | "chain_prev" => return ofNats (chain (prev p) fuel l)
  | "children_fwd" => return ofNats (ids (iter (fun c => nextChild p l (some c)) fuel (nextChild p l none)))
  | "children_back" => return ofNats (ids (iter (fun c => prevChild p l (some c)) fuel (prevChild p l none)))
  | _ => return err "unknown op"

def dispatch (f : String) (j : Json) : Option Json :=
  match f with
  | "C14.walks" => some <| Id.run do
      let some t := (get j "tree").bind parseNode | return err "bad tree"
      let some m := (get j "all").bind parseAll | return err "bad all"
      let at_ := (optNat j "at").getD t.id
      let some l := locate at_ t | return err "no such node"
      let some cs := getArr j "combos" | return err "bad combos"
      return Json.arr (cs.map (fun c => (oneWalk (checkAll m) l.focus c).getD (err "bad combo")))
  | "C14.nav" => some <| Id.run do
      let some t := (get j "tree").bind parseNode | return err "bad tree"
      let some m := (get j "all").bind parseAll | return err "bad all"
      let some ops := getArr j "ops" | return err "bad ops"
      return Json.arr (ops.map (oneNav (checkAll m) t))
  | "C14.paths" => some <| Id.run do
      let some t := (get j "tree").bind parseNode | return err "bad tree"
      let some ps := getArr j "pairs" | return err "bad pairs"
      -- [selfId, childId] -> {"path": labels|null, "back": id|null}
      return Json.arr (ps.map (fun pr => Id.run do
        let some [s, c] := asNats pr | return err "bad pair"
        let some sl := locate s t | return err "no self"
        let some cl := locate c t | return err "no child"
        match childPath sl cl with
        | none => return Json.mkObj [("path", Json.null), ("back", Json.null)]
        | some π => return Json.mkObj [("path", ofNats π), ("back", optId (childFromPath sl π))]))
  | "C14.from_path" => some <| Id.run do
      let some t := (get j "tree").bind parseNode | return err "bad tree"
      let some ps := getArr j "queries" | return err "bad queries"
      -- [selfId, [labels]] -> id|null
      return Json.arr (ps.map (fun q => Id.run do
        let some a := asArr q | return err "bad query"
        if a.size != 2 then return err "bad query"
        let some s := asNat a[0]! | return err "bad query"
        let some π := asNats a[1]! | return err "bad query"
        let some sl := locate s t | return err "no self"
        return optId (childFromPath sl π)))
  | "C14.order" => some <| Id.run do
      let some k := getStr j "k" | return err "no k"
      let nats (key : String) : List Nat := ((get j key).bind asNats).getD []
      match k with
      | "call" =>
        let some fn := optNat j "func" | return err "bad func"
        let some args := (get j "args").bind parsePNodes | return err "bad args"
        let some kws := (get j "kws").bind parsePNodes | return err "bad kws"
        return ofNats (callOrder fn args kws)
      | "classdef" =>
        let some bases := (get j "args").bind parsePNodes | return err "bad bases"
        let some kws := (get j "kws").bind parsePNodes | return err "bad kws"
        return ofNats (classDefOrder (nats "decos") (nats "tparams") bases kws (nats "body"))
      | "dict" =>
        let some keys := (get j "keys").bind asOptNats | return err "bad keys"
        return ofNats (dictOrder keys (nats "values"))
      | "compare" =>
        let some left := optNat j "left" | return err "bad left"
        return ofNats (compareOrder left (nats "ops") (nats "comps"))
      | "arguments" =>
        let some kwd := (get j "kw_defaults").bind asOptNats | return err "bad kw_defaults"
        return ofNats (argumentsOrder (nats "posonlyargs") (nats "args") (nats "defaults") (optNat j "vararg")
          (nats "kwonlyargs") kwd (optNat j "kwarg"))
      | _ => return err "unknown k"
  | _ => none

end Pfst.Drv.C14
