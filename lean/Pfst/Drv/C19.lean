import Pfst.JsonUtil
import Pfst.Coerce
import Pfst.CoerceArgs
/-! Driver package for C19: `toPattern`, `toExpr`, `coerce` of the coercion model on JSON-encoded trees. -/
namespace Pfst.Drv.C19
open Lean Pfst.JsonUtil Pfst.Coerce

def parseConst (j : Json) : Option Const := do
  let a ← asArr j
  let tag ← asStr (← a[0]?)
  match tag with
  | "none" => some .none
  | "bool" => some (.bool (← asBool (← a[1]?)))
  | "ellipsis" => some .ellipsis
  | "int" => some (.int (← asBool (← a[1]?)) (← asStr (← a[2]?)))
  | "float" => some (.float (← asBool (← a[1]?)) (← asStr (← a[2]?)))
  | "imag" => some (.imag (← asBool (← a[1]?)) (← asStr (← a[2]?)))
  | "cplx" => some (.cplx (← asStr (← a[1]?)))
  | "str" => some (.str (← asStr (← a[1]?)))
  | "bytes" => some (.bytes (← asStr (← a[1]?)))
  | _ => none

def constJson : Const → Json
  | .none => Json.arr #["none"]
  | .bool b => Json.arr #["bool", Json.bool b]
  | .ellipsis => Json.arr #["ellipsis"]
  | .int n r => Json.arr #["int", Json.bool n, Json.str r]
  | .float n r => Json.arr #["float", Json.bool n, Json.str r]
  | .imag n r => Json.arr #["imag", Json.bool n, Json.str r]
  | .cplx r => Json.arr #["cplx", Json.str r]
  | .str r => Json.arr #["str", Json.str r]
  | .bytes r => Json.arr #["bytes", Json.str r]

def parseBOp (s : String) : BOp :=
  match s with
  | "Add" => .add
  | "Sub" => .sub
  | "BitOr" => .bitor
  | s => .other s

def bopJson : BOp → Json
  | .add => "Add"
  | .sub => "Sub"
  | .bitor => "BitOr"
  | .other s => Json.str s

def parseUOp (s : String) : UOp :=
  match s with
  | "USub" => .usub
  | s => .other s

def uopJson : UOp → Json
  | .usub => "USub"
  | .other s => Json.str s

def optStr (j : Json) : Option (Option String) :=
  if isNull j then some none else (asStr j).map some

partial def parseExpr (j : Json) : Option Expr := do
  let a ← asArr j
  let tag ← asStr (← a[0]?)
  let many (j : Json) : Option (List Expr) := do (← asArr j).toList.mapM parseExpr
  match tag with
  | "name" => some (.name (← asStr (← a[1]?)))
  | "const" => some (.const (← parseConst (← a[1]?)))
  | "attr" => some (.attr (← parseExpr (← a[1]?)) (← asStr (← a[2]?)))
  | "list" => some (.list (← many (← a[1]?)))
  | "tuple" => some (.tuple (← many (← a[1]?)))
  | "set" => some (.set (← many (← a[1]?)))
  | "starred" => some (.starred (← parseExpr (← a[1]?)))
  | "dict" => some (.dict (← many (← a[1]?)))
  | "kv" => some (.kv (← parseExpr (← a[1]?)) (← parseExpr (← a[2]?)))
  | "dstar" => some (.dstar (← parseExpr (← a[1]?)))
  | "call" => some (.call (← parseExpr (← a[1]?)) (← many (← a[2]?)) (← many (← a[3]?)))
  | "kw" => some (.kw (← optStr (← a[1]?)) (← parseExpr (← a[2]?)))
  | "binop" => some (.binop (← parseExpr (← a[1]?)) (parseBOp (← asStr (← a[2]?))) (← parseExpr (← a[3]?))
                      (← asBool (← a[4]?)))
  | "unop" => some (.unop (parseUOp (← asStr (← a[1]?))) (← parseExpr (← a[2]?)))
  | "other" => some (.other (← asStr (← a[1]?)) (← many (← a[2]?)))
  | _ => none

partial def exprJson : Expr → Json
  | .name id => Json.arr #["name", Json.str id]
  | .const c => Json.arr #["const", constJson c]
  | .attr v a => Json.arr #["attr", exprJson v, Json.str a]
  | .list es => Json.arr #["list", Json.arr (es.map exprJson).toArray]
  | .tuple es => Json.arr #["tuple", Json.arr (es.map exprJson).toArray]
  | .set es => Json.arr #["set", Json.arr (es.map exprJson).toArray]
  | .starred v => Json.arr #["starred", exprJson v]
  | .dict items => Json.arr #["dict", Json.arr (items.map exprJson).toArray]
  | .kv k v => Json.arr #["kv", exprJson k, exprJson v]
  | .dstar v => Json.arr #["dstar", exprJson v]
  | .call f args kws => Json.arr #["call", exprJson f, Json.arr (args.map exprJson).toArray,
                                   Json.arr (kws.map exprJson).toArray]
  | .kw a v => Json.arr #["kw", ofOpt Json.str a, exprJson v]
  | .binop l op r lpar => Json.arr #["binop", exprJson l, bopJson op, exprJson r, Json.bool lpar]
  | .unop op e => Json.arr #["unop", uopJson op, exprJson e]
  | .other k kids => Json.arr #["other", Json.str k, Json.arr (kids.map exprJson).toArray]

def parseDelim (j : Json) : Delim :=
  match j with
  | .str "[]" => .brackets
  | _ => .other

def delimJson : Delim → Json
  | .brackets => "[]"
  | .other => ""

partial def parsePattern (j : Json) : Option Pattern := do
  let a ← asArr j
  let tag ← asStr (← a[0]?)
  let many (j : Json) : Option (List Pattern) := do (← asArr j).toList.mapM parsePattern
  match tag with
  | "value" => some (.value (← parseExpr (← a[1]?)))
  | "singleton" => some (.singleton (← parseConst (← a[1]?)))
  | "capture" => some (.capture (← optStr (← a[1]?)))
  | "asPat" => some (.asPat (← parsePattern (← a[1]?)) (← optStr (← a[2]?)))
  | "seq" => some (.seq (parseDelim (← a[1]?)) (← many (← a[2]?)))
  | "star" => some (.star (← optStr (← a[1]?)))
  | "mapping" => some (.mapping (← many (← a[1]?)) (← optStr (← a[2]?)))
  | "mkv" => some (.mkv (← parseExpr (← a[1]?)) (← parsePattern (← a[2]?)))
  | "cls" => some (.cls (← parseExpr (← a[1]?)) (← many (← a[2]?)) (← many (← a[3]?)))
  | "pkw" => some (.pkw (← asStr (← a[1]?)) (← parsePattern (← a[2]?)))
  | "or" => some (.or_ (← many (← a[1]?)))
  | _ => none

partial def patternJson : Pattern → Json
  | .value e => Json.arr #["value", exprJson e]
  | .singleton c => Json.arr #["singleton", constJson c]
  | .capture n => Json.arr #["capture", ofOpt Json.str n]
  | .asPat p n => Json.arr #["asPat", patternJson p, ofOpt Json.str n]
  | .seq d ps => Json.arr #["seq", delimJson d, Json.arr (ps.map patternJson).toArray]
  | .star n => Json.arr #["star", ofOpt Json.str n]
  | .mapping items rest => Json.arr #["mapping", Json.arr (items.map patternJson).toArray, ofOpt Json.str rest]
  | .mkv k p => Json.arr #["mkv", exprJson k, patternJson p]
  | .cls c ps kws => Json.arr #["cls", exprJson c, Json.arr (ps.map patternJson).toArray,
                                Json.arr (kws.map patternJson).toArray]
  | .pkw a p => Json.arr #["pkw", Json.str a, patternJson p]
  | .or_ ps => Json.arr #["or", Json.arr (ps.map patternJson).toArray]

def leafJson : Leaf → Json
  | .name s => Json.arr #["n", Json.str s]
  | .const c => Json.arr #["c", constJson c]

def leavesJson (l : List Leaf) : Json := Json.arr (l.map leafJson).toArray

def parseNode (j : Json) : Option Node :=
  match get j "e" with
  | some je => (parseExpr je).map .e
  | none => ((get j "p").bind parsePattern).map .p

def nodeJson : Node → Json
  | .e e => Json.mkObj [("e", exprJson e)]
  | .p p => Json.mkObj [("p", patternJson p)]

def parseTarget (s : String) : Option Target :=
  match s with
  | "expr" => some .expr
  | "pattern" => some .pattern
  | "Tuple" => some (.seq .tuple)
  | "List" => some (.seq .list)
  | "Set" => some (.seq .set)
  | _ => none

def optExpr (j : Json) : Option (Option Expr) :=
  if isNull j then some none else (parseExpr j).map some

/-- param = [name, annotation|null, default|null] -/
def parseParam (j : Json) : Option Param := do
  let a ← asArr j
  some { name := ← asStr (← a[0]?), ann := ← optExpr (← a[1]?), dflt := ← optExpr (← a[2]?) }

def optParam (j : Json) : Option (Option Param) :=
  if isNull j then some none else (parseParam j).map some

def parseArguments (j : Json) : Option Arguments := do
  let many (k : String) : Option (List Param) := do (← getArr j k).toList.mapM parseParam
  some { posonly := ← many "posonly", args := ← many "args", vararg := ← optParam (← get j "vararg"),
         kwonly := ← many "kwonly", kwarg := ← optParam (← get j "kwarg") }

def tparamJson : TParam → Json
  | .typeVar n b => Json.arr #["tv", Json.str n, ofOpt exprJson b]
  | .typeVarTuple n => Json.arr #["tvt", Json.str n]
  | .paramSpec n => Json.arr #["ps", Json.str n]

def dispatch (f : String) (j : Json) : Option Json :=
  match f with
  | "C19.toPattern" => some <| Id.run do
      let some e := (get j "e").bind parseExpr | return Json.mkObj [("err", "bad expr")]
      let fmt := (getBool j "fmt").getD false
      match toPattern fmt e with
      | none => return Json.mkObj [("p", Json.null), ("leaves_in", leavesJson e.leaves)]
      | some p => return Json.mkObj [("p", patternJson p), ("leaves_in", leavesJson e.leaves),
                                     ("leaves_out", leavesJson p.leaves)]
  | "C19.toExpr" => some <| Id.run do
      let some p := (get j "p").bind parsePattern | return Json.mkObj [("err", "bad pattern")]
      let fmt := (getBool j "fmt").getD false
      match toExpr fmt p with
      | none => return Json.mkObj [("e", Json.null), ("leaves_in", leavesJson p.leaves)]
      | some e => return Json.mkObj [("e", exprJson e), ("leaves_in", leavesJson p.leaves),
                                     ("leaves_out", leavesJson e.leaves)]
  | "C19.coerce" => some <| Id.run do
      let some n := (get j "node").bind parseNode | return Json.mkObj [("err", "bad node")]
      let some t := (getStr j "target").bind parseTarget | return Json.mkObj [("err", "bad target")]
      let fmt := (getBool j "fmt").getD false
      match coerce fmt t n with
      | none => return Json.mkObj [("r", Json.null), ("same_kind", Json.bool (kindOK n t))]
      | some r => return Json.mkObj [("r", nodeJson r), ("same_kind", Json.bool (kindOK n t)),
                                     ("kind_ok", Json.bool (kindOK r t)), ("leaves_in", leavesJson (Node.leaves n)),
                                     ("leaves_out", leavesJson (Node.leaves r))]
  | "C19.argsToTypeParams" => some <| Id.run do
      let some a := (get j "a").bind parseArguments | return Json.mkObj [("err", "bad arguments")]
      match argsToTypeParams a with
      | none => return Json.mkObj [("r", Json.null)]
      | some ts => return Json.mkObj [("r", Json.arr (ts.map tparamJson).toArray), ("leaves_in", leavesJson a.leaves),
                                      ("leaves_out", leavesJson (leavesTs ts))]
  | "C19.argsToAttrlikes" => some <| Id.run do
      let some a := (get j "a").bind parseArguments | return Json.mkObj [("err", "bad arguments")]
      let fmt := (getBool j "fmt").getD false
      match argsToAttrlikes fmt a with
      | none => return Json.mkObj [("r", Json.null)]
      | some (ps, ks) =>
        return Json.mkObj [("r", Json.mkObj [("patterns", Json.arr (ps.map patternJson).toArray),
                                             ("kws", Json.arr (ks.map patternJson).toArray)]),
                           ("leaves_in", leavesJson a.leaves), ("leaves_out", leavesJson (leavesP ps ++ leavesP ks)),
                           ("defaults_suffix", Json.bool (defaultsSuffix a.args))]
  | "C19.norm" => some <| Id.run do
      let some e := (get j "e").bind parseExpr | return Json.mkObj [("err", "bad expr")]
      return exprJson e.norm
  | _ => none

end Pfst.Drv.C19
