import Pfst.JsonUtil
import Pfst.Prec
/-! Driver package for C09: print abstract syntax with a policy; look up the regenerated pfst table and the spec need. -/
namespace Pfst.Drv.C09
open Lean Pfst.JsonUtil Pfst.Grammar Pfst.Prec Pfst.Gen.Precedence

def parseCls (j : Json) : Option Cls := do
  let a ← asArr j
  let tag ← asStr a[0]!
  match tag with
  | "lad" => some (.lad (← asNat a[1]!))
  | "named" => some .named | "tuple" => some .tuple | "yield" => some .yieldc | "star" => some .star
  | "int" => some .intlit
  | _ => none

def parseTok (j : Json) : Option Tok := do
  let a ← asArr j
  let tag ← asStr a[0]!
  match tag with
  | "lp" => some .lp | "rp" => some .rp
  | "sym" => some (.sym (← asNat a[1]!))
  | "name" => some (.name (← asNat a[1]!))
  | "int" => some (.int (← asNat a[1]!))
  | _ => none

def tokJson : Tok → Json
  | .lp => Json.arr #["lp"] | .rp => Json.arr #["rp"]
  | .sym n => Json.arr #["sym", ofNat n] | .name n => Json.arr #["name", ofNat n] | .int n => Json.arr #["int", ofNat n]

def parseKind (j : Json) : Option Kind := do
  let a ← asArr j
  let tag ← asStr a[0]!
  let n (i : Nat) : Option Nat := asNat a[i]!
  match tag with
  | "bin" => some (.bin (← n 1)) | "un" => some (.un (← n 1)) | "not" => some .not_
  | "boolop" => some (.boolop (← asBool a[1]!))
  | "cmp" => some (.cmp (← asNats a[1]!))
  | "ifexp" => some .ifexp | "lambda" => some .lambda | "named" => some (.named (← n 1))
  | "await" => some .await_ | "yield" => some .yield_ | "yieldFrom" => some .yieldFrom
  | "star" => some .star | "starArg" => some .starArg | "tuple" => some .tuple
  | "call" => some (.call (← n 1) (← asNats a[2]!))
  | "attr" => some (.attr (← n 1)) | "subscr" => some .subscr | "list" => some .list | "set" => some .set
  | "dict" => some (.dict (← (← asArr a[1]!).toList.mapM asBool))
  | "comp" => some (.comp (← n 1) (← n 2))
  | "exprStmt" => some .exprStmt | "assignValue" => some (.assignValue (← n 1)) | "returnValue" => some .returnValue
  | "ifTest" => some .ifTest | "assertTest" => some .assertTest
  | "matchOr" => some .matchOr | "matchAs" => some (.matchAs (← n 1)) | "matchSeq" => some .matchSeq
  | "matchSeqBare" => some .matchSeqBare | "matchClass" => some (.matchClass (← n 1))
  | _ => none

/-- E = ["leaf", tok, cls] | ["node", kind, [kids]] -/
partial def parseE (j : Json) : Option E := do
  let a ← asArr j
  let tag ← asStr a[0]!
  match tag with
  | "leaf" => some (.leaf (← parseTok a[1]!) (← parseCls a[2]!))
  | "node" => some (.node (← parseKind a[1]!) (← (← asArr a[2]!).toList.mapM parseE))
  | _ => none

def parseSlot (j : Json) : Option Slot := do
  let m ← getNat j "minLad"
  let b (k : String) := (getBool j k).getD false
  some { minLad := m, named := b "named", tuple := b "tuple", yieldc := b "yieldc", star := b "star", noInt := b "noInt" }

def dispatch (f : String) (j : Json) : Option Json :=
  match f with
  | "C09.print" => some <| Id.run do
      let some e := (get j "e").bind parseE | return Json.mkObj [("err", "bad e")]
      let some s := (get j "slot").bind parseSlot | return Json.mkObj [("err", "bad slot")]
      let ts := pr minimal s e
      return Json.mkObj [("toks", Json.arr (ts.map tokJson).toArray), ("wf", Json.bool (wf s e))]
  | "C09.cell" => some <| Id.run do
      -- row index, child index, flags → what the regenerated table says and what the grammar needs
      let some r := getNat j "row" | return Json.mkObj [("err", "bad row")]
      let some c := getNat j "child" | return Json.mkObj [("err", "bad child")]
      let some fl := getNat j "flags" | return Json.mkObj [("err", "bad flags")]
      match rows[r]?, children[c]? with
      | some row, some ck =>
        let mask := row.2.2.getD c 0
        let need : Json := match slotOf row.1 row.2.1 fl, clsOf ck fl with
          | some (s, sp), some (cl, cp) => if sp == cp && parenable cl then Json.bool (specNeed s cl) else Json.null
          | _, _ => Json.null
        return Json.mkObj [("req", if mask == 65536 then Json.null else Json.bool (bit mask fl)), ("need", need)]
      | _, _ => return Json.mkObj [("err", "index")]
  | _ => none

end Pfst.Drv.C09
