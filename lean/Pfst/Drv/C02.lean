import Pfst.JsonUtil
import Pfst.Links
import Pfst.SetPos
import Pfst.OffsetLemmas
/-! Driver package for C02: link-store operations, the link invariant on dumped graphs, the touched set of the offset
walk, view window arithmetic. -/
namespace Pfst.Drv.C02
open Lean Pfst.JsonUtil Pfst.Links

/-! position-tree parsing (same wire format as the C11 package; copied so that the packages stay independent) -/
section PosTree
open Pfst.Offset

def parsePos (j : Json) : Option (Option Pos) :=
  if isNull j then some none else do
    let l ← asInts j
    match l with
    | [a, b, c, d] => some (some ⟨a, b, c, d⟩)
    | _ => none

/-- tree = [id, pos|null, deco|null, [kids...]] -/
partial def parseNode (j : Json) : Option Node := do
  let a ← asArr j
  if a.size != 4 then none
  let i ← asNat a[0]!
  let p ← parsePos a[1]!
  let d := if isNull a[2]! then none else asInt a[2]!
  let ks ← (← asArr a[3]!).toList.mapM parseNode
  some (.mk i p d ks)

def parseTri (j : Json) : Option Tri :=
  match j with
  | .null => some .n
  | .bool true => some .t
  | .bool false => some .f
  | _ => none

def parseParams (j : Json) : Option Params := do
  let lno ← getInt j "lno"
  let colo ← getInt j "colo"
  let dln ← getInt j "dln"
  let dcol ← getInt j "dcol"
  let tail ← parseTri (← get j "tail")
  let head ← parseTri (← get j "head")
  let ex := (get j "exclude").bind asNat
  let oe := (getBool j "offset_excluded").getD true
  some { lno, colo, dln, dcol, tail, head, exclude := ex, offsetExcluded := oe }

def posJson (p : Option Pos) : Json :=
  match p with
  | none => Json.null
  | some p => ofInts [p.lno, p.col, p.elno, p.ecol]
end PosTree

def parseFld (j : Json) : Option (Option Fld) :=
  if isNull j then some none else do
    let a ← asArr j
    if a.size != 2 then none
    let n ← asStr a[0]!
    let i := if isNull a[1]! then none else asNat a[1]!
    some (some ⟨n, i⟩)

/-- tree = [aid, kind, fld|null, [kids...]] -/
partial def parseAst (j : Json) : Option Ast := do
  let a ← asArr j
  if a.size != 4 then none
  let i ← asNat a[0]!
  let k ← asStr a[1]!
  let f ← parseFld a[2]!
  let ks ← (← asArr a[3]!).toList.mapM parseAst
  some (.mk i k f ks)

def optNat (j : Json) : Option Nat := if isNull j then none else asNat j

def parseCache (j : Json) : Option Cache := do
  (← asArr j).toList.mapM (fun e => do
    let a ← asArr e
    if a.size != 2 then none
    let k ← asStr a[0]!
    let v ← asInts a[1]!
    some (k, v))

def parseStore (j : Json) : Option Store := do
  let af ← (← getArr j "astF").toList.mapM (fun e => do
    let l ← asNats e
    match l with | [a, f] => some (a, f) | _ => none)
  let fs ← (← getArr j "fst").toList.mapM (fun e => do
    let a ← asArr e
    if a.size != 5 then none
    let i ← asNat a[0]!
    let fld ← parseFld a[3]!
    let c ← parseCache a[4]!
    some (i, ({ a := optNat a[1]!, parent := optNat a[2]!, pfield := fld, cache := c } : FstRec)))
  let next ← getNat j "next"
  some { astF := fun a => af.lookup a, fst := fun f => (fs.lookup f).getD {}, next := next }

def fldJson : Option Fld → Json
  | none => Json.null
  | some f => Json.arr #[Json.str f.name, ofOpt ofNat f.idx]

partial def astJson : Ast → Json
  | .mk i k f ks => Json.arr #[ofNat i, Json.str k, fldJson f, Json.arr (ks.map astJson).toArray]

def cacheJson (c : Cache) : Json := Json.arr (c.map (fun (k, v) => Json.arr #[Json.str k, ofInts v])).toArray

def storeJson (σ : Store) (aids : List Nat) : Json :=
  let af := aids.eraseDups.filterMap (fun a => (σ.astF a).map (fun f => ofNats [a, f]))
  let fs := (List.range σ.next).map (fun f =>
    let r := σ.fst f
    Json.arr #[ofNat f, ofOpt ofNat r.a, ofOpt ofNat r.parent, fldJson r.pfield, cacheJson r.cache])
  Json.mkObj [("astF", Json.arr af.toArray), ("fst", Json.arr fs.toArray), ("next", ofNat σ.next)]

def parseState (j : Json) : Option State := do
  let t ← (get j "tree").bind parseAst
  let rf ← getNat j "rootf"
  let σ ← (get j "store").bind parseStore
  some { root := t, rootF := rf, σ := σ }

def err (s : String) : Json := Json.mkObj [("err", Json.str s)]

def parseVOp (j : Json) : Option (VOp × Nat × Nat) := do
  let name ← getStr j "op"
  let lb ← getNat j "len_before"
  let la ← getNat j "len_after"
  let op ← match name with
    | "lenDelta" => some VOp.lenDelta
    | "delitem" => (getNat j "k").map VOp.delitem
    | "append" => some VOp.append
    | "extend" => some VOp.extend
    | "prepend" => some VOp.prepend
    | "cut" => some VOp.cut
    | _ => none
  some (op, lb, la)

def viewJson (v : View) : Json := Json.arr #[ofNat v.start, ofOpt ofNat v.stop]

def dispatch (f : String) (j : Json) : Option Json :=
  match f with
  | "C02.link_inv" => some <| Id.run do
      let some s := parseState j | return err "bad state"
      return Json.mkObj [("inv", Json.bool (linkInvB s)), ("linked", Json.bool (linkedB s.σ none s.root))]
  | "C02.op" => some <| Id.run do
      let some s := (get j "state").bind parseState | return err "bad state"
      let some o := get j "op" | return err "no op"
      let some name := getStr o "name" | return err "no op name"
      let v := (getBool o "valid_fst").getD false
      let u := (getBool o "unmake").getD true
      let extra : List Ast := ((getArr o "new").getD #[]).toList.filterMap parseAst
      let aids0 := ids s.root ++ idsList extra
      match name with
      | "set_ast" =>
        let some fi := getNat o "fst" | return err "no fst"
        match extra with
        | [new] =>
          let s' := setAst s fi new v u
          return Json.mkObj [("tree", astJson s'.root), ("store", storeJson s'.σ (aids0 ++ ids s'.root)),
                             ("inv", Json.bool (linkInvB s')), ("wf_before", Json.bool (wfB s)),
                             ("admissible", Json.bool (admissibleB s (.setAst fi new v u))),
                             ("wf_after", Json.bool (wfB s'))]
        | _ => return err "set_ast needs one new tree"
      | "set_field" =>
        let some fi := getNat o "fst" | return err "no fst"
        let some fname := getStr o "field" | return err "no field"
        let isList := (getBool o "is_list").getD true
        let s' := setField s fi fname isList extra v u
        return Json.mkObj [("tree", astJson s'.root), ("store", storeJson s'.σ (aids0 ++ ids s'.root)),
                           ("inv", Json.bool (linkInvB s')), ("wf_before", Json.bool (wfB s)),
                           ("admissible", Json.bool (admissibleB s (.setField fi fname isList extra v u))),
                           ("wf_after", Json.bool (wfB s'))]
      | "unmake" =>
        -- `_unmake_fst_tree()` of the FST `fst` (its AST subtree)
        let some fi := getNat o "fst" | return err "no fst"
        let some t := ((s.σ.fst fi).a).bind (fun i => findId i s.root) | return err "fst has no ast in tree"
        let σ' := unmake s.σ t
        return Json.mkObj [("tree", astJson s.root), ("store", storeJson σ' aids0), ("dead", Json.bool (deadB σ' t))]
      | "make" =>
        -- `_make_fst_tree()` of the FST `fst`: FSTs for everything below its AST
        let some fi := getNat o "fst" | return err "no fst"
        let some t := ((s.σ.fst fi).a).bind (fun i => findId i s.root) | return err "fst has no ast in tree"
        let σ' := makeKids s.σ fi t.kids
        return Json.mkObj [("tree", astJson s.root), ("store", storeJson σ' aids0),
                           ("inv", Json.bool (linkInvB { s with σ := σ' }))]
      | "touch" =>
        let some fi := getNat o "fst" | return err "no fst"
        let s' := step s (.touch fi)
        return Json.mkObj [("tree", astJson s'.root), ("store", storeJson s'.σ aids0)]
      | "renumber" =>
        -- the renumbering loop over the children of the FST `fst` (children carry the slots they occupy in the dump)
        let some fi := getNat o "fst" | return err "no fst"
        let some t := ((s.σ.fst fi).a).bind (fun i => findId i s.root) | return err "fst has no ast in tree"
        let σ' := renumberKids s.σ t.kids
        return Json.mkObj [("tree", astJson s.root), ("store", storeJson σ' aids0),
                           ("inv", Json.bool (linkInvB { s with σ := σ' }))]
      | "touch_kids" =>
        -- repaired tail of `_put_slice` on Call / ClassDef / MatchClass: touch every direct child
        let some fi := getNat o "fst" | return err "no fst"
        let some t := ((s.σ.fst fi).a).bind (fun i => findId i s.root) | return err "fst has no ast in tree"
        let σ' := touchKids s.σ t.kids
        return Json.mkObj [("tree", astJson s.root), ("store", storeJson σ' aids0)]
      | "touchall" =>
        let some fi := getNat o "fst" | return err "no fst"
        let p := (getBool o "parents").getD true
        let sf := (getBool o "self").getD true
        let c := (getBool o "children").getD true
        let s' := step s (.touchall fi p sf c)
        return Json.mkObj [("tree", astJson s'.root), ("store", storeJson s'.σ aids0)]
      | _ => return err "unknown op"
  | "C02.touched" => some <| Id.run do
      let some t := (get j "tree").bind parseNode | return err "bad tree"
      let some π := (get j "params").bind parseParams | return err "bad params"
      let self := (getBool j "self").getD true
      let touched :=
        if π.dln == 0 && π.dcol == 0 then (if !self && π.exclude == some t.id then [] else allIds t)
        else if self then (touchNode π t).1
        else if π.exclude == some t.id then [] else (touchList π t.kids).1
      let r := if self then Pfst.Offset.offsetTree π t else Pfst.Offset.offsetKids π t
      let fl := Pfst.Offset.flatten r
      return Json.mkObj [("touched", ofNats touched),
                         ("pos", Json.arr (fl.map (fun (i, p) => Json.arr #[ofNat i, posJson p])).toArray),
                         ("geo", Json.bool (Pfst.Offset.geo t))]
  | "C02.view" => some <| Id.run do
      let some start := getNat j "start" | return err "no start"
      let stop := (get j "stop").bind optNat
      let ops := ((getArr j "ops").getD #[]).toList.filterMap parseVOp
      let mut v : View := ⟨start, stop⟩
      let mut out : Array Json := #[]
      for (op, lb, la) in ops do
        let b := baseIndices v lb
        v := viewAfter v op lb la
        let a := baseIndices v la
        out := out.push (Json.arr #[ofNats [b.2.1, b.2.2.1, b.2.2.2], viewJson v, ofNats [a.2.1, a.2.2.1, a.2.2.2],
                                    ofNat (viewLen v la)])
      return Json.arr out
  | "C02.set_pos" => some <| Id.run do
      -- chain = [[id, [line, col] | null, has_sibling], ...] self first; new = [line, col]; old = [line, col] | null
      let parsePair (j : Json) : Option (Int × Int) := do
        match ← asInts j with
        | [a, b] => some (a, b)
        | _ => none
      let parseLink (j : Json) : Option Pfst.SetPos.Link := do
        let a ← asArr j
        if a.size != 3 then none
        let i ← asNat a[0]!
        let p ← if isNull a[1]! then some none else (parsePair a[1]!).map some
        let h ← asBool a[2]!
        some ⟨i, p, h⟩
      let some chain := ((getArr j "chain").map (·.toList)).bind (·.mapM parseLink) | return err "bad chain"
      let some new := (get j "new").bind parsePair | return err "bad new"
      let old := (get j "old").bind parsePair
      let r := Pfst.SetPos.setPos new old chain
      return Json.mkObj [("touched", ofNats r.2),
                         ("pos", Json.arr (r.1.map (fun l => ofOpt (fun (p : Int × Int) => ofInts [p.1, p.2]) l.pos)).toArray)]
  | "C02.base_indices" => some <| Id.run do
      let some start := getNat j "start" | return err "no start"
      let stop := (get j "stop").bind optNat
      let some n := getNat j "len" | return err "no len"
      let b := baseIndices ⟨start, stop⟩ n
      return Json.arr #[viewJson b.1, ofNats [b.2.1, b.2.2.1, b.2.2.2]]
  | _ => none

end Pfst.Drv.C02
