import Pfst.JsonUtil
import Pfst.ParseWrap
import Pfst.SeqFix
import Pfst.TrailSep
/-! Driver package for C05: `_astloc_from_src`, `_offset_linenos`, fragment rebasing, `_verify_no_close_delimiters`,
delimiter depth / matching. -/
namespace Pfst.Drv.C05
open Lean Pfst.JsonUtil Pfst.ParseWrap

def parseLoc (j : Json) : Option (Option Loc) :=
  if isNull j then some none else do
    let l ← asInts j
    match l with
    | [a, b, c, d] => some (some ⟨a, b, c, d⟩)
    | _ => none

/-- tree = [pos|null, [kids...]] -/
partial def parseTree (j : Json) : Option PTree := do
  let a ← asArr j
  if a.size != 2 then none
  let p ← parseLoc a[0]!
  let ks ← (← asArr a[1]!).toList.mapM parseTree
  some (.node p ks)

mutual
def flatten : PTree → List (Option Loc)
  | .node p ks => p :: flattenKids ks
def flattenKids : List PTree → List (Option Loc)
  | [] => []
  | t :: ts => flatten t ++ flattenKids ts
end

def locJson : Option Loc → Json
  | none => Json.null
  | some p => ofInts [p.lineno, p.col, p.endLineno, p.endCol]

def posJson (t : PTree) : Json := Json.arr ((flatten t).map locJson).toArray

def delims (j : Json) : Char × Char :=
  match (getStr j "delims").map String.toList with
  | some [o, c] => (o, c)
  | _ => ('(', ')')

def dispatch (f : String) (j : Json) : Option Json :=
  match f with
  | "C05.astloc" => some <| Id.run do
      let some s := getStr j "src" | return Json.mkObj [("err", "bad src")]
      let n := (getInt j "lineno").getD 1
      let r := astlocFromSrc s.toList n
      return ofInts [r.lineno, r.col, r.endLineno, r.endCol]
  | "C05.offset_linenos" => some <| Id.run do
      let some t := (get j "tree").bind parseTree | return Json.mkObj [("err", "bad tree")]
      let some d := getInt j "delta" | return Json.mkObj [("err", "bad delta")]
      return posJson (offsetLinenos d t)
  | "C05.rebase" => some <| Id.run do
      let some t := (get j "tree").bind parseTree | return Json.mkObj [("err", "bad tree")]
      let some l0 := getInt j "l0" | return Json.mkObj [("err", "bad l0")]
      let some c0 := getInt j "c0" | return Json.mkObj [("err", "bad c0")]
      return posJson (mapTree (rebaseAt l0 c0) t)
  | "C05.verify" => some <| Id.run do
      let some ls := (get j "lines").bind asStrs | return Json.mkObj [("err", "bad lines")]
      let some a := (get j "a").bind asInts | return Json.mkObj [("err", "bad args")]
      let (o, c) := delims j
      match a with
      | [e0Ln, e0Col, e0EndLn, e0EndCol, endLn] =>
        return Json.bool (verifyNoClose (ls.map String.toList) e0Ln e0Col.toNat e0EndLn.toNat e0EndCol.toNat endLn.toNat o c)
      | _ => return Json.mkObj [("err", "bad args")]
  | "C05.scan" => some <| Id.run do
      let some s := getStr j "src" | return Json.mkObj [("err", "bad src")]
      let (o, c) := delims j
      let d := scanDepth o c s.toList 0
      let m := matchClose o c (s.toList ++ [c]) 0
      return Json.mkObj [("depth", ofOpt ofNat d), ("match", ofOpt ofNat m), ("len", ofNat s.toList.length)]
  | "C05.fix_seq" => some <| Id.run do
      let some ls := (get j "lines").bind asStrs | return Json.mkObj [("err", "bad lines")]
      let some e0 := (get j "e0").bind parseLoc | return Json.mkObj [("err", "bad e0")]
      let some en := (get j "en").bind parseLoc | return Json.mkObj [("err", "bad en")]
      let some e0 := e0 | return Json.mkObj [("err", "bad e0")]
      let some en := en | return Json.mkObj [("err", "bad en")]
      let e1 := getInt j "e1"
      let some ae := getInt j "ast_end" | return Json.mkObj [("err", "bad ast_end")]
      let some ln := getInt j "lineno" | return Json.mkObj [("err", "bad lineno")]
      let (o, c) := delims j
      return locJson (Pfst.SeqFix.fixSeq (ls.map String.toList) e0 en e1 ae ln o c)
  | "C05.trailing_sep" => some <| Id.run do
      let some src := getStr j "src" | return Json.mkObj [("err", "bad src")]
      let some ln := getNat j "end_lineno" | return Json.mkObj [("err", "bad end_lineno")]
      let some col := getNat j "end_col" | return Json.mkObj [("err", "bad end_col")]
      let sep := match (getStr j "sep").map String.toList with | some [c] => c | _ => ','
      return Json.bool (Pfst.TrailSep.hasTrailingSep sep src.toList ln col)
  | "C05.arg_check" => some <| Id.run do
      let some a := (get j "shape").bind asNats | return Json.mkObj [("err", "bad shape")]
      match a with
      | [po, ar, va, ko, kd, kw, de] =>
        let s : ArgsShape := ⟨po, ar, va != 0, ko, kd, kw != 0, de⟩
        return Json.bool (if (getBool j "star").getD false then argStarOk s else argNormalOk s)
      | _ => return Json.mkObj [("err", "bad shape")]
  | "C05.importfrom_check" => some <| Id.run do
      let some a := (get j "alias").bind parseLoc | return Json.mkObj [("err", "bad alias")]
      let some st := (get j "stmt").bind parseLoc | return Json.mkObj [("err", "bad stmt")]
      let some a := a | return Json.mkObj [("err", "bad alias")]
      let some st := st | return Json.mkObj [("err", "bad stmt")]
      let some n := getNat j "n" | return Json.mkObj [("err", "bad n")]
      return Json.bool (if (getBool j "single").getD true then importFromNameOk n a st else endsWithStmt a st)
  | "C05.undo_indent" => some <| Id.run do
      let some t := (get j "tree").bind parseTree | return Json.mkObj [("err", "bad tree")]
      let some k := getInt j "k" | return Json.mkObj [("err", "bad k")]
      let some ind := (get j "ind").bind asInts | return Json.mkObj [("err", "bad ind")]
      return posJson (mapTree (undoIndent k ind) t)
  | "C05.span" => some <| Id.run do
      -- text of a span inside the wrapper vs inside the source (both sides of `wrap_positions`)
      let some pre := getStr j "pre" | return Json.mkObj [("err", "bad pre")]
      let some src := getStr j "src" | return Json.mkObj [("err", "bad src")]
      let some post := getStr j "post" | return Json.mkObj [("err", "bad post")]
      let some a := (get j "a").bind asNats | return Json.mkObj [("err", "bad span")]
      match a with
      | [ln, col, eln, ecol] =>
        let s : Span := ⟨ln, col, eln, ecol⟩
        let inW := getSpan (splitLines (wrapText pre.toList src.toList post.toList)) (s.shift (countNl pre.toList + 1))
        let inS := getSpan (splitLines src.toList) s
        return Json.mkObj [("wrapped", ofStrs (inW.map String.ofList)), ("src", ofStrs (inS.map String.ofList))]
      | _ => return Json.mkObj [("err", "bad span")]
  | _ => none

end Pfst.Drv.C05
