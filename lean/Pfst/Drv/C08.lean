import Pfst.JsonUtil
import Pfst.Quote
import Pfst.Indentable
import Pfst.PutBack
import Pfst.SharedDelims
/-! Driver package for C08: strings travel as lists of code points (no JSON escaping questions); the per-character
classification is a table `[[codepoint, isprintable, repr_raw, isspace], ...]` computed by the harness with CPython. -/
namespace Pfst.Drv.C08
open Lean Pfst.JsonUtil Pfst.Quote Pfst.Indentable

def toChars (l : List Nat) : List Char := l.map Char.ofNat
def ofChars (l : List Char) : Json := ofNats (l.map Char.toNat)

def parseCls (j : Json) : Option Cls := do
  let rows ← (← asArr j).toList.mapM asNats
  let look (i : Nat) (c : Char) : Bool :=
    match rows.find? (fun r => r.head? == some c.toNat) with
    | some r => r.getD i 0 != 0
    | none => false
  some { printable := look 1, reprRaw := look 2, space := look 3 }

def strs (j : Json) (k : String) : Option (List (List Char)) := do
  let a ← getArr j k
  a.toList.mapM (fun x => (asNats x).map toChars)

def chars (j : Json) (k : String) : Option (List Char) := ((get j k).bind asNats).map toChars

def optJson (o : Option (List Char)) : Json := match o with | none => Json.null | some l => ofChars l

def putResJson : PutRes → Json
  | .ok t => Json.mkObj [("ok", ofChars t)]
  | .valueError => Json.str "ValueError"
  | .unmodelled => Json.str "unmodelled"

/-- optional text part of a "C08.indentable" case -/
def strs_lines (j : Json) : Option (List Char × Nat × List (List Char)) := do
  let ind ← chars j "ind"
  let lo ← getNat j "lo"
  let lines ← strs j "lines"
  some (ind, lo, lines)

def dispatch (f : String) (j : Json) : Option Json :=
  match f with
  | "C08.repr" => some <| Id.run do
      -- batch: every string of `ss` → [repr_str_multiline output, its decoding]
      let some k := (get j "cls").bind parseCls | return Json.mkObj [("err", "bad cls")]
      let some ss := strs j "ss" | return Json.mkObj [("err", "bad ss")]
      return Json.arr (ss.map (fun s =>
        let r := reprMultiline k s
        Json.arr #[ofChars r, optJson (decodeTriple r)])).toArray
  | "C08.decode" => some <| Id.run do
      let some ss := strs j "ss" | return Json.mkObj [("err", "bad ss")]
      return Json.arr (ss.map (fun s => optJson (decodeTriple s))).toArray
  | "C08.docput" => some <| Id.run do
      -- batch of [ind, literal] → indented literal
      let some a := getArr j "items" | return Json.mkObj [("err", "bad items")]
      let some items := a.toList.mapM (fun x => do
        let p ← asArr x
        if p.size != 2 then none
        let i ← asNats p[0]!; let l ← asNats p[1]!
        some (toChars i, toChars l)) | return Json.mkObj [("err", "bad item")]
      return Json.arr (items.map (fun (i, l) => ofChars (putDocSrc i l))).toArray
  | "C08.docget" => some <| Id.run do
      let some a := getArr j "items" | return Json.mkObj [("err", "bad items")]
      let some items := a.toList.mapM (fun x => do
        let p ← asArr x
        if p.size != 2 then none
        let i ← asNats p[0]!; let l ← asNats p[1]!
        some (toChars i, toChars l)) | return Json.mkObj [("err", "bad item")]
      return Json.arr (items.map (fun (i, v) => ofChars (getDocstr i v))).toArray
  | "C08.docval" => some <| Id.run do
      -- batch of [ind, text] → the Constant value after put_docstr (specification `indentVal`) and its dedent
      let some a := getArr j "items" | return Json.mkObj [("err", "bad items")]
      let some items := a.toList.mapM (fun x => do
        let p ← asArr x
        if p.size != 2 then none
        let i ← asNats p[0]!; let l ← asNats p[1]!
        some (toChars i, toChars l)) | return Json.mkObj [("err", "bad item")]
      return Json.arr (items.map (fun (i, s) =>
        Json.arr #[ofChars (indentVal i s), ofChars (getDocstr i (indentVal i s))])).toArray
  | "C08.indentable" => some <| Id.run do
      -- {mode: 0|1|2, strs: [[kind, first, last]...], items: [[lo, skip, hi]...]} → indentable line numbers per item;
      -- with "lines" (lines lo..hi as code point lists) and "ind": also the indented and the dedented block of item 0
      let some mi := getNat j "mode" | return Json.mkObj [("err", "bad mode")]
      let m : DocMode := if mi == 0 then .off else if mi == 1 then .all else .strict
      let some sa := getArr j "strs" | return Json.mkObj [("err", "bad strs")]
      let some strs := sa.toList.mapM (fun x => do
        let l ← asNats x
        match l with
        | [k, a, b] =>
          let kind : StrKind := if k == 0 then .docFirst else if k == 1 then .docOther else if k == 2 then .bytesExpr else .other
          some (⟨kind, a, b⟩ : MStr)
        | _ => none) | return Json.mkObj [("err", "bad str")]
      let some ia := getArr j "items" | return Json.mkObj [("err", "bad items")]
      let some items := ia.toList.mapM asNats | return Json.mkObj [("err", "bad item")]
      let lns := items.map (fun it => match it with
        | [lo, skip, hi] => ofNats (indentableLns m strs lo skip hi)
        | _ => Json.null)
      match strs_lines j with
      | some (ind, lo, lines) =>
        return Json.mkObj [("lns", Json.arr lns.toArray),
                           ("indent", Json.arr ((indentBlock ind m strs lo lines).map ofChars).toArray),
                           ("dedent", Json.arr ((dedentBlock ind m strs lo lines).map ofChars).toArray)]
      | none => return Json.mkObj [("lns", Json.arr lns.toArray)]
  | "C08.fixwith" => some <| Id.run do
      let some k := getStr j "kind" | return Json.mkObj [("err", "bad kind")]
      return Json.bool (Pfst.SharedDelims.fixWithItems k)
  | "C08.annsimple" => some <| Id.run do
      -- batch of [targetIsName, npars] → simple
      let some a := getArr j "items" | return Json.mkObj [("err", "bad items")]
      let some items := a.toList.mapM asNats | return Json.mkObj [("err", "bad item")]
      return Json.arr (items.map (fun it => match it with
        | [n, p] => ofNat (Pfst.SharedDelims.annSimple (n != 0) p)
        | _ => Json.null)).toArray
  | "C08.posafter" => some <| Id.run do
      let some a := getArr j "items" | return Json.mkObj [("err", "bad items")]
      let some items := a.toList.mapM asNats | return Json.mkObj [("err", "bad item")]
      return Json.arr (items.map (fun it => match it with
        | [l1, c1, l2, c2] => Json.bool (Pfst.SharedDelims.posAfter l1 c1 l2 c2)
        | _ => Json.null)).toArray
  | "C08.elif" => some <| Id.run do
      -- batch of [hasPre, hasPost, isOrelse, tgtIsIf, optElif, oldIsElif, putLen, putFirstIsIf] → 0 keep / 1 toElif / 2 toElse
      let some a := getArr j "items" | return Json.mkObj [("err", "bad items")]
      let some items := a.toList.mapM asNats | return Json.mkObj [("err", "bad item")]
      return Json.arr (items.map (fun it => match it with
        | [a, b, c, d, e, f, n, g] =>
          match Pfst.PutBack.elifDecision ⟨a != 0, b != 0, c != 0, d != 0, e != 0, f != 0, n, g != 0⟩ with
          | .keep => ofNat 0 | .toElif => ofNat 1 | .toElse => ofNat 2
        | _ => Json.null)).toArray
  | "C08.comment" => some <| Id.run do
      -- batch of [tail, comment|null, full] → {get, put|del}
      let some k := (get j "cls").bind parseCls | return Json.mkObj [("err", "bad cls")]
      let some a := getArr j "items" | return Json.mkObj [("err", "bad items")]
      let some items := a.toList.mapM (fun x => do
        let p ← asArr x
        if p.size != 3 then none
        let t ← asNats p[0]!
        let c := if isNull p[1]! then none else (asNats p[1]!).map toChars
        let full ← asBool p[2]!
        some (toChars t, c, full)) | return Json.mkObj [("err", "bad item")]
      return Json.arr (items.map (fun (t, c, full) =>
        Json.mkObj [("get", optJson (commentGet k full t)),
                    ("put", match c with
                            | some c => putResJson (commentPut k full t c)
                            | none => Json.mkObj [("ok", ofChars (commentDel k t))])])).toArray
  | _ => none

end Pfst.Drv.C08
