import Pfst.JsonUtil
import Pfst.Text
import Pfst.Trivia
/-! Driver package for C04: `put_src`, `get_src` (text layer), `leading_trivia`, `trailing_trivia`,
`get_trivia_params`, `check_opt_trivia`, `space_set`. -/
namespace Pfst.Drv.C04
open Lean Pfst.JsonUtil Pfst.Text Pfst.Trivia

def toLines (l : List String) : List Line := l.map String.toList
def ofLines (l : List Line) : Json := ofStrs (l.map String.ofList)

def err (s : String) : Json := Json.mkObj [("err", Json.str s)]

def ofPos (p : Nat × Nat) : Json := ofNats [p.1, p.2]

/-- `space`: true | false | int -/
def parseSpace (j : Json) : Option Space :=
  match j with
  | .bool true => some .all
  | .bool false => some (.n 0)
  | _ => (asNat j).map .n

def parseLComments (j : Json) : Option LComments :=
  match j with
  | .str "none" => some .none
  | .str "all" => some .all
  | .str "block" => some .block
  | _ => (asInt j).map .lineno

def parseTComments (j : Json) : Option TComments :=
  match j with
  | .str "none" => some .none
  | .str "all" => some .all
  | .str "block" => some .block
  | .str "line" => some .line
  | _ => (asInt j).map .lineno

def parseTVal (j : Json) : Option TVal :=
  match j with
  | .bool b => some (.bool b)
  | .str s => some (.str s.toList)
  | _ => (asInt j).map .int

/-- trivia option: {"t": [..]} for a tuple, {"v": x} for a single value -/
def parseTrivOpt (j : Json) : Option TrivOpt :=
  match get j "t" with
  | some t => do
    let a ← asArr t
    let l ← a.toList.mapM parseTVal
    some (.tuple l)
  | none => do
    let v ← get j "v"
    let v ← parseTVal v
    some (.single v)

def ofCVal : CVal → Json
  | .str s => Json.str (String.ofList s)
  | .int n => ofInt n

def ofSVal : SVal → Json
  | .bool b => Json.bool b
  | .int n => ofNat n

def dispatch (f : String) (j : Json) : Option Json :=
  match f with
  | "C04.put_src" => some <| Id.run do
      let some L := (get j "lines").bind asStrs | return err "bad lines"
      let put := match get j "put" with
        | some p => if isNull p then some [] else (asStrs p)
        | none => some []
      let some put := put | return err "bad put"
      let some a := (get j "a").bind asNats | return err "bad a"
      match a with
      | [ln, col, endLn, endCol] =>
        let L := toLines L
        let put := toLines put
        let r := putSrc L put ln col endLn endCol
        let po := paramsOffsetBytes L (if put.isEmpty then [[]] else put) ln col endLn endCol
        return Json.mkObj [("lines", ofLines r),
                           ("po", Json.arr #[ofNat po.1, ofInt po.2.1, ofInt po.2.2.1, ofInt po.2.2.2])]
      | _ => return err "bad a"
  | "C04.place" => some <| Id.run do
      -- lines, put (as spliced: continuation lines already indented), a = [ln, col, endLn, endCol], pts = [[l, byteCol], ...]
      let some L := (get j "lines").bind asStrs | return err "bad lines"
      let some put := (get j "put").bind asStrs | return err "bad put"
      let some a := (get j "a").bind asNats | return err "bad a"
      let some pts := (get j "pts").bind asArr | return err "bad pts"
      match a with
      | [ln, col, endLn, endCol] =>
        let L := toLines L
        let put := toLines put
        let placed := pts.map (fun q => match asNats q with
          | some [l, b] => ofNats [placeLn ln l, placeColBytes L ln col l b]
          | _ => err "bad pt")
        return Json.mkObj [("lines", ofLines (putSrc L put ln col endLn endCol)), ("placed", Json.arr placed)]
      | _ => return err "bad a"
  | "C04.get_src" => some <| Id.run do
      let some L := (get j "lines").bind asStrs | return err "bad lines"
      let some a := (get j "a").bind asNats | return err "bad a"
      match a with
      | [ln, col, endLn, endCol] => return ofLines (getSrc (toLines L) ln col endLn endCol)
      | _ => return err "bad a"
  | "C04.leading_trivia" => some <| Id.run do
      -- lines + qs = [[bound_ln, bound_col, ln, col, comments, space], ...]
      let some L := (get j "lines").bind asStrs | return err "bad lines"
      let some qs := (get j "qs").bind asArr | return err "bad qs"
      let L := toLines L
      let out := qs.map (fun q => Id.run do
        let some a := asArr q | return err "bad q"
        if a.size != 6 then return err "bad q"
        let some c := parseLComments a[4]! | return err "bad comments"
        let some s := parseSpace a[5]! | return err "bad space"
        let some nums := (a.toList.take 4).mapM asNat | return err "bad q"
        match nums with
        | [bln, bcol, ln, col] =>
          let r := leadingTrivia L bln bcol ln col c s
          return Json.arr #[ofPos r.text, ofOpt ofPos r.space, ofOpt (fun i => Json.str (String.ofList i)) r.indent]
        | _ => return err "bad q")
      return Json.arr out
  | "C04.trailing_trivia" => some <| Id.run do
      let some L := (get j "lines").bind asStrs | return err "bad lines"
      let some qs := (get j "qs").bind asArr | return err "bad qs"
      let L := toLines L
      let out := qs.map (fun q => Id.run do
        let some a := asArr q | return err "bad q"
        if a.size != 6 then return err "bad q"
        let some c := parseTComments a[4]! | return err "bad comments"
        let some s := parseSpace a[5]! | return err "bad space"
        let some nums := (a.toList.take 4).mapM asNat | return err "bad q"
        match nums with
        | [beln, becol, eln, ecol] =>
          let r := trailingTrivia L beln becol eln ecol c s
          return Json.arr #[ofPos r.text, ofOpt ofPos r.space, Json.bool r.endsLine]
        | _ => return err "bad q")
      return Json.arr out
  | "C04.get_trivia_params" => some <| Id.run do
      let some t := parseTrivOpt j | return err "bad trivia"
      let neg := (getBool j "neg").getD false
      let chk := checkOptTrivia t
      match getTriviaParams t neg with
      | none => return Json.mkObj [("ok", Json.bool chk), ("params", Json.null)]
      | some p => return Json.mkObj [("ok", Json.bool chk), ("params",
          Json.arr #[ofCVal p.leadC, ofSVal p.leadS, Json.bool p.leadNeg, ofCVal p.trailC, ofSVal p.trailS, Json.bool p.trailNeg]),
          ("legal", Json.bool (legalLead p.leadC && legalTrail p.trailC))]
  | "C04.opt_resolve" => some <| Id.run do
      -- dflt, ops = [["set", v] | ["enter", v] | ["exit"]], call (absent = not passed); values are opaque JSON
      let some dflt := get j "dflt" | return err "bad dflt"
      let some ops := (get j "ops").bind asArr | return err "bad ops"
      let st : OptState String := ops.foldl (fun st o =>
        match asArr o with
        | some a =>
          match (a[0]?.bind asStr) with
          | some "set" => st.step (.set (a[1]!.compress))
          | some "enter" => st.step (.enter (a[1]!.compress))
          | some "exit" => st.step .exit
          | _ => st
        | none => st) ⟨dflt.compress, []⟩
      let call := (get j "call").map Json.compress
      return Json.mkObj [("effective", Json.str (effective call st)), ("cur", Json.str st.cur), ("depth", ofNat st.saved.length)]
  | "C04.space_set" => some <| Id.run do
      -- every code point (surrogates excluded) the model's `\s` accepts
      let l := (List.range 0x110000).filter (fun n => decide (n.isValidChar) && isSpaceCh (Char.ofNat n))
      return ofNats l
  | "C04.regex" => some <| Id.run do
      let some L := (get j "lines").bind asStrs | return err "bad lines"
      return Json.arr ((toLines L).map (fun l => Json.arr #[Json.bool (reCommentLineStart l), Json.bool (reEmptyLineOrCont l),
        ofOpt Json.bool (reEmptyLineContOrComment l)])).toArray
  | _ => none

end Pfst.Drv.C04
