import Pfst.JsonUtil
import Pfst.Text
/-! Driver package for C04: `put_src`, `get_src`, `params_offset` (text layer) and the trivia functions. -/
namespace Pfst.Drv.C04
open Lean Pfst.JsonUtil Pfst.Text

def toLines (l : List String) : List Line := l.map String.toList
def ofLines (l : List Line) : Json := ofStrs (l.map String.ofList)

def err (s : String) : Json := Json.mkObj [("err", Json.str s)]

def dispatch (f : String) (j : Json) : Option Json :=
  match f with
  | "C04.put_src" => some <| Id.run do
      let some L := (get j "lines").bind asStrs | return err "bad lines"
      let put := match get j "put" with
        | some p => if isNull p then some [] else (asStrs p)
        | none => some []
      let some put := put | return err "bad put"
      let some a := (get j "a").bind asNats | return err "bad a"
      match a with
      | [ln, col, endLn, endCol] =>
        let L := toLines L
        let put := toLines put
        let r := putSrc L put ln col endLn endCol
        let po := paramsOffsetBytes L (if put.isEmpty then [[]] else put) ln col endLn endCol
        return Json.mkObj [("lines", ofLines r),
                           ("po", Json.arr #[ofNat po.1, ofInt po.2.1, ofInt po.2.2.1, ofInt po.2.2.2])]
      | _ => return err "bad a"
  | "C04.get_src" => some <| Id.run do
      let some L := (get j "lines").bind asStrs | return err "bad lines"
      let some a := (get j "a").bind asNats | return err "bad a"
      match a with
      | [ln, col, endLn, endCol] => return ofLines (getSrc (toLines L) ln col endLn endCol)
      | _ => return err "bad a"
  | _ => none

end Pfst.Drv.C04
