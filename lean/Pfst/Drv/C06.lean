import Pfst.JsonUtil
import Pfst.Scan
/-! Driver package for C06: `bistr`, the scanning primitives, `pars`, `find_*loc`.
Lines travel as arrays of code points (`[[97, 32, 40], ...]`) so that every character survives the JSON transport. -/
namespace Pfst.Drv.C06
open Lean Pfst.JsonUtil Pfst.Scan

def parseLine (j : Json) : Option Line := do
  let l ← asNats j
  some (l.map Char.ofNat)

def parseLines (j : Json) : Option (List Line) := do
  (← asArr j).toList.mapM parseLine

def lineJson (l : Line) : Json := ofNats (l.map Char.toNat)

def parseLCont (j : Json) : Option LCont :=
  match j with
  | .null => some .n
  | .bool true => some .t
  | .bool false => some .f
  | _ => none

def fragJson : Option Frag → Json
  | none => Json.null
  | some f => Json.arr #[ofNat f.ln, ofNat f.col, lineJson f.src]

def posJson : Option (Nat × Nat) → Json
  | none => Json.null
  | some p => ofNats [p.1, p.2]

def pairsJson (l : List (Nat × Nat)) : Json := Json.arr (l.map (fun p => ofNats [p.1, p.2])).toArray

def optNatJson : Option Nat → Json
  | none => Json.null
  | some n => ofNat n

/-- one query: `[a, b, c, d, comment(0/1), lcont(0 = False, 1 = True, 2 = None), first(0/1), index into srcs]`
(trailing entries optional) -/
structure Qry where
  a : Nat
  b : Nat
  c : Nat
  d : Nat
  comment : Bool
  lcont : LCont
  first : Bool
  src : Nat

def parseQry (j : Json) : Option Qry := do
  let l ← asNats j
  match l with
  | a :: b :: c :: d :: rest =>
    let comment := rest.getD 0 0 == 1
    let lcont := match rest.getD 1 0 with | 1 => LCont.t | 2 => LCont.n | _ => LCont.f
    let first := rest.getD 2 0 == 1
    some ⟨a, b, c, d, comment, lcont, first, rest.getD 3 0⟩
  | _ => none

/-- run `g` on every query of the batch -/
def batch (j : Json) (g : List Line → List Line → Qry → Json) : Json := Id.run do
  let some lines := (get j "lines").bind parseLines | return Json.mkObj [("err", "bad lines")]
  let srcs := ((get j "srcs").bind parseLines).getD []
  let some qs := (getArr j "qs").bind (fun a => a.toList.mapM parseQry) | return Json.mkObj [("err", "bad qs")]
  return Json.arr (qs.map (g lines srcs)).toArray

def parseShared (j : Json) : Option Shared :=
  match j with
  | .null => some .n
  | .bool true => some .t
  | .bool false => some .f
  | _ => none

def parseFNode (j : Json) : Option FNode := do
  match (← asNats j) with
  | [i, a, b, c, d, dep] => some ⟨i, a, b, c, d, dep⟩
  | _ => none

def parseAE (j : Json) : Option AllowExact :=
  match j with
  | .bool true => some .yes
  | .bool false => some .no
  | .str "top" => some .top
  | _ => none

def bad : Json := Json.mkObj [("err", "bad args")]

def dispatch (f : String) (j : Json) : Option Json :=
  match f with
  | "C06.c2b" => some <| Id.run do
      let some l := (get j "line").bind parseLine | return bad
      let some idxs := (get j "idx").bind asNats | return bad
      return Json.arr (idxs.map (fun i => optNatJson (c2b l i))).toArray
  | "C06.b2c" => some <| Id.run do
      let some l := (get j "line").bind parseLine | return bad
      let some idxs := (get j "idx").bind asNats | return bad
      return Json.arr (idxs.map (fun i => optNatJson (b2c l i))).toArray
  | "C06.bloc_end" => some <| Id.run do
      -- cases: [[line code points, end_col], ...]
      let some cs := getArr j "cases" | return bad
      let one (c : Json) : Json :=
        match asArr c with
        | some #[l, e] =>
          match parseLine l, asNat e with
          | some l, some e => ofNat (blocEndCol l e)
          | _, _ => bad
        | _ => bad
      return Json.arr (cs.toList.map one).toArray
  | "C06.params_offset" => some <| Id.run do
      let some lines := (get j "lines").bind parseLines | return bad
      let some put := (get j "put").bind parseLines | return bad
      let some qs := (getArr j "qs").bind (fun a => a.toList.mapM asNats) | return bad
      let one (q : List Nat) : Json :=
        match q with
        | [ln, col, endLn, endCol] =>
          let r := paramsOffsetC lines put ln col endLn endCol
          Json.arr #[ofNat r.1, ofInt r.2.1, ofInt r.2.2.1, ofInt r.2.2.2]
        | _ => bad
      return Json.arr (qs.map one).toArray
  | "C06.is_space" => some <| Id.run do
      let some cs := (get j "chars").bind asNats | return bad
      return Json.arr (cs.map (fun c => Json.bool (isSpace (Char.ofNat c)))).toArray
  | "C06.next_frag" => some <| batch j fun lines _ q =>
      fragJson (nextFrag lines q.a q.b q.c q.d q.comment q.lcont)
  | "C06.prev_frag" => some <| batch j fun lines _ q =>
      fragJson (prevFrag lines q.a q.b q.c q.d q.comment q.lcont)
  | "C06.next_find" => some <| batch j fun lines srcs q =>
      posJson (nextFind lines q.a q.b q.c q.d (srcs.getD q.src []) q.first q.comment q.lcont)
  | "C06.prev_find" => some <| batch j fun lines srcs q =>
      posJson (prevFind lines q.a q.b q.c q.d (srcs.getD q.src []) q.first q.comment q.lcont)
  | "C06.next_delims" => some <| batch j fun lines _ q =>
      pairsJson (nextDelims lines q.a q.b q.c q.d (Char.ofNat ((getNat j "delim").getD 41)))
  | "C06.prev_delims" => some <| batch j fun lines _ q =>
      pairsJson (prevDelims lines q.a q.b q.c q.d (Char.ofNat ((getNat j "delim").getD 40)))
  | "C06.pars" => some <| Id.run do
      let some lines := (get j "lines").bind parseLines | return bad
      let some a := (get j "a").bind asNats | return bad
      let some sh := (get j "shared").bind parseShared | return bad
      let par := (getBool j "parenthesizable").getD true
      let sg := (getBool j "solo_genexp").getD false
      let ss := (getBool j "solo_shared").getD false
      match a with
      | [ln, col, endLn, endCol, nLn, nCol, pLn, pCol] =>
        let r := parsModel lines ⟨⟨ln, col, endLn, endCol⟩, (nLn, nCol), (pLn, pCol), sh, par, sg, ss⟩
        return Json.arr #[ofNat r.1.ln, ofNat r.1.col, ofNat r.1.endLn, ofNat r.1.endCol, ofInt r.2]
      | _ => return bad
  | "C06.find" => some <| Id.run do
      -- nodes: [[id, ln, col, end_ln, end_col, depth], ...]; decos: ids of decorator roots; queries: [[ln, col, end_ln, end_col], ...]
      let some nodes := (getArr j "nodes").bind (fun a => a.toList.mapM parseFNode) | return bad
      let some qs := (getArr j "queries").bind (fun a => a.toList.mapM asNats) | return bad
      let decos := ((get j "decos").bind asNats).getD []
      let idJ (o : Option FNode) : Json := optNatJson (o.map (·.id))
      let one (q : List Nat) : Json :=
        match q with
        | [a, b, c, d] =>
          let q : Loc := ⟨a, b, c, d⟩
          Json.arr #[
            idJ (findLoc decos nodes q false), idJ (findLoc decos nodes q true),
            idJ ((findContainsD decos nodes q .yes).map (·.1)), idJ ((findContainsD decos nodes q .no).map (·.1)),
            idJ ((findContainsD decos nodes q .top).map (·.1)), idJ (findIn nodes q),
            idJ (bruteContains nodes q .yes), idJ (bruteContains nodes q .no), idJ (bruteContains nodes q .top),
            idJ (bruteIn nodes q)]
        | _ => bad
      return Json.mkObj [("wf", Json.bool (wfList nodes)), ("wfd", Json.bool (wfListD decos nodes)),
                         ("r", Json.arr (qs.map one).toArray)]
  | _ => none

end Pfst.Drv.C06
