import Pfst.JsonUtil
import Pfst.Sub
/-! Driver package for C18: `subn` model on generic trees with a matcher given as a finite table, `edge_item`. -/
namespace Pfst.Drv.C18
open Lean Pfst.JsonUtil Pfst.Sub

/-- tree = [lbl, [kids...]] (input trees are clean) -/
partial def parseTree (j : Json) : Option Tree := do
  let a ← asArr j
  if a.size != 2 then none
  let l ← asNat a[0]!
  let ks ← (← asArr a[1]!).toList.mapM parseTree
  some (.node l false ks)

def parseTrees (j : Json) : Option (List Tree) := do (← asArr j).toList.mapM parseTree

def parsePair (j : Json) : Option (Nat × Nat) := do
  match ← asNats j with
  | [a, b] => some (a, b)
  | _ => none

/-- qitem = ["o", s, e] | ["m", [[s, e], ...]] -/
def parseQItem (j : Json) : Option QItem := do
  let a ← asArr j
  let k ← asStr a[0]!
  if k == "o" then some (.one (← asNat a[1]!) (← asNat a[2]!))
  else if k == "m" then some (.many (← (← asArr a[1]!).toList.mapM parsePair))
  else none

/-- ritem = ["o", kind, idx] | ["m", [[kind, idx], ...]] -/
def parseRItem (j : Json) : Option RItem := do
  let a ← asArr j
  let k ← asStr a[0]!
  if k == "o" then some (.one (← asNat a[1]!) (← asNat a[2]!))
  else if k == "m" then some (.many (← (← asArr a[1]!).toList.mapM parsePair))
  else none

/-- cap = ["one", T, isRoot] | ["view", [T...], stmts] | ["q", [T...], [qitem...], stmts] -/
def parseCap (j : Json) : Option Cap := do
  let a ← asArr j
  let k ← asStr a[0]!
  if k == "one" then some (.one (← parseTree a[1]!) (← asBool a[2]!))
  else if k == "view" then some (.view (← parseTrees a[1]!) (← asBool a[2]!))
  else if k == "q" then some (.qlist (← parseTrees a[1]!) (← (← asArr a[2]!).toList.mapM parseQItem) (← asBool a[3]!))
  else if k == "qv" then
    some (.qlistV (← parseTrees a[1]!) (← (← asArr a[2]!).toList.mapM parsePair)
      (← (← asArr a[3]!).toList.mapM parseRItem) (← asBool a[4]!))
  else none

def parseEnv (j : Json) : Option Env := do
  (← asArr j).toList.mapM fun e => do
    let a ← asArr e
    some (← asNat a[0]!, ← parseCap a[1]!)

def optNat (j : Json) : Option (Option Nat) := if isNull j then some none else (asNat j).map some
def optBool (j : Json) : Option (Option Bool) := if isNull j then some none else (asBool j).map some

/-- tm = ["n", lbl, [tm...]] | ["s", tag|null, inList, ovr|null] | ["ss", tag|null, ovr|null, exprLbl, valueLbl] -/
partial def parseTmpl (j : Json) : Option Tmpl := do
  let a ← asArr j
  let k ← asStr a[0]!
  if k == "n" then some (.node (← asNat a[1]!) (← (← asArr a[2]!).toList.mapM parseTmpl))
  else if k == "s" then some (.slot (← optNat a[1]!) (← asBool a[2]!) (← optBool a[3]!))
  else if k == "ss" then some (.stmtSlot (← optNat a[1]!) (← optBool a[2]!) (← asNat a[3]!) (← asNat a[4]!))
  else none

/-- root = ["single", tm] | ["module", [tm...]] -/
def parseRoot (j : Json) : Option TRoot := do
  let a ← asArr j
  let k ← asStr a[0]!
  if k == "single" then some (.single (← parseTmpl a[1]!))
  else if k == "module" then some (.module (← (← asArr a[1]!).toList.mapM parseTmpl))
  else none

/-- table = [[T, env|null], ...]; keys are clean trees -/
def parseTable (j : Json) : Option (List (Tree × Option Env)) := do
  (← asArr j).toList.mapM fun e => do
    let a ← asArr e
    let t ← parseTree a[0]!
    if isNull a[1]! then some (t, none) else some (t, some (← parseEnv a[1]!))

def lookup (tab : List (Tree × Option Env)) (t : Tree) : Option (Option Env) :=
  (tab.find? (fun e => Tree.beq e.1 t)).map (·.2)

partial def treeJson : Tree → Json
  | .node l _ ks => Json.arr #[ofNat l, Json.arr (ks.map treeJson).toArray]

partial def dedup (l : List Tree) (acc : List Tree) : List Tree :=
  match l with
  | [] => acc.reverse
  | t :: r => if acc.any (Tree.beq t) then dedup r acc else dedup r (t :: acc)

def dispatch (f : String) (j : Json) : Option Json :=
  match f with
  | "C18.subn" => some <| Id.run do
      let some t := (get j "tree").bind parseTree | return Json.mkObj [("err", "bad tree")]
      let some tab := (get j "table").bind parseTable | return Json.mkObj [("err", "bad table")]
      let some root := (get j "tmpl").bind parseRoot | return Json.mkObj [("err", "bad tmpl")]
      let some stmts := (get j "stmt").bind asNats | return Json.mkObj [("err", "bad stmt")]
      let some fields := (get j "field").bind asNats | return Json.mkObj [("err", "bad field")]
      let nested := (getBool j "nested").getD false
      let count := (getInt j "count").getD 0
      let loop : Option Int := (get j "loop").bind fun v => if isNull v then none else asInt v
      let onLeave := (getStr j "on").getD "enter" == "leave"
      let fuel := (getNat j "fuel").getD 400
      let lfuel := (getNat j "lfuel").getD 10
      -- the matcher: pseudo field nodes never match; marks are invisible to the matcher; unknown trees do not match
      -- (they are reported back in "need" and the harness re-runs the case with a larger table)
      let mt : Tree → Option Env := fun u =>
        if fields.contains u.lbl then none else ((lookup tab (clean u)).getD none)
      let P : Params := { mtch := mt, isStmt := fun l => stmts.contains l, tmpl := root, nested := nested, loop := loop, lfuel := lfuel }
      let r := run P onLeave count fuel t
      let need := (dedup (r.log.map clean) []).filter fun u => !fields.contains u.lbl && (lookup tab u).isNone
      return Json.mkObj [("trees", Json.arr (r.trees.map treeJson).toArray), ("unique", ofInt r.unique),
                         ("total", ofNat r.total), ("err", ofNat r.err),
                         ("need", Json.arr (need.map treeJson).toArray)]
  | "C18.edge" => some <| Id.run do
      let some q := (get j "q").bind (fun v => (asArr v).bind fun a => a.toList.mapM parseQItem)
        | return Json.mkObj [("err", "bad q")]
      return Json.mkObj [("first", ofOpt ofNat (edgeItem q false)), ("last", ofOpt ofNat (edgeItem q true))]
  | "C18.edgev" => some <| Id.run do
      let some q := (get j "q").bind (fun v => (asArr v).bind fun a => a.toList.mapM parseRItem)
        | return Json.mkObj [("err", "bad q")]
      let some order := (get j "order").bind (fun v => (asArr v).bind fun a => a.toList.mapM parsePair)
        | return Json.mkObj [("err", "bad order")]
      return Json.mkObj [("first", ofOpt ofNat (edgeItem (virtQ order q) false)),
                         ("last", ofOpt ofNat (edgeItem (virtQ order q) true))]
  | _ => none

end Pfst.Drv.C18
