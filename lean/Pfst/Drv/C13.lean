import Pfst.JsonUtil
import Pfst.Reconcile
/-! Driver package for C13: `reconcile` (op trace of the top-down diff). -/
namespace Pfst.Drv.C13
open Lean Pfst.JsonUtil Pfst.Reconcile

def optNat (j : Json) : Option (Option Nat) :=
  if isNull j then some none else (asNat j).map some

/-- loc = [pp, fi, idx|null] | null -/
def parseLoc (j : Json) : Option (Option Loc) :=
  if isNull j then some none else do
    let a ← asArr j
    if a.size != 3 then none
    let pp ← asNats a[0]!
    let fi ← asNat a[1]!
    let idx ← optNat a[2]!
    some (some ⟨pp, fi, idx⟩)

/-- origin = null | ["t", loc] | ["f", ok, tid, loc, sig|null] -/
def parseOrigin (j : Json) : Option Origin :=
  if isNull j then some .new else do
    let a ← asArr j
    let tag ← asStr a[0]!
    if tag == "t" then
      let l ← parseLoc a[1]!
      some (.tree l)
    else if tag == "f" then
      let ok ← asBool a[1]!
      let tid ← asNat a[2]!
      let l ← parseLoc a[3]!
      let sig ← optNat a[4]!
      some (.foreign ok tid l sig)
    else none

/-- tree = null | ["p", eqc, rep] | ["n", origin, kind, [kids]] | ["m", sig|null, mode, [kids]] -/
partial def parseT (j : Json) : Option T :=
  if isNull j then some .nil else do
    let a ← asArr j
    let tag ← asStr a[0]!
    if tag == "p" then
      some (.prim ⟨← asNat a[1]!, ← asNat a[2]!⟩)
    else if tag == "n" then
      let o ← parseOrigin a[1]!
      let k ← asNat a[2]!
      let cs ← (← asArr a[3]!).toList.mapM parseT
      some (.node o k cs)
    else if tag == "m" then
      let s ← optNat a[1]!
      let m ← asNat a[2]!
      let cs ← (← asArr a[3]!).toList.mapM parseT
      some (.many s m cs)
    else none

mutual
partial def size : T → Nat
  | .node _ _ cs => 1 + sizeL cs
  | .many _ _ cs => sizeL cs
  | _ => 0
partial def sizeL : List T → Nat
  | [] => 0
  | c :: r => size c + sizeL r
end

def srcJson : Src → Json
  | .ast => "ast"
  | .mark q => Json.arr #["mark", ofNats q]
  | .foreign t => Json.arr #["foreign", ofNat t]

def headJson : T → Json
  | .nil => Json.null
  | .prim v => Json.arr #["p", ofNat v.rep]
  | .node _ k _ => Json.arr #["n", ofNat k]
  | .many _ _ _ => "m"

def opJson (o : Op) : Json :=
  match o.act with
  | .put s p => Json.arr #[ofNats o.path, "put", srcJson s, headJson p, ofNat (size p)]
  | .setPrim v => Json.arr #[ofNats o.path, "prim", headJson v]
  | .putSlice s e src one p => Json.arr #[ofNats o.path, "slice", ofNat s, ofNat e, srcJson src, Json.bool one,
                                          ofNat p.length, ofNat (sizeL p)]
  | .delTail s => Json.arr #[ofNats o.path, "del", ofNat s]

def dispatch (f : String) (j : Json) : Option Json :=
  match f with
  | "C13.reconcile" => some <| Id.run do
      let some m := (get j "mark").bind parseT | return Json.mkObj [("err", "bad mark")]
      let some e := (get j "edited").bind parseT | return Json.mkObj [("err", "bad edited")]
      let r := reconcile m e
      let res := applyOps r.ops (erase m)
      -- optional: paths (from the root) of statements the harness found untouched; per path the hypothesis of
      -- `untouched_kept` and whether some operation of the trace touches it
      let paths : List Path := match (get j "paths").bind asArr with
        | some a => a.toList.filterMap asNats
        | none => []
      return Json.mkObj [("fail", Json.bool r.fail), ("ops", Json.arr (r.ops.map opJson).toArray),
                         ("res_ok", Json.bool (beq res (erase e))),
                         ("wf", Json.bool (wfN m e)),                      -- side condition of `trace_correct`
                         ("still", Json.bool (stillN m .none [] e)),       -- hypothesis of `no_change`
                         ("kept", Json.arr (paths.map fun p => Json.bool (keptN m p .none [] e)).toArray),
                         ("touched", Json.arr (paths.map fun p => Json.bool (r.ops.any fun o => touches o p)).toArray)]
  | _ => none

end Pfst.Drv.C13
