import Pfst.Quote

/-! Lemmas about `splitNL` / `joinNL` and the docstring dedent rule. -/
namespace Pfst.Quote

theorem splitNL_ne_nil (l : List Char) : splitNL l ≠ [] := by
  cases l with
  | nil => simp [splitNL]
  | cons c r =>
    simp only [splitNL]
    split
    · simp
    · split <;> simp

theorem splitNL_noLF (l : List Char) : ∀ x ∈ splitNL l, LF ∉ x := by
  induction l with
  | nil => simp [splitNL]
  | cons c r ih =>
    simp only [splitNL]
    split
    · intro x hx
      simp only [List.mem_cons] at hx
      rcases hx with rfl | hx
      · simp
      · exact ih x hx
    · next hc =>
      have hc' : c ≠ LF := by simpa using hc
      split
      · next h => exact absurd h (splitNL_ne_nil r)
      · next l0 ls h =>
        rw [h] at ih
        intro x hx
        simp only [List.mem_cons] at hx
        rcases hx with rfl | hx
        · have := ih l0 (by simp)
          simp only [List.mem_cons, not_or]
          exact ⟨fun e => hc' e.symm, this⟩
        · exact ih x (by simp [hx])

theorem joinNL_splitNL (l : List Char) : joinNL (splitNL l) = l := by
  induction l with
  | nil => rfl
  | cons c r ih =>
    simp only [splitNL]
    split
    · next hc =>
      have : c = LF := by simpa using hc
      subst this
      cases h : splitNL r with
      | nil => exact absurd h (splitNL_ne_nil r)
      | cons l0 ls => rw [h] at ih; simp [joinNL, ih]
    · split
      · next h => exact absurd h (splitNL_ne_nil r)
      · next l0 ls h =>
        rw [h] at ih
        cases ls with
        | nil => simp [joinNL] at ih ⊢; exact ih
        | cons l1 ls' => simp [joinNL] at ih ⊢; exact ih

theorem splitNL_single (x : List Char) (h : LF ∉ x) : splitNL x = [x] := by
  induction x with
  | nil => rfl
  | cons c r ih =>
    simp only [List.mem_cons, not_or] at h
    have hc : (c == LF) = false := by simpa using fun e => h.1 e.symm
    simp [splitNL, hc, ih h.2]

theorem splitNL_append (x rest : List Char) (h : LF ∉ x) : splitNL (x ++ LF :: rest) = x :: splitNL rest := by
  induction x with
  | nil => simp [splitNL]
  | cons c r ih =>
    simp only [List.mem_cons, not_or] at h
    have hc : (c == LF) = false := by simpa using fun e => h.1 e.symm
    simp [splitNL, hc, ih h.2]

theorem splitNL_joinNL (ls : List (List Char)) (hne : ls ≠ []) (h : ∀ x ∈ ls, LF ∉ x) : splitNL (joinNL ls) = ls := by
  induction ls with
  | nil => exact absurd rfl hne
  | cons l ls ih =>
    cases ls with
    | nil => simp only [joinNL]; exact splitNL_single l (h l (by simp))
    | cons l1 ls' =>
      simp only [joinNL]
      rw [splitNL_append l _ (h l (by simp)), ih (by simp) (fun x hx => h x (by simp [hx]))]

theorem startsWith_append (ind l : List Char) : startsWith (ind ++ l) ind = true := by
  induction ind with
  | nil => cases l <;> rfl
  | cons c ind ih => simp [startsWith, ih]

theorem dedentLine_ind (ind l : List Char) : dedentLine ind (ind ++ l) = l := by
  simp [dedentLine, startsWith_append]

theorem dedentLine_nil (ind : List Char) : dedentLine ind [] = [] := by
  unfold dedentLine; split <;> simp

/-- a line that does not start with a blank or a tab is left alone -/
theorem dedentLine_first (ind l : List Char) (hi : wsOnly ind = true)
    (hl : ∀ c r, l = c :: r → (c == ' ' || c == TAB) = false) : dedentLine ind l = l := by
  cases l with
  | nil => exact dedentLine_nil ind
  | cons c r =>
    have hc := hl c r rfl
    have hw : wsLen (c :: r) = 0 := by simp [wsLen, hc]
    cases ind with
    | nil => simp [dedentLine, startsWith]
    | cons i ind' =>
      simp only [wsOnly, List.all_cons, Bool.and_eq_true] at hi
      have hne : (c == i) = false := by
        cases hci : c == i with
        | false => rfl
        | true =>
          have : c = i := by simpa using hci
          subst this; rw [hi.1] at hc; exact absurd hc (by decide)
      simp [dedentLine, startsWith, hne, hw]

theorem dedent_tail (ind : List Char) (ls : List (List Char)) :
    (indentValTail ind ls).map (dedentLine ind) = ls := by
  induction ls with
  | nil => rfl
  | cons l ls ih =>
    cases ls with
    | nil => simp [indentValTail, dedentLine_ind]
    | cons l1 ls' =>
      simp only [indentValTail, List.map_cons] at ih ⊢
      rw [ih]
      congr 1
      split
      · next h =>
        have : l = [] := by simpa using h
        subst this; exact dedentLine_nil ind
      · exact dedentLine_ind ind l

theorem wsOnly_noLF (ind : List Char) (h : wsOnly ind = true) : LF ∉ ind := by
  intro hm
  have := List.all_eq_true.mp h LF hm
  exact absurd this (by decide)

theorem indentValTail_noLF (ind : List Char) (hi : LF ∉ ind) (ls : List (List Char)) (h : ∀ x ∈ ls, LF ∉ x) :
    ∀ x ∈ indentValTail ind ls, LF ∉ x := by
  induction ls with
  | nil => simp [indentValTail]
  | cons l ls ih =>
    have hl := h l (by simp)
    have hind : LF ∉ ind ++ l := by simp [hi, hl]
    cases ls with
    | nil => simp only [indentValTail, List.mem_singleton]; intro x hx; subst hx; exact hind
    | cons l1 ls' =>
      simp only [indentValTail, List.mem_cons]
      intro x hx
      rcases hx with rfl | hx
      · split
        · exact hl
        · exact hind
      · exact ih (fun y hy => h y (by simp [hy])) x (by simpa [indentValTail] using hx)

end Pfst.Quote
