/-
Model of `Reconcile` (src/fst/reconcile.py): the top-down diff between the externally edited AST and the marked copy,
re-expressed as put operations on the output tree.

Trees are generic.  A node carries an ORIGIN tag (what `getattr(node, 'f', None)` and `nodef.root is self.work` tell the
code), a kind (the AST class) and its fields in `_fields` order (`ctx` and `str` are dropped by the serialiser, the code
skips them).  A field value is `nil` (Python `None`), `prim` (a primitive), a `node`, or `many` (a list field).
A `Dict` is presented as ONE list field of pseudo nodes `pair [key, value]` (mode 2), which is how `recurse_slice_dict`
treats it.  Paths are lists of child indices through `kids` (field index, then element index for list fields).

The model does not execute puts; it EMITS the operation trace (`Op`) with paths relative to the slot being processed
(the caller prefixes them), and `applyOps` interprets a trace on a structure.  `outa` parameters are the PREDICTED content
of the output tree at the slot (what `pfield.get(out_parent.a)` returns in the code).

No imports: this file is linked into the native driver.
-/
namespace Pfst.Reconcile

abbrev Path := List Nat

/-- A primitive value: `eqc` is its class under Python `==` (`1 == True == 1.0`), `rep` its exact identity (type and
repr).  The code compares with `!=` (`recurse_children`), a structure comparison looks at `rep`. -/
structure Val where
  eqc : Nat
  rep : Nat
deriving DecidableEq, Repr, Inhabited

/-- Where a node's `FST` hangs: parent path, field index, index in the list field (`pfield.idx`). -/
structure Loc where
  pp  : Path
  fi  : Nat
  idx : Option Nat
deriving DecidableEq, Repr, Inhabited

def Loc.rel (l : Loc) : Path := l.fi :: l.idx.toList
def Loc.full (l : Loc) : Path := l.pp ++ l.rel

inductive Origin where
  | new                                                     -- no `.f`: pure AST
  | tree (l : Option Loc)                                   -- `.f` with `root is work`; `none` = the root itself
  | foreign (ok : Bool) (tid : Nat) (l : Option Loc) (sig : Option Nat)
      -- `.f` of another tree `tid ≥ 1`; `ok` = `verify(reparse=False)` passes on the subtree;
      -- `sig` = `_SLICE_COMAPTIBILITY[(parent class, field)]` of the list it sits in
deriving DecidableEq, Repr, Inhabited

inductive T where
  | nil
  | prim (v : Val)
  | node (o : Origin) (k : Nat) (cs : List T)
  | many (sig : Option Nat) (mode : Nat) (cs : List T)     -- mode 0 plain, 1 `recurse_slice`, 2 `recurse_slice_dict`
deriving Repr, Inhabited

def T.kids : T → List T
  | .node _ _ cs => cs
  | .many _ _ cs => cs
  | _ => []

def T.origin : T → Origin
  | .node o _ _ => o
  | _ => .new

def T.isScalar : T → Bool
  | .nil => true
  | .prim _ => true
  | _ => false

def T.isNode : T → Bool
  | .node _ _ _ => true
  | _ => false

def T.sig : T → Option Nat
  | .many s _ _ => s
  | _ => none

mutual
/-- Structure of a tree: origins forgotten (what `ast.dump` without attributes sees). -/
def erase : T → T
  | .nil => .nil
  | .prim v => .prim v
  | .node _ k cs => .node .new k (eraseL cs)
  | .many s m cs => .many s m (eraseL cs)
def eraseL : List T → List T
  | [] => []
  | c :: r => erase c :: eraseL r
end

def getAt : T → Path → Option T
  | t, [] => some t
  | t, i :: p => match t.kids[i]? with
    | some c => getAt c p
    | none => none

mutual
def beq : T → T → Bool
  | .nil, .nil => true
  | .prim v, .prim w => v == w
  | .node o k cs, .node o' k' cs' => o == o' && k == k' && beqL cs cs'
  | .many s m cs, .many s' m' cs' => s == s' && m == m' && beqL cs cs'
  | _, _ => false
def beqL : List T → List T → Bool
  | [], [] => true
  | a :: r, b :: r' => beq a b && beqL r r'
  | _, _ => false
end

/-! ### Operations on the output tree -/

inductive Src where
  | ast                      -- a pure `AST` is put (formatting lost)
  | mark (q : Path)          -- copy / slice taken from the marked tree at path `q`
  | foreign (tid : Nat)      -- copy / slice taken from another `FST` tree
deriving DecidableEq, Repr, Inhabited

inductive Act where
  | put (src : Src) (payload : T)                                       -- `put_node` / `out.replace`
  | putSlice (start stop : Nat) (src : Src) (one : Bool) (payload : List T)   -- `outf.put_slice(code, start, stop, field)`
  | delTail (start : Nat)                                               -- `outf.put_slice(None, start, 'end', field)`
  | setPrim (v : T)                                                     -- `outf.put(child, field=field)` primitive / None
deriving Repr, Inhabited

structure Op where
  path : Path
  act  : Act
deriving Repr, Inhabited

def Op.pre (i : Nat) (o : Op) : Op := ⟨i :: o.path, o.act⟩

def preAll (i : Nat) (l : List Op) : List Op := l.map (Op.pre i)

/-- Container laws (C03 style) on the structure. -/
def applyAct : Act → T → T
  | .put _ p, _ => p
  | .setPrim v, _ => v
  | .putSlice s e _ _ p, .many sig m cs => .many sig m (cs.take s ++ p ++ cs.drop e)
  | .delTail s, .many sig m cs => .many sig m (cs.take s)
  | _, t => t

def modKid (i : Nat) (f : T → T) : T → T
  | .node o k cs => .node o k (cs.modify i f)
  | .many s m cs => .many s m (cs.modify i f)
  | t => t

def applyAt : Path → Act → T → T
  | [], a, t => applyAct a t
  | i :: p, a, t => modKid i (applyAt p a) t

def applyOp (o : Op) (t : T) : T := applyAt o.path o.act t

def applyOps : List Op → T → T
  | [], t => t
  | o :: r, t => applyOps r (applyOp o t)

/-! ### The diff -/

structure R where
  ops  : List Op
  fail : Bool            -- an exception propagates (`NotImplementedError('different length slice fields')`)
deriving Repr, Inhabited

/-- `node_parent` of `recurse_node` / `nodef` of `recurse_children`. -/
inductive NP where
  | none                       -- root call
  | ast                        -- `False`: coming from a pure AST parent
  | fst (tid : Nat) (q : Path) -- the parent has an `.f` (tree 0 = the work tree)
deriving DecidableEq, Repr, Inhabited

def NP.ext (np : NP) (r : Path) : NP :=
  match np with
  | .fst t q => .fst t (q ++ r)
  | x => x

/-- `child != outa_child or child.__class__ is not outa_child.__class__` on non-AST values (`recurse_children`, and the
same test on `None` / primitive list elements in `recurse_node`): equal value AND equal type, i.e. the same `Val`
(`1`, `True` and `1.0` share `eqc` but not `rep`). -/
def pyNe : T → T → Bool
  | .nil, .nil => false
  | .prim v, .prim w => v != w
  | _, _ => true

/-- `not (nodef.parent is not node_parent or nodef.pfield != pfield)` for an in-tree node. -/
def inPlace (np : NP) (rel : Path) (l : Option Loc) : Bool :=
  match np, l with
  | .none, none => rel == []
  | .fst 0 pq, some l => l.pp == pq && l.rel == rel
  | _, _ => false

def compat (a b : Option Nat) : Bool :=
  match a, b with
  | some x, some y => x == y
  | _, _ => false

/-- The first `if` of the `while` loop in `recurse_slice` / `recurse_slice_dict`: `none` = single element,
`some (tid, pp, field, idx)` = start of a slice run taken from list `(pp, field)` of tree `tid` at `idx`. -/
def sliceHead (mark : T) (np : NP) (fi : Nat) (nodeSig : Option Nat) (start : Nat) : Origin → Option (Nat × Path × Nat × Nat)
  | .tree (some ⟨pp, cfi, some ci⟩) =>
    let single := if cfi == fi && np == .fst 0 pp then ci == start
                  else !(compat nodeSig (((getAt mark (pp ++ [cfi])).getD .nil).sig))
    if single then none else some (0, pp, cfi, ci)
  | .foreign _ tid (some ⟨pp, cfi, some ci⟩) sig =>
    let single := if cfi == fi && np == .fst tid pp then ci == start else !(compat nodeSig sig)
    if single then none else some (tid, pp, cfi, ci)
  | _ => none

def follows (tid : Nat) (pp : Path) (cfi nxt : Nat) : Origin → Bool
  | .tree (some l) => tid == 0 && l.pp == pp && l.fi == cfi && l.idx == some nxt
  | .foreign _ t (some l) _ => t == tid && tid != 0 && l.pp == pp && l.fi == cfi && l.idx == some nxt
  | _ => false

/-- The inner `for end in range(start + 1, len_body)` loop: number of following elements that continue the run. -/
def runLen (tid : Nat) (pp : Path) (cfi : Nat) : Nat → List T → Nat
  | _, [] => 0
  | nxt, y :: ys => if follows tid pp cfi nxt y.origin then 1 + runLen tid pp cfi (nxt + 1) ys else 0

def okOrigin : Origin → Bool
  | .foreign ok _ _ _ => ok
  | _ => false

def allOk : List T → Bool
  | [] => true
  | y :: ys => okOrigin y.origin && allOk ys

structure Run where
  proc : Nat := 0        -- elements of the current run still to be processed one by one
  skip : Nat := 0        -- elements of a foreign verified run, already put (`start = end; continue`)
  lenRead : Nat := 0     -- `len_outa_body` as read at the head of the run
deriving Repr, Inhabited

/-- Run head: returns the slice op (if any), the predicted list after it, and the run state. -/
def detect (mark : T) (np : NP) (fi : Nat) (nodeSig : Option Nat) (start : Nat) (cur : List T) (x : T) (rest : List T) :
    List Op × List T × Run :=
  match sliceHead mark np fi nodeSig start x.origin with
  | none => ([], cur, { proc := 1, lenRead := cur.length })
  | some (tid, pp, cfi, ci) =>
    let n := 1 + runLen tid pp cfi (ci + 1) rest
    if tid == 0 then
      -- `mark_parent.get_slice(child_idx, child_off_idx + end, child_field)`
      let payload := eraseL ((((getAt mark (pp ++ [cfi])).getD .nil).kids.drop ci).take n)
      let cur' := cur.take start ++ payload ++ cur.drop (start + n)
      ([⟨[], .putSlice start (start + n) (.mark (pp ++ [cfi])) false payload⟩], cur', { proc := n, lenRead := cur'.length })
    else if allOk ((x :: rest).take n) then
      let payload := eraseL ((x :: rest).take n)
      let cur' := cur.take start ++ payload ++ cur.drop (start + n)
      ([⟨[], .putSlice start (start + n) (.foreign tid) false payload⟩], cur', { skip := n })
    else ([], cur, { proc := n, lenRead := cur.length })     -- verification failed: one AST at a time

def qOf (l : Option Loc) : Path :=
  match l with
  | some l => l.full
  | none => []

mutual
/-- `Reconcile.recurse_node`.  `rel` = `pfield` as path steps, `outa` = predicted content of the slot. -/
def recNode (mark : T) (np : NP) (rel : Path) (outa : T) (n : T) : R :=
  match n with
  | .many _ _ _ => ⟨[], false⟩
  -- `None` / primitive list element (`kw_defaults`, `Global.names`): pure-AST path, put only if it differs from the slot
  | .nil => ⟨if np != .ast && pyNe .nil outa then [⟨[], .put .ast .nil⟩] else [], false⟩
  | .prim v => ⟨if np != .ast && pyNe (.prim v) outa then [⟨[], .put .ast (.prim v)⟩] else [], false⟩
  | .node o k cs =>
    match o with
    | .foreign true tid _ _ => ⟨[⟨[], .put (.foreign tid) (.node .new k (eraseL cs))⟩], false⟩   -- verified copy, no recursion
    | .tree l =>
      let q := qOf l
      let off := !(inPlace np rel l)
      let copy := erase ((getAt mark q).getD .nil)
      let pre : List Op := if off then [⟨[], .put (.mark q) copy⟩] else []
      let outa' := if off then copy else outa
      if !outa'.isNode then ⟨pre, false⟩ else
      let r := recFields mark (.fst 0 q) 0 outa'.kids cs
      if r.fail then ⟨pre ++ r.ops ++ [⟨[], .put .ast (.node .new k (eraseL cs))⟩], false⟩   -- `except ...: put_node(node)`
      else ⟨pre ++ r.ops, false⟩
    | .new =>
      let putIt := np != .ast
      let pre : List Op := if putIt then [⟨[], .put .ast (.node .new k (eraseL cs))⟩] else []
      let outa' := if putIt then .node .new k (eraseL cs) else outa
      if !outa'.isNode then ⟨pre, false⟩ else
      let r := recFields mark .ast 0 outa'.kids cs
      ⟨pre ++ r.ops, r.fail⟩
    | .foreign false tid l _ =>
      let putIt := np != .ast
      let pre : List Op := if putIt then [⟨[], .put .ast (.node .new k (eraseL cs))⟩] else []
      let outa' := if putIt then .node .new k (eraseL cs) else outa
      if !outa'.isNode then ⟨pre, false⟩ else
      let r := recFields mark (.fst tid (qOf l)) 0 outa'.kids cs     -- `nodef` is the foreign FST, not `False`
      ⟨pre ++ r.ops, r.fail⟩
termination_by structural n

/-- `Reconcile.recurse_children`: the fields from index `fi` on; `oks` = the corresponding fields of `outa`. -/
def recFields (mark : T) (np : NP) (fi : Nat) (oks : List T) (fs : List T) : R :=
  match fs with
  | [] => ⟨[], false⟩
  | c :: rest =>
    let ok := oks.headD .nil
    let r : R :=
      if c.isNode then recNode mark np [fi] ok c else
      match c with
      | .many sig mode items =>
        if mode == 1 then recSliceGo mark np fi sig false 0 {} ok.kids items
        else if mode == 2 then recSliceGo mark np fi sig true 0 {} ok.kids items
        else if items.length != ok.kids.length then ⟨[], true⟩          -- raise NotImplementedError
        else recPlain mark np fi 0 ok.kids items
      | s => ⟨if np != .ast && pyNe s ok then [⟨[], .setPrim s⟩] else [], false⟩
    if r.fail then ⟨preAll fi r.ops, true⟩
    else
      let r2 := recFields mark np (fi + 1) oks.tail rest
      ⟨preAll fi r.ops ++ r2.ops, r2.fail⟩
termination_by structural fs

/-- the one-by-one fallback `for i, c in enumerate(child): self.recurse_node(c, astfield(field, i), outf, nodef)` -/
def recPlain (mark : T) (np : NP) (fi j : Nat) (oks : List T) (items : List T) : R :=
  match items with
  | [] => ⟨[], false⟩
  | c :: rest =>
    let r := recNode mark np [fi, j] (oks.headD .nil) c
    if r.fail then ⟨preAll j r.ops, true⟩
    else
      let r2 := recPlain mark np fi (j + 1) oks.tail rest
      ⟨preAll j r.ops ++ r2.ops, r2.fail⟩
termination_by structural items

/-- `recurse_slice` / `recurse_slice_dict` (`dict = true`): the `while start < len_body` loop flattened to one pass over
`body`; `i` = index of the head, `cur` = predicted output list (lengths and not-yet-visited elements are exact). -/
def recSliceGo (mark : T) (np : NP) (fi : Nat) (nodeSig : Option Nat) (dict : Bool) (i : Nat) (run : Run) (cur : List T)
    (body : List T) : R :=
  match body with
  | [] => ⟨if i < cur.length then [⟨[], .delTail i⟩] else [], false⟩
  | x :: rest =>
    if run.skip > 0 then recSliceGo mark np fi nodeSig dict (i + 1) { run with skip := run.skip - 1 } cur rest
    else
      let d : List Op × List T × Run := if run.proc > 0 then ([], cur, run) else detect mark np fi nodeSig i cur x rest
      let run1 := d.2.2
      let cur1 := d.2.1
      if run1.skip > 0 then
        let r2 := recSliceGo mark np fi nodeSig dict (i + 1) { run1 with skip := run1.skip - 1 } cur1 rest
        ⟨d.1 ++ r2.ops, r2.fail⟩
      else
        let ins := decide (i ≥ run1.lenRead)
        let cur2 := if ins then cur1.take i ++ [erase x] ++ cur1.drop i else cur1
        let opsIns : List Op := if ins then [⟨[], .putSlice i i .ast (!dict) [erase x]⟩] else []
        let ok := (cur2[i]?).getD .nil
        let r : R :=
          if dict then
            match x with
            | .node _ _ kv => recPair mark (np.ext [fi, i]) ok.kids kv
            | _ => ⟨[], false⟩
          else recNode mark np [fi, i] ok x
        if r.fail then ⟨d.1 ++ opsIns ++ preAll i r.ops, true⟩
        else
          let r2 := recSliceGo mark np fi nodeSig dict (i + 1) { run1 with proc := run1.proc - 1 } cur2 rest
          ⟨d.1 ++ opsIns ++ preAll i r.ops ++ r2.ops, r2.fail⟩
termination_by structural body

/-- the body of the per-element loop of `recurse_slice_dict` on one `pair [key, value]` -/
def recPair (mark : T) (npkv : NP) (oks : List T) (kv : List T) : R :=
  match kv with
  | [k, v] =>
    let okK := oks.headD .nil
    let rk : R :=
      if k.isNode then recNode mark npkv [0] okK k
      else ⟨if okK.isNode then [⟨[], .setPrim .nil⟩] else [], false⟩      -- `elif outa_keys[i] is not None: put(None)`
    if rk.fail then ⟨preAll 0 rk.ops, true⟩
    else
      let rv := recNode mark npkv [1] (oks.tail.headD .nil) v
      ⟨preAll 0 rk.ops ++ preAll 1 rv.ops, rv.fail⟩
  | _ => ⟨[], false⟩
termination_by structural kv
end

/-- `FST.reconcile`: `Reconcile(self, mark).recurse_node(self.a)`; `out = mark.copy()`.  A failure flag at the top means the
exception leaves `reconcile()`. -/
def reconcile (mark edited : T) : R := recNode mark .none [] (erase mark) edited

def reconcileOps (mark edited : T) : List Op := (reconcile mark edited).ops

/-- the structure of the tree `reconcile()` returns according to the trace -/
def result (mark edited : T) : T := applyOps (reconcileOps mark edited) (erase mark)

/-! ### side conditions of the theorems (`Pfst/Props/C13.lean`); not part of the mirrored code, evaluated by the driver -/

/-- the marked node at path `q` (`None` when there is none) -/
def markAt (mark : T) (q : Path) : T := (getAt mark q).getD .nil

def T.kind : T → Nat
  | .node _ k _ => k
  | _ => 0

def T.isNil : T → Bool
  | .nil => true
  | _ => false

/-- a `Dict` pair pseudo node of kind `pk`: `[key, value]` with the key a node or `None` -/
def pairShape (pk : Nat) : T → Bool
  | .node _ k [key, _] => k == pk && (key.isNode || key.isNil)
  | _ => false

def allShaped (pk : Nat) : List T → Bool
  | [] => true
  | x :: r => pairShape pk x && allShaped pk r

/-- a list field of the edited node sits over a list field of the same class and mode (for a `Dict`: whose elements are
pairs of the same pseudo kind as the edited ones) -/
def fieldOK (m c : T) : Bool :=
  match c with
  | .many s md items =>
    (match m with
     | .many s' md' mitems => s == s' && md == md' && (md != 2 || items.isEmpty || allShaped (items.headD .nil).kind mitems)
     | _ => false)
  | _ => true

def shapeOK : List T → List T → Bool
  | [], [] => true
  | m :: ms, c :: cs => fieldOK m c && shapeOK ms cs
  | _, _ => false

/-- The origin of a `Dict` pair is consistent with its key and value (what `recurse_slice_dict` reads off `values[i].f` and
`keys[i].f`): a pair tagged as element `c` of the Dict list `(pp, cfi)` of the marked tree has the value (and the key, unless
`None`) of that very element, and that element is a pair of the marked tree; tree ids of other trees are `≠ 0`. -/
def pairCons (mark : T) (pk : Nat) (o : Origin) (kv : List T) : Bool :=
  match o with
  | .tree (some ⟨pp, cfi, some c⟩) =>
    pairShape pk (markAt mark (pp ++ [cfi, c])) &&
    (match kv with
     | [k, v] => (k.isNil || k.origin == .tree (some ⟨pp ++ [cfi, c], 0, none⟩)) &&
                 v.origin == .tree (some ⟨pp ++ [cfi, c], 1, none⟩)
     | _ => false)
  | .foreign _ tid _ _ => tid != 0
  | _ => true

mutual
def wfN (mark : T) : T → Bool
  | .nil => true
  | .prim _ => true
  | .many _ _ _ => false
  | .node o k cs =>
    match o with
    | .foreign true tid _ _ => tid != 0
    | .foreign false tid _ _ => tid != 0 && wfFs mark cs
    | .new => wfFs mark cs
    | .tree l =>
      (match markAt mark (qOf l) with
       | .node _ mk mcs => mk == k && shapeOK mcs cs
       | _ => false) && wfFs mark cs
def wfFs (mark : T) : List T → Bool
  | [] => true
  | .many _ md items :: r =>
    (if md == 2 then wfPs mark (items.headD .nil).kind items else wfEs mark items) && wfFs mark r
  | c :: r => wfN mark c && wfFs mark r
def wfEs (mark : T) : List T → Bool
  | [] => true
  | x :: r => wfN mark x && wfEs mark r
/-- the elements of a `Dict` list: pairs of kind `pk` -/
def wfPs (mark : T) (pk : Nat) : List T → Bool
  | [] => true
  | .node o k kv :: r => k == pk && pairCons mark pk o kv && wfKV mark kv && wfPs mark pk r
  | _ :: _ => false
def wfKV (mark : T) : List T → Bool
  | [k, v] => (k.isNil || (k.isNode && wfN mark k)) && wfN mark v
  | _ => false
end

mutual
/-- The node is in place and nothing reconcile looks at was edited below it: every node below is in place, scalars (fields and
`None` / `str` elements of list fields: `Global.names`, `arguments.kw_defaults`) are the marked ones (same value and type),
list fields have the marked length; `Dict` pairs are in place with key and value in place (or `None` over `None`). -/
def stillN (mark : T) (np : NP) (rel : Path) : T → Bool
  | .node (.tree l) _ cs =>
    inPlace np rel l && (markAt mark (qOf l)).isNode && (markAt mark (qOf l)).kids.length == cs.length
      && stillFs mark (qOf l) 0 cs
  | _ => false
def stillFs (mark : T) (q : Path) : Nat → List T → Bool
  | _, [] => true
  | fi, .many _ md items :: r =>
    (markAt mark (q ++ [fi])).kids.length == items.length &&
      (if md == 2 then stillPs mark q fi 0 items else stillEs mark q fi 0 items) && stillFs mark q (fi + 1) r
  | fi, .node o k cs :: r => stillN mark (.fst 0 q) [fi] (.node o k cs) && stillFs mark q (fi + 1) r
  | fi, c :: r => !(pyNe c (erase (markAt mark (q ++ [fi])))) && stillFs mark q (fi + 1) r
def stillEs (mark : T) (q : Path) (fi : Nat) : Nat → List T → Bool
  | _, [] => true
  | i, x :: r =>
    (if x.isScalar then !(pyNe x (erase (markAt mark (q ++ [fi, i])))) else stillN mark (.fst 0 q) [fi, i] x)
      && stillEs mark q fi (i + 1) r
/-- the pairs of a `Dict` -/
def stillPs (mark : T) (q : Path) (fi : Nat) : Nat → List T → Bool
  | _, [] => true
  | i, .node (.tree l) _ kv :: r =>
    inPlace (.fst 0 q) [fi, i] l && stillKV mark (q ++ [fi, i]) kv && stillPs mark q fi (i + 1) r
  | _, _ :: _ => false
def stillKV (mark : T) (pq : Path) : List T → Bool
  | [k, v] =>
    (if k.isNode then stillN mark (.fst 0 pq) [0] k else k.isNil && !(markAt mark (pq ++ [0])).isNode)
      && stillN mark (.fst 0 pq) [1] v
  | _ => false
end

/-- `touchesAt P act p`: the operation `act` at path `P` rewrites the subtree at `p`, an ancestor of it, or something inside
it.  The region of a `put` / `setPrim` is the subtree at `P`; of `putSlice a b` the elements `a ≤ j < b` of the list at `P`;
of `delTail a` the elements `j ≥ a`. -/
def touchesAt : Path → Act → Path → Bool
  | _, _, [] => true
  | [], .put _ _, _ :: _ => true
  | [], .setPrim _, _ :: _ => true
  | [], .putSlice a b _ _ _, i :: _ => decide (a ≤ i) && decide (i < b)
  | [], .delTail a, i :: _ => decide (a ≤ i)
  | j :: P, act, i :: p => j == i && touchesAt P act p

def touches (o : Op) (p : Path) : Bool := touchesAt o.path o.act p

/-- `keptN mark p np rel n`: walking the path `p` down from `n` (field index, then element index for list fields) every
node on the way is an in-tree node in place, no retry-at-parent fallback fires at it (`recurse_children` of it does not
raise), no list on the way is a `Dict`, and the subtree reached is unchanged (`stillN`). -/
def keptN (mark : T) : Path → NP → Path → T → Bool
  | [], np, rel, n => stillN mark np rel n
  | fi :: p, np, rel, .node (.tree l) _ cs =>
    inPlace np rel l && !(recFields mark (.fst 0 (qOf l)) 0 (eraseL (markAt mark (qOf l)).kids) cs).fail &&
    (match cs[fi]? with
     | some (.many _ md items) =>
       md != 2 &&
       (match p with
        | i :: p' => (match items[i]? with
                      | some x => keptN mark p' (.fst 0 (qOf l)) [fi, i] x
                      | none => false)
        | [] => false)
     | some (.node o k cs') => keptN mark p (.fst 0 (qOf l)) [fi] (.node o k cs')
     | _ => false)
  | _ :: _, _, _, _ => false

end Pfst.Reconcile
