import Pfst.Trivia

/-! Lemmas about the scanning loops of `leading_trivia` / `trailing_trivia` and the regex models. -/
namespace Pfst.Trivia
open Pfst.Text

/-- a line the widest trivia pattern accepts: blank, pure comment or lone line continuation -/
def isTriviaLine (l : Line) : Bool := (reEmptyLineContOrComment l).isSome

theorem trivia_of_commentStart (l : Line) (h : (patCommentStart l).isSome) : isTriviaLine l = true := by
  unfold patCommentStart reCommentLineStart at h
  unfold isTriviaLine reEmptyLineContOrComment
  split at h <;> simp_all

theorem trivia_of_emptyOrCont (l : Line) (h : reEmptyLineOrCont l = true) : isTriviaLine l = true := by
  unfold reEmptyLineOrCont at h
  unfold isTriviaLine reEmptyLineContOrComment
  split at h <;> simp_all

/-- the upward comment loop: stays within `[stop, n]`, every line it passed matches the pattern, and the recorded
topmost comment line is one of the passed lines (or the initial value) -/
theorem scanUp_spec (pat : Line → Option Bool) (lines : List Line) (stop : Nat) :
    ∀ n cl, let r := scanUp pat lines stop n cl
      r.1 ≤ n ∧ (stop ≤ r.1 ∨ r.1 = n) ∧ (∀ i, r.1 ≤ i → i < n → (pat (lineAt lines i)).isSome)
      ∧ (r.2 = cl ∨ (r.1 ≤ r.2 ∧ r.2 < n ∧ pat (lineAt lines r.2) = some true)) := by
  intro n
  induction n with
  | zero => intro cl; exact ⟨Nat.le_refl _, Or.inr rfl, fun i a b => by omega, Or.inl rfl⟩
  | succ n ih =>
    intro cl
    simp only [scanUp]
    split
    · next hge =>
      split
      · next hnone => exact ⟨Nat.le_refl _, Or.inr rfl, fun i a b => by omega, Or.inl rfl⟩
      · next isC hsome =>
        cases isC with
        | false =>
          have := ih cl
          simp only [Bool.false_eq_true, if_false] at this ⊢
          obtain ⟨h1, h2, h3, h4⟩ := this
          refine ⟨by omega, ?_, ?_, ?_⟩
          · rcases h2 with h2 | h2
            · exact Or.inl h2
            · exact Or.inl (by omega)
          · intro i hi1 hi2
            by_cases hin : i = n
            · subst hin; simp [hsome]
            · exact h3 i hi1 (by omega)
          · rcases h4 with h4 | ⟨h4a, h4b, h4c⟩
            · exact Or.inl h4
            · exact Or.inr ⟨h4a, by omega, h4c⟩
        | true =>
          have := ih n
          simp only [if_true] at this ⊢
          obtain ⟨h1, h2, h3, h4⟩ := this
          refine ⟨by omega, ?_, ?_, ?_⟩
          · rcases h2 with h2 | h2
            · exact Or.inl h2
            · exact Or.inl (by omega)
          · intro i hi1 hi2
            by_cases hin : i = n
            · subst hin; simp [hsome]
            · exact h3 i hi1 (by omega)
          · rcases h4 with h4 | ⟨h4a, h4b, h4c⟩
            · right; rw [h4]; exact ⟨h1, by omega, hsome⟩
            · exact Or.inr ⟨h4a, by omega, h4c⟩
    · exact ⟨Nat.le_refl _, Or.inr rfl, fun i a b => by omega, Or.inl rfl⟩

/-- the upward space loop -/
theorem spaceUp_spec (lines : List Line) (lo : Nat) :
    ∀ n, let b := spaceUp lines lo n
      b ≤ n ∧ (lo ≤ b ∨ b = n) ∧ (∀ i, b ≤ i → i < n → reEmptyLineOrCont (lineAt lines i) = true) := by
  intro n
  induction n with
  | zero => exact ⟨Nat.le_refl _, Or.inr rfl, fun i a b => by omega⟩
  | succ n ih =>
    simp only [spaceUp]
    split
    · split
      · next hm =>
        obtain ⟨h1, h2, h3⟩ := ih
        refine ⟨by omega, ?_, ?_⟩
        · rcases h2 with h2 | h2
          · exact Or.inl h2
          · exact Or.inl (by omega)
        · intro i hi1 hi2
          by_cases hin : i = n
          · subst hin; exact hm
          · exact h3 i hi1 (by omega)
      · exact ⟨Nat.le_refl _, Or.inr rfl, fun i a b => by omega⟩
    · exact ⟨Nat.le_refl _, Or.inr rfl, fun i a b => by omega⟩

/-- the downward comment loop -/
theorem scanDown_spec (pat : Line → Option Bool) (lines : List Line) (stop : Nat) :
    ∀ fuel cur cl, let r := scanDown pat lines stop fuel cur cl
      cur ≤ r.1 ∧ (r.1 ≤ stop ∨ r.1 = cur) ∧ (∀ i, cur ≤ i → i < r.1 → (pat (lineAt lines i)).isSome)
      ∧ (r.2 = cl ∨ (cur < r.2 ∧ r.2 ≤ r.1 ∧ pat (lineAt lines (r.2 - 1)) = some true)) := by
  intro fuel
  induction fuel with
  | zero => intro cur cl; simp only [scanDown]; exact ⟨Nat.le_refl _, Or.inr trivial, fun i a b => by omega, Or.inl trivial⟩
  | succ f ih =>
    intro cur cl
    simp only [scanDown]
    split
    · next hlt =>
      split
      · exact ⟨Nat.le_refl _, Or.inr rfl, fun i a b => by omega, Or.inl rfl⟩
      · next isC hsome =>
        cases isC with
        | false =>
          have := ih (cur + 1) cl
          simp only [Bool.false_eq_true, if_false] at this ⊢
          obtain ⟨h1, h2, h3, h4⟩ := this
          refine ⟨by omega, ?_, ?_, ?_⟩
          · rcases h2 with h2 | h2
            · exact Or.inl h2
            · exact Or.inl (by omega)
          · intro i hi1 hi2
            by_cases hin : i = cur
            · subst hin; simp [hsome]
            · exact h3 i (by omega) hi2
          · rcases h4 with h4 | ⟨h4a, h4b, h4c⟩
            · exact Or.inl h4
            · exact Or.inr ⟨by omega, h4b, h4c⟩
        | true =>
          have := ih (cur + 1) (cur + 1)
          simp only [if_true] at this ⊢
          obtain ⟨h1, h2, h3, h4⟩ := this
          refine ⟨by omega, ?_, ?_, ?_⟩
          · rcases h2 with h2 | h2
            · exact Or.inl h2
            · exact Or.inl (by omega)
          · intro i hi1 hi2
            by_cases hin : i = cur
            · subst hin; simp [hsome]
            · exact h3 i (by omega) hi2
          · rcases h4 with h4 | ⟨h4a, h4b, h4c⟩
            · right; rw [h4]; exact ⟨by omega, h1, by simpa using hsome⟩
            · exact Or.inr ⟨by omega, h4b, h4c⟩
    · exact ⟨Nat.le_refl _, Or.inr rfl, fun i a b => by omega, Or.inl rfl⟩

/-- the downward space loop -/
theorem spaceDown_spec (lines : List Line) (hi : Nat) :
    ∀ fuel cur, let b := spaceDown lines hi fuel cur
      cur ≤ b ∧ (b ≤ hi ∨ b = cur) ∧ (∀ i, cur ≤ i → i < b → reEmptyLineOrCont (lineAt lines i) = true) := by
  intro fuel
  induction fuel with
  | zero => intro cur; simp only [spaceDown]; exact ⟨Nat.le_refl _, Or.inr trivial, fun i a b => by omega⟩
  | succ f ih =>
    intro cur
    simp only [spaceDown]
    split
    · split
      · next hm =>
        obtain ⟨h1, h2, h3⟩ := ih (cur + 1)
        refine ⟨by omega, ?_, ?_⟩
        · rcases h2 with h2 | h2
          · exact Or.inl h2
          · exact Or.inl (by omega)
        · intro i hi1 hi2
          by_cases hin : i = cur
          · subst hin; exact hm
          · exact h3 i (by omega) hi2
      · exact ⟨Nat.le_refl _, Or.inr rfl, fun i a b => by omega⟩
    · exact ⟨Nat.le_refl _, Or.inr rfl, fun i a b => by omega⟩


/-- first line of the range `leading_trivia` hands back: the space start if any, else the text line -/
def LeadResult.startLn (r : LeadResult) : Nat := match r.space with | some p => p.1 | none => r.text.1

theorem leadFinish_text (lines : List Line) (topLn ln col commentsLn : Nat) (space : Space) (indent : Line) :
    (leadFinish lines topLn ln col commentsLn space indent).text
      = (if commentsLn != ln then (commentsLn, 0) else (ln, col)) := by
  cases space <;> simp only [leadFinish] <;> repeat' split
  all_goals rfl

/-- A space position returned by the common tail is at column 0, within `[topLn, commentsLn]`, at most `k` lines above
the comments for a finite `space = k`, and every line between it and `commentsLn` is blank or a lone continuation. -/
theorem leadFinish_space (lines : List Line) (topLn ln col commentsLn : Nat) (space : Space) (indent : Line)
    (h1 : topLn ≤ commentsLn) (p : Nat × Nat)
    (hp : (leadFinish lines topLn ln col commentsLn space indent).space = some p) :
    p.2 = 0 ∧ topLn ≤ p.1 ∧ p.1 ≤ commentsLn
      ∧ (∀ i, p.1 ≤ i → i < commentsLn → reEmptyLineOrCont (lineAt lines i) = true)
      ∧ (∀ k, space = .n k → commentsLn ≤ p.1 + k) := by
  have triv : ∀ q : Nat × Nat, q = (commentsLn, 0) → q.2 = 0 ∧ topLn ≤ q.1 ∧ q.1 ≤ commentsLn
      ∧ (∀ i, q.1 ≤ i → i < commentsLn → reEmptyLineOrCont (lineAt lines i) = true)
      ∧ (∀ k, space = .n k → commentsLn ≤ q.1 + k) := by
    intro q hq; subst hq
    exact ⟨rfl, h1, Nat.le_refl _, fun i a b => by omega, fun k _ => by omega⟩
  cases space with
  | all =>
    simp only [leadFinish] at hp
    have := spaceUp_spec lines topLn commentsLn
    simp only at this
    obtain ⟨a, b, c⟩ := this
    repeat' split at hp
    all_goals first
      | (cases hp; done)
      | (exact triv p (by cases hp; rfl))
      | (cases hp
         refine ⟨rfl, ?_, a, c, fun k hk => by cases hk⟩
         rcases b with b | b <;> omega)
  | n k =>
    simp only [leadFinish] at hp
    have := spaceUp_spec lines (max topLn (commentsLn - k)) commentsLn
    simp only at this
    obtain ⟨a, b, c⟩ := this
    repeat' split at hp
    all_goals first
      | (cases hp; done)
      | (exact triv p (by cases hp; rfl))
      | (cases hp
         refine ⟨rfl, ?_, a, c, ?_⟩
         · rcases b with b | b <;> omega
         · intro k' hk'; cases hk'
           rcases b with b | b <;> omega)


/-- the early return of `leading_trivia`: the element does not start its line (or the bound is on its line) -/
def leadEarly (lines : List Line) (bln bcol ln col : Nat) : Bool :=
  (bln == ln && bcol != 0) || !(reEmptyLine (lineAt lines ln) col)

def topLnOf (bln bcol : Nat) : Nat := bln + (if bcol != 0 then 1 else 0)

theorem lead_early (lines : List Line) (bln bcol ln col : Nat) (c : LComments) (s : Space)
    (h : leadEarly lines bln bcol ln col = true) :
    leadingTrivia lines bln bcol ln col c s = ⟨(ln, col), none, none⟩ := by
  unfold leadEarly at h
  simp only [leadingTrivia, h, if_true]

/-- For `comments` none / block / line number `leading_trivia` is the common tail applied to a `comments_ln` that lies
between the topmost admissible line and the element, with only comment / blank / continuation lines in between. -/
theorem lead_modes (lines : List Line) (bln bcol ln col : Nat) (c : LComments) (s : Space) (hb : bln ≤ ln)
    (hc : c ≠ .all) (he : leadEarly lines bln bcol ln col = false) :
    ∃ cl, topLnOf bln bcol ≤ cl ∧ cl ≤ ln ∧ (∀ i, cl ≤ i → i < ln → isTriviaLine (lineAt lines i) = true)
      ∧ (c = .none → cl = ln)
      ∧ (c = .block → ∀ i, cl ≤ i → i < ln → reCommentLineStart (lineAt lines i) = true)
      ∧ leadingTrivia lines bln bcol ln col c s
          = leadFinish lines (topLnOf bln bcol) ln col cl s ((lineAt lines ln).take col) := by
  have htop : topLnOf bln bcol ≤ ln := by
    unfold leadEarly at he
    unfold topLnOf
    by_cases hz : bcol = 0
    · simp [hz]; exact hb
    · have : (bcol != 0) = true := by simp [hz]
      simp only [this, Bool.and_true, Bool.or_eq_false_iff, beq_eq_false_iff_ne] at he
      simp only [this, if_true]; omega
  unfold leadEarly at he
  cases c with
  | all => exact absurd rfl hc
  | none =>
    refine ⟨ln, htop, Nat.le_refl _, fun i a b => by omega, fun _ => rfl, fun _ i a b => by omega, ?_⟩
    simp only [leadingTrivia, he, Bool.false_eq_true, if_false, topLnOf]
  | block =>
    have sp := scanUp_spec patCommentStart lines (topLnOf bln bcol) ln ln
    simp only at sp
    obtain ⟨a, b, c', _⟩ := sp
    refine ⟨(scanUp patCommentStart lines (topLnOf bln bcol) ln ln).1, by rcases b with b | b <;> omega, a,
      fun i h1 h2 => trivia_of_commentStart _ (c' i h1 h2), (fun h => nomatch h), ?_, ?_⟩
    · intro _ i h1 h2
      have := c' i h1 h2
      unfold patCommentStart at this
      split at this
      · assumption
      · simp at this
    · simp only [leadingTrivia, he, Bool.false_eq_true, if_false, topLnOf]
  | lineno n =>
    have hst : topLnOf bln bcol ≤ (if n > (topLnOf bln bcol : Int) then n.toNat else topLnOf bln bcol) := by
      split <;> omega
    have sp := scanUp_spec reEmptyLineContOrComment lines
      (if n > (topLnOf bln bcol : Int) then n.toNat else topLnOf bln bcol) ln ln
    simp only at sp
    obtain ⟨a, b, c', _⟩ := sp
    refine ⟨_, by rcases b with b | b <;> omega, a, fun i h1 h2 => c' i h1 h2, (fun h => nomatch h),
      (fun h => nomatch h), ?_⟩
    simp only [leadingTrivia, he, Bool.false_eq_true, if_false, topLnOf]
    rfl

/-! ### get_trivia_params is total on what _check_opt_trivia accepts -/

theorem splitAt_digits (c : Char) (hc : isDigitCh c = false) :
    ∀ ds : List Char, ds.all isDigitCh = true → splitAtChar c ds = none
  | [], _ => rfl
  | d :: ds, h => by
    simp only [List.all_cons, Bool.and_eq_true] at h
    have hne : (d == c) = false := by
      by_cases e : d = c
      · subst e; rw [h.1] at hc; cases hc
      · simpa using e
    simp [splitAtChar, hne, splitAt_digits c hc ds h.2]

theorem parseNat_digits (ds : List Char) (h : ds.all isDigitCh = true) (hne : ds ≠ []) : ∃ n, parseNat ds = some n := by
  unfold parseNat
  have : ds.isEmpty = false := by cases ds <;> simp_all
  simp [this, h]

theorem spaceOf_digits (ds : List Char) (h : ds.all isDigitCh = true) : ∃ sp, spaceOf ds = some sp := by
  unfold spaceOf
  by_cases he : ds = []
  · subst he; exact ⟨_, rfl⟩
  · obtain ⟨n, hn⟩ := parseNat_digits ds h he
    have : ds.isEmpty = false := by cases ds <;> simp_all
    simp [this, hn]

theorem stripPrefix_eq (p s r : List Char) (h : stripPrefix p s = some r) : s = p ++ r := by
  unfold stripPrefix at h
  split at h
  · next hp =>
    obtain ⟨t, ht⟩ := List.isPrefixOf_iff_prefix.mp hp
    cases h; subst ht; simp
  · cases h

def words : List (List Char) := ["all".toList, "block".toList, "none".toList, "line".toList, []]

/-- a string of the option language `word? ([+-] digits*)?`, not empty, is mapped to the word (or the default) -/
theorem oneParam_str (p r dflt : List Char) (neg : Bool) (hp : p ∈ words) (hr : sufOk r = true) (hne : p ++ r ≠ []) :
    ∃ sp ng, oneParam (.str (p ++ r)) dflt neg = some (.str (if p.isEmpty then dflt else p), sp, ng) := by
  have hplus : isDigitCh '+' = false := by decide
  have hminus : isDigitCh '-' = false := by decide
  match r, hr with
  | [], _ =>
    simp only [words, List.mem_cons, List.not_mem_nil, or_false] at hp
    rcases hp with rfl | rfl | rfl | rfl | rfl
    · exact ⟨.bool false, false, by simp [oneParam, splitAtChar]⟩
    · exact ⟨.bool false, false, by simp [oneParam, splitAtChar]⟩
    · exact ⟨.bool false, false, by simp [oneParam, splitAtChar]⟩
    · exact ⟨.bool false, false, by simp [oneParam, splitAtChar]⟩
    · exact absurd rfl hne
  | c :: ds, hr =>
    simp only [sufOk, Bool.and_eq_true, Bool.or_eq_true, beq_iff_eq] at hr
    obtain ⟨hc, hds⟩ := hr
    simp only [words, List.mem_cons, List.not_mem_nil, or_false] at hp
    rcases hc with rfl | rfl
    · obtain ⟨sp, hsp⟩ := spaceOf_digits ds hds
      rcases hp with rfl | rfl | rfl | rfl | rfl <;>
        exact ⟨sp, false, by simp [oneParam, splitAtChar, hsp]⟩
    · have hno := splitAt_digits '+' hplus ds hds
      obtain ⟨sp, hsp⟩ := spaceOf_digits ds hds
      cases neg
      · rcases hp with rfl | rfl | rfl | rfl | rfl <;>
          exact ⟨.int 0, true, by simp [oneParam, splitAtChar, hno]⟩
      · rcases hp with rfl | rfl | rfl | rfl | rfl <;>
          exact ⟨sp, true, by simp [oneParam, splitAtChar, hsp, hno]⟩


/-- what `oneParam` may return as `comments`: a line number, the default word, `none`, or a non-empty admitted word -/
def goodC (prefixes : List (List Char)) (dflt : List Char) (c : CVal) : Prop :=
  (∃ n, c = .int n) ∨ ∃ w, c = .str w ∧ (w = dflt ∨ (w ∈ prefixes ∧ w ≠ []))

theorem oneParam_ok (prefixes : List (List Char)) (hsub : ∀ p ∈ prefixes, p ∈ words) (hnone : "none".toList ∈ prefixes)
    (v : TVal) (h : okVal prefixes v = true) (dflt : List Char) (neg : Bool) :
    ∃ c sp ng, oneParam v dflt neg = some (c, sp, ng) ∧ goodC prefixes dflt c := by
  cases v with
  | bool b =>
    cases b
    · exact ⟨_, _, _, rfl, Or.inr ⟨"none".toList, rfl, Or.inr ⟨hnone, by decide⟩⟩⟩
    · exact ⟨_, _, _, rfl, Or.inr ⟨_, rfl, Or.inl rfl⟩⟩
  | int n => exact ⟨_, _, _, rfl, Or.inl ⟨n, rfl⟩⟩
  | str s =>
    simp only [okVal, reTrivia, Bool.and_eq_true, Bool.not_eq_true', List.any_eq_true] at h
    obtain ⟨hne, p, hp, hm⟩ := h
    split at hm
    · next r hr =>
      have hs := stripPrefix_eq p s r hr
      subst hs
      have hne' : p ++ r ≠ [] := by intro e; rw [e] at hne; simp at hne
      obtain ⟨sp, ng, h1⟩ := oneParam_str p r dflt neg (hsub p hp) hm hne'
      refine ⟨_, sp, ng, h1, Or.inr ⟨_, rfl, ?_⟩⟩
      by_cases he : p = []
      · left; simp [he]
      · right
        have : p.isEmpty = false := by cases p <;> simp_all
        simp [this]; exact ⟨hp, he⟩
    · cases hm

theorem lead_sub : ∀ p ∈ leadPrefixes, p ∈ words := by decide
theorem trail_sub : ∀ p ∈ trailPrefixes, p ∈ words := by decide

theorem goodC_lead (c : CVal) (h : goodC leadPrefixes "block".toList c) :
    legalLead c = true ∧ c ≠ .str "line".toList := by
  rcases h with ⟨n, rfl⟩ | ⟨w, rfl, hw⟩
  · exact ⟨rfl, by simp⟩
  · rcases hw with rfl | ⟨hw, hne⟩
    · exact ⟨by decide, by decide⟩
    · simp only [leadPrefixes, List.mem_cons, List.not_mem_nil, or_false] at hw
      rcases hw with rfl | rfl | rfl | rfl
      · exact ⟨by decide, by decide⟩
      · exact ⟨by decide, by decide⟩
      · exact ⟨by decide, by decide⟩
      · exact absurd rfl hne

theorem goodC_trail (c : CVal) (h : goodC trailPrefixes "line".toList c) : legalTrail c = true := by
  rcases h with ⟨n, rfl⟩ | ⟨w, rfl, hw⟩
  · rfl
  · rcases hw with rfl | ⟨hw, hne⟩
    · decide
    · simp only [trailPrefixes, List.mem_cons, List.not_mem_nil, or_false] at hw
      rcases hw with rfl | rfl | rfl | rfl | rfl
      · decide
      · decide
      · decide
      · decide
      · exact absurd rfl hne

/-- a trailing component is also fine where only the leading words are admitted -/
theorem okVal_lead_trail (v : TVal) (h : okVal leadPrefixes v = true) : okVal trailPrefixes v = true := by
  cases v with
  | bool b => rfl
  | int n => rfl
  | str s =>
    simp only [okVal, reTrivia, Bool.and_eq_true, List.any_eq_true] at h ⊢
    obtain ⟨hne, p, hp, hm⟩ := h
    refine ⟨hne, p, ?_, hm⟩
    simp only [leadPrefixes, trailPrefixes, List.mem_cons, List.not_mem_nil, or_false] at hp ⊢
    rcases hp with rfl | rfl | rfl | rfl <;> simp

theorem params_of (lc tc : TVal) (neg : Bool) (h1 : okVal leadPrefixes lc = true) (h2 : okVal trailPrefixes tc = true) :
    ∃ c1 s1 n1 c2 s2 n2, oneParam lc "block".toList neg = some (c1, s1, n1) ∧ oneParam tc "line".toList neg = some (c2, s2, n2)
      ∧ legalLead c1 = true ∧ c1 ≠ .str "line".toList ∧ legalTrail c2 = true := by
  obtain ⟨c1, s1, n1, e1, g1⟩ := oneParam_ok leadPrefixes lead_sub (by decide) lc h1 "block".toList neg
  obtain ⟨c2, s2, n2, e2, g2⟩ := oneParam_ok trailPrefixes trail_sub (by decide) tc h2 "line".toList neg
  exact ⟨c1, s1, n1, c2, s2, n2, e1, e2, (goodC_lead c1 g1).1, (goodC_lead c1 g1).2, goodC_trail c2 g2⟩

/-- **Totality**: every value `_check_opt_trivia` accepts is mapped by `get_trivia_params` to `comments` values that
`leading_trivia` / `trailing_trivia` handle. -/
theorem getTriviaParams_total (t : TrivOpt) (neg : Bool) (h : checkOptTrivia t = true) :
    ∃ p, getTriviaParams t neg = some p ∧ legalLead p.leadC = true ∧ legalTrail p.trailC = true := by
  have fin : ∀ lc tc, okVal leadPrefixes lc = true → okVal trailPrefixes tc = true →
      ∃ p, (match oneParam lc "block".toList neg, oneParam tc "line".toList neg with
        | some (c1, s1, n1), some (c2, s2, n2) =>
          if (match lc with | .str _ => true | _ => false) && c1 == .str "line".toList then none
          else some (⟨c1, s1, n1, c2, s2, n2⟩ : TParams)
        | _, _ => none) = some p ∧ legalLead p.leadC = true ∧ legalTrail p.trailC = true := by
    intro lc tc h1 h2
    obtain ⟨c1, s1, n1, c2, s2, n2, e1, e2, l1, ne1, l2⟩ := params_of lc tc neg h1 h2
    rw [e1, e2]
    have : (c1 == CVal.str "line".toList) = false := by simpa using ne1
    simp only [this, Bool.and_false, Bool.false_eq_true, if_false]
    exact ⟨_, rfl, l1, l2⟩
  match t, h with
  | .single v, h => exact fin v (.bool true) h rfl
  | .tuple [], _ => exact fin (.bool false) (.bool false) rfl rfl
  | .tuple [a], h => exact fin (.bool true) a rfl h
  | .tuple [a, b], h =>
    simp only [checkOptTrivia, Bool.and_eq_true] at h
    exact fin a b h.1 h.2
  | .tuple (_ :: _ :: _ :: _), h => simp [checkOptTrivia] at h


end Pfst.Trivia
