/-
Model of `fst_misc.clip_src_loc` (the coordinate normalisation in front of `get_src` / `put_src`): 'end' and negative
line / column spellings, clipping to the source, and the two ordering refusals.  Lines are given by their lengths (in
characters).  No imports.
-/
namespace Pfst.Clip

/-- a coordinate as the caller spells it: an integer or the literal `'end'` -/
inductive Coord where
  | idx (i : Int)
  | fin
deriving Repr, DecidableEq, Inhabited

inductive Res where
  | ok (ln col endLn endCol : Int)
  | errLine          -- IndexError('end line cannot precede start line')
  | errCol           -- IndexError('end column cannot precede start column on line')
deriving Repr, DecidableEq, Inhabited

def lineLen (lens : List Nat) (i : Int) : Int := (lens.getD i.toNat 0 : Nat)

/-- `ln == 'end' → last; ln < 0 → ln + len(lines)` (before clamping) -/
def resolveLn (n : Int) : Coord → Int
  | .fin => n - 1
  | .idx i => if i < 0 then i + n else i

def clamp (lo hi x : Int) : Int := max lo (min hi x)

/-- `col == 'end' → len(line); col < 0 → max(0, col + len(line)); else min(col, len(line))` -/
def resolveCol (len : Int) : Coord → Int
  | .fin => len
  | .idx c => if c < 0 then max 0 (c + len) else min c len

def clip (lens : List Nat) (ln col endLn endCol : Coord) : Res :=
  let n : Int := (lens.length : Nat)
  let l := resolveLn n ln
  let e := resolveLn n endLn
  if l > e then .errLine else
  let l := clamp 0 (n - 1) l
  let e := clamp 0 (n - 1) e
  let c := resolveCol (lineLen lens l) col
  let ec := resolveCol (lineLen lens e) endCol
  if e = l ∧ c > ec then .errCol else .ok l c e ec

/-- the canonical (already clipped) spelling of a location -/
def canonical (lens : List Nat) (l c e ec : Int) : Prop :=
  0 ≤ l ∧ l ≤ e ∧ e < (lens.length : Nat) ∧ 0 ≤ c ∧ c ≤ lineLen lens l ∧ 0 ≤ ec ∧ ec ≤ lineLen lens e ∧ (e = l → c ≤ ec)

end Pfst.Clip
