import Lean.Data.Json
/-! Small JSON helpers shared by the driver packages (driver only; no model depends on this). -/
namespace Pfst.JsonUtil
open Lean

def getInt (j : Json) (k : String) : Option Int := (j.getObjValAs? Int k).toOption
def getNat (j : Json) (k : String) : Option Nat := (j.getObjValAs? Nat k).toOption
def getStr (j : Json) (k : String) : Option String := (j.getObjValAs? String k).toOption
def getBool (j : Json) (k : String) : Option Bool := (j.getObjValAs? Bool k).toOption
def getArr (j : Json) (k : String) : Option (Array Json) := (j.getObjValAs? (Array Json) k).toOption
def get (j : Json) (k : String) : Option Json := (j.getObjVal? k).toOption
def asInt (j : Json) : Option Int := (j.getInt?).toOption
def asNat (j : Json) : Option Nat := (j.getNat?).toOption
def asStr (j : Json) : Option String := (j.getStr?).toOption
def asBool (j : Json) : Option Bool := (j.getBool?).toOption
def asArr (j : Json) : Option (Array Json) := (j.getArr?).toOption
def isNull (j : Json) : Bool := match j with | .null => true | _ => false

def ofInt (i : Int) : Json := Json.num (JsonNumber.fromInt i)
def ofNat (n : Nat) : Json := Json.num (JsonNumber.fromNat n)
def ofInts (l : List Int) : Json := Json.arr (l.map ofInt).toArray
def ofNats (l : List Nat) : Json := Json.arr (l.map ofNat).toArray
def ofStrs (l : List String) : Json := Json.arr (l.map Json.str).toArray
def ofOpt {α} (f : α → Json) : Option α → Json | none => Json.null | some a => f a

def asInts (j : Json) : Option (List Int) := do (← asArr j).toList.mapM asInt
def asNats (j : Json) : Option (List Nat) := do (← asArr j).toList.mapM asNat
def asStrs (j : Json) : Option (List String) := do (← asArr j).toList.mapM asStr

end Pfst.JsonUtil
