import Pfst.ParseLemmas
/-! Soundness of the precedence-climbing parser: what it returns is derivable in the grammar (and in the fragment). -/
namespace Pfst.Parse
open Pfst.Grammar

/-- `pre` is a phrase for `e` (in the fragment) in every slot that accepts ladder level `lev` -/
def Good (m : Nat) (pre : List Tok) (e : E) (lev : Nat) (bi : Bool) : Prop :=
  m ≤ lev ∧ inFrag e = true ∧
  ∀ s : Slot, s.minLad ≤ lev → (s.noInt = true → bi = false) → Derives s pre e

def GoodL (q : Nat) (tss : List (List Tok)) (xs : List E) : Prop :=
  inFragL xs = true ∧ tss.length = xs.length ∧
  ∀ k i, (∀ j, i ≤ j → j < i + xs.length → (Kind.slot k j).minLad = q ∧ (Kind.slot k j).noInt = false) →
    DerivesL k i xs tss

theorem Good.atSl {q pre x lev bi} (h : Good q pre x lev bi) (_hq : q ≤ ATOM) : Derives (sl q) pre x :=
  h.2.2 (sl q) h.1 (fun h => by simp [Grammar.sl] at h)

theorem Good.atSlot {q pre x lev bi} (h : Good q pre x lev bi) (_hq : q ≤ ATOM) (S : Slot) (hS : S.minLad = q)
    (hn : S.noInt = false) : Derives S pre x :=
  h.2.2 S (by rw [hS]; exact h.1) (fun h => by simp [hn] at h)

theorem GoodL.nil {q} : GoodL q [] [] := ⟨rfl, rfl, fun k i _ => DerivesL.nil k i⟩

theorem GoodL.cons {q t x lev bi tss xs} (h : Good q t x lev bi) (hq : q ≤ ATOM) (hl : GoodL q tss xs) :
    GoodL q (t :: tss) (x :: xs) :=
  ⟨by simp [inFragL, h.2.1, hl.1], by simp [hl.2.1],
    fun k i hs => DerivesL.cons k i x xs t tss
      (h.atSlot hq _ (hs i (Nat.le_refl _) (by simp)).1 (hs i (Nat.le_refl _) (by simp)).2)
      (hl.2.2 k (i + 1) (fun j h1 h2 => hs j (by omega) (by simp only [List.length_cons]; omega)))⟩

/-! constructors of derivations, one per construct -/

theorem mk_prefix {k : Kind} {q p : Nat} {tok : List Tok} {tx x levx bix m}
    (hx : Good q tx x levx bix) (hq : q ≤ ATOM) (hm : m ≤ p) (hk : kindOk k = true) (har : k.arityOk 1 = true)
    (hcls : k.cls = .lad p) (hslot : k.slot 0 = sl q) (hr : k.render [tx] = tok ++ tx) :
    Good m (tok ++ tx) (.node k [x]) p false := by
  refine ⟨hm, by simp [inFrag, inFragL, hk, hx.2.1], fun s hs _ => ?_⟩
  rw [← hr]
  exact Derives.node s k [x] [tx] har (by simp [hcls, accepts, hs])
    (DerivesL.cons k 0 x [] tx [] (by rw [hslot]; exact hx.atSl hq) (DerivesL.nil k 1))

theorem mk_binary {k : Kind} {a q b : Nat} {tok : Tok} {tl l ll bil tr r levr bir m}
    (hl : Good m tl l ll bil) (ha : a ≤ ll) (hr : Good q tr r levr bir) (hq : q ≤ ATOM) (hm : m ≤ b)
    (hk : kindOk k = true) (har : k.arityOk 2 = true) (hcls : k.cls = .lad b) (hs0 : k.slot 0 = sl a)
    (hs1 : k.slot 1 = sl q) (hrd : k.render [tl, tr] = tl ++ tok :: tr) :
    Good m (tl ++ tok :: tr) (.node k [l, r]) b false := by
  refine ⟨hm, by simp [inFrag, inFragL, hk, hl.2.1, hr.2.1], fun s hs _ => ?_⟩
  rw [← hrd]
  refine Derives.node s k [l, r] [tl, tr] har (by simp [hcls, accepts, hs])
    (DerivesL.cons k 0 l [r] tl [tr] ?_ (DerivesL.cons k 1 r [] tr [] (by rw [hs1]; exact hr.atSl hq) (DerivesL.nil k 2)))
  rw [hs0]
  exact hl.2.2 (sl a) ha (fun h => by simp [Grammar.sl] at h)


theorem mk_nary {k : Kind} {q b m : Nat} {t0 l ll bil tss xs} {tail : List Tok}
    (hl : Good m t0 l ll bil) (hq : q ≤ ll) (hxs : GoodL q tss xs) (hm : m ≤ b) (hk : kindOk k = true)
    (har : k.arityOk (xs.length + 1) = true) (hcls : k.cls = .lad b) (hslot : ∀ j, k.slot j = sl q)
    (hrd : k.render (t0 :: tss) = t0 ++ tail) : Good m (t0 ++ tail) (.node k (l :: xs)) b false := by
  refine ⟨hm, by simp [inFrag, inFragL, hk, hl.2.1, hxs.1], fun s hs _ => ?_⟩
  rw [← hrd]
  refine Derives.node s k (l :: xs) (t0 :: tss) (by simpa using har) (by simp [hcls, accepts, hs])
    (DerivesL.cons k 0 l xs t0 tss ?_ (hxs.2.2 k 1 (fun j _ _ => by rw [hslot j]; exact ⟨rfl, rfl⟩)))
  rw [hslot]
  exact hl.2.2 (sl q) hq (fun h => by simp [Grammar.sl] at h)

theorem mk_if {m tb b ll bil tt t levt bit to o levo bio} (hb : Good m tb b ll bil) (hbl : OR ≤ ll)
    (ht : Good OR tt t levt bit) (ho : Good TEST to o levo bio) (hm : m ≤ TEST) :
    Good m (tb ++ Tok.sym tIf :: (tt ++ Tok.sym tElse :: to)) (.node .ifexp [b, t, o]) TEST false := by
  refine ⟨hm, by simp [inFrag, inFragL, kindOk, hb.2.1, ht.2.1, ho.2.1], fun s hs _ => ?_⟩
  have hrd : Kind.render .ifexp [tb, tt, to] = tb ++ Tok.sym tIf :: (tt ++ Tok.sym tElse :: to) := by
    simp [Kind.render]
  rw [← hrd]
  refine Derives.node s .ifexp [b, t, o] [tb, tt, to] rfl (by simp [Kind.cls, accepts, hs])
    (DerivesL.cons _ 0 b _ tb _ ?_ (DerivesL.cons _ 1 t _ tt _ ?_ (DerivesL.cons _ 2 o _ to _ ?_ (DerivesL.nil _ 3))))
  · exact hb.2.2 (sl OR) hbl (fun h => by simp [Grammar.sl] at h)
  · exact ht.atSl (by simp [OR, ATOM])
  · exact ho.atSl (by simp [TEST, ATOM])


theorem mk_attr {m tv v ll n} (hv : Good m tv v ll false) (hl : ATOM ≤ ll) (hm : m ≤ ATOM) :
    Good m (tv ++ [Tok.sym tDot, Tok.name n]) (.node (.attr n) [v]) ATOM false := by
  refine ⟨hm, by simp [inFrag, inFragL, kindOk, hv.2.1], fun s hs _ => ?_⟩
  have hrd : Kind.render (.attr n) [tv] = tv ++ [Tok.sym tDot, Tok.name n] := rfl
  rw [← hrd]
  exact Derives.node s (.attr n) [v] [tv] rfl (by simp [Kind.cls, accepts, hs])
    (DerivesL.cons _ 0 v [] tv [] (hv.2.2 _ hl (fun _ => rfl)) (DerivesL.nil _ 1))

theorem mk_subscr {m tv v ll bi tx x levx bix} (hv : Good m tv v ll bi) (hl : ATOM ≤ ll)
    (hx : Good TEST tx x levx bix) (hm : m ≤ ATOM) :
    Good m (tv ++ Tok.sym tLb :: (tx ++ [Tok.sym tRb])) (.node .subscr [v, x]) ATOM false := by
  refine ⟨hm, by simp [inFrag, inFragL, kindOk, hv.2.1, hx.2.1], fun s hs _ => ?_⟩
  have hrd : Kind.render .subscr [tv, tx] = tv ++ Tok.sym tLb :: (tx ++ [Tok.sym tRb]) := by simp [Kind.render]
  rw [← hrd]
  refine Derives.node s .subscr [v, x] [tv, tx] rfl (by simp [Kind.cls, accepts, hs])
    (DerivesL.cons _ 0 v _ tv _ ?_ (DerivesL.cons _ 1 x _ tx _ ?_ (DerivesL.nil _ 2)))
  · exact hv.2.2 (sl ATOM) hl (fun h => by simp [Grammar.sl] at h)
  · exact hx.atSlot (by decide) _ rfl rfl

theorem mk_call {m tf fn ll bi tss xs} (hf : Good m tf fn ll bi) (hl : ATOM ≤ ll) (hxs : GoodL TEST tss xs)
    (hm : m ≤ ATOM) :
    Good m (tf ++ Tok.lp :: (sepBy [Tok.sym tComma] tss ++ [Tok.rp])) (.node (.call xs.length []) (fn :: xs)) ATOM false := by
  refine ⟨hm, by simp [inFrag, inFragL, kindOk, hf.2.1, hxs.1], fun s hs _ => ?_⟩
  have hrd : Kind.render (.call xs.length []) (tf :: tss) = tf ++ Tok.lp :: (sepBy [Tok.sym tComma] tss ++ [Tok.rp]) := by
    simp [Kind.render, kwRender, ← hxs.2.1]
  rw [← hrd]
  refine Derives.node s (.call xs.length []) (fn :: xs) (tf :: tss) (by simp [Kind.arityOk]; omega)
    (by simp [Kind.cls, accepts, hs]) (DerivesL.cons _ 0 fn xs tf tss ?_ (hxs.2.2 _ 1 ?_))
  · exact hf.2.2 (sl ATOM) hl (fun h => by simp [Grammar.sl] at h)
  · intro j h1 h2
    simp only [Kind.slot]
    rw [if_neg (by simp; omega), if_pos (by omega)]
    exact ⟨rfl, rfl⟩

local macro "lvl" : tactic =>
  `(tactic| first | decide | (simp only [ATOM] at *; omega))

def SoundE (f : Nat) : Prop := ∀ m toks e lev bi rest, m ≤ ATOM → pE f m toks = some (e, lev, bi, rest) →
  ∃ pre, toks = pre ++ rest ∧ Good m pre e lev bi
def SoundP (f : Nat) : Prop := ∀ m toks e lev bi rest, m ≤ ATOM → pPre f m toks = some (e, lev, bi, rest) →
  ∃ pre, toks = pre ++ rest ∧ Good m pre e lev bi
def SoundL (f : Nat) : Prop := ∀ m l ll bi toks e lev bi' rest pre0, m ≤ ATOM → Good m pre0 l ll bi →
  pLoop f m l ll bi toks = some (e, lev, bi', rest) → ∃ pre, toks = pre ++ rest ∧ Good m (pre0 ++ pre) e lev bi'
def SoundC (f : Nat) : Prop := ∀ toks ops xs rest, pCmp f toks = some (ops, xs, rest) →
  ∃ tss, toks = cmpRender ops tss ++ rest ∧ ops.length = tss.length ∧ (∀ op ∈ ops, isCmp op) ∧ GoodL BOR tss xs ∧
    (∀ op r, toks = Tok.sym op :: r → isCmp op → ops ≠ [])
def SoundB (f : Nat) : Prop := ∀ tk q toks xs rest, q ≤ ATOM → pBool f tk q toks = some (xs, rest) →
  ∃ tss, toks = tailR (Tok.sym tk) tss ++ rest ∧ GoodL q tss xs ∧ (∀ r, toks = Tok.sym tk :: r → xs ≠ [])

theorem soundE_step {f} (hP : SoundP f) (hL : SoundL f) : SoundE (f + 1) := by
  intro m toks e lev bi rest hm0 h
  rw [pE] at h
  split at h
  · next e1 lev1 bi1 rest1 heq =>
    obtain ⟨pre1, rfl, hg1⟩ := hP _ _ _ _ _ _ hm0 heq
    obtain ⟨pre2, rfl, hg2⟩ := hL _ _ _ _ _ _ _ _ _ pre1 hm0 hg1 h
    exact ⟨pre1 ++ pre2, by simp, hg2⟩
  · cases h

theorem good_atom_name {m n} (hm : m ≤ ATOM) : Good m [Tok.name n] (.leaf (.name n) (.lad ATOM)) ATOM false :=
  ⟨hm, by simp [inFrag], fun s hs _ => Derives.leaf s _ _ (by simp [accepts, hs])⟩

theorem good_atom_int {m n} (hm : m ≤ ATOM) : Good m [Tok.int n] (.leaf (.int n) .intlit) GRP true :=
  ⟨by simp only [ATOM, GRP] at *; omega, by simp [inFrag], fun s _ hni => Derives.leaf s _ _ (by
    cases hn : s.noInt with
    | false => simp [accepts, hn]
    | true => exact absurd (hni hn) (by simp))⟩

theorem good_paren {m q pre e lev bi} (h : Good q pre e lev bi) (hq : q = TEST) (hm : m ≤ ATOM) :
    Good m (Tok.lp :: pre ++ [Tok.rp]) e GRP false := by
  refine ⟨by simp only [ATOM, GRP] at *; omega, h.2.1, fun s _ _ => ?_⟩
  have hcls : parenable e.cls = true := by
    have hf := h.2.1
    cases e with
    | leaf t c =>
      cases t <;> cases c <;> simp [inFrag] at hf <;> simp [parenable, accepts, E.cls, top]
    | node k kids =>
      simp only [inFrag, Bool.and_eq_true] at hf
      cases k <;> simp [kindOk] at hf <;> simp [parenable, accepts, E.cls, Kind.cls, top]
  refine Derives.paren s pre e hcls (h.2.2 top ?_ (fun h => by simp [top] at h))
  have := h.1
  subst hq
  simp only [top, TEST, ATOM] at *
  omega


set_option hygiene false in
local macro "inj4" : tactic =>
  `(tactic| (simp only [Option.some.injEq, Prod.mk.injEq] at h; obtain ⟨rfl, rfl, rfl, rfl⟩ := h))

theorem soundP_step {f} (hE : SoundE f) : SoundP (f + 1) := by
  intro m toks e lev bi rest hm0 h
  unfold pPre at h
  split at h
  · inj4; exact ⟨[_], rfl, good_atom_name hm0⟩
  · inj4; exact ⟨[_], rfl, good_atom_int hm0⟩
  · split at h
    · next e1 _ _ rest' heq =>
      inj4
      obtain ⟨pre, hpre, hg⟩ := hE _ _ _ _ _ _ (by lvl) heq
      subst hpre
      exact ⟨Tok.lp :: pre ++ [Tok.rp], by simp, good_paren hg rfl hm0⟩
    · cases h
  · next op rest0 =>
    split at h
    · next hop =>
      split at h
      · next hm =>
        split at h
        · next x _ _ r heq =>
          inj4
          obtain ⟨pre, rfl, hg⟩ := hE _ _ _ _ _ _ (by lvl) heq
          refine ⟨[Tok.sym op] ++ pre, by simp, ?_⟩
          refine mk_prefix (k := .un (op - 30)) hg (by simp [FACTOR, ATOM]) hm (by simp [kindOk]; omega) rfl rfl rfl ?_
          simp only [Kind.render, List.singleton_append]
          rw [show 30 + (op - 30) = op by omega]
        · cases h
      · cases h
    · split at h
      · next hop =>
        subst hop
        split at h
        · next hm =>
          split at h
          · next x _ _ r heq =>
            inj4
            obtain ⟨pre, rfl, hg⟩ := hE _ _ _ _ _ _ (by lvl) heq
            exact ⟨[Tok.sym tNot] ++ pre, by simp, mk_prefix (k := .not_) hg (by simp [NOT, ATOM]) hm rfl rfl rfl rfl rfl⟩
          · cases h
        · cases h
      · split at h
        · next hop =>
          subst hop
          split at h
          · next hm =>
            split at h
            · next x _ _ r heq =>
              inj4
              obtain ⟨pre, rfl, hg⟩ := hE _ _ _ _ _ _ (by lvl) heq
              exact ⟨[Tok.sym tAwait] ++ pre, by simp,
                mk_prefix (k := .await_) hg (Nat.le_refl _) hm rfl rfl rfl rfl rfl⟩
            · cases h
          · cases h
        · split at h
          · next hop =>
            subst hop
            split at h
            · next hm =>
              split at h
              · next c rest' =>
                split at h
                · next hc =>
                  subst hc
                  split at h
                  · next x _ _ r heq =>
                    inj4
                    obtain ⟨pre, rfl, hg⟩ := hE _ _ _ _ _ _ (by lvl) heq
                    exact ⟨[Tok.sym tLambda, Tok.sym tColon] ++ pre, by simp,
                      mk_prefix (k := .lambda) hg (by simp [TEST, ATOM]) hm rfl rfl rfl rfl rfl⟩
                  · cases h
                · cases h
              · cases h
            · cases h
          · cases h
  · cases h


theorem soundB_step {f} (hE : SoundE f) (hB : SoundB f) : SoundB (f + 1) := by
  intro tk q toks xs rest hq h
  unfold pBool at h
  split at h
  · next op rest0 =>
    split at h
    · next hop =>
      subst hop
      split at h
      · next x _ _ rest' heq =>
        split at h
        · next xs' r heq2 =>
          simp only [Option.some.injEq, Prod.mk.injEq] at h
          obtain ⟨rfl, rfl⟩ := h
          obtain ⟨pre, rfl, hg⟩ := hE _ _ _ _ _ _ (by lvl) heq
          obtain ⟨tss, rfl, hgl, _⟩ := hB _ _ _ _ _ hq heq2
          exact ⟨pre :: tss, by simp [tailR], GoodL.cons hg hq hgl, fun _ _ => by simp⟩
        · cases h
      · cases h
    · next hop =>
      simp only [Option.some.injEq, Prod.mk.injEq] at h
      obtain ⟨rfl, rfl⟩ := h
      exact ⟨[], by simp [tailR], GoodL.nil, fun r hr => by simp at hr; exact absurd hr.1 hop⟩
  · next hne =>
    simp only [Option.some.injEq, Prod.mk.injEq] at h
    obtain ⟨rfl, rfl⟩ := h
    exact ⟨[], by simp [tailR], GoodL.nil, fun r hr => absurd hr (by intro hr; exact hne _ _ hr)⟩

theorem soundC_step {f} (hE : SoundE f) (hC : SoundC f) : SoundC (f + 1) := by
  intro toks ops xs rest h
  unfold pCmp at h
  split at h
  · next op rest0 =>
    split at h
    · next hop =>
      split at h
      · next x _ _ rest' heq =>
        split at h
        · next ops' xs' r heq2 =>
          simp only [Option.some.injEq, Prod.mk.injEq] at h
          obtain ⟨rfl, rfl, rfl⟩ := h
          obtain ⟨pre, rfl, hg⟩ := hE _ _ _ _ _ _ (by lvl) heq
          obtain ⟨tss, rfl, hlen, hops, hgl, _⟩ := hC _ _ _ _ heq2
          refine ⟨pre :: tss, by simp [cmpRender], by simp [hlen], ?_, GoodL.cons hg (by simp [BOR, ATOM]) hgl,
            fun _ _ _ _ => by simp⟩
          intro o ho
          rcases List.mem_cons.1 ho with rfl | ho
          · exact hop
          · exact hops o ho
        · cases h
      · cases h
    · next hop =>
      simp only [Option.some.injEq, Prod.mk.injEq] at h
      obtain ⟨rfl, rfl, rfl⟩ := h
      exact ⟨[], by simp [cmpRender], rfl, by simp, GoodL.nil, fun o r hr ho => by
        simp at hr; exact absurd (hr.1 ▸ ho) hop⟩
  · next hne =>
    simp only [Option.some.injEq, Prod.mk.injEq] at h
    obtain ⟨rfl, rfl, rfl⟩ := h
    exact ⟨[], by simp [cmpRender], rfl, by simp, GoodL.nil, fun o r hr _ => absurd hr (by intro hr; exact hne _ _ hr)⟩



set_option hygiene false in
local macro "stopL" : tactic =>
  `(tactic| (inj4; exact ⟨[], by simp, by simpa using hg⟩))

theorem soundL_step {f} (hE : SoundE f) (hL : SoundL f) (hC : SoundC f) (hB : SoundB f) : SoundL (f + 1) := by
  intro m l ll bi toks e lev bi' rest pre0 hm0 hg h
  unfold pLoop at h
  split at h
  · next op rest0 =>
    split at h
    · next hop =>
      -- left-associative binary operator
      split at h
      · next hc =>
        split at h
        · next r _ _ rest' heq =>
          have hr := binLevel_range op hop
          obtain ⟨pre, rfl, hgr⟩ := hE _ _ _ _ _ _ (by lvl) heq
          have hn : ¬ op ≥ 12 := by omega
          have hg1 : Good m (pre0 ++ Tok.sym op :: pre) (.node (.bin op) [l, r]) (binLevel op) false :=
            mk_binary (k := .bin op) (a := binLevel op) (q := binLevel op + 1) hg hc.2 hgr (by simp only [ATOM]; omega)
              hc.1 (by simp [kindOk]; omega) rfl rfl (by simp [Kind.slot, hn]) (by simp [Kind.slot, hn])
              (by simp [Kind.render, hn])
          obtain ⟨pre2, rfl, hg2⟩ := hL _ _ _ _ _ _ _ _ _ _ hm0 hg1 h
          exact ⟨Tok.sym op :: pre ++ pre2, by simp, by simpa using hg2⟩
        · cases h
      · stopL
    · split at h
      · next hop =>
        -- power
        subst hop
        split at h
        · next hc =>
          split at h
          · next r _ _ rest' heq =>
            obtain ⟨pre, rfl, hgr⟩ := hE _ _ _ _ _ _ (by lvl) heq
            have hg1 : Good m (pre0 ++ Tok.sym tPow :: pre) (.node (.bin 12) [l, r]) POWER false :=
              mk_binary (k := .bin 12) (a := AWAIT) (q := FACTOR) hg hc.2 hgr (by simp [FACTOR, ATOM])
                hc.1 rfl rfl rfl rfl rfl (by simp [Kind.render])
            obtain ⟨pre2, rfl, hg2⟩ := hL _ _ _ _ _ _ _ _ _ _ hm0 hg1 h
            exact ⟨Tok.sym tPow :: pre ++ pre2, by simp, by simpa using hg2⟩
          · cases h
        · stopL
      · split at h
        · next hopc =>
          -- comparison chain
          split at h
          · next hc =>
            split at h
            · next ops xs rest' heq =>
              obtain ⟨tss, htoks, hlen, hops, hgl, hne⟩ := hC _ _ _ _ heq
              have hops' : ops ≠ [] := hne op rest0 rfl hopc
              have hg1 : Good m (pre0 ++ cmpRender ops tss) (.node (.cmp ops) (l :: xs)) CMP false :=
                mk_nary (k := .cmp ops) (q := BOR) hg hc.2 hgl hc.1
                  (by simp only [kindOk, List.all_eq_true, decide_eq_true_eq]; exact hops)
                  (by
                    have : 1 ≤ ops.length := by
                      cases ops with
                      | nil => exact absurd rfl hops'
                      | cons _ _ => simp
                    simp [Kind.arityOk, ← hgl.2.1, ← hlen, this])
                  rfl (fun j => by simp [Kind.slot]) (by simp [Kind.render])
              obtain ⟨pre2, rfl, hg2⟩ := hL _ _ _ _ _ _ _ _ _ _ hm0 hg1 h
              exact ⟨cmpRender ops tss ++ pre2, by rw [htoks]; simp, by simpa using hg2⟩
            · cases h
          · stopL
        · split at h
          · next hop =>
            -- or
            subst hop
            split at h
            · next hc =>
              split at h
              · next xs rest' heq =>
                obtain ⟨tss, htoks, hgl, hne⟩ := hB _ _ _ _ _ (by simp [AND, ATOM]) heq
                have hxs : xs ≠ [] := hne rest0 rfl
                have hg1 : Good m (pre0 ++ tailR (Tok.sym 70) tss) (.node (.boolop true) (l :: xs)) OR false :=
                  mk_nary (k := .boolop true) (q := AND) hg hc.2 hgl hc.1 rfl
                    (by
                      have : 1 ≤ xs.length := by
                        cases xs with
                        | nil => exact absurd rfl hxs
                        | cons _ _ => simp
                      simp only [Kind.arityOk, decide_eq_true_eq]; omega)
                    rfl (fun j => by simp [Kind.slot]) (by simp only [Kind.render]; exact sepBy_cons _ _ _)
                obtain ⟨pre2, rfl, hg2⟩ := hL _ _ _ _ _ _ _ _ _ _ hm0 hg1 h
                exact ⟨tailR (Tok.sym 70) tss ++ pre2, by rw [htoks]; simp, by simpa using hg2⟩
              · cases h
            · stopL
          · split at h
            · next hop =>
              -- and
              subst hop
              split at h
              · next hc =>
                split at h
                · next xs rest' heq =>
                  obtain ⟨tss, htoks, hgl, hne⟩ := hB _ _ _ _ _ (by simp [NOT, ATOM]) heq
                  have hxs : xs ≠ [] := hne rest0 rfl
                  have hg1 : Good m (pre0 ++ tailR (Tok.sym 71) tss) (.node (.boolop false) (l :: xs)) AND false :=
                    mk_nary (k := .boolop false) (q := NOT) hg hc.2 hgl hc.1 rfl
                      (by
                        have : 1 ≤ xs.length := by
                          cases xs with
                          | nil => exact absurd rfl hxs
                          | cons _ _ => simp
                        simp only [Kind.arityOk, decide_eq_true_eq]; omega)
                      rfl (fun j => by simp [Kind.slot]) (by simp only [Kind.render]; exact sepBy_cons _ _ _)
                  obtain ⟨pre2, rfl, hg2⟩ := hL _ _ _ _ _ _ _ _ _ _ hm0 hg1 h
                  exact ⟨tailR (Tok.sym 71) tss ++ pre2, by rw [htoks]; simp, by simpa using hg2⟩
                · cases h
              · stopL
            · split at h
              · next hop =>
                -- conditional expression
                subst hop
                split at h
                · next hc =>
                  split at h
                  · next t _ _ c rest' heq =>
                    split at h
                    · next hce =>
                      subst hce
                      split at h
                      · next o _ _ rest'' heq2 =>
                        obtain ⟨pt, rfl, hgt⟩ := hE _ _ _ _ _ _ (by lvl) heq
                        obtain ⟨po, rfl, hgo⟩ := hE _ _ _ _ _ _ (by lvl) heq2
                        have hg1 := mk_if hg hc.2 hgt hgo hc.1
                        obtain ⟨pre2, rfl, hg2⟩ := hL _ _ _ _ _ _ _ _ _ _ hm0 hg1 h
                        exact ⟨Tok.sym tIf :: (pt ++ Tok.sym tElse :: po) ++ pre2, by simp, by simpa using hg2⟩
                      · cases h
                    · cases h
                  · cases h
                · stopL
              · split at h
                · next hop =>
                  -- attribute
                  subst hop
                  split at h
                  · next hc =>
                    obtain ⟨hc1, hc2, rfl⟩ := hc
                    split at h
                    · next n rest' =>
                      have hg1 := mk_attr (n := n) hg hc2 hc1
                      obtain ⟨pre2, rfl, hg2⟩ := hL _ _ _ _ _ _ _ _ _ _ hm0 hg1 h
                      exact ⟨Tok.sym tDot :: Tok.name n :: pre2, by simp, by simpa using hg2⟩
                    · cases h
                  · stopL
                · split at h
                  · next hop =>
                    -- subscript
                    subst hop
                    split at h
                    · next hc =>
                      split at h
                      · next x _ _ c rest' heq =>
                        split at h
                        · next hcb =>
                          subst hcb
                          obtain ⟨px, rfl, hgx⟩ := hE _ _ _ _ _ _ (by lvl) heq
                          have hg1 := mk_subscr hg hc.2 hgx hc.1
                          obtain ⟨pre2, rfl, hg2⟩ := hL _ _ _ _ _ _ _ _ _ _ hm0 hg1 h
                          exact ⟨Tok.sym tLb :: (px ++ [Tok.sym tRb]) ++ pre2, by simp, by simpa using hg2⟩
                        · cases h
                      · cases h
                    · stopL
                  · stopL
  · next rest0 =>
    -- call
    split at h
    · next hc =>
      split at h
      · next rest' =>
        have hg1 := mk_call hg hc.2 (GoodL.nil (q := TEST)) hc.1
        obtain ⟨pre2, rfl, hg2⟩ := hL _ _ _ _ _ _ _ _ _ _ hm0 hg1 h
        exact ⟨Tok.lp :: Tok.rp :: pre2, by simp, by simpa [sepBy] using hg2⟩
      · split at h
        · next x _ _ rest1 heq =>
          split at h
          · next xs rest2 heq2 =>
            obtain ⟨px, rfl, hgx⟩ := hE _ _ _ _ _ _ (by lvl) heq
            obtain ⟨tss, htoks, hgl, _⟩ := hB _ _ _ _ _ (by lvl) heq2
            have hg1 := mk_call hg hc.2 (GoodL.cons hgx (by lvl) hgl) hc.1
            obtain ⟨pre2, rfl, hg2⟩ := hL _ _ _ _ _ _ _ _ _ _ hm0 hg1 h
            refine ⟨Tok.lp :: (px ++ tailR (Tok.sym tComma) tss ++ [Tok.rp]) ++ pre2, by rw [htoks]; simp, ?_⟩
            rw [sepBy_cons] at hg2
            simpa using hg2
          · cases h
        · cases h
    · stopL
  · stopL


theorem sound_all (f : Nat) : SoundE f ∧ SoundP f ∧ SoundL f ∧ SoundC f ∧ SoundB f := by
  induction f with
  | zero =>
    refine ⟨?_, ?_, ?_, ?_, ?_⟩
    · intro m toks e lev bi rest _ h; simp [pE] at h
    · intro m toks e lev bi rest _ h; simp [pPre] at h
    · intro m l ll bi toks e lev bi' rest pre0 _ _ h; simp [pLoop] at h
    · intro toks ops xs rest h; simp [pCmp] at h
    · intro tk q toks xs rest _ h; simp [pBool] at h
  | succ f ih =>
    obtain ⟨hE, hP, hL, hC, hB⟩ := ih
    exact ⟨soundE_step hP hL, soundP_step hE, soundL_step hE hL hC hB, soundC_step hE hC, soundB_step hE hB⟩

/-- **Soundness of the parser for the grammar**: whatever `parseE` returns is a derivation of the grammar, of a tree of
the fragment, for exactly the consumed tokens. -/
theorem parse_sound {s : Slot} {toks : List Tok} {e : E} {rest : List Tok} (hs : s.minLad ≤ ATOM)
    (h : parseE s toks = some (e, rest)) : ∃ pre, toks = pre ++ rest ∧ Derives s pre e ∧ inFrag e = true := by
  unfold parseE at h
  split at h
  · next e1 lev bi rest1 heq =>
    split at h
    · cases h
    · next hni =>
      simp only [Option.some.injEq, Prod.mk.injEq] at h
      obtain ⟨rfl, rfl⟩ := h
      obtain ⟨pre, hpre, hg⟩ := (sound_all _).1 _ _ _ _ _ _ hs heq
      refine ⟨pre, hpre, hg.2.2 s ?_ ?_, hg.2.1⟩
      · exact hg.1
      · intro hn; simpa [hn] using hni
  · cases h

end Pfst.Parse
