import Pfst.Gen.Options
/-
Model of the option store of pfst (`src/fst/fst_options.py`).

* Option names and probe values are small codes (`Nat`): index in the Python-side lists `NAMES` / `VALUES`
  (`harness/c20_domain.py`); the acceptance tables in `Pfst/Gen/Options.lean` are regenerated from the imported module
  on every run.  The model is parametric in the tables (`Cfg`); `realCfg` is the extracted instance.
* A Python `dict` is an association list in insertion order (`OptMap`); `aput` is item assignment (`d[k] = v`: in
  place when present, appended otherwise), `update` is `dict.update`.
* `_OPTIONS = _ThreadOptions()` (a `threading.local` whose `__init__` copies `_GLOBAL_OPTIONS_W_DEFAULTS`) is a
  `Store := Thread → OptMap` as an association list with lazily created entries: a thread that has no entry yet
  reads the defaults (`getT`).  Every access of the code goes through `_OPTIONS.__dict__` of the *running* thread:
  in the model every access is `getT c t` / `putT t` with `t` the running thread.
* The atomic step is one API call (`get_option`, an edit call with per-call options, `set_options`, entering or
  leaving `with FST.options(...)`).  Preemption inside one call is not modelled.

No imports except the generated table: this file is linked into the native driver.
-/
namespace Pfst.Options

abbrev Name := Nat
abbrev Val := Nat
abbrev Thread := Nat
/-- a Python dict `{option: value}` in insertion order -/
abbrev OptMap := List (Name × Val)
/-- keyword arguments `**options` -/
abbrev Kvs := List (Name × Val)

/-- The extracted tables (see `Pfst/Gen/Options.lean`). -/
structure Cfg where
  defaults     : OptMap                              -- `_GLOBAL_OPTIONS_W_DEFAULTS`
  acceptGlobal : List (Name × List Val × List Val)   -- `check_options(.., all=False)`: name ↦ (accepted, crashing)
  acceptAll    : List (Name × List Val × List Val)   -- `check_options(.., all=True)`
  marker       : Option Name                         -- `'__options_checked'`
  noneVal      : Val
  trueVal      : Val
  nPars : Name
  nParsArglike : Name
  nNorm : Name
  nNormSelf : Name
  nNormGet : Name
  nSetNorm : Name

/-! ### dicts -/

/-- `d.get(k)` -/
def alook {β : Type} (k : Nat) : List (Nat × β) → Option β
  | [] => none
  | (k', b) :: r => if k' = k then some b else alook k r

/-- `d[k] = b` -/
def aput {β : Type} (k : Nat) (b : β) : List (Nat × β) → List (Nat × β)
  | [] => [(k, b)]
  | (k', b') :: r => if k' = k then (k', b) :: r else (k', b') :: aput k b r

def aget {β : Type} (d : β) (k : Nat) (l : List (Nat × β)) : β := (alook k l).getD d

def keys {β : Type} (m : List (Nat × β)) : List Nat := m.map Prod.fst

/-- `d.update(kvs)` -/
def update (m : OptMap) : Kvs → OptMap
  | [] => m
  | (k, v) :: r => update (aput k v m) r

/-- `{o: _options[o] for o in options}` of `set_options`; `.error bad` is the `KeyError` branch (first missing key) -/
def snapshot (m : OptMap) : Kvs → Except Name OptMap
  | [] => .ok []
  | (k, _) :: r =>
    match alook k m with
    | none => .error k
    | some v =>
      match snapshot m r with
      | .error b => .error b
      | .ok o => .ok ((k, v) :: o)

/-! ### validation: `check_options` (fst_options.py:177) -/

inductive Err where
  | badName (n : Name)                 -- ValueError "invalid option 'n'"
  | badValue (n : Name) (v : Val)      -- ValueError "invalid 'n' option value ..."
  | crash (n : Name) (v : Val)         -- the `_check_opt_*` function itself raises (e.g. TypeError: unhashable)
deriving DecidableEq, Repr

/-- the `for option, value in options.items()` loop: first offending item wins -/
def checkLoop (tbl : List (Name × List Val × List Val)) : Kvs → Option Err
  | [] => none
  | (n, v) :: r =>
    match alook n tbl with
    | none => some (.badName n)
    | some (acc, cr) =>
      if cr.contains v then some (.crash n v)
      else if acc.contains v then checkLoop tbl r
      else some (.badValue n v)

def hasMarker (c : Cfg) (kvs : Kvs) : Bool :=
  match c.marker with
  | none => false
  | some mk => (alook mk kvs).isSome

/-- `check_options(options, all)`: `none` = returns normally.
    `if not options or '__options_checked' in options: return options` comes first. -/
def checkOptions (c : Cfg) (all : Bool) (kvs : Kvs) : Option Err :=
  if kvs.isEmpty || hasMarker c kvs then none
  else checkLoop (if all then c.acceptAll else c.acceptGlobal) kvs

/-! ### `set_options` (fst_options.py:404) on the dict of the running thread -/

/-- validate ALL → snapshot the old values (KeyError ⇒ ValueError) → update.  Result: (new dict, old_options). -/
def setOptionsD (c : Cfg) (m : OptMap) (kvs : Kvs) : Except Err (OptMap × OptMap) :=
  match checkOptions c false kvs with
  | some e => .error e
  | none =>
    match snapshot m kvs with
    | .error bad => .error (.badName bad)
    | .ok old => .ok (update m kvs, old)

/-! ### lookups: `get_option` (fst_options.py:379) and the `_get_opt_eff_*` resolvers (fst_options.py:220-337) -/

/-- `_OPTIONS.__dict__.get(option) if (o := options.get(option, _SENTINEL)) is _SENTINEL else o`
    (a per-call `None` IS returned: the code does not fall back on `None`; an unknown name gives `None`) -/
def getOption (c : Cfg) (m : OptMap) (n : Name) (opts : Kvs) : Val :=
  match alook n opts with
  | none => (alook n m).getD c.noneVal
  | some o => o

/-- common shape of `_get_opt_eff_pars_arglike / _norm_self / _norm_get`: the specific option if it is not `None`
    (per-call first, thread default only when not passed per call), else the general one (per-call, else default) -/
def effSpecific (c : Cfg) (m : OptMap) (spec gen : Name) (opts : Kvs) : Option Val :=
  let fall := match alook gen opts with
    | some o => some o
    | none => alook gen m
  match alook spec opts with
  | some o => if o ≠ c.noneVal then some o else fall
  | none =>
    match alook spec m with
    | some o => if o ≠ c.noneVal then some o else fall
    | none => none       -- AttributeError; unreachable while the dict has all global keys

/-- `_get_opt_eff_set_norm_self / _get`: `set_norm` (per-call, else default) when the effective norm `is True` -/
def effSetNorm (c : Cfg) (m : OptMap) (spec : Name) (opts : Kvs) : Option Val :=
  let o := effSpecific c m spec c.nNorm opts
  if o ≠ some c.trueVal then o
  else match alook c.nSetNorm opts with
    | some s => some s
    | none => alook c.nSetNorm m

def effsOf (c : Cfg) (m : OptMap) (opts : Kvs) : List (Option Val) :=
  [effSpecific c m c.nParsArglike c.nPars opts, effSpecific c m c.nNormSelf c.nNorm opts,
   effSpecific c m c.nNormGet c.nNorm opts, effSetNorm c m c.nNormSelf opts, effSetNorm c m c.nNormGet opts]

/-- what one call sees: `get_option(n, opts)` for every global option `n` (dict order) -/
def viewOf (c : Cfg) (m : OptMap) (opts : Kvs) : List Val := (keys m).map (fun n => getOption c m n opts)

/-! ### observations and programs -/

/-- What the harness records at a step; every observation ends with `get_options()` taken right after the step. -/
inductive Obs where
  | val (r : Val) (after : OptMap)                                          -- get_option(n, opts)
  | view (vals : List Val) (effs : List (Option Val)) (after : OptMap)   -- an edit call with options
  | err (e : Err) (after : OptMap)                                          -- a validation error was raised
  | setOk (old : OptMap) (after : OptMap)                                   -- set_options returned old_options
  | enter (old : OptMap) (after : OptMap)                                   -- `with options(..) as old`
  | exit (after : OptMap)                                                   -- the `finally` of `options()`
  | raised (after : OptMap)                                                 -- `raise` in the user's program
deriving DecidableEq, Repr

/-- User programs over the options API. -/
inductive Prog where
  | skip
  | seq (p q : Prog)
  | get (n : Name) (opts : Kvs)          -- `FST.get_option(n, opts)`
  | call (opts : Kvs)                    -- an edit call `node.op(..., **opts)`: validates with all=True, reads options
  | set (kvs : Kvs)                      -- `FST.set_options(**kvs)`
  | block (kvs : Kvs) (body : Prog)      -- `with FST.options(**kvs): body`
  | raise                                -- `raise SomeError`
  | catch (body : Prog)                  -- `try: body` / `except Exception: pass`
deriving Repr

structure Res where
  m   : OptMap        -- dict of the running thread afterwards
  tr  : List Obs
  exc : Bool          -- an exception is propagating
deriving Repr

def callObs (c : Cfg) (m : OptMap) (opts : Kvs) : Obs × Bool :=
  match checkOptions c true opts with
  | some e => (.err e m, true)
  | none => (.view (viewOf c m opts) (effsOf c m opts) m, false)

/-- the statement `FST.set_options(**kvs)` -/
def doSet (c : Cfg) (m : OptMap) (kvs : Kvs) : Res :=
  match setOptionsD c m kvs with
  | .error e => ⟨m, [.err e m], true⟩
  | .ok (m', old) => ⟨m', [.setOk old m'], false⟩

/-- Big-step interpreter on the dict of the running thread.
    `block` mirrors `options()` (fst_options.py:451): `old = set_options(**kvs)` (an error propagates, the body does
    not run) ; `try: yield` ; `finally: _OPTIONS.__dict__.update(old)`. -/
def execL (c : Cfg) : Prog → OptMap → Res
  | .skip, m => ⟨m, [], false⟩
  | .seq p q, m =>
    let r := execL c p m
    if r.exc then r else
    let s := execL c q r.m
    ⟨s.m, r.tr ++ s.tr, s.exc⟩
  | .get n opts, m => ⟨m, [.val (getOption c m n opts) m], false⟩
  | .call opts, m => ⟨m, [(callObs c m opts).1], (callObs c m opts).2⟩
  | .set kvs, m => doSet c m kvs
  | .block kvs body, m =>
    match setOptionsD c m kvs with
    | .error e => ⟨m, [.err e m], true⟩
    | .ok (m1, old) =>
      let r := execL c body m1
      ⟨update r.m old, .enter old m1 :: r.tr ++ [.exit (update r.m old)], r.exc⟩
  | .raise, m => ⟨m, [.raised m], true⟩
  | .catch body, m =>
    let r := execL c body m
    ⟨r.m, r.tr, false⟩

/-! ### the thread-local store -/

abbrev Store := List (Thread × OptMap)

/-- `_OPTIONS.__dict__` in thread `t` (first access in a thread runs `_ThreadOptions.__init__`: the defaults) -/
def getT (c : Cfg) (t : Thread) (σ : Store) : OptMap := aget c.defaults t σ

def putT (t : Thread) (m : OptMap) (σ : Store) : Store := aput t m σ

/-- `FST.set_options(**kvs)` called in thread `t`: on any error the store is returned untouched. -/
def setOptions (c : Cfg) (σ : Store) (t : Thread) (kvs : Kvs) : Store × Except Err OptMap :=
  match setOptionsD c (getT c t σ) kvs with
  | .error e => (σ, .error e)
  | .ok (m', old) => (putT t m' σ, .ok old)

/-- a whole program run by thread `t` -/
def exec (c : Cfg) (t : Thread) (p : Prog) (σ : Store) : Store × List Obs × Bool :=
  let r := execL c p (getT c t σ)
  (putT t r.m σ, r.tr, r.exc)

/-! ### small-step machine (for interleavings): one thread = control + continuation stack + trace so far -/

inductive Ctl where
  | run (p : Prog)
  | ret
  | exc
deriving Repr

inductive Frame where
  | seqK (q : Prog)
  | blockK (old : OptMap)      -- inside `with options(..)`: `old_options` held by the generator frame
  | catchK
deriving Repr

structure TS where
  ctl   : Ctl
  stack : List Frame
  tr    : List Obs
deriving Repr

def TS.halted (s : TS) : Bool :=
  match s.ctl, s.stack with
  | .ret, [] => true
  | .exc, [] => true
  | _, _ => false

/-- one machine step of a thread whose dict is `m` -/
def stepL (c : Cfg) (m : OptMap) (s : TS) : OptMap × TS :=
  match s.ctl with
  | .run p =>
    match p with
    | .skip => (m, ⟨.ret, s.stack, s.tr⟩)
    | .seq p q => (m, ⟨.run p, .seqK q :: s.stack, s.tr⟩)
    | .get n opts => (m, ⟨.ret, s.stack, s.tr ++ [.val (getOption c m n opts) m]⟩)
    | .call opts => (m, ⟨if (callObs c m opts).2 then .exc else .ret, s.stack, s.tr ++ [(callObs c m opts).1]⟩)
    | .set kvs => ((doSet c m kvs).m, ⟨if (doSet c m kvs).exc then .exc else .ret, s.stack, s.tr ++ (doSet c m kvs).tr⟩)
    | .block kvs body =>
      match setOptionsD c m kvs with
      | .error e => (m, ⟨.exc, s.stack, s.tr ++ [.err e m]⟩)
      | .ok (m1, old) => (m1, ⟨.run body, .blockK old :: s.stack, s.tr ++ [.enter old m1]⟩)
    | .raise => (m, ⟨.exc, s.stack, s.tr ++ [.raised m]⟩)
    | .catch body => (m, ⟨.run body, .catchK :: s.stack, s.tr⟩)
  | .ret =>
    match s.stack with
    | [] => (m, s)
    | .seqK q :: K => (m, ⟨.run q, K, s.tr⟩)
    | .blockK old :: K => (update m old, ⟨.ret, K, s.tr ++ [.exit (update m old)]⟩)
    | .catchK :: K => (m, ⟨.ret, K, s.tr⟩)
  | .exc =>
    match s.stack with
    | [] => (m, s)
    | .seqK _ :: K => (m, ⟨.exc, K, s.tr⟩)
    | .blockK old :: K => (update m old, ⟨.exc, K, s.tr ++ [.exit (update m old)]⟩)
    | .catchK :: K => (m, ⟨.ret, K, s.tr⟩)

def iterL (c : Cfg) : Nat → OptMap × TS → OptMap × TS
  | 0, x => x
  | n + 1, x => iterL c n (stepL c x.1 x.2)

/-- all threads: the store and one machine state per thread -/
structure World where
  σ  : Store
  ts : List (Thread × TS)
deriving Repr

def idle : TS := ⟨.ret, [], []⟩

/-- thread `t` is scheduled for one machine step -/
def stepW (c : Cfg) (w : World) (t : Thread) : World :=
  let r := stepL c (getT c t w.σ) (aget idle t w.ts)
  ⟨putT t r.1 w.σ, aput t r.2 w.ts⟩

def runSched (c : Cfg) (w : World) (sched : List Thread) : World := sched.foldl (stepW c) w

/-- thread `t` is scheduled until it has made one more observation (or has halted): one lock-step turn of the harness -/
def stepVis (c : Cfg) : Nat → World → Thread → World
  | 0, w, _ => w
  | fuel + 1, w, t =>
    let s := aget idle t w.ts
    if s.halted then w else
    let w' := stepW c w t
    if (aget idle t w'.ts).tr.length > s.tr.length then w' else stepVis c fuel w' t

def runVis (c : Cfg) (fuel : Nat) (w : World) (sched : List Thread) : World := sched.foldl (stepVis c fuel) w

/-- number of machine steps that certainly suffices for a program (used as fuel by the driver) -/
def Prog.size : Prog → Nat
  | .seq p q => p.size + q.size + 2
  | .block _ b => b.size + 2
  | .catch b => b.size + 2
  | _ => 1

/-! ### `_check_opt_trivia` (fst_options.py:87): per-position grammar -/

/-- how the check function sees one token (extracted: `Pfst.Gen.Options.trivTokens`) -/
structure TrivTok where
  isInt : Bool
  isStr : Bool
  lead  : Bool      -- `_re_trivia_leading.match`
  trail : Bool      -- `_re_trivia_trailing.match` (additionally allows 'line…')
deriving DecidableEq, Repr

inductive TrivVal where
  | one (t : TrivTok)            -- a value that is not a tuple
  | tup (ts : List TrivTok)      -- a tuple
deriving Repr

def leadOk (t : TrivTok) : Bool := t.isInt || (t.isStr && t.lead)
def trailOk (t : TrivTok) : Bool := t.isInt || (t.isStr && t.trail)

/-- `_check_opt_trivia(...) is None` -/
def checkTrivia : TrivVal → Bool
  | .one t => leadOk t
  | .tup [] => true
  | .tup [t0] => trailOk t0
  | .tup [t0, t1] => leadOk t0 && trailOk t1
  | .tup _ => false

def realTrivTok (i : Nat) : TrivTok :=
  match Pfst.Gen.Options.trivTokens.getD i (false, false, false, false) with
  | (a, b, c, d) => ⟨a, b, c, d⟩

/-! ### nested option dicts (`sub()/subn()`: `copy_options`, `repl_options`; match.py `subn`) -/

/-- `x_options = options if x_options is None else check_options(x_options)`: `None` inherits the call's top-level
    options, a dict that was passed - the EMPTY one included - is used as it is -/
def phaseOptions (top : Kvs) (given : Option Kvs) : Kvs :=
  match given with
  | none => top
  | some d => d

/-- what a phase of the call sees for option `n` in a thread whose dict is `m` -/
def phaseView (c : Cfg) (m : OptMap) (top : Kvs) (given : Option Kvs) (n : Name) : Val :=
  getOption c m n (phaseOptions top given)

/-! ### memoised option-dependent reads (`FST.own_lines()`: per-node cache of the dedent parameters, fst.py) -/

/-- one read: the raw argument (`none` = "use the thread default") and the thread default at the time of the call -/
structure Req where
  arg  : Option Val
  dflt : Val
deriving DecidableEq, Repr

/-- the effective option value of a read -/
def Req.eff (r : Req) : Val := r.arg.getD r.dflt

/-- cache key = effective value (what `own_lines` does: resolve the default FIRST, then 'ownlS' / 'ownlT' / 'ownlF') -/
def keyEff (r : Req) : Nat := r.eff
/-- cache key = raw argument (an extra key for "argument not given") -/
def keyRaw (r : Req) : Nat := match r.arg with | none => 0 | some v => v + 1

/-- one memoised read of an unmodified node: hit = cached answer, miss = compute from the effective value and store -/
def memoStep {α : Type} (key : Req → Nat) (f : Val → α) (cache : List (Nat × α)) (r : Req) : List (Nat × α) × α :=
  match alook (key r) cache with
  | some a => (cache, a)
  | none => (aput (key r) (f r.eff) cache, f r.eff)

def memoRun {α : Type} (key : Req → Nat) (f : Val → α) : List Req → List (Nat × α) → List α
  | [], _ => []
  | r :: rs, cache => (memoStep key f cache r).2 :: memoRun key f rs (memoStep key f cache r).1

/-! ### the extracted instance -/

def realCfg : Cfg :=
  { defaults := Pfst.Gen.Options.defaults
    acceptGlobal := Pfst.Gen.Options.acceptGlobal
    acceptAll := Pfst.Gen.Options.acceptAll
    marker := Pfst.Gen.Options.marker
    noneVal := Pfst.Gen.Options.noneVal
    trueVal := Pfst.Gen.Options.trueVal
    nPars := Pfst.Gen.Options.effNames.getD 0 0
    nParsArglike := Pfst.Gen.Options.effNames.getD 1 0
    nNorm := Pfst.Gen.Options.effNames.getD 2 0
    nNormSelf := Pfst.Gen.Options.effNames.getD 3 0
    nNormGet := Pfst.Gen.Options.effNames.getD 4 0
    nSetNorm := Pfst.Gen.Options.effNames.getD 5 0 }

end Pfst.Options
