import Pfst.Index
import Pfst.View
import Pfst.Virt
/-! Helper lemmas for C03: clipping arithmetic, `putSlice` on lists, insertion sort. -/
namespace Pfst.Index

theorem clipStart_eq_clipStop (n : Nat) (a : Idx) (k : Nat) : clipStart n a k = clipStop n a k := by
  cases a <;> rfl

theorem clipStop_spec (n : Nat) (a : Idx) :
    clipStop n a 0 = (match a.pyStop with | none => (n : Int) | some i => pyClamp n i) := by
  cases a with
  | «end» => rfl
  | i k => simp only [clipStop, Idx.pyStop, pyClamp]; grind

theorem clipStart_spec (n : Nat) (a : Idx) :
    clipStart n a 0 = (match a.pyStart n with | none => (0 : Int) | some i => pyClamp n i) := by
  cases a with
  | «end» => simp [clipStart, Idx.pyStart, pyClamp]; omega
  | i k => simp only [clipStart, Idx.pyStart, pyClamp]; grind

theorem clipStop_range (n : Nat) (a : Idx) (k : Nat) (hk : k ≤ n) :
    (k : Int) ≤ clipStop n a k ∧ clipStop n a k ≤ n := by
  cases a with
  | «end» => simp [clipStop]; omega
  | i j => simp only [clipStop]; grind

/-- shift by a docstring: clipping in the real body with `start_at = 1` is clipping in the docstring-less list, plus one -/
theorem clipStop_shift (n : Nat) (a : Idx) : clipStop (n + 1) a 1 = clipStop n a 0 + 1 := by
  cases a with
  | «end» => simp [clipStop]
  | i j => simp only [clipStop]; grind

/-! ### putSlice -/

theorem putSlice_eq {α} (xs : List α) (s e : Nat) (new : List α) (h : s ≤ e) :
    putSlice xs s e new = xs.take s ++ new ++ xs.drop e := by
  induction xs generalizing s e with
  | nil => cases s <;> simp [putSlice]
  | cons x xs ih =>
    cases s with
    | zero => simp [putSlice]
    | succ s =>
      cases e with
      | zero => omega
      | succ e =>
        simp only [putSlice, Nat.add_sub_cancel, List.take_succ_cons, List.drop_succ_cons, List.cons_append]
        rw [ih s e (by omega)]

end Pfst.Index

namespace Pfst.View
open Pfst.Index

theorem window_put_aux {α} (P W S new : List α) (a b : Nat) (hab : a ≤ b) (hb : b ≤ W.length) :
    getSlice (putSlice (P ++ W ++ S) (P.length + a) (P.length + b) new) P.length
        (P.length + W.length + new.length - (b - a))
      = putSlice W a b new ∧
    (putSlice (P ++ W ++ S) (P.length + a) (P.length + b) new).take P.length = P ∧
    (putSlice (P ++ W ++ S) (P.length + a) (P.length + b) new).drop (P.length + W.length + new.length - (b - a)) = S := by
  rw [putSlice_eq _ _ _ _ (by omega), putSlice_eq _ _ _ _ hab]
  have h1 : (P ++ W ++ S).take (P.length + a) = P ++ W.take a := by
    rw [List.append_assoc, List.take_append]
    simp [List.take_of_length_le, List.take_append]
    left; omega
  have h2 : (P ++ W ++ S).drop (P.length + b) = W.drop b ++ S := by
    rw [List.append_assoc, List.drop_append]
    simp [List.drop_of_length_le, List.drop_append]
    rw [Nat.sub_eq_zero_of_le hb, List.drop_zero]
  rw [h1, h2]
  have hl : (P ++ W.take a ++ new ++ W.drop b).length = P.length + W.length + new.length - (b - a) := by
    simp only [List.length_append, List.length_take, List.length_drop]; omega
  have hmid : (W.take a ++ new ++ W.drop b).length = W.length + new.length - (b - a) := by
    simp only [List.length_append, List.length_take, List.length_drop]; omega
  have e1 : P ++ W.take a ++ new ++ (W.drop b ++ S) = P ++ ((W.take a ++ new ++ W.drop b) ++ S) := by
    simp [List.append_assoc]
  refine ⟨?_, ?_, ?_⟩
  · simp only [getSlice, e1]
    rw [List.take_append, List.take_of_length_le (by omega), List.drop_append, List.drop_of_length_le (Nat.le_refl _)]
    simp only [Nat.sub_self, List.drop_zero, List.nil_append]
    rw [List.take_append, hmid]
    have : P.length + W.length + new.length - (b - a) - P.length = W.length + new.length - (b - a) := by omega
    rw [this, List.take_of_length_le (by omega)]
    simp
  · rw [e1, List.take_append]; simp
  · rw [e1, ← List.append_assoc, List.drop_append]
    have : (P ++ (W.take a ++ new ++ W.drop b)).length = P.length + W.length + new.length - (b - a) := by
      simp only [List.length_append, List.length_take, List.length_drop]; omega
    rw [this, List.drop_of_length_le (by omega)]
    simp

theorem fixupSlice_range (n : Nat) (a b : Idx) (s e : Int) (h : fixupSlice n a b 0 = some (s, e)) :
    0 ≤ s ∧ s ≤ e ∧ e ≤ n := by
  unfold fixupSlice at h
  simp only at h
  split at h
  · exact absurd h (by simp)
  · simp only [Option.some.injEq, Prod.mk.injEq] at h
    obtain ⟨rfl, rfl⟩ := h
    have r1 := clipStop_range n a 0 (Nat.zero_le _)
    have r2 := clipStop_range n b 0 (Nat.zero_le _)
    rw [← clipStart_eq_clipStop] at r1
    simp only [Int.natCast_zero] at r1 r2
    omega

theorem baseIndices_shape (v : View) (len : Nat) (s e : Nat) (v1 : View) (hb : baseIndices v len = (s, e, v1)) :
    s ≤ e ∧ e ≤ len ∧ v1.start = s ∧ ((v1.stop = none ∧ e = len) ∨ v1.stop = some e) := by
  obtain ⟨st, sp⟩ := v
  cases sp with
  | none =>
    simp only [baseIndices] at hb
    split at hb <;> simp only [Prod.mk.injEq] at hb <;> obtain ⟨rfl, rfl, rfl⟩ := hb <;> simp <;> omega
  | some q =>
    simp only [baseIndices] at hb
    by_cases h1 : q > len <;> simp only [h1, ↓reduceIte] at hb
    · by_cases h2 : st > len <;> simp only [h2, ↓reduceIte, Prod.mk.injEq] at hb <;> obtain ⟨rfl, rfl, rfl⟩ := hb <;>
        simp <;> omega
    · by_cases h2 : st > q <;> simp only [h2, ↓reduceIte, Prod.mk.injEq] at hb <;> obtain ⟨rfl, rfl, rfl⟩ := hb <;>
        simp <;> omega

theorem baseIndices_bump (v : View) (len k d : Nat) (s e : Nat) (v1 : View)
    (hb : baseIndices v len = (s, e, v1)) (hd : d ≤ e - s) :
    ∃ w, baseIndices (bump v1 len (len + k - d)) (len + k - d) = (s, e + k - d, w) := by
  obtain ⟨hse, hel, hs1, hstop⟩ := baseIndices_shape v len s e v1 hb
  obtain ⟨st1, sp1⟩ := v1
  simp only at hs1 hstop
  subst hs1
  rcases hstop with ⟨rfl, rfl⟩ | rfl
  · simp only [bump, baseIndices]
    have h2 : ¬ (st1 > e + k - d) := by omega
    simp only [h2, ↓reduceIte]
    exact ⟨_, rfl⟩
  · have hbump : ((e : Int) + (((len + k - d : Nat) : Int) - len)).toNat = e + k - d := by omega
    simp only [bump, baseIndices, hbump]
    have h1 : ¬ (e + k - d > len + k - d) := by omega
    have h2 : ¬ (st1 > e + k - d) := by omega
    simp only [h1, ↓reduceIte, h2]
    exact ⟨_, rfl⟩

end Pfst.View

namespace Pfst.Virt

variable {α : Type} (le : α → α → Bool)

theorem insertBy_perm (a : α) (l : List α) : (insertBy le a l).Perm (a :: l) := by
  induction l with
  | nil => exact List.Perm.refl _
  | cons b bs ih =>
    simp only [insertBy]
    split
    · exact List.Perm.refl _
    · exact ((List.perm_cons b).mpr ih).trans (List.Perm.swap a b bs)

theorem insSort_perm (l : List α) : (insSort le l).Perm l := by
  induction l with
  | nil => exact List.Perm.refl _
  | cons a as ih => exact (insertBy_perm le a _).trans ((List.perm_cons a).mpr ih)

theorem insertBy_sorted (htrans : ∀ a b c, le a b = true → le b c = true → le a c = true)
    (htotal : ∀ a b, le a b = true ∨ le b a = true) (a : α) (l : List α)
    (h : l.Pairwise (fun x y => le x y = true)) : (insertBy le a l).Pairwise (fun x y => le x y = true) := by
  induction l with
  | nil => simp [insertBy]
  | cons b bs ih =>
    simp only [insertBy]
    have hb := List.pairwise_cons.mp h
    split
    · next hab =>
      refine List.pairwise_cons.mpr ⟨?_, h⟩
      intro c hc
      rcases List.mem_cons.mp hc with rfl | hc
      · exact hab
      · exact htrans _ _ _ hab (hb.1 c hc)
    · next hab =>
      refine List.pairwise_cons.mpr ⟨?_, ih hb.2⟩
      intro c hc
      have hc' := (insertBy_perm le a bs).mem_iff.mp hc
      rcases List.mem_cons.mp hc' with rfl | hc'
      · rcases htotal c b with h1 | h1
        · exact absurd h1 hab
        · exact h1
      · exact hb.1 c hc'

theorem insSort_sorted (htrans : ∀ a b c, le a b = true → le b c = true → le a c = true)
    (htotal : ∀ a b, le a b = true ∨ le b a = true) (l : List α) :
    (insSort le l).Pairwise (fun x y => le x y = true) := by
  induction l with
  | nil => simp [insSort]
  | cons a as ih => exact insertBy_sorted le htrans htotal a _ ih

theorem posLe_trans (a b c : Nat × Nat) (h1 : posLe a b = true) (h2 : posLe b c = true) : posLe a c = true := by
  simp only [posLe, Bool.or_eq_true, decide_eq_true_eq, Bool.and_eq_true, beq_iff_eq] at *
  omega

theorem posLe_total (a b : Nat × Nat) : posLe a b = true ∨ posLe b a = true := by
  simp only [posLe, Bool.or_eq_true, decide_eq_true_eq, Bool.and_eq_true, beq_iff_eq]
  omega

theorem posLe_antisymm (a b : Nat × Nat) (h1 : posLe a b = true) (h2 : posLe b a = true) : a = b := by
  simp only [posLe, Bool.or_eq_true, decide_eq_true_eq, Bool.and_eq_true, beq_iff_eq] at *
  apply Prod.ext <;> omega

end Pfst.Virt
