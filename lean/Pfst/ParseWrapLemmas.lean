import Pfst.ParseWrap

/-! Helper lemmas for `Pfst/Props/C05.lean` (text, lines, bytes, trees, delimiters). -/
namespace Pfst.ParseWrap

/-! ### lines -/

theorem consHead_ne_nil (c : Char) (ls : List Line) : consHead c ls ≠ [] := by
  cases ls <;> simp [consHead]

theorem splitLines_ne_nil (s : List Char) : splitLines s ≠ [] := by
  cases s with
  | nil => simp [splitLines]
  | cons c cs =>
    simp only [splitLines]
    split
    · simp
    · exact consHead_ne_nil _ _

theorem consHead_append (c : Char) (x y : List Line) (hx : x ≠ []) : consHead c (x ++ y) = consHead c x ++ y := by
  cases x with
  | nil => exact absurd rfl hx
  | cons l ls => simp [consHead]

/-- `(a + "\n" + b).split("\n") == a.split("\n") + b.split("\n")` -/
theorem splitLines_append_nl (a b : List Char) : splitLines (a ++ '\n' :: b) = splitLines a ++ splitLines b := by
  induction a with
  | nil => simp [splitLines]
  | cons c cs ih =>
    simp only [List.cons_append, splitLines]
    split
    · simp [ih]
    · rw [ih, consHead_append _ _ _ (splitLines_ne_nil cs)]

theorem consHead_length (c : Char) (ls : List Line) (h : ls ≠ []) : (consHead c ls).length = ls.length := by
  cases ls with
  | nil => exact absurd rfl h
  | cons l ls => simp [consHead]

theorem splitLines_length (s : List Char) : (splitLines s).length = countNl s + 1 := by
  induction s with
  | nil => simp [splitLines, countNl]
  | cons c cs ih =>
    simp only [splitLines, countNl]
    split
    · simp [ih]; omega
    · rw [consHead_length _ _ (splitLines_ne_nil cs), ih]; omega

theorem splitLines_no_nl (s : List Char) (h : countNl s = 0) : splitLines s = [s] := by
  induction s with
  | nil => simp [splitLines]
  | cons c cs ih =>
    simp only [countNl] at h
    have hc : ¬ c = '\n' := by intro hc; simp [hc] at h
    have h0 : countNl cs = 0 := by
      rw [if_neg hc] at h; omega
    simp [splitLines, hc, ih h0, consHead]

theorem consHead_getLast? (c : Char) (ls : List Line) (h : 2 ≤ ls.length) : (consHead c ls).getLast? = ls.getLast? := by
  match ls, h with
  | l :: l' :: ls, _ => simp [consHead, List.getLast?_cons_cons]

theorem splitLines_getLast? (s : List Char) : (splitLines s).getLast? = some (lastLine s) := by
  induction s with
  | nil => simp [splitLines, lastLine]
  | cons c cs ih =>
    simp only [splitLines, lastLine]
    by_cases hc : c = '\n'
    · simp only [hc, true_or, if_true]
      have hne := splitLines_ne_nil cs
      cases hs : splitLines cs with
      | nil => exact absurd hs hne
      | cons l ls => rw [List.getLast?_cons_cons, ← hs, ih]
    · simp only [hc, false_or, if_false]
      by_cases h0 : countNl cs = 0
      · simp [h0, splitLines_no_nl cs h0, consHead]
      · rw [if_pos h0]
        rw [consHead_getLast? _ _ (by rw [splitLines_length]; omega), ih]

/-! ### bytes -/

theorem takeB_zero (l : Line) : takeB 0 l = [] := by
  cases l with
  | nil => rfl
  | cons c cs => simp [takeB, Nat.not_le.mpr (Char.utf8Size_pos c)]

theorem dropB_zero (l : Line) : dropB 0 l = l := by
  cases l with
  | nil => rfl
  | cons c cs => simp [dropB, Nat.not_le.mpr (Char.utf8Size_pos c)]

theorem blen_append (a b : Line) : blen (a ++ b) = blen a + blen b := by
  induction a with
  | nil => simp [blen]
  | cons c cs ih => simp [blen, ih]; omega

theorem takeB_blen (l : Line) : takeB (blen l) l = l := by
  induction l with
  | nil => rfl
  | cons c cs ih => simp [takeB, blen, ih]

theorem takeB_append_le (n : Nat) (l q : Line) (h : n ≤ blen l) : takeB n (l ++ q) = takeB n l := by
  induction l generalizing n with
  | nil =>
    simp only [blen] at h
    have : n = 0 := by omega
    subst this
    simp [takeB_zero, takeB]
  | cons c cs ih =>
    simp only [List.cons_append, takeB]
    split
    · rw [ih]; simp only [blen] at h; omega
    · rfl

theorem dropB_append_le (n : Nat) (l q : Line) (h : n ≤ blen l) : dropB n (l ++ q) = dropB n l ++ q := by
  induction l generalizing n with
  | nil =>
    simp only [blen] at h
    have : n = 0 := by omega
    subst this
    simp [dropB_zero, dropB]
  | cons c cs ih =>
    simp only [List.cons_append, dropB]
    split
    · rw [ih]; simp only [blen] at h; omega
    · rfl

theorem dropB_prefix (p r : Line) (a : Nat) : dropB (blen p + a) (p ++ r) = dropB a r := by
  induction p with
  | nil => simp [blen]
  | cons c cs ih =>
    simp only [List.cons_append, dropB, blen]
    rw [if_pos (by omega)]
    have : c.utf8Size + blen cs + a - c.utf8Size = blen cs + a := by omega
    rw [this, ih]

theorem takeB_prefix (p r : Line) (a : Nat) : takeB (blen p + a) (p ++ r) = p ++ takeB a r := by
  induction p with
  | nil => simp [blen]
  | cons c cs ih =>
    simp only [List.cons_append, takeB, blen]
    rw [if_pos (by omega)]
    have : c.utf8Size + blen cs + a - c.utf8Size = blen cs + a := by omega
    rw [this, ih]

theorem blen_dropB (n : Nat) (l : Line) : blen l ≤ n + blen (dropB n l) := by
  induction l generalizing n with
  | nil => simp [blen, dropB]
  | cons c cs ih =>
    simp only [dropB]
    split
    · have := ih (n - c.utf8Size); simp only [blen]; omega
    · simp only [blen]; omega

/-! ### lists of lines -/

theorem drop_pre {α} (pre rest : List α) (a : Nat) : (pre ++ rest).drop (pre.length + a) = rest.drop a := by
  induction pre with
  | nil => simp
  | cons x xs ih =>
    have : (x :: xs).length + a = (xs.length + a) + 1 := by simp; omega
    rw [this]; simp [ih]

theorem take_drop_append {α} (src post : List α) (a m : Nat) (h : a + m ≤ src.length) :
    ((src ++ post).drop a).take m = (src.drop a).take m := by
  rw [List.drop_append_of_le_length (by omega), List.take_append_of_le_length (by simp; omega)]

theorem mapLast_id (f : Line → Line) (ls : List Line) (h : ∀ l, ls.getLast? = some l → f l = l) : mapLast f ls = ls := by
  induction ls with
  | nil => rfl
  | cons l ls ih =>
    cases ls with
    | nil => simp [mapLast, h l (by simp)]
    | cons l' ls' =>
      simp only [mapLast]
      rw [ih (fun x hx => h x (by rw [List.getLast?_cons_cons]; exact hx))]

/-! ### trees -/

theorem offPos_embed (k : Int) (hk : 0 ≤ k) (p : Loc) (hp : 1 ≤ p.endLineno) :
    offPos (-k) (some (embedLines k p)) = some p := by
  obtain ⟨a, b, c, d⟩ := p
  simp only at hp
  have h0 : ¬ (c + k = 0) := by omega
  simp only [offPos, embedLines, h0, if_false]
  congr 2 <;> omega

theorem rebaseAt_embedAt (l0 c0 : Int) (p : Loc) : rebaseAt l0 c0 (embedAt l0 c0 p) = p := by
  obtain ⟨a, b, c, d⟩ := p
  simp only [rebaseAt, embedAt]
  congr 1
  · omega
  · by_cases h : a = 1
    · subst h
      have : (1 : Int) + (l0 - 1) = l0 := by omega
      simp [this]
    · have : ¬ (a + (l0 - 1) = l0) := by omega
      simp [h, this]
  · omega
  · by_cases h : c = 1
    · subst h
      have : (1 : Int) + (l0 - 1) = l0 := by omega
      simp [this]
    · have : ¬ (c + (l0 - 1) = l0) := by omega
      simp [h, this]

mutual
theorem offset_embed_tree (k : Int) (hk : 0 ≤ k) :
    ∀ t : PTree, linesPos t = true → offsetLinenos (-k) (mapTree (embedLines k) t) = t
  | .node p ks, h => by
    simp only [linesPos, Bool.and_eq_true] at h
    simp only [mapTree, offsetLinenos, offset_embed_kids k hk ks h.2]
    cases p with
    | none => simp [offPos]
    | some q =>
      have := offPos_embed k hk q (by simpa using h.1)
      simp [this]
theorem offset_embed_kids (k : Int) (hk : 0 ≤ k) :
    ∀ l : List PTree, linesPosKids l = true → offsetKids (-k) (mapKids (embedLines k) l) = l
  | [], _ => rfl
  | t :: ts, h => by
    simp only [linesPosKids, Bool.and_eq_true] at h
    simp [mapKids, offsetKids, offset_embed_tree k hk t h.1, offset_embed_kids k hk ts h.2]
end

mutual
theorem mapTree_comp_id (f g : Loc → Loc) (hfg : ∀ p, f (g p) = p) : ∀ t : PTree, mapTree f (mapTree g t) = t
  | .node p ks => by
    simp only [mapTree, mapKids_comp_id f g hfg ks]
    cases p <;> simp [hfg]
theorem mapKids_comp_id (f g : Loc → Loc) (hfg : ∀ p, f (g p) = p) : ∀ l : List PTree, mapKids f (mapKids g l) = l
  | [] => rfl
  | t :: ts => by simp [mapKids, mapTree_comp_id f g hfg t, mapKids_comp_id f g hfg ts]
end

/-! ### delimiters -/

/-- scanning passes `src` with depth `e`: the matching closer of the pending opener is found in `rest` -/
theorem matchClose_append_some (o c : Char) (src rest : List Char) (d e : Nat)
    (h : scanDepth o c src d = some e) :
    matchClose o c (src ++ rest) d = (matchClose o c rest e).map (· + src.length) := by
  induction src generalizing d with
  | nil =>
    simp only [scanDepth, Option.some.injEq] at h
    subst h
    cases hm : matchClose o c rest d <;> simp [hm]
  | cons x xs ih =>
    simp only [scanDepth] at h
    simp only [List.cons_append, matchClose]
    split at h
    · split at h
      · exact absurd h (by simp)
      · rename_i hx hd
        rw [if_pos hx, if_neg hd, ih _ h]
        cases matchClose o c rest e <;> simp [Nat.add_assoc]
    · split at h
      · rename_i hx ho
        rw [if_neg hx, if_pos ho, ih _ h]
        cases matchClose o c rest e <;> simp [Nat.add_assoc]
      · rename_i hx ho
        rw [if_neg hx, if_neg ho, ih _ h]
        cases matchClose o c rest e <;> simp [Nat.add_assoc]

/-- scanning `src` raises: the pending opener is closed inside `src` -/
theorem matchClose_append_none (o c : Char) (src rest : List Char) (d : Nat)
    (h : scanDepth o c src d = none) :
    ∃ i, i < src.length ∧ matchClose o c (src ++ rest) d = some i := by
  induction src generalizing d with
  | nil => simp [scanDepth] at h
  | cons x xs ih =>
    simp only [scanDepth] at h
    simp only [List.cons_append, matchClose]
    split at h
    · split at h
      · rename_i hx hd
        exact ⟨0, by simp, by rw [if_pos hx, if_pos hd]⟩
      · rename_i hx hd
        obtain ⟨i, hi, hm⟩ := ih _ h
        exact ⟨i + 1, by simp; omega, by rw [if_pos hx, if_neg hd, hm]; rfl⟩
    · split at h
      · rename_i hx ho
        obtain ⟨i, hi, hm⟩ := ih _ h
        exact ⟨i + 1, by simp; omega, by rw [if_neg hx, if_pos ho, hm]; rfl⟩
      · rename_i hx ho
        obtain ⟨i, hi, hm⟩ := ih _ h
        exact ⟨i + 1, by simp; omega, by rw [if_neg hx, if_neg ho, hm]; rfl⟩

/-! ### comments and the close-delimiter verification -/

theorem takeWhile_idem {α} (p : α → Bool) (l : List α) : (l.takeWhile p).takeWhile p = l.takeWhile p := by
  induction l with
  | nil => rfl
  | cons c cs ih =>
    by_cases hp : p c = true
    · simp [List.takeWhile_cons, hp, ih]
    · simp [List.takeWhile_cons, hp]

theorem stripComment_idem (l : Line) : stripComment (stripComment l) = stripComment l := takeWhile_idem _ l

/-- a line `code ++ "#" ++ anything` with no `#` in `code` is scanned as `code` -/
theorem stripComment_append (code cmt : Line) (h : ∀ x ∈ code, x ≠ '#') : stripComment (code ++ '#' :: cmt) = code := by
  unfold stripComment
  induction code with
  | nil => simp [List.takeWhile_cons]
  | cons c cs ih =>
    have hc : c ≠ '#' := h c (by simp)
    have ih' := ih (fun x hx => h x (by simp [hx]))
    simpa [List.takeWhile_cons, hc] using ih'

/-- the scan of the lines after the first element sees only the comment-stripped lines -/
theorem restLines_congr (ls ls' : List Line) (h : ls.map stripComment = ls'.map stripComment) : restLines ls = restLines ls' := by
  induction ls generalizing ls' with
  | nil =>
    cases ls' with
    | nil => rfl
    | cons _ _ => simp at h
  | cons l t ih =>
    cases ls' with
    | nil => simp at h
    | cons l' t' =>
      simp only [List.map_cons, List.cons.injEq] at h
      simp only [restLines, h.1, ih t' h.2]

end Pfst.ParseWrap
