/-
Model of the text accessors behind property C08 (no imports: this file is linked into the native driver).

* `reprMultiline`  — `repr_str_multiline` + `_escape_char` (src/fst/astutil.py), with the `unicode_escape` codec and
  `repr()` of a `str` written out as CPython implements them.  `str.isprintable`, the printability test `repr` applies
  to non-ASCII characters, and `str.isspace` are PARAMETERS (`Cls`), supplied per character by the harness.
* `decodeTriple`   — what CPython makes of a triple-quoted literal: newline normalisation, the tokenizer's search for the
  closing quotes (`findClose`), then escape decoding (`unescape`).  Written from the language reference, not from the
  encoder; escape forms the encoder can never produce (`\a \b \f \v \ooo \N{..}`) and NUL answer `none` ("not modelled").
* `putDocSrc` / `getDocstr` — the indentation `_indent_lns` applies to a freshly put docstring literal and the dedent
  rule of `FST.get_docstr` (src/fst/fst.py).
* `commentGet` / `commentPut` — `_getput_line_comment` (src/fst/fst_trivia.py) restricted to the text of the last
  statement line from the end of the statement on (`line[end_col:]`), regex `_re_stmt_line_comment` written out.
-/
namespace Pfst.Quote

/-- Per-character facts the model does not define itself (CPython's Unicode database). -/
structure Cls where
  printable : Char → Bool      -- `str.isprintable`
  reprRaw   : Char → Bool      -- `repr()` copies this (non-ASCII) character unescaped (`Py_UNICODE_ISPRINTABLE`)
  space     : Char → Bool      -- `str.isspace` (also what `\s` matches in `re` on `str`)

def BS : Char := '\\'
def SQ : Char := '\''
def DQ : Char := '"'
def LF : Char := '\n'
def CR : Char := '\r'
def TAB : Char := '\t'
def NUL : Char := Char.ofNat 0

/-! ### hexadecimal -/

def hexDigit : Nat → Char
  | 0 => '0' | 1 => '1' | 2 => '2' | 3 => '3' | 4 => '4' | 5 => '5' | 6 => '6' | 7 => '7'
  | 8 => '8' | 9 => '9' | 10 => 'a' | 11 => 'b' | 12 => 'c' | 13 => 'd' | 14 => 'e' | _ => 'f'

def hex2 (n : Nat) : List Char := [hexDigit (n / 16 % 16), hexDigit (n % 16)]
def hex4 (n : Nat) : List Char :=
  [hexDigit (n / 4096 % 16), hexDigit (n / 256 % 16), hexDigit (n / 16 % 16), hexDigit (n % 16)]
def hex8 (n : Nat) : List Char :=
  [hexDigit (n / 268435456 % 16), hexDigit (n / 16777216 % 16), hexDigit (n / 1048576 % 16), hexDigit (n / 65536 % 16),
   hexDigit (n / 4096 % 16), hexDigit (n / 256 % 16), hexDigit (n / 16 % 16), hexDigit (n % 16)]

/-- `\xNN` / `\uNNNN` / `\UNNNNNNNN` by size (shared tail of `unicode_escape` and `repr`). -/
def hexEscape (n : Nat) : List Char :=
  if n < 256 then BS :: 'x' :: hex2 n
  else if n < 65536 then BS :: 'u' :: hex4 n
  else BS :: 'U' :: hex8 n

/-! ### the encoder -/

/-- `c.encode('unicode_escape')` (Objects/unicodeobject.c `PyUnicode_AsUnicodeEscapeString`). -/
def unicodeEscape (c : Char) : List Char :=
  if c == BS then [BS, BS]
  else if c == TAB then [BS, 't']
  else if c == LF then [BS, 'n']
  else if c == CR then [BS, 'r']
  else if c.toNat < 32 || c.toNat ≥ 127 then hexEscape c.toNat
  else [c]

/-- `_escape_char` (astutil.py). -/
def escapeChar (k : Cls) (c : Char) : List Char :=
  if c == LF || c == TAB then [c]
  else if c == BS || !k.printable c then unicodeEscape c
  else [c]

/-- one character of `repr(str)` with quote `q` (Objects/unicodeobject.c `unicode_repr`). -/
def reprChar (k : Cls) (q : Char) (c : Char) : List Char :=
  if c == q || c == BS then [BS, c]
  else if c == TAB then [BS, 't']
  else if c == LF then [BS, 'n']
  else if c == CR then [BS, 'r']
  else if c.toNat < 32 || c.toNat == 127 then BS :: 'x' :: hex2 c.toNat
  else if c.toNat < 127 then [c]
  else if k.reprRaw c then [c]
  else hexEscape c.toNat

/-- the quote `repr` chooses: `"` only if the string has a `'` and no `"`. -/
def reprQuote (s : List Char) : Char := if s.contains SQ && !s.contains DQ then DQ else SQ

/-- `repr(s)` for a `str`. -/
def reprStr (k : Cls) (s : List Char) : List Char :=
  reprQuote s :: (s.flatMap (reprChar k (reprQuote s)) ++ [reprQuote s])

/-- `str.replace(old, new)` for a two-character `old = a b`: leftmost, non-overlapping. -/
def replace2 (a b : Char) (rep : List Char) : List Char → List Char
  | [] => []
  | [c] => [c]
  | c :: d :: rest =>
    if c == a && d == b then rep ++ replace2 a b rep rest else c :: replace2 a b rep (d :: rest)

/-- `str.replace(old, new)` for a one-character `old`. -/
def replace1 (a : Char) (rep : List Char) (l : List Char) : List Char :=
  l.flatMap (fun c => if c == a then rep else [c])

def startsQQ (q : Char) : List Char → Bool
  | a :: b :: _ => a == q && b == q
  | _ => false

/-- `q*3 in l` -/
def hasTriple (q : Char) : List Char → Bool
  | [] => false
  | c :: rest => (c == q && startsQQ q rest) || hasTriple q rest

def lastD (l : List Char) : Char := l.getLastD NUL

/-- The tail of `repr_str_multiline` when one of the two triple quotes is usable: `possible_quotes` is
`[first, last]` (`first = last` when only one is possible); prefer the quote the text does not end with, and if the
text still ends with the chosen quote, escape that last character. -/
def plainQuoted (esc : List Char) (first last : Char) : List Char :=
  let quotes := if lastD esc == first then last else first
  let esc' := if quotes == lastD esc then esc.dropLast ++ [BS, lastD esc] else esc
  [quotes, quotes, quotes] ++ esc' ++ [quotes, quotes, quotes]

/-- The `else` branch of `repr_str_multiline` (both `'''` and `"""` occur in the text): `repr(string)` with its
newlines turned back into real newlines by three `str.replace` calls, wrapped in two more of `repr`'s quotes. -/
def reprQuoted (k : Cls) (s : List Char) : List Char :=
  let r := replace1 NUL [BS, BS] (replace2 BS 'n' [LF] (replace2 BS BS [NUL] (reprStr k s)))
  let q := r.headD SQ
  [q, q] ++ r ++ [q, q]

/-- `repr_str_multiline` (astutil.py). -/
def reprMultiline (k : Cls) (s : List Char) : List Char :=
  if s.isEmpty then [DQ, DQ, DQ, DQ, DQ, DQ]
  else
    let esc := s.flatMap (escapeChar k)
    if !hasTriple DQ esc then
      (if hasTriple SQ esc then plainQuoted esc DQ DQ else plainQuoted esc DQ SQ)
    else if !hasTriple SQ esc then plainQuoted esc SQ SQ
    else reprQuoted k s

/-! ### the decoder (CPython's reading of a triple-quoted literal) -/

/-- universal newlines of the tokenizer: `\r\n` and lone `\r` become `\n`. -/
def normNL : Bool → List Char → List Char
  | _, [] => []
  | prevCR, c :: rest =>
    if c == CR then LF :: normNL true rest
    else if c == LF && prevCR then normNL false rest
    else c :: normNL false rest

/-- The tokenizer inside a triple-quoted string opened with `q` (state: was the previous character an unconsumed
backslash): a backslash protects the next character, the first run of three `q` ends the string.  Returns the body
and what follows the closing quotes. -/
def findClose (q : Char) : Bool → List Char → Option (List Char × List Char)
  | _, [] => none
  | esc, c :: rest =>
    if esc then (findClose q false rest).map (fun p => (c :: p.1, p.2))
    else if c == BS then (findClose q true rest).map (fun p => (c :: p.1, p.2))
    else if c == q && startsQQ q rest then some ([], rest.drop 2)
    else (findClose q false rest).map (fun p => (c :: p.1, p.2))

def unhex (c : Char) : Option Nat :=
  let n := c.toNat
  if 48 ≤ n && n ≤ 57 then some (n - 48)
  else if 97 ≤ n && n ≤ 102 then some (n - 87)
  else if 65 ≤ n && n ≤ 70 then some (n - 55)
  else none

/-- a scalar value as `Char`; `none` for surrogates (CPython accepts `\ud800`, `Char` cannot hold it) and > 0x10FFFF. -/
def charOf (n : Nat) : Option Char :=
  if n < 0xd800 || (0xdfff < n && n < 0x110000) then some (Char.ofNat n) else none

def consO (c : Char) (o : Option (List Char)) : Option (List Char) := o.map (c :: ·)

/-- state of the escape decoder -/
inductive St where
  | body                          -- ordinary text
  | esc                           -- just after a backslash
  | hex (more : Nat) (acc : Nat)  -- inside `\x` / `\u` / `\U`: `more + 1` digits to go, value so far
deriving Repr, DecidableEq

/-- escape decoding of a (non-raw, non-bytes) string body, one character at a time. -/
def unesc : St → List Char → Option (List Char)
  | st, [] => (match st with | .body => some [] | _ => none)
  | st, c :: rest =>
    match st with
    | .body =>
      if c == BS then unesc .esc rest
      else if c == NUL then none                              -- "source code cannot contain null bytes"
      else consO c (unesc .body rest)
    | .esc =>
      if c == BS || c == SQ || c == DQ then consO c (unesc .body rest)
      else if c == 'n' then consO LF (unesc .body rest)
      else if c == 'r' then consO CR (unesc .body rest)
      else if c == 't' then consO TAB (unesc .body rest)
      else if c == LF then unesc .body rest                   -- backslash-newline: nothing
      else if c == 'x' then unesc (.hex 1 0) rest
      else if c == 'u' then unesc (.hex 3 0) rest
      else if c == 'U' then unesc (.hex 7 0) rest
      else none                                               -- \a \b \f \v \ooo \N{..}, unknown escapes: not modelled
    | .hex more acc =>
      match unhex c with
      | none => none
      | some v =>
        match more with
        | 0 => (charOf (acc * 16 + v)).bind fun ch => consO ch (unesc .body rest)
        | m + 1 => unesc (.hex m (acc * 16 + v)) rest

def unescape (l : List Char) : Option (List Char) := unesc .body l

/-- The value CPython gives a source text that is exactly one triple-quoted plain string literal. -/
def decodeTriple (src : List Char) : Option (List Char) :=
  match normNL false src with
  | a :: b :: c :: rest =>
    if (a == SQ || a == DQ) && b == a && c == a then
      match findClose a false rest with
      | some (body, []) => unescape body
      | _ => none
    else none
  | _ => none

/-! ### docstring put / get -/

/-- `str.split('\n')` -/
def splitNL : List Char → List (List Char)
  | [] => [[]]
  | c :: rest =>
    if c == LF then [] :: splitNL rest
    else match splitNL rest with
      | [] => [[c]]
      | l :: ls => (c :: l) :: ls

/-- `'\n'.join(lines)` -/
def joinNL : List (List Char) → List Char
  | [] => []
  | [l] => l
  | l :: ls => l ++ LF :: joinNL ls

/-- `_indent_lns` on the lines of a put docstring: every line after the first, only if non-empty. -/
def indentLines (ind : List Char) : List (List Char) → List (List Char)
  | [] => []
  | l :: ls => l :: ls.map (fun x => if x.isEmpty then x else ind ++ x)

/-- source text of the docstring literal after `put_docstr` placed it in a block indented by `ind`. -/
def putDocSrc (ind lit : List Char) : List Char := joinNL (indentLines ind (splitNL lit))

/-- `re_empty_line_start = [ \t]*` : length of the match at the start of the line. -/
def wsLen : List Char → Nat
  | [] => 0
  | c :: rest => if c == ' ' || c == TAB then wsLen rest + 1 else 0

def startsWith : List Char → List Char → Bool
  | _, [] => true
  | [], _ :: _ => false
  | a :: l, b :: p => a == b && startsWith l p

/-- one iteration of the loop of `get_docstr`. -/
def dedentLine (ind l : List Char) : List Char :=
  if startsWith l ind || decide (wsLen l ≥ ind.length) then l.drop ind.length else l.drop (wsLen l)

/-- `FST.get_docstr` on the `Constant` value, `ind = _get_block_indent()`. -/
def getDocstr (ind value : List Char) : List Char := joinNL ((splitNL value).map (dedentLine ind))

/-- what `put_docstr` makes of the value: continuation lines get the block indentation, except empty lines that are
not the last one (the last line of the literal carries the closing quotes, so it is never empty in the source) -/
def indentValTail (ind : List Char) : List (List Char) → List (List Char)
  | [] => []
  | [l] => [ind ++ l]
  | l :: ls => (if l.isEmpty then l else ind ++ l) :: indentValTail ind ls

def indentVal (ind s : List Char) : List Char :=
  match splitNL s with
  | [] => []
  | l0 :: ls => joinNL (l0 :: indentValTail ind ls)

def wsOnly (ind : List Char) : Bool := ind.all (fun c => c == ' ' || c == TAB)

/-! ### line comments -/

/-- longest prefix of `\s` characters, and the rest -/
def spanS (k : Cls) : List Char → List Char × List Char
  | [] => ([], [])
  | c :: r => if k.space c then ((c :: (spanS k r).1), (spanS k r).2) else ([], c :: r)

/-- `str.strip()` -/
def strip (k : Cls) (l : List Char) : List Char :=
  ((l.dropWhile k.space).reverse.dropWhile k.space).reverse

/-- A match of `_re_stmt_line_comment = (\s*;)?(\s*\#(.*)$)?` at the start of `tail` (`tail` has no newline; the
pattern matches every text).  `m.start(2) = m.end(1) = g1.length`, `m.start(3) = g1.length + w2.length + 1`. -/
structure ReM where
  g1 : List Char                  -- group 1 (`\s*;`), empty if it did not take part
  w2 : List Char                  -- the `\s*` at the start of group 2 (meaningful only if `text` is `some`)
  text : Option (List Char)       -- group 3 (`.*` after the `#`) if group 2 matched
deriving Repr, DecidableEq

/-- `(\s*;)?` : (group 1, text after it) -/
def reGroup1 (k : Cls) (tail : List Char) : List Char × List Char :=
  match (spanS k tail).2 with
  | c :: r => if c == ';' then ((spanS k tail).1 ++ [';'], r) else ([], tail)
  | [] => ([], tail)

/-- `(\s*\#(.*)$)?` after group 1 -/
def reGroup2 (k : Cls) (g1 after : List Char) : ReM :=
  match (spanS k after).2 with
  | c :: r => if c == '#' then ⟨g1, (spanS k after).1, some r⟩ else ⟨g1, (spanS k after).1, none⟩
  | [] => ⟨g1, (spanS k after).1, none⟩

def reMatch (k : Cls) (tail : List Char) : ReM :=
  reGroup2 k (reGroup1 k tail).1 (reGroup1 k tail).2

/-- `get_line_comment(full=...)` — `none` is Python's `None`. -/
def commentGet (k : Cls) (full : Bool) (tail : List Char) : Option (List Char) :=
  let m := reMatch k tail
  match m.text with
  | some t => some (if full then tail.drop m.g1.length else strip k t)
  | none => none

inductive PutRes where
  | ok (newTail : List Char)       -- the line now ends with this text instead of `tail`
  | valueError                      -- the accessor refuses the comment text
  | unmodelled                      -- other statement / line continuation follows: tree normalisation, not modelled
deriving Repr, DecidableEq

/-- `comment[:1].isspace()` -/
def headSpace (k : Cls) (l : List Char) : Bool := match l.head? with | some c => k.space c | none => false

/-- `put_line_comment(comment, full=...)` with `comment : str` (the deletion `None` is `commentDel`). -/
def commentPut (k : Cls) (full : Bool) (tail comment : List Char) : PutRes :=
  if comment.contains LF || comment.contains CR then .valueError      -- 'line comment cannot have newlines in it'
  else if comment.contains NUL then .valueError                        -- '... null characters in it'
  else if full && (comment.dropWhile k.space).head? != some '#' then .valueError
  else
    let c1 := if full then comment
              else if headSpace k comment then comment
              else ' ' :: comment
    let m := reMatch k tail
    match m.text with
    | some _ => .ok (tail.take (if full then m.g1.length else m.g1.length + m.w2.length + 1) ++ c1)
    | none =>
      let c2 := if full then c1 else ' ' :: ' ' :: '#' :: c1
      if (tail.drop m.g1.length).all k.space then .ok (tail.take m.g1.length ++ c2) else .unmodelled

/-- `put_line_comment(None)` -/
def commentDel (k : Cls) (tail : List Char) : List Char :=
  let m := reMatch k tail
  match m.text with
  | some _ => tail.take m.g1.length
  | none => tail

end Pfst.Quote
