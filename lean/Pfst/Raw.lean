/-
Model of the raw reparse of pfst (`src/fst/fst_raw.py`, `clip_src_loc` in `src/fst/fst_misc.py`, the reparse branch of
`FST.put_src` in `src/fst/fst.py`).

Source lines are `List (List Char)`; line numbers are 0-based and columns are CHARACTER columns, as in the Python code.
AST positions (`Pos`) are CPython's: 1-based line numbers and BYTE columns.

What is modelled, as written in the code (not as it should be):
* `clipSrcLoc`            — `clip_src_loc`
* `putSrc`                — the text effect of `_put_src` (spec level: one formula for the four cases of the code)
* `plan`                  — `_reparse_raw_stmtlike`: choice of the reparse region from facts about the enclosing
                            statement-like node, construction of `copy_lines` for every wrapper family,
                            `first_lineno`, `first_line_col_delta`, the path into the wrapper
* `handed`                — the text handed to the parser (the copy with the new text spliced in)
* `runBase`               — `_reparse_raw_base` as a machine with an explicit order of effects; the parser is a parameter
* `retEnd`                — the returned `(end_ln, end_col)`
* `Zip`, `reparseTree`    — the tree effect: offset of everything outside the region with `tail = head = True`,
                            graft of the parsed sub-tree, first-line byte delta, header-only variant, `_tail_parent` /
                            `_set_end_pos(new, old)` for the ancestors that ended with the node
* `guardOk`, `runRaw`     — the guard (one node, same kind, same place, nothing after it) and the fallback to the
                            whole-source reparse of the repaired `_reparse_raw`
No imports: this file is linked into the native driver.
-/
namespace Pfst.Raw

abbrev Line := List Char
abbrev Lines := List Line

/-- `bistr.c2b(len)` of a whole prefix: number of UTF-8 bytes. -/
def utf8Len (l : Line) : Nat := (l.map Char.utf8Size).sum

def lineAt (lines : Lines) (i : Nat) : Line := lines.getD i []

/-- Python slice `lines[a:b]`. -/
def slice (lines : Lines) (a b : Nat) : Lines := (lines.drop a).take (b - a)

def spaces (n : Nat) : Line := List.replicate n ' '

/-! ## `clip_src_loc` (fst_misc.py) -/

/-- an `int` or the literal `'end'` -/
inductive Coord where
  | idx (i : Int)
  | endc
deriving Repr, DecidableEq, Inhabited

def lenAt (lines : Lines) (i : Int) : Int := ((lineAt lines i.toNat).length : Nat)

/-- `if ln == 'end': ln = last_ln elif ln < 0: ln += len_lines` -/
def normLn (lenLines : Int) : Coord → Int
  | .endc => lenLines - 1
  | .idx i => if i < 0 then i + lenLines else i

/-- `if col == 'end': col = len(l) elif col < 0: col = max(0, col + len(l)) else: col = min(col, len(l))` -/
def clipCol (len : Int) : Coord → Int
  | .endc => len
  | .idx c => if c < 0 then max 0 (c + len) else min c len

/-- `none` = `IndexError`. Mirrors the order of the statements of the code. -/
def clipSrcLoc (lines : Lines) (ln col endLn endCol : Coord) : Option (Int × Int × Int × Int) :=
  let lenLines : Int := (lines.length : Nat)
  let lastLn := lenLines - 1
  let ln1 := normLn lenLines ln
  let endLn1 := normLn lenLines endLn
  if ln1 > endLn1 then none
  else
    let ln2 := max 0 (min lastLn ln1)
    let endLn2 := max 0 (min lastLn endLn1)
    let col1 := clipCol (lenAt lines ln2) col
    let endCol1 := clipCol (lenAt lines endLn2) endCol
    if endLn2 == ln2 && decide (col1 > endCol1) then none
    else some (ln2, col1, endLn2, endCol1)

/-! ## text splice (`_put_src`, text part) -/

structure Rect where
  ln : Nat
  col : Nat
  endLn : Nat
  endCol : Nat
deriving Repr, DecidableEq, Inhabited

/-- Replace the rectangle by `new` (a non-empty list of lines; `[]` is treated as `['']`, the delete case). -/
def putSrc (lines : Lines) (new : Lines) (r : Rect) : Lines :=
  let pre := (lineAt lines r.ln).take r.col
  let post := (lineAt lines r.endLn).drop r.endCol
  let mid : Lines := match new with
    | [] => [pre ++ post]
    | [l] => [pre ++ l ++ post]
    | l :: rest => (pre ++ l) :: (rest.dropLast ++ [rest.getLast?.getD [] ++ post])
  lines.take r.ln ++ mid ++ lines.drop (r.endLn + 1)

/-- The value returned by `_reparse_raw` / `put_src`. -/
def retEnd (new : Lines) (r : Rect) : Nat × Nat :=
  match new with
  | [] => (r.ln, r.col)
  | [l] => (r.ln, r.col + l.length)
  | _ :: rest => (r.ln + rest.length, (rest.getLast?.getD []).length)

/-! ## `_reparse_raw_stmtlike`: region and wrapper -/

inductive Kind where
  | matchCase | exceptHandler | match_ | try_ | tryStar | block | simple
deriving Repr, DecidableEq, Inhabited

def Kind.isBlock : Kind → Bool
  | .simple => false
  | _ => true

/-- What the code reads from the tree (through helper functions that are inputs of the model: `parent_stmtlike`,
`is_elif`, `bloc`, `_loc_block_header_end`, `_get_block_indent`). `stmtlike` below is the node AFTER the step
`if is_elif: stmtlike = stmtlike.parent`. -/
structure Facts where
  kind : Kind
  isElif : Bool            -- the enclosing statement-like was an `elif` (so `stmtlike` is its parent `If`)
  selfIsElif : Bool        -- `stmtlike.is_elif()` evaluated on the final `stmtlike`
  isRoot : Bool            -- `stmtlike is root`
  pln : Nat
  pcol : Nat
  pendLn : Nat
  pendCol : Nat            -- `stmtlike.bloc`
  blkheadEnd : Nat × Nat   -- `stmtlike._loc_block_header_end()[2:]` (only read for block kinds)
  indent : Line            -- `stmtlike._get_block_indent()` (not read for `match_case`)
deriving Repr, Inhabited

inductive PathKind where
  | body | body2 | bodyOrelse | body2Orelse | bodyHandlers | body2Handlers | bodyCases
  | special          -- the `parse_match_case` / `parse_ExceptHandler` path, no wrapper
deriving Repr, DecidableEq, Inhabited

inductive PlanErr where
  | degenerate       -- NotImplementedError('degenerate statement starts at (0,1), (0,2) or (0,3)')
  | assertion        -- `assert pln > bool(indent)`
deriving Repr, DecidableEq, Inhabited

structure Plan where
  special : Bool
  inBlkhead : Bool
  copyLines : Lines        -- as handed to `_reparse_raw_base` (or spliced directly on the special path)
  path : PathKind
  setAst : Bool
  firstLineno : Nat
  delta : Int              -- `first_line_col_delta`
  pendLn : Nat
  pendCol : Nat
deriving Repr, Inhabited

/-- Python tuple comparison `(a, b) > (c, d)`. -/
def tupGt (a b c d : Nat) : Bool := decide (a > c) || (a == c && decide (b > d))

/-- `copy_lines[i] = v` -/
def setLine (ls : Lines) (i : Nat) (v : Line) : Lines := ls.set i v

/-- `copy_lines[i] = copy_lines[i][:n] ++ suffix` -/
def truncLine (ls : Lines) (i n : Nat) (suffix : Line) : Lines := ls.set i ((lineAt ls i).take n ++ suffix)

/-- `pcol_indent = f'{indent}{" " * dpcol}' if dpcol >= 0 else indent[:dpcol]` with `dpcol = pcol - len(indent)`. -/
def pcolIndent (indent : Line) (pcol : Nat) : Line :=
  let dpcol : Int := (pcol : Int) - (indent.length : Int)
  if dpcol ≥ 0 then indent ++ spaces dpcol.toNat else indent.take ((indent.length : Int) + dpcol).toNat

/-- The wrapper lines of the "simple parse method" before the block-header / truncation step, with `first_lineno`.
`none` = degenerate. -/
def wrapIndented (lines : Lines) (f : Facts) (pendLn : Nat) : Option (Lines × Nat) :=
  if f.pcol == 0 then
    some (List.replicate f.pln [] ++ slice lines f.pln (pendLn + 1), 0)
  else if f.pln != 0 then
    some ("if _:".toList :: List.replicate (f.pln - 1) []
          ++ [pcolIndent f.indent f.pcol ++ (lineAt lines f.pln).drop f.pcol]
          ++ slice lines (f.pln + 1) (pendLn + 1), f.pln + 1)
  else if f.pcol < 4 then none
  else
    some (("try:".toList ++ spaces (f.pcol - 4) ++ (lineAt lines 0).drop f.pcol)
          :: slice lines 1 (pendLn + 1) ++ ["finally: pass".toList], 1)

/-- `_reparse_raw_stmtlike` up to the call of `_reparse_raw_base` (or of the special parse function).
`endLn endCol` is the end of the rectangle being replaced. -/
def plan (lines : Lines) (f : Facts) (endLn endCol : Nat) : Except PlanErr Plan :=
  let delta : Int := (utf8Len ((lineAt lines f.pln).take f.pcol) : Int) - (f.pcol : Int)
  let inBlkhead := f.kind.isBlock && tupGt f.blkheadEnd.1 f.blkheadEnd.2 endLn (endCol + 1)
  let (pendLn, pendCol) :=
    if inBlkhead then f.blkheadEnd
    else if f.isRoot then (lines.length - 1, (lines.getLast?.getD []).length)
    else (f.pendLn, f.pendCol)
  let isMC := f.kind == .matchCase
  let isEH := f.kind == .exceptHandler
  if (isMC && f.pcol == 0) || (isEH && f.pln == 0) then
    let cl := List.replicate f.pln [] ++ slice lines f.pln pendLn ++ [(lineAt lines pendLn).take pendCol]
    let cl := if inBlkhead then cl ++ ["    pass".toList] else cl
    .ok { special := true, inBlkhead, copyLines := cl, path := .special, setAst := true, firstLineno := 0, delta,
          pendLn, pendCol }
  else
    let step : Except PlanErr (Lines × PathKind × Nat) :=
      if isMC then
        .ok (List.replicate (f.pln - 1) [] ++ ["match _:".toList] ++ slice lines f.pln (pendLn + 1), .bodyCases, 0)
      else
        match wrapIndented lines f pendLn with
        | none => .error .degenerate
        | some (cl, fl) =>
          if isEH then
            if !(f.pln > (if f.indent.isEmpty then 0 else 1)) then .error .assertion
            else .ok (setLine cl (f.pln - 1) (f.indent ++ "try: pass".toList),
                      if f.indent.isEmpty then .bodyHandlers else .body2Handlers, fl)
          else if f.pcol == 0 then
            if f.selfIsElif then .ok (setLine cl 0 "if _: pass".toList, .bodyOrelse, fl)
            else .ok (cl, .body, fl)
          else
            if f.selfIsElif then .ok (setLine cl 1 (f.indent ++ "if _: pass".toList), .body2Orelse, fl)
            else .ok (cl, .body2, fl)
    match step with
    | .error e => .error e
    | .ok (cl, path, fl) =>
      if !inBlkhead then
        .ok { special := false, inBlkhead, copyLines := truncLine cl pendLn pendCol [], path, setAst := true,
              firstLineno := fl, delta, pendLn, pendCol }
      else
        let cl :=
          if f.kind == .match_ then truncLine cl pendLn pendCol [] ++ [f.indent ++ " case _: pass".toList]
          else
            let cl := truncLine cl pendLn pendCol " pass".toList
            if f.kind == .try_ then cl ++ [f.indent ++ "except: pass".toList]
            else if f.kind == .tryStar then cl ++ [f.indent ++ "except* Exception: pass".toList]
            else cl
        .ok { special := false, inBlkhead, copyLines := cl, path, setAst := false, firstLineno := fl, delta,
              pendLn, pendCol }

/-- Header-only reparse: where the end of the block header (`pend`, just past the `:`) will be after the put, which ends
before it (`blkhead_end` passed to `_reparse_raw_base`). -/
def headEndAfter (pend : Nat × Nat) (new : Lines) (r : Rect) : Nat × Nat :=
  let dln := new.length - 1
  if pend.1 == r.endLn then
    (r.ln + dln, pend.2 - r.endCol + (new.getLast?.getD []).length + (if dln == 0 then r.col else 0))
  else (pend.1 + dln - r.endLn + r.ln, pend.2)

/-- Precondition of `plan` (docstring of `_reparse_raw`: "`self` must be a node which entirely contains the location"): the
rectangle lies inside the region of the statement-like node found from the node handed in.  `put_src` guarantees it by
`find_contains_loc`, the raw node put by taking the common parent of the replaced node and of `to`. -/
def rectInRegion (f : Facts) (r : Rect) : Bool :=
  (decide (f.pln < r.ln) || (f.pln == r.ln && decide (f.pcol ≤ r.col)))
  && (decide (r.endLn < f.pendLn) || (r.endLn == f.pendLn && decide (r.endCol ≤ f.pendCol)))

/-- The text handed to the parser: the copy with the new text spliced in at the SAME rectangle. -/
def handed (p : Plan) (new : Lines) (r : Rect) : Lines := putSrc p.copyLines new r

/-! ## `_reparse_raw_base`: order of effects -/

/-- The state the operation may touch: the real lines and the real tree (`T` abstract). -/
structure St (T : Type) where
  lines : Lines
  tree : T
deriving Repr

/-- The machine while `_reparse_raw_base` runs: `self` (the real state), the private copy, whether it raised. -/
structure Machine (T : Type) where
  self : St T
  copy : Lines
  raised : Bool

/-- `_reparse_raw_base`: (1) copy lines, (2) splice the new text into the COPY, (3) parse the copy with the external
parser, and only on success (4) splice the real lines, (5) graft / fix positions in the real tree (`fix`). A parser
failure returns before step (4). -/
def runBase {T W : Type} (parse : Lines → Option W) (fix : T → W → T) (st : St T) (copyLines new : Lines) (r : Rect) :
    Machine T :=
  let m : Machine T := { self := st, copy := copyLines, raised := false }          -- (1)
  let m := { m with copy := putSrc m.copy new r }                                  -- (2)
  match parse m.copy with                                                         -- (3)
  | none => { m with raised := true }
  | some w =>
    let m := { m with self := { m.self with lines := putSrc m.self.lines new r } } -- (4)
    { m with self := { m.self with tree := fix m.self.tree w } }                   -- (5)

/-! ## tree effect -/

structure Pos where
  lno  : Int
  col  : Int
  elno : Int
  ecol : Int
deriving DecidableEq, Repr, Inhabited

inductive Node where
  | mk (kind : Nat) (pos : Option Pos) (kids : List Node)
deriving Repr, Inhabited

def Node.kind : Node → Nat | .mk k _ _ => k
def Node.pos : Node → Option Pos | .mk _ p _ => p
def Node.kids : Node → List Node | .mk _ _ k => k

/-- One ancestor of the reparsed node with the siblings to the left and right of the path (syntax order). -/
structure Frame where
  kind : Nat
  pos : Option Pos
  left : List Node
  right : List Node
deriving Repr, Inhabited

/-- The tree seen from the reparsed statement-like node: ancestors innermost first. -/
structure Zip where
  ctx : List Frame
  focus : Node
deriving Repr, Inhabited

def plug : List Frame → Node → Node
  | [], n => n
  | f :: fs, n => plug fs (.mk f.kind f.pos (f.left ++ n :: f.right))

def Zip.tree (z : Zip) : Node := plug z.ctx z.focus

/-- Parameters of `_offset` as computed by `_params_offset`: the offset point is the END of the replaced rectangle. -/
structure Off where
  lno : Int
  colo : Int
  dln : Int
  dcol : Int
deriving Repr, Inhabited

/-- `_params_offset` on byte lengths (same formula as `Pfst.Offset.paramsOffset`). -/
def paramsOffset (nPut ln endLn endPrefixBytes putLastBytes startPrefixBytes : Int) : Off :=
  let dfst := nPut - 1
  { lno := endLn + 1, colo := endPrefixBytes, dln := dfst - (endLn - ln),
    dcol := putLastBytes - endPrefixBytes + (if dfst == 0 then startPrefixBytes else 0) }

/-- `_offset(..., tail=True, head=True)` on one coordinate pair: everything at or after the point moves. -/
def movePt (o : Off) (l c : Int) : Int × Int :=
  if l > o.lno then (l + o.dln, c)
  else if l == o.lno && decide (c ≥ o.colo) then (l + o.dln, c + o.dcol)
  else (l, c)

def movePos (o : Off) (p : Pos) : Pos :=
  let s := movePt o p.lno p.col
  let e := movePt o p.elno p.ecol
  ⟨s.1, s.2, e.1, e.2⟩

mutual
def mapNode (g : Pos → Pos) : Node → Node
  | .mk k p ks => .mk k (p.map g) (mapList g ks)
def mapList (g : Pos → Pos) : List Node → List Node
  | [] => []
  | n :: rest => mapNode g n :: mapList g rest
end

def mapFrame (g : Pos → Pos) (f : Frame) : Frame :=
  { kind := f.kind, pos := f.pos.map g, left := mapList g f.left, right := mapList g f.right }

/-- the loop `for a in walk(copy.a)` applying `first_line_col_delta` on `first_lineno` -/
def deltaPos (firstLineno : Int) (delta : Int) (p : Pos) : Pos :=
  { lno := p.lno, col := if p.lno == firstLineno then p.col + delta else p.col,
    elno := p.elno, ecol := if p.elno == firstLineno then p.ecol + delta else p.ecol }

def applyDelta (firstLineno : Nat) (delta : Int) (n : Node) : Node :=
  if firstLineno != 0 && delta != 0 then mapNode (deltaPos firstLineno delta) n else n

def setEnd (p : Option Pos) (e : Option (Int × Int)) : Option Pos :=
  match p, e with
  | some p, some (l, c) => some { p with elno := l, ecol := c }
  | p, _ => p

def Node.endPt (n : Node) : Option (Int × Int) := n.pos.map (fun p => (p.elno, p.ecol))

/-- the end the code reads off a node: its own, or for a node without a location (`match_case`) the end of its last
child (`a.body[-1]`) -/
def Node.endPtD (n : Node) : Option (Int × Int) :=
  match n.pos with
  | some p => some (p.elno, p.ecol)
  | none => (n.kids.getLast?).bind Node.endPt

/-- the start the guard compares: own start, or for a node without a location the start of its first child -/
def Node.startPtD (n : Node) : Option (Int × Int) :=
  match n.pos with
  | some p => some (p.lno, p.col)
  | none => (n.kids.head?).bind (fun k => k.pos.map (fun p => (p.lno, p.col)))

/-- `_tail_parent` (evaluated on the OLD tree, before anything is touched): index of the first ancestor with a location,
provided the node is the last node of every ancestor up to it and that ancestor ends exactly where the node ends (not
past a trailing semicolon). -/
def tailIdx (e : Option (Int × Int)) : List Frame → Nat → Option Nat
  | [], _ => none
  | f :: fs, i =>
    if !f.right.isEmpty then none
    else match f.pos with
      | some p => if some (p.elno, p.ecol) == e then some i else none
      | none => tailIdx e fs (i + 1)

/-- `_set_end_pos(new, old)` called on an ancestor (the head of the list): set the end as long as the node ends at `old`
and is the last child of its parent. -/
def setEndPosFrom (new old : Int × Int) : List Frame → List Frame
  | [] => []
  | f :: fs =>
    let stop := match f.pos with | some p => (p.elno, p.ecol) != old | none => false
    if stop then f :: fs
    else
      let f' : Frame := { f with pos := setEnd f.pos (some new) }
      if (fs.head?.map (fun g => g.right.isEmpty)).getD false then f' :: setEndPosFrom new old fs else f' :: fs

/-- The block fields of a statement-like node (`_STMTLIKE_FIELDS`), in syntax order. `none` = the node has no such
attribute (`getattr(a, field, None) is None`), `some []` = the attribute is an EMPTY list: the code distinguishes the two. -/
structure Blocks where
  body : Option (List Node) := none
  handlers : Option (List Node) := none
  orelse : Option (List Node) := none
  finalbody : Option (List Node) := none
  cases : Option (List Node) := none
deriving Repr, Inhabited

/-- `if (body := getattr(old, field, None)) is not None: setattr(new, field, body)` for one field -/
def keepOld {α : Type} (old new : Option α) : Option α :=
  match old with
  | some l => some l
  | none => new

/-- `for field in _STMTLIKE_FIELDS: if (body := getattr(old, field, None)) is not None: setattr(new, field, body)` -/
def graftBlocks (old new : Blocks) : Blocks :=
  { body := keepOld old.body new.body, handlers := keepOld old.handlers new.handlers,
    orelse := keepOld old.orelse new.orelse, finalbody := keepOld old.finalbody new.finalbody,
    cases := keepOld old.cases new.cases }

def Blocks.flat (b : Blocks) : List Node :=
  b.body.getD [] ++ b.handlers.getD [] ++ b.orelse.getD [] ++ b.finalbody.getD [] ++ b.cases.getD []

def Blocks.map (g : List Node → List Node) (b : Blocks) : Blocks :=
  { body := b.body.map g, handlers := b.handlers.map g, orelse := b.orelse.map g, finalbody := b.finalbody.map g,
    cases := b.cases.map g }

structure TreeMode where
  setAst : Bool            -- whole statement grafted (else header-only)
  firstLineno : Nat
  delta : Int
  nOldHead : Nat           -- header-only: number of leading non-block children of the old node
  nNewHead : Nat           -- header-only: number of leading non-block children of the parsed node
  oldBlocks : Blocks := {} -- header-only: the block fields of the old node (positions before the put)
  newBlocks : Blocks := {} -- header-only: the block fields of the parsed node (the synthetic `pass`, `except: pass`, ...)
  headEndSame : Bool := true  -- header-only: the parsed header ends (just past its `:`) where the put leaves the old colon
  noEndCopy : Bool         -- header-only: the node is a `match_case` (no position to copy)
  follows : Bool           -- something other than the synthetic `finally: pass` follows the parsed node in the wrapper:
                           -- a node at any level, or text other than a comment / continuation on its last line (`;`)
  sameParentKind : Bool := true  -- for an `ExceptHandler`: the wrapper's `Try`/`TryStar` is the kind of the real parent
  sameStart : Option Bool := none  -- only for nodes without an AST location (`match_case`): whether the `case` keyword is
                                   -- where it was (found with the tokenizer by the harness); `none` = compare positions
deriving Repr, Inhabited

/-- The guard of the repaired `_reparse_raw_base` (before anything is touched): the wrapper must contain exactly one node
of the same kind at the same place and nothing after it; otherwise the change reached past the node and the whole source
is reparsed instead. `sub` is the parsed node BEFORE the first-line delta is applied in the code, the comparison is on
character columns there; here it is made on byte columns after the delta (same line prefix). -/
def guardOk (m : TreeMode) (old sub : Node) : Bool :=
  !m.follows && m.sameParentKind && m.headEndSame && sub.kind == old.kind && (match m.sameStart with | some b => b | none => sub.startPtD == old.startPtD)

/-- The tree effect of a successful statement-level reparse: `sub` is the node found in the parsed wrapper by the path.
* `set_ast`: everything outside the old node is offset with `tail = head = True` (`exclude = self`); the old node is
  replaced by `sub` after the first-line delta; ancestors that ended exactly with the old node (`_tail_parent`) get the
  end of the new node (`_set_end_pos(new, old)`).
* header-only: everything including the old node is offset; the parsed header replaces the old header, every block field
  the old node has (empty lists included) replaces the parsed one (`graftBlocks`), the end position is copied from the
  (offset) old node. -/
def reparseTree (o : Off) (m : TreeMode) (z : Zip) (sub : Node) : Zip :=
  let ctx := z.ctx.map (mapFrame (movePos o))
  let sub := applyDelta m.firstLineno m.delta sub
  if m.setAst then
    let ctx :=
      match tailIdx z.focus.endPtD z.ctx 0, sub.endPtD with
      | some i, some new =>
        match ((ctx.drop i).head?).bind (fun f => f.pos) with
        | some p => ctx.take i ++ setEndPosFrom new (p.elno, p.ecol) (ctx.drop i)
        | none => ctx
      | _, _ => ctx
    { ctx, focus := sub }
  else
    let old := mapNode (movePos o) z.focus
    let pos := if m.noEndCopy then sub.pos else setEnd sub.pos old.endPt
    { ctx, focus := .mk sub.kind pos
        (sub.kids.take m.nNewHead ++ (graftBlocks (m.oldBlocks.map (mapList (movePos o))) m.newBlocks).flat) }

/-- `_reparse_raw` after the repair: the incremental attempt (`_reparse_raw_stmtlike`) is used only if the wrapper parses,
the node is found and the guard holds; in every other case NOTHING has been touched yet and the whole source is spliced
and parsed with the root's own mode (`parseFull`, no retry in another mode for a module root): that decides. -/
def runRaw {T W : Type} (parse : Lines → Option W) (guard : W → Bool) (fix : T → W → T) (parseFull : Lines → Option T)
    (st : St T) (copyLines new : Lines) (r : Rect) : Machine T :=
  let whole := runBase parseFull (fun _ t => t) st st.lines new r
  match parse (putSrc copyLines new r) with
  | some w => if guard w then runBase parse fix st copyLines new r else whole
  | none => whole

mutual
/-- preorder (kind, position) -/
def flatten : Node → List (Nat × Option Pos)
  | .mk k p ks => (k, p) :: flattenList ks
def flattenList : List Node → List (Nat × Option Pos)
  | [] => []
  | n :: rest => flatten n ++ flattenList rest
end

end Pfst.Raw
