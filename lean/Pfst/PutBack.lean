/-
List and tree algebra behind the structural round trips of property C08 (no imports).

`putSlice xs s e ys` is what every slice put of pfst does to a list field (`body[s:e] = ys`), `slice` is the cut/copy;
`Tree`/`replaceAt`/`subtreeAt` is node replacement at a path of child indices (`FST.replace` on `root.child_from_path`).
These are the specifications the sweep compares the real operations against (`ast.dump` before = after).
-/
namespace Pfst.PutBack

def slice {α} (xs : List α) (s e : Nat) : List α := (xs.drop s).take (e - s)

def putSlice {α} (xs : List α) (s e : Nat) (ys : List α) : List α := xs.take s ++ ys ++ xs.drop e

inductive Tree where
  | node (kind : Nat) (kids : List Tree)
deriving Repr, Inhabited

mutual
def subtreeAt : Tree → List Nat → Option Tree
  | .node kd ks, [] => some (.node kd ks)
  | .node _ ks, i :: p => subAtList ks i p
def subAtList : List Tree → Nat → List Nat → Option Tree
  | [], _, _ => none
  | k :: _, 0, p => subtreeAt k p
  | _ :: ks, i + 1, p => subAtList ks i p
end

mutual
def replaceAt : Tree → List Nat → Tree → Tree
  | .node _ _, [], u => u
  | .node kd ks, i :: p, u => .node kd (replAtList ks i p u)
def replAtList : List Tree → Nat → List Nat → Tree → List Tree
  | [], _, _, _ => []
  | k :: ks, 0, p, u => replaceAt k p u :: ks
  | k :: ks, i + 1, p, u => k :: replAtList ks i p u
end

end Pfst.PutBack
