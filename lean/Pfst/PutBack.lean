/-
List and tree algebra behind the structural round trips of property C08 (no imports).

`putSlice xs s e ys` is what every slice put of pfst does to a list field (`body[s:e] = ys`), `slice` is the cut/copy;
`Tree`/`replaceAt`/`subtreeAt` is node replacement at a path of child indices (`FST.replace` on `root.child_from_path`).
These are the specifications the sweep compares the real operations against (`ast.dump` before = after).
-/
namespace Pfst.PutBack

def slice {α} (xs : List α) (s e : Nat) : List α := (xs.drop s).take (e - s)

def putSlice {α} (xs : List α) (s e : Nat) (ys : List α) : List α := xs.take s ++ ys ++ xs.drop e

inductive Tree where
  | node (kind : Nat) (kids : List Tree)
deriving Repr, Inhabited

mutual
def subtreeAt : Tree → List Nat → Option Tree
  | .node kd ks, [] => some (.node kd ks)
  | .node _ ks, i :: p => subAtList ks i p
def subAtList : List Tree → Nat → List Nat → Option Tree
  | [], _, _ => none
  | k :: _, 0, p => subtreeAt k p
  | _ :: ks, i + 1, p => subAtList ks i p
end

mutual
def replaceAt : Tree → List Nat → Tree → Tree
  | .node _ _, [], u => u
  | .node kd ks, i :: p, u => .node kd (replAtList ks i p u)
def replAtList : List Tree → Nat → List Nat → Tree → List Tree
  | [], _, _, _ => []
  | k :: ks, 0, p, u => replaceAt k p u :: ks
  | k :: ks, i + 1, p, u => k :: replAtList ks i p u
end

/-! ### the `else:` ↔ `elif` decision of a statement-slice replacement

`SrcEdit.put_slice_stmt` (src/fst/slice_stmtlike.py), replacement branch: what happens to the block header when the
statements `[start, stop)` of a block are replaced. -/

/-- what the code looks at -/
structure ElifCase where
  hasPre : Bool         -- `fpre`: a statement of the block stays before the replaced range
  hasPost : Bool        -- `fpost`: a statement of the block stays after it
  isOrelse : Bool       -- the field is `orelse`
  tgtIsIf : Bool        -- the statement owning the block is an `If`
  optElif : Bool        -- effective `elif_` option
  oldIsElif : Bool      -- `orelse[0].is_elif()` before the edit
  putLen : Nat          -- number of statements put
  putFirstIsIf : Bool   -- the first statement put is an `If`
deriving Repr, DecidableEq

inductive HeaderAction where
  | keep        -- header untouched, new statements indented to the block
  | toElif      -- `else:` removed, the `if` put becomes `elif` at header indentation
  | toElse      -- the old `elif` becomes `else:` plus an indented body
deriving Repr, DecidableEq

def elifDecision (c : ElifCase) : HeaderAction :=
  if !c.hasPre && !c.hasPost && c.isOrelse && c.tgtIsIf then
    if c.optElif && c.putLen == 1 && c.putFirstIsIf then .toElif
    else if c.oldIsElif then .toElse
    else .keep
  else .keep

/-- Specification (Python grammar): an `elif` may stand for the `orelse` of an `If` exactly when that `orelse` consists of
the one `If` statement — the replaced range must cover the whole block and a single `If` must be put. -/
def elifAllowed (c : ElifCase) : Bool :=
  !c.hasPre && !c.hasPost && c.isOrelse && c.tgtIsIf && c.putLen == 1 && c.putFirstIsIf

end Pfst.PutBack
