/-!
# Pfst.SynOrder — the six child orders of `syntax_ordered_children` that are not plain field order (property C14)

Import-free.  Mirrors `src/fst/astutil.py` `_syntax_ordered_children_{Call,ClassDef,Dict,Compare,arguments,MatchMapping}`.
Children are represented by their ids (`Nat`); for Call/ClassDef by `PNode` = start position + id + "is a Starred".
-/
namespace Pfst.SynOrder

structure PNode where
  ln : Nat
  col : Nat
  id : Nat
  star : Bool
deriving DecidableEq, Repr

/-- `(a.lineno, a.col_offset) > (b.lineno, b.col_offset)` (tuple comparison) -/
def posGt (a b : PNode) : Bool := decide (a.ln > b.ln) || (a.ln == b.ln && decide (a.col > b.col))

/-- The mixed portion of `_syntax_ordered_children_Call` / `_ClassDef` ("walk over the mixed portion putting the lower
position element each time").  `turnK = true`: an `arg` (`pend`) has been taken off `args`, the code is in
`while kws: kw = kws.pop(); if kw_pos > arg_pos: break; children.append(kw)` (while-else: append arg, the other args).
`turnK = false`: a `kw` (`pend`) is pending, the code is in `while args: arg = args.pop(); if arg_pos > kw_pos: break;
children.append(arg)` (while-else: append kw, the other kws).  After a `break` the pending element of the other kind
is appended and the roles swap (`children.append(arg)` resp. the `children.append(kw)` at the top of `while True`). -/
def mix (turnK : Bool) (pend : PNode) (as ks : List PNode) : List PNode :=
  if turnK then
    match ks with
    | [] => pend :: as
    | k :: ks' => if posGt k pend then pend :: mix false k as ks' else k :: mix true pend as ks'
  else
    match as with
    | [] => pend :: ks
    | a :: as' => if posGt a pend then pend :: mix true a as' ks else a :: mix false pend as' ks
termination_by as.length + ks.length
decreasing_by all_goals simp_wf <;> omega

/-- `args`/`bases` and `keywords` part of the child list -/
def mergeArgsKws (args kws : List PNode) : List PNode :=
  match args.getLast?, kws with
  | none, _ => args ++ kws                       -- not args
  | _, [] => args ++ kws                         -- not kws
  | some last, kw0 :: kwt =>
    if !last.star then args ++ kws               -- args[-1].__class__ is not Starred
    else mix false kw0 args kwt                  -- stars and keywords can be mixed

/-- `_syntax_ordered_children_Call` -/
def callOrder (func : Nat) (args kws : List PNode) : List Nat :=
  func :: (mergeArgsKws args kws).map PNode.id

/-- `_syntax_ordered_children_ClassDef` (py >= 3.12) -/
def classDefOrder (decos tparams : List Nat) (bases kws : List PNode) (body : List Nat) : List Nat :=
  decos ++ tparams ++ (mergeArgsKws bases kws).map PNode.id ++ body

/-- `for i in range(len(keys)): children.append(keys[i]); children.append(values[i])`; `None` keys are dropped by the
consumers of the list (`if not (ast := stack.pop()): continue`) -/
def zipKV : List (Option Nat) → List Nat → List Nat
  | [], _ => []
  | _ :: _, [] => []                                   -- IndexError in the code (malformed tree)
  | some k :: ks, v :: vs => k :: v :: zipKV ks vs
  | none :: ks, v :: vs => v :: zipKV ks vs

/-- `_syntax_ordered_children_Dict`, `_syntax_ordered_children_MatchMapping` (keys are never None there) -/
def dictOrder (keys : List (Option Nat)) (values : List Nat) : List Nat := zipKV keys values

def interleave : List Nat → List Nat → List Nat
  | a :: as, b :: bs => a :: b :: interleave as bs
  | _, _ => []

/-- `_syntax_ordered_children_Compare`, including the transient shapes with `len(ops) != len(comparators)` -/
def compareOrder (left : Nat) (ops comps : List Nat) : List Nat :=
  let nops := ops.length
  let ncomps := comps.length
  if nops < ncomps then left :: (interleave ops (comps.take nops) ++ comps.drop nops)
  else if nops == ncomps then left :: interleave ops comps
  else left :: (interleave (ops.take ncomps) comps ++ ops.drop ncomps)

/-- `_syntax_ordered_children_arguments` -/
def argumentsOrder (po args defaults : List Nat) (vararg : Option Nat) (kwonly : List Nat)
    (kwDefaults : List (Option Nat)) (kwarg : Option Nat) : List Nat :=
  let ld := defaults.length
  let la := args.length
  let head :=
    if defaults.isEmpty then po ++ args
    else if ld ≤ la then
      po ++ args.take (la - ld) ++ interleave (args.drop (la - ld)) defaults
    else
      let lpd := ld - la
      po.take (po.length - lpd) ++ interleave (po.drop (po.length - lpd)) (defaults.take lpd)
        ++ interleave args (defaults.drop lpd)
  head ++ vararg.toList
    ++ (if kwDefaults.isEmpty then kwonly else zipAD kwonly kwDefaults)
    ++ kwarg.toList
where
  /-- `for a, d in zip(kwonlyargs, kw_defaults): append(a); append(d)` (`d` may be None) -/
  zipAD : List Nat → List (Option Nat) → List Nat
    | a :: as, some d :: ds => a :: d :: zipAD as ds
    | a :: as, none :: ds => a :: zipAD as ds
    | _, _ => []

end Pfst.SynOrder
