import Pfst.Raw
/-! Helper lemmas for the raw reparse model (`Pfst/Raw.lean`). -/
namespace Pfst.Raw

theorem utf8Len_append (a b : Line) : utf8Len (a ++ b) = utf8Len a + utf8Len b := by
  simp [utf8Len, List.map_append, List.sum_append]

theorem utf8Len_spaces (n : Nat) : utf8Len (spaces n) = n := by
  induction n with
  | zero => rfl
  | succ k ih =>
    have : spaces (k + 1) = ' ' :: spaces k := rfl
    rw [this]
    simp only [utf8Len, List.map_cons, List.sum_cons] at ih ⊢
    rw [ih]
    have : Char.utf8Size ' ' = 1 := by decide
    omega

theorem spaces_length (n : Nat) : (spaces n).length = n := by simp [spaces]

/-- a line whose characters are all one byte long -/
def Ascii (l : Line) : Prop := ∀ c ∈ l, c.utf8Size = 1

theorem utf8Len_ascii (l : Line) (h : Ascii l) : utf8Len l = l.length := by
  induction l with
  | nil => rfl
  | cons c t ih =>
    have hc : c.utf8Size = 1 := h c (by simp)
    have ht : Ascii t := fun d hd => h d (by simp [hd])
    simp only [utf8Len, List.map_cons, List.sum_cons, List.length_cons] at ih ⊢
    rw [ih ht, hc]; omega

theorem ascii_take (l : Line) (n : Nat) (h : Ascii l) : Ascii (l.take n) :=
  fun c hc => h c (List.mem_of_mem_take hc)

theorem ascii_append (a b : Line) (ha : Ascii a) (hb : Ascii b) : Ascii (a ++ b) := by
  intro c hc
  rcases List.mem_append.mp hc with h | h
  · exact ha c h
  · exact hb c h

theorem ascii_spaces (n : Nat) : Ascii (spaces n) := by
  intro c hc
  have : c = ' ' := by simpa [spaces] using (List.eq_of_mem_replicate hc)
  subst this; decide

theorem pcolIndent_length (indent : Line) (pcol : Nat) : (pcolIndent indent pcol).length = pcol := by
  unfold pcolIndent
  simp only
  split
  · rw [List.length_append, spaces_length]; omega
  · rw [List.length_take]; omega

theorem pcolIndent_ascii (indent : Line) (pcol : Nat) (h : Ascii indent) : Ascii (pcolIndent indent pcol) := by
  unfold pcolIndent
  simp only
  split
  · exact ascii_append _ _ h (ascii_spaces _)
  · exact ascii_take _ _ h

theorem lineAt_append_left (a b : Lines) (i : Nat) (h : i < a.length) : lineAt (a ++ b) i = lineAt a i := by
  simp [lineAt, List.getD_eq_getElem?_getD, List.getElem?_append_left h]

theorem lineAt_append_right (a b : Lines) (i : Nat) (h : a.length ≤ i) : lineAt (a ++ b) i = lineAt b (i - a.length) := by
  simp [lineAt, List.getD_eq_getElem?_getD, List.getElem?_append_right h]

theorem lineAt_cons_succ (a : Line) (b : Lines) (i : Nat) : lineAt (a :: b) (i + 1) = lineAt b i := by
  simp [lineAt]

theorem lineAt_cons_zero (a : Line) (b : Lines) : lineAt (a :: b) 0 = a := by
  simp [lineAt]

theorem slice_length (lines : Lines) (a b : Nat) (h : b ≤ lines.length) : (slice lines a b).length = b - a := by
  simp [slice, List.length_take, List.length_drop]; omega

theorem lineAt_slice (lines : Lines) (a b i : Nat) (h : i < b - a) : lineAt (slice lines a b) i = lineAt lines (a + i) := by
  simp [lineAt, slice, List.getD_eq_getElem?_getD, h, List.getElem?_drop]

end Pfst.Raw
