import Pfst.Scan

namespace Pfst.Scan

/-! ## Part 1: `bistr` -/

@[simp] theorem byteLen_nil : byteLen [] = 0 := rfl
@[simp] theorem byteLen_cons (a : Char) (r : Line) : byteLen (a :: r) = a.utf8Size + byteLen r := rfl

theorem byteLen_append (l1 l2 : Line) : byteLen (l1 ++ l2) = byteLen l1 + byteLen l2 := by
  induction l1 with
  | nil => simp
  | cons a r ih => simp [ih, Nat.add_assoc]

@[simp] theorem c2bRaw_zero (l : Line) : c2bRaw l 0 = 0 := by simp [c2bRaw]
@[simp] theorem c2bRaw_nil (c : Nat) : c2bRaw [] c = 0 := by simp [c2bRaw]
@[simp] theorem c2bRaw_cons_succ (a : Char) (r : Line) (c : Nat) :
    c2bRaw (a :: r) (c + 1) = a.utf8Size + c2bRaw r c := by simp [c2bRaw]

theorem c2bRaw_append (l1 l2 : Line) (c : Nat) :
    c2bRaw (l1 ++ l2) (l1.length + c) = byteLen l1 + c2bRaw l2 c := by
  unfold c2bRaw
  rw [List.take_length_add_append]
  exact byteLen_append ..

theorem c2bRaw_length (l : Line) : c2bRaw l l.length = byteLen l := by simp [c2bRaw]

theorem c2bRaw_of_length_le {l : Line} {c : Nat} (h : l.length ≤ c) : c2bRaw l c = byteLen l := by
  simp [c2bRaw, List.take_of_length_le h]

theorem c2bRaw_mono {l : Line} {c c' : Nat} (h : c ≤ c') : c2bRaw l c ≤ c2bRaw l c' := by
  induction l generalizing c c' with
  | nil => simp
  | cons a r ih =>
    cases c with
    | zero => simp
    | succ c =>
      cases c' with
      | zero => omega
      | succ c' =>
        have := @ih c c' (by omega)
        simp; omega

theorem c2bRaw_strictMono {l : Line} {c c' : Nat} (h : c < c') (h' : c' ≤ l.length) :
    c2bRaw l c < c2bRaw l c' := by
  induction l generalizing c c' with
  | nil => simp at h'; omega
  | cons a r ih =>
    cases c' with
    | zero => omega
    | succ c' =>
      cases c with
      | zero =>
        have := Char.utf8Size_pos a
        simp; omega
      | succ c =>
        have := @ih c c' (by omega) (by simpa using h')
        simp; omega

theorem c2bRaw_le_byteLen (l : Line) (c : Nat) : c2bRaw l c ≤ byteLen l := by
  by_cases h : c ≤ l.length
  · rw [← c2bRaw_length l]; exact c2bRaw_mono h
  · rw [c2bRaw_of_length_le (by omega)]; exact Nat.le_refl _

theorem c2bRaw_ascii {l : Line} {c : Nat} (h : ∀ ch ∈ l, ch.utf8Size = 1) (hc : c ≤ l.length) :
    c2bRaw l c = c := by
  induction l generalizing c with
  | nil => simp at hc; simp [hc]
  | cons a r ih =>
    cases c with
    | zero => simp
    | succ c =>
      have h1 := h a (by simp)
      have := @ih c (fun ch hch => h ch (by simp [hch])) (by simpa using hc)
      simp; omega

theorem length_le_byteLen (l : Line) : l.length ≤ byteLen l := by
  induction l with
  | nil => simp
  | cons a r ih => have := Char.utf8Size_pos a; simp; omega

theorem isAscii_iff {l : Line} : isAscii l = true ↔ ∀ ch ∈ l, ch.utf8Size = 1 := by
  unfold isAscii
  induction l with
  | nil => simp
  | cons a r ih =>
    have h1 := Char.utf8Size_pos a
    have h2 := length_le_byteLen r
    simp only [byteLen_cons, List.length_cons, beq_iff_eq, List.mem_cons, forall_eq_or_imp] at ih ⊢
    constructor
    · intro h
      have : byteLen r = r.length := by omega
      exact ⟨by omega, ih.mp this⟩
    · intro ⟨ha, hr⟩
      have := ih.mpr hr
      omega

theorem c2b_ascii {l : Line} {c : Nat} (h : isAscii l = true) : c2b l c = some c ∧ b2c l c = some c := by
  simp [c2b, b2c, h]

theorem b2cAux_c2bRaw {l : Line} {i c : Nat} (hc : c ≤ l.length) : b2cAux l i (c2bRaw l c) = i + c := by
  induction l generalizing i c with
  | nil => simp at hc; simp [hc, b2cAux]
  | cons a r ih =>
    cases c with
    | zero =>
      have := Char.utf8Size_pos a
      simp [b2cAux, this]
    | succ c =>
      have := @ih (i + 1) c (by simpa using hc)
      rw [c2bRaw_cons_succ]
      unfold b2cAux
      rw [if_neg (by omega), Nat.add_sub_cancel_left, this]; omega

theorem b2c_c2b (l : Line) (c : Nat) (hc : c ≤ l.length) : (c2b l c).bind (b2c l) = some c := by
  unfold c2b b2c
  by_cases h : isAscii l = true
  · simp [h]
  · simp [h, hc, c2bRaw_le_byteLen, b2cAux_c2bRaw hc]

theorem b2cAux_shift (l : Line) (i b : Nat) : b2cAux l i b = i + b2cAux l 0 b := by
  induction l generalizing i b with
  | nil => simp [b2cAux]
  | cons a r ih =>
    unfold b2cAux
    split
    · rfl
    · rw [ih (i + 1), ih (0 + 1)]; omega

theorem b2cAux_inside {l : Line} {c b : Nat} (hc : c < l.length) (h1 : c2bRaw l c ≤ b)
    (h2 : b < c2bRaw l (c + 1)) : b2cAux l 0 b = c := by
  induction l generalizing c b with
  | nil => simp at hc
  | cons a r ih =>
    cases c with
    | zero =>
      simp at h2
      simp [b2cAux, h2]
    | succ c =>
      simp at h1 h2 hc
      have := @ih c (b - a.utf8Size) hc (by omega) (by omega)
      unfold b2cAux
      rw [if_neg (by omega), b2cAux_shift, this]; omega

theorem b2cAux_le_length (l : Line) (b : Nat) : b2cAux l 0 b ≤ l.length := by
  induction l generalizing b with
  | nil => simp [b2cAux]
  | cons a r ih =>
    unfold b2cAux
    split
    · omega
    · rw [b2cAux_shift]; have := ih (b - a.utf8Size); simp; omega

theorem c2bRaw_b2cAux_le {l : Line} {b : Nat} (hb : b ≤ byteLen l) : c2bRaw l (b2cAux l 0 b) ≤ b := by
  induction l generalizing b with
  | nil => simp [b2cAux]
  | cons a r ih =>
    unfold b2cAux
    split
    · simp
    · simp at hb
      have := @ih (b - a.utf8Size) (by omega)
      rw [b2cAux_shift, Nat.add_comm 1, c2bRaw_cons_succ]; omega

/-- the other half: `b` lies strictly before the start of the next character -/
theorem lt_c2bRaw_b2cAux_succ {l : Line} {b : Nat} (hb : b < byteLen l) :
    b < c2bRaw l (b2cAux l 0 b + 1) := by
  induction l generalizing b with
  | nil => simp at hb
  | cons a r ih =>
    unfold b2cAux
    split
    · simp; omega
    · simp at hb
      have := @ih (b - a.utf8Size) (by omega)
      rw [b2cAux_shift, Nat.add_comm 1, c2bRaw_cons_succ]; omega

/-- `bistr.b2c` on a non-ASCII line: every byte offset inside character `c` answers `c` -/
theorem b2c_inside {l : Line} {c b : Nat} (hna : isAscii l = false) (hc : c < l.length) (h1 : c2bRaw l c ≤ b)
    (h2 : b < c2bRaw l (c + 1)) : b2c l b = some c := by
  have : b ≤ byteLen l := Nat.le_of_lt (Nat.lt_of_lt_of_le h2 (c2bRaw_le_byteLen l (c + 1)))
  simp [b2c, hna, this, b2cAux_inside hc h1 h2]

/-- `bistr.b2c` rounds down to a character start: `c2b (b2c b) ≤ b < c2b (b2c b + 1)` -/
theorem b2c_bracket {l : Line} {b c : Nat} (hna : isAscii l = false) (h : b2c l b = some c) :
    c ≤ l.length ∧ c2bRaw l c ≤ b ∧ (b < byteLen l → b < c2bRaw l (c + 1)) := by
  unfold b2c at h
  simp only [hna, Bool.false_eq_true, ↓reduceIte] at h
  split at h
  · rename_i hb
    simp only [Option.some.injEq] at h
    subst h
    exact ⟨b2cAux_le_length l b, c2bRaw_b2cAux_le hb, fun hlt => lt_c2bRaw_b2cAux_succ hlt⟩
  · simp at h

/-- `c2b` after `b2c` on a non-ASCII line is the start of the character holding byte `b` -/
theorem c2b_b2c_le {l : Line} {b : Nat} (hna : isAscii l = false) (hb : b ≤ byteLen l) :
    ∃ b', (b2c l b).bind (c2b l) = some b' ∧ b' ≤ b := by
  refine ⟨c2bRaw l (b2cAux l 0 b), ?_, c2bRaw_b2cAux_le hb⟩
  simp [b2c, c2b, hna, hb, b2cAux_le_length]

/-! ## Part 2: the regex match -/

section ListAux
variable {α : Type}

theorem span_unique {p : α → Bool} {a b : List α} (ha : ∀ x ∈ a, p x = true)
    (hb : ∀ x, b.head? = some x → p x = false) :
    (a ++ b).takeWhile p = a ∧ (a ++ b).dropWhile p = b := by
  induction a with
  | nil =>
    cases b with
    | nil => simp
    | cons x t => have := hb x rfl; simp [this]
  | cons x a ih =>
    have h1 := ha x (by simp)
    have h2 := ih (fun y hy => ha y (by simp [hy]))
    simp [h1, h2]

theorem mem_takeWhile_true {p : α → Bool} {l : List α} {x : α} (h : x ∈ l.takeWhile p) : p x = true := by
  induction l with
  | nil => simp at h
  | cons a r ih =>
    rw [List.takeWhile_cons] at h
    split at h
    · rcases List.mem_cons.mp h with h | h
      · subst h; assumption
      · exact ih h
    · simp at h

theorem head?_dropWhile_false {p : α → Bool} {l : List α} {x : α} (h : (l.dropWhile p).head? = some x) :
    p x = false := by
  have := List.head?_dropWhile_not p l
  rw [h] at this
  exact this

theorem take_drop_of_decomp {l A T R : List α} (h : l = A ++ T ++ R) :
    (l.take (A.length + T.length)).drop A.length = T := by
  subst h
  rw [← List.length_append, List.take_left']
  · simp
  · rfl

end ListAux

/-- the window `l[pos:endpos]` with both ends clipped to the line, as `Pattern.match(l, pos, endpos)` sees it -/
def win (l : Line) (pos ep : Nat) : Line := (l.take (min ep l.length)).drop (min pos l.length)

theorem win_length (l : Line) (pos ep : Nat) : (win l pos ep).length = min ep l.length - min pos l.length := by
  simp [win]

theorem win_getElem? (l : Line) (pos ep i : Nat) :
    (win l pos ep)[i]? = if min pos l.length + i < min ep l.length then l[min pos l.length + i]? else none := by
  simp [win, List.getElem?_drop, List.getElem?_take]

/-- the line is `prefix ++ window ++ suffix` -/
theorem win_decomp (l : Line) (pos ep : Nat) (h : min pos l.length ≤ min ep l.length) :
    l = l.take (min pos l.length) ++ win l pos ep ++ l.drop (min ep l.length) := by
  unfold win
  have : l.take (min pos l.length) = (l.take (min ep l.length)).take (min pos l.length) := by
    rw [List.take_take, Nat.min_eq_left h]
  rw [this, List.take_append_drop, List.take_append_drop]

theorem isCode_imp_not_isSpace {c : Char} (h : isCode c = true) : isSpace c = false := by
  simp [isCode] at h; simp [h]

theorem isCode_ne_hash {c : Char} (h : isCode c = true) : c ≠ '#' := by
  simp [isCode] at h; simp [h]

theorem isCode_ne_bslash {c : Char} (h : isCode c = true) : c ≠ '\\' := by
  simp [isCode] at h; simp [h]

theorem not_code_cases {c : Char} (h : isCode c = false) (hs : isSpace c = false) : c = '#' ∨ c = '\\' := by
  simp [isCode, hs] at h
  by_cases h1 : c = '#'
  · exact Or.inl h1
  · exact Or.inr (h h1)

/-- What group 1 (`tok`) and the text after it (`rest`) look like, per alternative of the pattern. -/
def TokSpec (cm lc : Bool) (tok rest : Line) : Prop :=
  (tok ≠ [] ∧ tok.all isCode = true ∧ ∀ x, rest.head? = some x → isCode x = false) ∨
  (cm = true ∧ tok.head? = some '#' ∧ tok.all notNl = true ∧ ∀ x, rest.head? = some x → x = '\n') ∨
  (lc = true ∧ tok = ['\\'] ∧ atEnd rest = true)

/-- `reMatch` computed from any decomposition of the window into leading spaces and a rest that does not start with
a space. -/
theorem reMatch_decomp {cm lc : Bool} {l : Line} {pos ep : Nat} {sp rest : Line}
    (hpe : min pos l.length ≤ min ep l.length) (hw : win l pos ep = sp ++ rest)
    (hsp : sp.all isSpace = true) (hr : ∀ x, rest.head? = some x → isSpace x = false) :
    reMatch cm lc l pos ep =
      match rest with
      | [] => none
      | ch :: t =>
        if isCode ch then
          some ⟨min pos l.length + sp.length, min pos l.length + sp.length + (rest.takeWhile isCode).length⟩
        else if ch == '#' then
          (if cm then
            some ⟨min pos l.length + sp.length, min pos l.length + sp.length + (rest.takeWhile notNl).length⟩
           else none)
        else if ch == '\\' then
          (if lc && atEnd t then some ⟨min pos l.length + sp.length, min pos l.length + sp.length + 1⟩ else none)
        else none := by
  have hu := span_unique (List.all_eq_true.mp hsp) hr
  unfold win at hw
  unfold reMatch
  simp only [Nat.not_lt.mpr hpe, ↓reduceIte, hw, hu.1, hu.2]
  cases rest <;> rfl

/-- the canonical decomposition -/
theorem win_canon (l : Line) (pos ep : Nat) :
    win l pos ep = (win l pos ep).takeWhile isSpace ++ (win l pos ep).dropWhile isSpace ∧
    ((win l pos ep).takeWhile isSpace).all isSpace = true ∧
    ∀ x, ((win l pos ep).dropWhile isSpace).head? = some x → isSpace x = false :=
  ⟨List.takeWhile_append_dropWhile.symm, List.all_eq_true.mpr (fun _ h => mem_takeWhile_true h),
   fun _ h => head?_dropWhile_false h⟩

theorem reMatch_clip {cm lc : Bool} {l : Line} {pos ep : Nat} (h : min ep l.length < min pos l.length) :
    reMatch cm lc l pos ep = none := by
  unfold reMatch; simp [h]

theorem reMatch_iff {cm lc : Bool} {l : Line} {pos ep : Nat} {m : M} :
    reMatch cm lc l pos ep = some m ↔
      min pos l.length ≤ min ep l.length ∧
      ∃ sp tok rest, win l pos ep = sp ++ tok ++ rest ∧ sp.all isSpace = true ∧ TokSpec cm lc tok rest ∧
        m = ⟨min pos l.length + sp.length, min pos l.length + sp.length + tok.length⟩ := by
  constructor
  · intro h
    by_cases hpe : min pos l.length ≤ min ep l.length
    · refine ⟨hpe, ?_⟩
      obtain ⟨hw, hsp, hr⟩ := win_canon l pos ep
      rw [reMatch_decomp hpe hw hsp hr] at h
      generalize (win l pos ep).takeWhile isSpace = sp at *
      generalize (win l pos ep).dropWhile isSpace = rest at *
      cases rest with
      | nil => simp at h
      | cons ch t =>
        simp only at h
        split at h
        · rename_i hc
          refine ⟨sp, (ch :: t).takeWhile isCode, (ch :: t).dropWhile isCode, ?_, hsp, Or.inl ⟨?_, ?_, ?_⟩, ?_⟩
          · rw [List.append_assoc, List.takeWhile_append_dropWhile]; exact hw
          · simp [hc]
          · exact List.all_eq_true.mpr (fun _ hx => mem_takeWhile_true hx)
          · intro x hx
            exact head?_dropWhile_false hx
          · simpa using h.symm
        · split at h
          · rename_i hh
            split at h
            · rename_i hcm
              have hch : ch = '#' := by simpa using hh
              subst hch
              refine ⟨sp, ('#' :: t).takeWhile notNl, ('#' :: t).dropWhile notNl, ?_, hsp,
                Or.inr (Or.inl ⟨hcm, ?_, ?_, ?_⟩), ?_⟩
              · rw [List.append_assoc, List.takeWhile_append_dropWhile]; exact hw
              · simp [List.takeWhile_cons, notNl]
              · exact List.all_eq_true.mpr (fun _ hx => mem_takeWhile_true hx)
              · intro x hx
                have := head?_dropWhile_false hx
                simpa [notNl] using this
              · simpa using h.symm
            · simp at h
          · split at h
            · rename_i hb
              split at h
              · rename_i hlc
                have hch : ch = '\\' := by simpa using hb
                subst hch
                simp only [Bool.and_eq_true] at hlc
                refine ⟨sp, ['\\'], t, ?_, hsp, Or.inr (Or.inr ⟨hlc.1, rfl, hlc.2⟩), ?_⟩
                · simpa using hw
                · simpa using h.symm
              · simp at h
            · simp at h
    · rw [reMatch_clip (by omega)] at h; simp at h
  · rintro ⟨hpe, sp, tok, rest, hw, hsp, hts, rfl⟩
    rw [List.append_assoc] at hw
    rcases hts with ⟨hne, hall, hrest⟩ | ⟨hcm, hhd, hall, hrest⟩ | ⟨hlc, rfl, hrest⟩
    · cases tok with
      | nil => contradiction
      | cons c t =>
        have hc : isCode c = true := (List.all_eq_true.mp hall) c (by simp)
        rw [reMatch_decomp hpe hw hsp (by intro x hx; simp at hx; subst hx; exact isCode_imp_not_isSpace hc)]
        have := (span_unique (List.all_eq_true.mp hall) hrest).1
        simp only [List.cons_append, hc, if_true]
        rw [← List.cons_append, this]
    · cases tok with
      | nil => simp at hhd
      | cons c t =>
        have hc : c = '#' := by simpa using hhd
        subst hc
        rw [reMatch_decomp hpe hw hsp (by intro x hx; simp at hx; subst hx; decide)]
        have := (span_unique (p := notNl) (b := rest) (List.all_eq_true.mp hall)
          (by intro x hx; simp [notNl, hrest x hx])).1
        simp only [List.cons_append, hcm, if_true]
        rw [← List.cons_append, this]
        rfl
    · rw [reMatch_decomp hpe hw hsp (by intro x hx; simp at hx; subst hx; decide)]
      have h1 : isCode '\\' = false := by decide
      have h2 : ('\\' == '#') = false := by decide
      simp [h1, h2, hlc, hrest]

theorem group_of_win {l : Line} {pos ep : Nat} {sp tok rest : Line}
    (hpe : min pos l.length ≤ min ep l.length) (hw : win l pos ep = sp ++ tok ++ rest) :
    group l ⟨min pos l.length + sp.length, min pos l.length + sp.length + tok.length⟩ = tok := by
  have hl := win_decomp l pos ep hpe
  rw [hw] at hl
  have hlen : (l.take (min pos l.length) ++ sp).length = min pos l.length + sp.length := by
    simp [List.length_take]
  have hl' : l = (l.take (min pos l.length) ++ sp) ++ tok ++ (rest ++ l.drop (min ep l.length)) := by
    simpa [List.append_assoc] using hl
  have := take_drop_of_decomp hl'
  rw [hlen] at this
  exact this

theorem TokSpec_ne_nil {cm lc : Bool} {tok rest : Line} (h : TokSpec cm lc tok rest) : tok ≠ [] := by
  rcases h with ⟨h, _⟩ | ⟨_, h, _⟩ | ⟨_, h, _⟩
  · exact h
  · intro h'; simp [h'] at h
  · simp [h]

theorem TokSpec_false_false {tok rest : Line} :
    TokSpec false false tok rest ↔
      tok ≠ [] ∧ tok.all isCode = true ∧ ∀ x, rest.head? = some x → isCode x = false := by
  simp [TokSpec]

/-- (9) the plain pattern `\s*([^\s#\\]+)` -/
theorem reMatch_code_iff {l : Line} {pos ep : Nat} {m : M} :
    reMatch false false l pos ep = some m ↔
      min pos l.length ≤ min ep l.length ∧
      ∃ sp code rest, win l pos ep = sp ++ code ++ rest ∧ sp.all isSpace = true ∧ code ≠ [] ∧
        code.all isCode = true ∧ (∀ x, rest.head? = some x → isCode x = false) ∧
        m = ⟨min pos l.length + sp.length, min pos l.length + sp.length + code.length⟩ ∧ group l m = code := by
  rw [reMatch_iff]
  constructor
  · rintro ⟨hpe, sp, tok, rest, hw, hsp, hts, rfl⟩
    have ⟨h1, h2, h3⟩ := TokSpec_false_false.mp hts
    exact ⟨hpe, sp, tok, rest, hw, hsp, h1, h2, h3, rfl, group_of_win hpe hw⟩
  · rintro ⟨hpe, sp, tok, rest, hw, hsp, h1, h2, h3, hm, _⟩
    exact ⟨hpe, sp, tok, rest, hw, hsp, TokSpec_false_false.mpr ⟨h1, h2, h3⟩, hm⟩

/-- group 1 of a match is the token of the decomposition -/
theorem reMatch_group {cm lc : Bool} {l : Line} {pos ep : Nat} {m : M} (h : reMatch cm lc l pos ep = some m) :
    ∃ sp rest, win l pos ep = sp ++ group l m ++ rest ∧ sp.all isSpace = true ∧ TokSpec cm lc (group l m) rest ∧
      m = ⟨min pos l.length + sp.length, min pos l.length + sp.length + (group l m).length⟩ := by
  obtain ⟨hpe, sp, tok, rest, hw, hsp, hts, rfl⟩ := reMatch_iff.mp h
  rw [group_of_win hpe hw]
  exact ⟨sp, rest, hw, hsp, hts, rfl⟩

/-- What follows the leading spaces of a window on which the pattern does not match. -/
def NoTok (cm lc : Bool) (rest : Line) : Prop :=
  rest = [] ∨ (∃ t, rest = '#' :: t ∧ cm = false) ∨ (∃ t, rest = '\\' :: t ∧ (lc = false ∨ atEnd t = false))

theorem NoTok_head {cm lc : Bool} {rest : Line} (h : NoTok cm lc rest) :
    ∀ x, rest.head? = some x → isSpace x = false := by
  intro x hx
  rcases h with rfl | ⟨t, rfl, _⟩ | ⟨t, rfl, _⟩
  · simp at hx
  · simp at hx; subst hx; decide
  · simp at hx; subst hx; decide

theorem reMatch_none_iff {cm lc : Bool} {l : Line} {pos ep : Nat} :
    reMatch cm lc l pos ep = none ↔
      min ep l.length < min pos l.length ∨
      ∃ sp rest, win l pos ep = sp ++ rest ∧ sp.all isSpace = true ∧ NoTok cm lc rest := by
  constructor
  · intro h
    by_cases hpe : min pos l.length ≤ min ep l.length
    · right
      obtain ⟨hw, hsp, hr⟩ := win_canon l pos ep
      rw [reMatch_decomp hpe hw hsp hr] at h
      refine ⟨_, _, hw, hsp, ?_⟩
      generalize (win l pos ep).dropWhile isSpace = rest at *
      cases rest with
      | nil => exact Or.inl rfl
      | cons ch t =>
        by_cases hc : isCode ch = true
        · simp [hc] at h
        · have hc' : isCode ch = false := by simpa using hc
          rcases not_code_cases hc' (hr ch rfl) with rfl | rfl
          · have h1 : isCode '#' = false := by decide
            simp [h1] at h
            exact Or.inr (Or.inl ⟨t, rfl, h⟩)
          · have h1 : isCode '\\' = false := by decide
            have h2 : ('\\' == '#') = false := by decide
            simp [h1, h2] at h
            refine Or.inr (Or.inr ⟨t, rfl, ?_⟩)
            cases lc with
            | false => exact Or.inl rfl
            | true => exact Or.inr (by simpa using h)
    · left; omega
  · rintro (h | ⟨sp, rest, hw, hsp, hn⟩)
    · exact reMatch_clip h
    · by_cases hpe : min pos l.length ≤ min ep l.length
      · rw [reMatch_decomp hpe hw hsp (NoTok_head hn)]
        rcases hn with rfl | ⟨t, rfl, hcm⟩ | ⟨t, rfl, hlc⟩
        · rfl
        · have h1 : isCode '#' = false := by decide
          simp [h1, hcm]
        · have h1 : isCode '\\' = false := by decide
          have h2 : ('\\' == '#') = false := by decide
          rcases hlc with hlc | hlc <;> simp [h1, h2, hlc]
      · exact reMatch_clip (by omega)

/-- (11) -/
theorem reMatch_none {cm lc : Bool} {l : Line} {pos ep : Nat} (h : reMatch cm lc l pos ep = none)
    (hpe : min pos l.length ≤ min ep l.length) :
    ∃ sp rest, win l pos ep = sp ++ rest ∧ sp.all isSpace = true ∧ NoTok cm lc rest := by
  rcases reMatch_none_iff.mp h with h | h
  · omega
  · exact h

theorem getElem?_mid {α : Type} {A B C : List α} {j : Nat} (h1 : A.length ≤ j) (h2 : j < A.length + B.length) :
    ∃ x, (A ++ B ++ C)[j]? = some x ∧ x ∈ B := by
  have hj : j - A.length < B.length := by omega
  refine ⟨B[j - A.length], ?_, List.getElem_mem hj⟩
  rw [List.append_assoc, List.getElem?_append_right h1, List.getElem?_append_left hj]
  simp

/-- an index of the line that falls into the middle part of a decomposition of the window -/
theorem win_index {l : Line} {pos ep : Nat} {A B C : Line} (hw : win l pos ep = A ++ B ++ C) {i : Nat}
    (h1 : min pos l.length + A.length ≤ i) (h2 : i < min pos l.length + A.length + B.length) :
    i < min ep l.length ∧ ∃ x, l[i]? = some x ∧ x ∈ B := by
  obtain ⟨x, hx, hxB⟩ := getElem?_mid (A := A) (B := B) (C := C) (j := i - min pos l.length)
    (by omega) (by omega)
  rw [← hw, win_getElem?] at hx
  have hi : min pos l.length + (i - min pos l.length) = i := by omega
  rw [hi] at hx
  split at hx
  · exact ⟨by assumption, x, hx, hxB⟩
  · simp at hx

/-- (10), index form -/
theorem reMatch_sound {cm lc : Bool} {l : Line} {pos ep : Nat} {m : M} (h : reMatch cm lc l pos ep = some m) :
    min pos l.length ≤ m.s ∧ m.s < m.e ∧ m.e ≤ min ep l.length ∧
    (∀ i, min pos l.length ≤ i → i < m.s → ∃ c, l[i]? = some c ∧ isSpace c = true) ∧
    ∃ ch, l[m.s]? = some ch ∧ isSpace ch = false ∧
      ((isCode ch = true ∧ (∀ i, m.s ≤ i → i < m.e → ∃ c, l[i]? = some c ∧ isCode c = true) ∧
          (m.e < min ep l.length → ∃ c, l[m.e]? = some c ∧ isCode c = false)) ∨
       (cm = true ∧ ch = '#' ∧ (∀ i, m.s ≤ i → i < m.e → ∃ c, l[i]? = some c ∧ c ≠ '\n') ∧
          (m.e < min ep l.length → l[m.e]? = some '\n')) ∨
       (lc = true ∧ ch = '\\' ∧ m.e = m.s + 1 ∧
          (m.e = min ep l.length ∨ (m.e + 1 = min ep l.length ∧ l[m.e]? = some '\n')))) := by
  obtain ⟨hpe, sp, tok, rest, hw, hsp, hts, rfl⟩ := reMatch_iff.mp h
  have hne := TokSpec_ne_nil hts
  have hlen : sp.length + tok.length + rest.length = min ep l.length - min pos l.length := by
    rw [← win_length, hw]; simp; omega
  have htl : 0 < tok.length := List.length_pos_iff.mpr hne
  -- the character after the token, if the window goes on
  have hnext : min pos l.length + sp.length + tok.length < min ep l.length →
      ∃ c r, rest = c :: r ∧ l[min pos l.length + sp.length + tok.length]? = some c := by
    intro hlt
    cases rest with
    | nil => simp at hlen; omega
    | cons c r =>
      have hw' : win l pos ep = (sp ++ tok) ++ [c] ++ r := by simp [hw]
      obtain ⟨_, x, hx, hxm⟩ := win_index hw' (i := min pos l.length + sp.length + tok.length)
        (by simp; omega) (by simp; omega)
      simp at hxm; subst hxm
      exact ⟨x, r, rfl, hx⟩
  refine ⟨by simp, by simp; omega, by simp; omega, ?_, ?_⟩
  · intro i h1 h2
    have hw' : win l pos ep = [] ++ sp ++ (tok ++ rest) := by simp [hw]
    obtain ⟨_, x, hx, hxm⟩ := win_index hw' (i := i) (by simpa using h1) (by simpa using h2)
    exact ⟨x, hx, List.all_eq_true.mp hsp x hxm⟩
  · have htok : ∀ i, min pos l.length + sp.length ≤ i → i < min pos l.length + sp.length + tok.length →
        ∃ c, l[i]? = some c ∧ c ∈ tok := fun i h1 h2 => (win_index hw h1 h2).2
    cases tok with
    | nil => contradiction
    | cons c0 t0 =>
      have hw' : win l pos ep = sp ++ [c0] ++ (t0 ++ rest) := by simp [hw]
      obtain ⟨_, x, hx, hxm⟩ := win_index hw' (i := min pos l.length + sp.length) (by simp) (by simp)
      simp at hxm; subst hxm
      refine ⟨x, hx, ?_⟩
      rcases hts with ⟨_, hall, hrest⟩ | ⟨hcm, hhd, hall, hrest⟩ | ⟨hlc, htk, hrest⟩
      · have hx0 : isCode x = true := List.all_eq_true.mp hall x (by simp)
        refine ⟨isCode_imp_not_isSpace hx0, Or.inl ⟨hx0, ?_, ?_⟩⟩
        · intro i h1 h2
          obtain ⟨c, hc, hcm⟩ := htok i h1 h2
          exact ⟨c, hc, List.all_eq_true.mp hall c hcm⟩
        · intro hlt
          obtain ⟨c, r, rfl, hc⟩ := hnext hlt
          exact ⟨c, hc, hrest c rfl⟩
      · have hx0 : x = '#' := by simpa using hhd
        subst hx0
        refine ⟨by decide, Or.inr (Or.inl ⟨hcm, rfl, ?_, ?_⟩)⟩
        · intro i h1 h2
          obtain ⟨c, hc, hcm⟩ := htok i h1 h2
          have := List.all_eq_true.mp hall c hcm
          exact ⟨c, hc, by simpa [notNl] using this⟩
        · intro hlt
          obtain ⟨c, r, rfl, hc⟩ := hnext hlt
          rw [← hrest c rfl]; exact hc
      · simp at htk
        obtain ⟨rfl, rfl⟩ := htk
        refine ⟨by decide, Or.inr (Or.inr ⟨hlc, rfl, by simp, ?_⟩)⟩
        simp [atEnd] at hrest
        rcases hrest with rfl | rfl
        · left; simp at hlen ⊢; omega
        · right
          have hlt : min pos l.length + sp.length + ['\\'].length < min ep l.length := by
            simp at hlen ⊢; omega
          obtain ⟨c, r, hcr, hc⟩ := hnext hlt
          simp at hcr
          obtain ⟨rfl, rfl⟩ := hcr
          refine ⟨?_, hc⟩
          simp at hlen ⊢; omega

/-! ## Part 2: `next_frag` -/

/-- the match of line `i` on its part of the range `(ln, col) .. (endLn, endCol)`: from `col` on the first line,
up to `endCol` on the last line, the whole line otherwise -/
def lineMatch (cm lc : Bool) (lines : List Line) (ln col endLn endCol i : Nat) : Option M :=
  reMatch cm lc (lineAt lines i) (if i = ln then col else 0)
    (if i = endLn then endCol else (lineAt lines i).length)

@[simp] theorem fragOf_ln (l : Line) (i : Nat) (m : M) : (fragOf l i m).ln = i := rfl
@[simp] theorem fragOf_col (l : Line) (i : Nat) (m : M) : (fragOf l i m).col = m.s := rfl
@[simp] theorem fragOf_src (l : Line) (i : Nat) (m : M) : (fragOf l i m).src = group l m := rfl

theorem nextLoopA_some {cm lc : Bool} {lines : List Line} {n i col : Nat} {fr : Frag}
    (h : nextLoopA cm lc lines n i col = some fr) :
    i ≤ fr.ln ∧ fr.ln < i + n ∧
    (∃ m, reMatch cm lc (lineAt lines fr.ln) (if fr.ln = i then col else 0) (lineAt lines fr.ln).length = some m ∧
      fr = fragOf (lineAt lines fr.ln) fr.ln m) ∧
    ∀ j, i ≤ j → j < fr.ln →
      reMatch cm lc (lineAt lines j) (if j = i then col else 0) (lineAt lines j).length = none := by
  induction n generalizing i col with
  | zero => simp [nextLoopA] at h
  | succ n ih =>
    unfold nextLoopA at h
    simp only at h
    split at h
    · rename_i m hm
      simp only [Option.some.injEq] at h
      subst h
      refine ⟨by simp, by simp, ⟨m, by simpa using hm, rfl⟩, ?_⟩
      intro j h1 h2; simp at h2; omega
    · rename_i hm
      obtain ⟨h1, h2, ⟨m, h3, h4⟩, h5⟩ := ih h
      refine ⟨by omega, by omega, ⟨m, ?_, h4⟩, ?_⟩
      · have : fr.ln ≠ i := by omega
        simpa [this] using h3
      · intro j hj1 hj2
        by_cases hji : j = i
        · subst hji; simpa using hm
        · have := h5 j (by omega) hj2
          simpa [hji] using this

theorem nextLoopA_none {cm lc : Bool} {lines : List Line} {n i col : Nat}
    (h : nextLoopA cm lc lines n i col = none) :
    ∀ j, i ≤ j → j < i + n →
      reMatch cm lc (lineAt lines j) (if j = i then col else 0) (lineAt lines j).length = none := by
  induction n generalizing i col with
  | zero => intro j h1 h2; omega
  | succ n ih =>
    unfold nextLoopA at h
    simp only at h
    split at h
    · simp at h
    · rename_i hm
      intro j hj1 hj2
      by_cases hji : j = i
      · subst hji; simpa using hm
      · have := ih h j (by omega) (by omega)
        simpa [hji] using this

/-- (12) `next_frag` with `lcont` = `False` / `True`: the fragment is the match of the first line of the range whose
window has a match. -/
theorem nextFrag_spec_flags {lines : List Line} {ln col endLn endCol : Nat} {cm : Bool} {lcont : LCont} {fr : Frag}
    (hl : lcont ≠ .n) (h : nextFrag lines ln col endLn endCol cm lcont = some fr) (hle : ln ≤ endLn) :
    ln ≤ fr.ln ∧ fr.ln ≤ endLn ∧
    (∃ m, lineMatch cm (lcont == .t) lines ln col endLn endCol fr.ln = some m ∧
      fr = fragOf (lineAt lines fr.ln) fr.ln m) ∧
    ∀ i, ln ≤ i → i < fr.ln → lineMatch cm (lcont == .t) lines ln col endLn endCol i = none := by
  unfold nextFrag at h
  by_cases he : endLn = ln
  · subst he
    simp only [beq_self_eq_true, ↓reduceIte, Option.map_eq_some_iff] at h
    obtain ⟨m, hm, rfl⟩ := h
    refine ⟨by simp, by simp, ⟨m, by simpa [lineMatch] using hm, rfl⟩, ?_⟩
    intro i h1 h2; simp at h2; omega
  · have he' : (endLn == ln) = false := by simpa using he
    simp only [he', Bool.false_eq_true, ↓reduceIte] at h
    have key : (match nextLoopA cm (lcont == .t) lines (endLn - ln) ln col with
        | some f => some f
        | none => (reMatch cm (lcont == .t) (lineAt lines endLn) 0 endCol).map (fragOf (lineAt lines endLn) endLn))
        = some fr := by
      cases lcont with
      | n => contradiction
      | f => exact h
      | t => exact h
    clear h
    split at key
    · rename_i f hf
      simp only [Option.some.injEq] at key
      subst key
      obtain ⟨h1, h2, ⟨m, h3, h4⟩, h5⟩ := nextLoopA_some hf
      have hlt : f.ln ≠ endLn := by omega
      refine ⟨h1, by omega, ⟨m, ?_, h4⟩, ?_⟩
      · simpa [lineMatch, hlt] using h3
      · intro i hi1 hi2
        have hie : i ≠ endLn := by omega
        simpa [lineMatch, hie] using h5 i hi1 hi2
    · rename_i hf
      simp only [Option.map_eq_some_iff] at key
      obtain ⟨m, hm, rfl⟩ := key
      refine ⟨by simpa using hle, by simp, ⟨m, ?_, rfl⟩, ?_⟩
      · simpa [lineMatch, he] using hm
      · intro i hi1 hi2
        simp at hi2
        have hie : i ≠ endLn := by omega
        simpa [lineMatch, hie] using nextLoopA_none hf i hi1 (by omega)

theorem nextFrag_none_flags {lines : List Line} {ln col endLn endCol : Nat} {cm : Bool} {lcont : LCont}
    (hl : lcont ≠ .n) (h : nextFrag lines ln col endLn endCol cm lcont = none) (hle : ln ≤ endLn) :
    ∀ i, ln ≤ i → i ≤ endLn → lineMatch cm (lcont == .t) lines ln col endLn endCol i = none := by
  unfold nextFrag at h
  by_cases he : endLn = ln
  · subst he
    simp only [beq_self_eq_true, ↓reduceIte, Option.map_eq_none_iff] at h
    intro i h1 h2
    have : i = endLn := by omega
    subst this
    simpa [lineMatch] using h
  · have he' : (endLn == ln) = false := by simpa using he
    simp only [he', Bool.false_eq_true, ↓reduceIte] at h
    have key : (match nextLoopA cm (lcont == .t) lines (endLn - ln) ln col with
        | some f => some f
        | none => (reMatch cm (lcont == .t) (lineAt lines endLn) 0 endCol).map (fragOf (lineAt lines endLn) endLn))
        = none := by
      cases lcont with
      | n => contradiction
      | f => exact h
      | t => exact h
    clear h
    split at key
    · simp at key
    · rename_i hf
      simp only [Option.map_eq_none_iff] at key
      intro i hi1 hi2
      by_cases hie : i = endLn
      · subst hie; simpa [lineMatch, he] using key
      · simpa [lineMatch, hie] using nextLoopA_none hf i hi1 (by omega)

/-- the window of line `i` inside the range `(ln, col) .. (endLn, endCol)` -/
def lineWin (lines : List Line) (ln col endLn endCol i : Nat) : Line :=
  win (lineAt lines i) (if i = ln then col else 0) (if i = endLn then endCol else (lineAt lines i).length)

/-- (12) `next_frag(..., comment=False, lcont=False)`, the combination used by `next_delims` / `pars` -/
theorem nextFrag_spec {lines : List Line} {ln col endLn endCol : Nat} {fr : Frag}
    (h : nextFrag lines ln col endLn endCol false .f = some fr) (hle : ln ≤ endLn) :
    ln ≤ fr.ln ∧ fr.ln ≤ endLn ∧
    (∃ m, lineMatch false false lines ln col endLn endCol fr.ln = some m ∧
      fr = fragOf (lineAt lines fr.ln) fr.ln m) ∧
    ∀ i, ln ≤ i → i < fr.ln → lineMatch false false lines ln col endLn endCol i = none :=
  nextFrag_spec_flags (by decide) h hle

theorem nextFrag_none {lines : List Line} {ln col endLn endCol : Nat}
    (h : nextFrag lines ln col endLn endCol false .f = none) (hle : ln ≤ endLn) :
    ∀ i, ln ≤ i → i ≤ endLn → lineMatch false false lines ln col endLn endCol i = none :=
  nextFrag_none_flags (by decide) h hle

/-- (12) unfolded with (9) and (11): the fragment is a maximal run of code characters preceded in its window only by
spaces, and every earlier line window of the range is spaces followed by its end, a comment or a backslash. -/
theorem nextFrag_spec_decomp {lines : List Line} {ln col endLn endCol : Nat} {fr : Frag}
    (h : nextFrag lines ln col endLn endCol false .f = some fr) (hle : ln ≤ endLn) :
    ln ≤ fr.ln ∧ fr.ln ≤ endLn ∧
    (∃ sp rest, lineWin lines ln col endLn endCol fr.ln = sp ++ fr.src ++ rest ∧ sp.all isSpace = true ∧
      fr.src ≠ [] ∧ fr.src.all isCode = true ∧ (∀ x, rest.head? = some x → isCode x = false) ∧
      fr.col = min (if fr.ln = ln then col else 0) (lineAt lines fr.ln).length + sp.length) ∧
    ∀ i, ln ≤ i → i < fr.ln →
      ∃ sp rest, lineWin lines ln col endLn endCol i = sp ++ rest ∧ sp.all isSpace = true ∧
        (rest = [] ∨ (∃ t, rest = '#' :: t) ∨ (∃ t, rest = '\\' :: t)) := by
  obtain ⟨h1, h2, ⟨m, h3, h4⟩, h5⟩ := nextFrag_spec h hle
  refine ⟨h1, h2, ?_, ?_⟩
  · obtain ⟨_, sp, code, rest, hw, hsp, hne, hall, hrest, hm, hg⟩ := reMatch_code_iff.mp h3
    have hsrc : fr.src = code := by rw [h4]; exact hg
    have hcol : fr.col = m.s := by rw [h4]; rfl
    refine ⟨sp, rest, by rw [hsrc]; exact hw, hsp, by rw [hsrc]; exact hne, by rw [hsrc]; exact hall, hrest, ?_⟩
    rw [hcol, hm]
  · intro i hi1 hi2
    have hn := h5 i hi1 hi2
    have hpe : min (if i = ln then col else 0) (lineAt lines i).length ≤
        min (if i = endLn then endCol else (lineAt lines i).length) (lineAt lines i).length := by
      have : i ≠ endLn := by omega
      simp only [this, ↓reduceIte, Nat.min_self]
      exact Nat.min_le_right _ _
    obtain ⟨sp, rest, hw, hsp, hnt⟩ := reMatch_none hn hpe
    refine ⟨sp, rest, hw, hsp, ?_⟩
    rcases hnt with h | ⟨t, h, _⟩ | ⟨t, h, _⟩
    · exact Or.inl h
    · exact Or.inr (Or.inl ⟨t, h⟩)
    · exact Or.inr (Or.inr ⟨t, h⟩)

/-! ### `lcont=None`: the scan stays on the logical line -/

/-- the match of loop B (`_re_next_frag_comment_or_lcont`) on line `i` -/
def lineB (lines : List Line) (ln col i : Nat) : Option M :=
  reMatch true true (lineAt lines i) (if i = ln then col else 0) (lineAt lines i).length

/-- line `i` holds, from the start column on, nothing but spaces and a closing line-continuation backslash -/
def IsCont (lines : List Line) (ln col i : Nat) : Prop :=
  ∃ m, lineB lines ln col i = some m ∧ group (lineAt lines i) m = ['\\']

/-- loop B stops at line `k` with the result `r` -/
def StopB (cm : Bool) (lines : List Line) (ln col k : Nat) (r : Option Frag) : Prop :=
  match lineB lines ln col k with
  | none => r = none
  | some m =>
    let s := group (lineAt lines k) m
    s ≠ ['\\'] ∧
    r = if s.head? = some '#' ∧ cm = false then none else some (fragOf (lineAt lines k) k m)

theorem nextLoopB_some {cm : Bool} {lines : List Line} {n i col : Nat} {r : Option Frag}
    (h : nextLoopB cm lines n i col = some r) :
    ∃ k, i ≤ k ∧ k < i + n ∧ (∀ j, i ≤ j → j < k → IsCont lines i col j) ∧ StopB cm lines i col k r := by
  induction n generalizing i col with
  | zero => simp [nextLoopB] at h
  | succ n ih =>
    unfold nextLoopB at h
    simp only at h
    split at h
    · rename_i hm
      simp only [Option.some.injEq] at h
      refine ⟨i, Nat.le_refl _, by omega, by intro j h1 h2; omega, ?_⟩
      simp [StopB, lineB, hm, h]
    · rename_i m hm
      split at h
      · rename_i hh
        simp only [Option.some.injEq] at h
        refine ⟨i, Nat.le_refl _, by omega, by intro j h1 h2; omega, ?_⟩
        have hh' : (group (lineAt lines i) m).head? = some '#' := by simpa using hh
        have hne : group (lineAt lines i) m ≠ ['\\'] := by
          intro hc; rw [hc] at hh'; simp at hh'
        simp only [StopB, lineB, ↓reduceIte, hm]
        refine ⟨hne, ?_⟩
        cases cm <;> simp [hh'] at h ⊢ <;> exact h.symm
      · rename_i hh
        split at h
        · rename_i hb
          simp only [Option.some.injEq] at h
          refine ⟨i, Nat.le_refl _, by omega, by intro j h1 h2; omega, ?_⟩
          have hh' : ¬ (group (lineAt lines i) m).head? = some '#' := by simpa using hh
          have hne : group (lineAt lines i) m ≠ ['\\'] := by simpa using hb
          simp only [StopB, lineB, ↓reduceIte, hm]
          exact ⟨hne, by simp [hh', h]⟩
        · rename_i hb
          have hb' : group (lineAt lines i) m = ['\\'] := by simpa using hb
          obtain ⟨k, hk1, hk2, hk3, hk4⟩ := ih h
          have hki : k ≠ i := by omega
          refine ⟨k, by omega, by omega, ?_, ?_⟩
          · intro j hj1 hj2
            by_cases hji : j = i
            · subst hji
              exact ⟨m, by simpa [lineB] using hm, hb'⟩
            · have := hk3 j (by omega) hj2
              have hji' : j ≠ i + 1 → True := fun _ => trivial
              simpa [IsCont, lineB, hji] using this
          · simpa [StopB, lineB, hki] using hk4

theorem nextLoopB_none {cm : Bool} {lines : List Line} {n i col : Nat}
    (h : nextLoopB cm lines n i col = none) :
    ∀ j, i ≤ j → j < i + n → IsCont lines i col j := by
  induction n generalizing i col with
  | zero => intro j h1 h2; omega
  | succ n ih =>
    unfold nextLoopB at h
    simp only at h
    split at h
    · simp at h
    · rename_i m hm
      split at h
      · simp at h
      · split at h
        · simp at h
        · rename_i hb
          have hb' : group (lineAt lines i) m = ['\\'] := by simpa using hb
          intro j hj1 hj2
          by_cases hji : j = i
          · subst hji
            exact ⟨m, by simpa [lineB] using hm, hb'⟩
          · have := ih h j (by omega) (by omega)
            simpa [IsCont, lineB, hji] using this

theorem StopB_some {cm : Bool} {lines : List Line} {ln col k : Nat} {fr : Frag}
    (h : StopB cm lines ln col k (some fr)) :
    ∃ m, lineB lines ln col k = some m ∧ fr = fragOf (lineAt lines k) k m ∧
      group (lineAt lines k) m ≠ ['\\'] ∧ ((group (lineAt lines k) m).head? = some '#' → cm = true) := by
  unfold StopB at h
  split at h
  · simp at h
  · rename_i m hm
    obtain ⟨h1, h2⟩ := h
    split at h2
    · simp at h2
    · rename_i hc
      simp only [Option.some.injEq] at h2
      refine ⟨m, hm, h2, h1, ?_⟩
      intro hh
      cases cm with
      | true => rfl
      | false => exact absurd ⟨hh, rfl⟩ hc

theorem StopB_none {cm : Bool} {lines : List Line} {ln col k : Nat} (h : StopB cm lines ln col k none) :
    lineB lines ln col k = none ∨
    ∃ m, lineB lines ln col k = some m ∧ (group (lineAt lines k) m).head? = some '#' ∧ cm = false := by
  unfold StopB at h
  split at h
  · rename_i hm; left; exact hm
  · rename_i m hm
    obtain ⟨h1, h2⟩ := h
    split at h2
    · rename_i hc
      exact Or.inr ⟨m, hm, hc⟩
    · simp at h2

/-- (12) `lcont=None`, a fragment is returned: every line before it (inside the range) is, from the start column on, a
lone continuation backslash; the fragment is either the `_re_next_frag_comment_or_lcont` match of a line before
`endLn` (not a lone backslash; a comment only if `comment`), or the plain / comment match of the last line up to
`endCol`. -/
theorem nextFrag_lcontNone_sound {lines : List Line} {ln col endLn endCol : Nat} {cm : Bool} {fr : Frag}
    (h : nextFrag lines ln col endLn endCol cm .n = some fr) (hle : ln ≤ endLn) :
    ln ≤ fr.ln ∧ fr.ln ≤ endLn ∧ (∀ j, ln ≤ j → j < fr.ln → IsCont lines ln col j) ∧
    (fr.ln < endLn →
      ∃ m, lineB lines ln col fr.ln = some m ∧ fr = fragOf (lineAt lines fr.ln) fr.ln m ∧
        group (lineAt lines fr.ln) m ≠ ['\\'] ∧ ((group (lineAt lines fr.ln) m).head? = some '#' → cm = true)) ∧
    (fr.ln = endLn →
      ∃ m, lineMatch cm false lines ln col endLn endCol endLn = some m ∧
        fr = fragOf (lineAt lines endLn) endLn m) := by
  unfold nextFrag at h
  by_cases he : endLn = ln
  · subst he
    have hlc : (LCont.n == LCont.t) = false := by decide
    simp only [beq_self_eq_true, ↓reduceIte, Option.map_eq_some_iff, hlc] at h
    obtain ⟨m, hm, rfl⟩ := h
    refine ⟨by simp, by simp, by intro j h1 h2; simp at h2; omega, by simp, ?_⟩
    intro _
    exact ⟨m, by simpa [lineMatch] using hm, rfl⟩
  · have he' : (endLn == ln) = false := by simpa using he
    have hlc : (LCont.n == LCont.t) = false := by decide
    simp only [he', Bool.false_eq_true, ↓reduceIte, hlc] at h
    split at h
    · rename_i r hr
      subst h
      obtain ⟨k, hk1, hk2, hk3, hk4⟩ := nextLoopB_some hr
      obtain ⟨m, hm1, hm2, hm3, hm4⟩ := StopB_some hk4
      have hk : fr.ln = k := by rw [hm2]; rfl
      subst hk
      refine ⟨hk1, by omega, hk3, fun _ => ⟨m, hm1, hm2, hm3, hm4⟩, ?_⟩
      intro hc; omega
    · rename_i hr
      simp only [Option.map_eq_some_iff] at h
      obtain ⟨m, hm, rfl⟩ := h
      refine ⟨by simpa using hle, by simp, ?_, by simp, ?_⟩
      · intro j hj1 hj2
        simp at hj2
        exact nextLoopB_none hr j hj1 (by omega)
      · intro _
        exact ⟨m, by simpa [lineMatch, he] using hm, rfl⟩

/-- (12) `lcont=None`, nothing is returned: the scan stopped at some line `k` reached through continuation lines
only; line `k` (before `endLn`) has nothing after its leading spaces / has a backslash that is not a continuation, or
starts a comment while `comment=False`; or `k = endLn` and the last window has no match. -/
theorem nextFrag_lcontNone_none {lines : List Line} {ln col endLn endCol : Nat} {cm : Bool}
    (h : nextFrag lines ln col endLn endCol cm .n = none) (hle : ln ≤ endLn) :
    ∃ k, ln ≤ k ∧ k ≤ endLn ∧ (∀ j, ln ≤ j → j < k → IsCont lines ln col j) ∧
      (k < endLn →
        lineB lines ln col k = none ∨
        ∃ m, lineB lines ln col k = some m ∧ (group (lineAt lines k) m).head? = some '#' ∧ cm = false) ∧
      (k = endLn → lineMatch cm false lines ln col endLn endCol endLn = none) := by
  unfold nextFrag at h
  by_cases he : endLn = ln
  · subst he
    have hlc : (LCont.n == LCont.t) = false := by decide
    simp only [beq_self_eq_true, ↓reduceIte, Option.map_eq_none_iff, hlc] at h
    refine ⟨endLn, Nat.le_refl _, Nat.le_refl _, by intro j h1 h2; omega, by omega, ?_⟩
    intro _
    simpa [lineMatch] using h
  · have he' : (endLn == ln) = false := by simpa using he
    have hlc : (LCont.n == LCont.t) = false := by decide
    simp only [he', Bool.false_eq_true, ↓reduceIte, hlc] at h
    split at h
    · rename_i r hr
      subst h
      obtain ⟨k, hk1, hk2, hk3, hk4⟩ := nextLoopB_some hr
      refine ⟨k, hk1, by omega, hk3, fun _ => StopB_none hk4, ?_⟩
      intro hc; omega
    · rename_i hr
      simp only [Option.map_eq_none_iff] at h
      refine ⟨endLn, hle, Nat.le_refl _, ?_, by omega, ?_⟩
      · intro j hj1 hj2
        exact nextLoopB_none hr j hj1 (by omega)
      · intro _
        simpa [lineMatch, he] using h

/-- a continuation line, as a decomposition of its window -/
theorem IsCont_iff {lines : List Line} {ln col i : Nat} :
    IsCont lines ln col i ↔
      ∃ sp rest, win (lineAt lines i) (if i = ln then col else 0) (lineAt lines i).length = sp ++ '\\' :: rest ∧
        sp.all isSpace = true ∧ atEnd rest = true := by
  unfold IsCont lineB
  constructor
  · rintro ⟨m, hm, hg⟩
    obtain ⟨sp, rest, hw, hsp, hts, _⟩ := reMatch_group hm
    rw [hg] at hw hts
    refine ⟨sp, rest, by simpa using hw, hsp, ?_⟩
    rcases hts with ⟨_, h, _⟩ | ⟨_, h, _⟩ | ⟨_, _, h⟩
    · have : isCode '\\' = false := by decide
      simp [this] at h
    · simp at h
    · exact h
  · rintro ⟨sp, rest, hw, hsp, hr⟩
    have hpe : min (if i = ln then col else 0) (lineAt lines i).length ≤
        min (lineAt lines i).length (lineAt lines i).length := by
      rw [Nat.min_self]; exact Nat.min_le_right _ _
    have hw' : win (lineAt lines i) (if i = ln then col else 0) (lineAt lines i).length = sp ++ ['\\'] ++ rest := by
      simpa using hw
    exact ⟨_, reMatch_iff.mpr ⟨hpe, sp, ['\\'], rest, hw', hsp, Or.inr (Or.inr ⟨rfl, rfl, hr⟩), rfl⟩,
      group_of_win hpe hw'⟩

/-! ## Part 2: `prev_frag` on a single line -/

theorem win_drop {l : Line} {c ec k : Nat} (h : c + k ≤ l.length) : win l (c + k) ec = (win l c ec).drop k := by
  unfold win
  rw [Nat.min_eq_left h, Nat.min_eq_left (by omega : c ≤ l.length), List.drop_drop]

theorem reMatch_pos_min (cm lc : Bool) (l : Line) (pos ep : Nat) :
    reMatch cm lc l (min pos l.length) ep = reMatch cm lc l pos ep := by
  unfold reMatch
  have : min (min pos l.length) l.length = min pos l.length := by omega
  simp only [this]

theorem win_pos_min (l : Line) (pos ep : Nat) : win l (min pos l.length) ep = win l pos ep := by
  unfold win
  have : min (min pos l.length) l.length = min pos l.length := by omega
  rw [this]

theorem lastMatchLoop_pos_min (cm : Bool) (lcont : LCont) (pc pl : Bool) (l : Line) (ec fuel c : Nat) (st : List PM) :
    lastMatchLoop cm lcont pc pl l ec fuel (min c l.length) st = lastMatchLoop cm lcont pc pl l ec fuel c st := by
  cases fuel with
  | zero => rfl
  | succ f =>
    conv => lhs; unfold lastMatchLoop
    conv => rhs; unfold lastMatchLoop
    rw [reMatch_pos_min]

/-- a window of spaces ends the `while m := p.match(...)` loop -/
theorem lastMatchLoop_spaces {cm : Bool} {lcont : LCont} {pc pl : Bool} {l : Line} {ec fuel c : Nat} {st : List PM}
    (hw : (win l c ec).all isSpace = true) : lastMatchLoop cm lcont pc pl l ec fuel c st = st := by
  cases fuel with
  | zero => rfl
  | succ f =>
    unfold lastMatchLoop
    rw [reMatch_none_iff.mpr (Or.inr ⟨win l c ec, [], by simp, hw, Or.inl rfl⟩)]

/-- one iteration of the loop on a window `spaces ++ code ++ rest` -/
theorem lastMatchLoop_step {l : Line} {ec fuel c : Nat} {st : List PM} {sp0 code0 rest : Line}
    (hc : c ≤ min ec l.length) (hw : win l c ec = sp0 ++ code0 ++ rest) (hsp0 : sp0.all isSpace = true)
    (hne : code0 ≠ []) (hcode0 : code0.all isCode = true) (hrest : ∀ x, rest.head? = some x → isCode x = false) :
    lastMatchLoop false .f false false l ec (fuel + 1) c st =
      lastMatchLoop false .f false false l ec fuel (c + sp0.length + code0.length)
        (⟨c + sp0.length, c + sp0.length + code0.length, code0⟩ :: st) ∧
    win l (c + sp0.length + code0.length) ec = rest := by
  have hcl : min c l.length = c := Nat.min_eq_left (by omega)
  have hpe : min c l.length ≤ min ec l.length := by omega
  have hm := (reMatch_iff (cm := false) (lc := false)).mpr
    ⟨hpe, sp0, code0, rest, hw, hsp0, Or.inl ⟨hne, hcode0, hrest⟩, rfl⟩
  have hg := group_of_win hpe hw
  rw [hcl] at hm hg
  constructor
  · conv => lhs; unfold lastMatchLoop
    simp only [hm, hg]
    cases code0 with
    | nil => contradiction
    | cons x t =>
      have hx : isCode x = true := List.all_eq_true.mp hcode0 x (by simp)
      have h1 := isCode_ne_hash hx
      have h2 := isCode_ne_bslash hx
      simp [h1, h2]
  · have hlen := win_length l c ec
    rw [hw, hcl] at hlen
    simp at hlen
    rw [Nat.add_assoc, win_drop (by omega), hw, ← List.length_append, List.drop_left]

theorem getLast?_append_ne_nil {α : Type} {a b : List α} (h : b ≠ []) : (a ++ b).getLast? = b.getLast? := by
  rw [List.getLast?_append]
  cases hb : b.getLast? with
  | none => exact absurd (List.getLast?_eq_none_iff.mp hb) h
  | some x => rfl

/-- The loop on a window of spaces and code characters: the top of the stack it leaves is the LAST maximal code run
(`pre` ends with a space or is empty, `sp` is the trailing space). -/
theorem lastMatchLoop_last {l : Line} {ec fuel c : Nat} {st : List PM} {pre code sp : Line}
    (hc : c ≤ min ec l.length) (hw : win l c ec = pre ++ code ++ sp)
    (hpre : pre.all (fun x => isSpace x || isCode x) = true)
    (hlast : ∀ x, pre.getLast? = some x → isSpace x = true)
    (hne : code ≠ []) (hcode : code.all isCode = true) (hsp : sp.all isSpace = true)
    (hf : (win l c ec).length < fuel) :
    (lastMatchLoop false .f false false l ec fuel c st).head? =
      some ⟨c + pre.length, c + pre.length + code.length, code⟩ := by
  induction fuel generalizing c st pre with
  | zero => omega
  | succ fuel ih =>
    have hpd : pre = pre.takeWhile isSpace ++ pre.dropWhile isSpace := List.takeWhile_append_dropWhile.symm
    have hsp0 : (pre.takeWhile isSpace).all isSpace = true :=
      List.all_eq_true.mpr (fun _ h => mem_takeWhile_true h)
    have hx0 : ∀ x, (pre.dropWhile isSpace).head? = some x → isSpace x = false :=
      fun _ h => head?_dropWhile_false h
    generalize pre.takeWhile isSpace = sp0 at hpd hsp0
    generalize pre.dropWhile isSpace = pre1 at hpd hx0
    cases pre1 with
    | nil =>
      simp only [List.append_nil] at hpd
      subst hpd
      have hrest : ∀ x, sp.head? = some x → isCode x = false := by
        intro x hx
        have hs : isSpace x = true := List.all_eq_true.mp hsp x (List.mem_of_mem_head? hx)
        cases hcx : isCode x with
        | false => rfl
        | true => rw [isCode_imp_not_isSpace hcx] at hs; exact absurd hs (by simp)
      obtain ⟨h1, h2⟩ := lastMatchLoop_step (fuel := fuel) (st := st) hc hw hsp0 hne hcode hrest
      rw [h1, lastMatchLoop_spaces (by rw [h2]; exact hsp)]
      rfl
    | cons x pre1' =>
      have hxs : isSpace x = false := hx0 x rfl
      have hall := List.all_eq_true.mp hpre
      have hxc : isCode x = true := by
        have := hall x (by rw [hpd]; simp)
        simpa [hxs] using this
      have hcd : x :: pre1' = (x :: pre1').takeWhile isCode ++ (x :: pre1').dropWhile isCode :=
        List.takeWhile_append_dropWhile.symm
      have hcode0 : ((x :: pre1').takeWhile isCode).all isCode = true :=
        List.all_eq_true.mpr (fun _ h => mem_takeWhile_true h)
      have hne0 : (x :: pre1').takeWhile isCode ≠ [] := by simp [hxc]
      have hy0 : ∀ y, ((x :: pre1').dropWhile isCode).head? = some y → isCode y = false :=
        fun _ h => head?_dropWhile_false h
      generalize (x :: pre1').takeWhile isCode = code0 at hcd hcode0 hne0
      generalize (x :: pre1').dropWhile isCode = pre2 at hcd hy0
      rw [hcd] at hpd
      cases pre2 with
      | nil =>
        exfalso
        simp only [List.append_nil] at hpd
        have hl : pre.getLast? = code0.getLast? := by rw [hpd]; exact getLast?_append_ne_nil hne0
        cases hz : code0.getLast? with
        | none => exact hne0 (List.getLast?_eq_none_iff.mp hz)
        | some z =>
          have hzc : isCode z = true := List.all_eq_true.mp hcode0 z (List.mem_of_getLast? hz)
          have hzs := hlast z (by rw [hl, hz])
          rw [isCode_imp_not_isSpace hzc] at hzs
          exact absurd hzs (by simp)
      | cons y pre2' =>
        have hw' : win l c ec = sp0 ++ code0 ++ ((y :: pre2') ++ code ++ sp) := by
          rw [hw, hpd]; simp [List.append_assoc]
        have hrest : ∀ z, ((y :: pre2') ++ code ++ sp).head? = some z → isCode z = false := by
          intro z hz
          simp at hz; subst hz
          exact hy0 _ rfl
        obtain ⟨h1, h2⟩ := lastMatchLoop_step (fuel := fuel) (st := st) hc hw' hsp0 hne0 hcode0 hrest
        have hlen := win_length l c ec
        rw [hw'] at hlen
        have hcl : min c l.length = c := Nat.min_eq_left (by omega)
        rw [hcl] at hlen
        simp only [List.length_append] at hlen
        have hl0 : 0 < code0.length := List.length_pos_iff.mpr hne0
        have hf' : (win l c ec).length < fuel + 1 := hf
        rw [hw'] at hf'
        simp only [List.length_append] at hf'
        rw [h1]
        have := ih (c := c + sp0.length + code0.length) (pre := y :: pre2')
          (st := ⟨c + sp0.length, c + sp0.length + code0.length, code0⟩ :: st)
          (by omega) h2
          (by
            apply List.all_eq_true.mpr
            intro z hz
            exact hall z (by rw [hpd]; simp [hz]))
          (by
            intro z hz
            apply hlast z
            rw [hpd, getLast?_append_ne_nil (by simp), getLast?_append_ne_nil (by simp)]; exact hz)
          (by rw [h2]; simp only [List.length_append]; omega)
        rw [this, hpd]
        simp only [List.length_append, List.length_cons]
        congr 2 <;> omega

/-- (13) `prev_frag` on one line with `comment=False`, `lcont=False`, no cached state: if the window `col .. endCol`
of the line holds only space and code characters, the result is the last maximal code run of the window. -/
theorem prevFrag_single_partial {lines : List Line} {ln col endCol : Nat} {pre code sp : Line}
    (hw : win (lineAt lines ln) col endCol = pre ++ code ++ sp)
    (hpre : pre.all (fun x => isSpace x || isCode x) = true)
    (hlast : ∀ x, pre.getLast? = some x → isSpace x = true)
    (hne : code ≠ []) (hcode : code.all isCode = true) (hsp : sp.all isSpace = true) :
    prevFrag lines ln col ln endCol false .f =
      some ⟨ln, min col (lineAt lines ln).length + pre.length, code⟩ := by
  have hcol : min col (lineAt lines ln).length ≤ min endCol (lineAt lines ln).length := by
    have h1 := win_length (lineAt lines ln) col endCol
    rw [hw] at h1
    simp only [List.length_append] at h1
    have h2 : 0 < code.length := List.length_pos_iff.mpr hne
    omega
  have hlt : (win (lineAt lines ln) (min col (lineAt lines ln).length) endCol).length <
      (lineAt lines ln).length + 1 := by
    rw [win_length]; omega
  have key := lastMatchLoop_last (l := lineAt lines ln) (ec := endCol) (fuel := (lineAt lines ln).length + 1)
    (c := min col (lineAt lines ln).length) (st := []) hcol (by rw [win_pos_min]; exact hw) hpre hlast hne hcode hsp
    hlt
  rw [lastMatchLoop_pos_min] at key
  unfold prevFrag prevFragSt
  simp only [beq_self_eq_true, ↓reduceIte, lastMatch]
  have hlc : (LCont.f == LCont.t) = false := by decide
  rw [hlc]
  generalize lastMatchLoop false .f false false (lineAt lines ln) endCol ((lineAt lines ln).length + 1) col [] = r
    at key
  cases r with
  | nil => simp at key
  | cons m st' =>
    simp only [List.head?_cons, Option.some.injEq] at key
    subst key
    rfl

/-- (13) the window holds only spaces: nothing is found -/
theorem prevFrag_single_spaces {lines : List Line} {ln col endCol : Nat}
    (hw : (win (lineAt lines ln) col endCol).all isSpace = true) :
    prevFrag lines ln col ln endCol false .f = none := by
  unfold prevFrag prevFragSt
  simp only [beq_self_eq_true, ↓reduceIte, lastMatch]
  rw [lastMatchLoop_spaces hw]
  rfl

/-- (12) completeness: the first line of the range whose window matches is the one `next_frag` answers -/
theorem nextFrag_complete_flags {lines : List Line} {ln col endLn endCol : Nat} {cm : Bool} {lcont : LCont}
    {k : Nat} {m : M} (hl : lcont ≠ .n) (hk1 : ln ≤ k) (hk2 : k ≤ endLn)
    (hm : lineMatch cm (lcont == .t) lines ln col endLn endCol k = some m)
    (hbefore : ∀ i, ln ≤ i → i < k → lineMatch cm (lcont == .t) lines ln col endLn endCol i = none) :
    nextFrag lines ln col endLn endCol cm lcont = some (fragOf (lineAt lines k) k m) := by
  have hle : ln ≤ endLn := Nat.le_trans hk1 hk2
  cases h : nextFrag lines ln col endLn endCol cm lcont with
  | none =>
    have := nextFrag_none_flags hl h hle k hk1 hk2
    rw [hm] at this; simp at this
  | some fr =>
    obtain ⟨h1, h2, ⟨m', h3, h4⟩, h5⟩ := nextFrag_spec_flags hl h hle
    have hk : fr.ln = k := by
      rcases Nat.lt_trichotomy fr.ln k with hlt | heq | hgt
      · have := hbefore fr.ln h1 hlt
        rw [h3] at this; simp at this
      · exact heq
      · have := h5 k hk1 hgt
        rw [hm] at this; simp at this
    rw [hk] at h3 h4
    rw [hm] at h3
    simp only [Option.some.injEq] at h3
    rw [h4, h3]

/-! ## concrete instances (non-vacuity) -/

example : c2b "aé日b".toList 3 = some 6 := by decide
example : b2c "aé日b".toList 2 = some 1 := by decide
example : b2c "aé日b".toList 5 = some 2 := by decide
example : b2c "aé日b".toList 7 = some 4 := by decide
example : b2c "aé日b".toList 8 = none := by decide
example : c2b "aé日b".toList 5 = none := by decide
example : c2b "abc".toList 7 = some 7 := by decide
example : isAscii "aé".toList = false := by decide
example : reMatch false false "  ab# c".toList 0 100 = some ⟨2, 4⟩ := by decide
example : reMatch true false "  # c\nx".toList 0 100 = some ⟨2, 5⟩ := by decide
example : reMatch false true " \\".toList 0 100 = some ⟨1, 2⟩ := by decide
example : reMatch false true " \\ ".toList 0 100 = none := by decide
example : reMatch false false "ab cd".toList 1 4 = some ⟨1, 2⟩ := by decide
example : nextFrag ["a  # c".toList, " \\".toList, "  (b".toList] 0 1 2 4 false .f = some ⟨2, 2, "(b".toList⟩ := by
  decide
example : nextFrag ["a  # c".toList, " \\".toList, "  (b".toList] 0 1 2 2 false .f = none := by decide
example : nextFrag ["a \\".toList, " \\".toList, "  (b".toList] 0 1 2 4 false .n = some ⟨2, 2, "(b".toList⟩ := by
  decide
example : nextFrag ["a  # c".toList, "  (b".toList] 0 1 1 4 false .n = none := by decide
example : nextFrag ["a  # c".toList, "  (b".toList] 0 1 1 4 true .n = some ⟨0, 3, "# c".toList⟩ := by decide
example : prevFrag ["x = (a) ) ".toList] 0 4 0 10 false .f = some ⟨0, 8, ")".toList⟩ := by decide
example : prevFrag ["ab cd  ".toList] 0 0 0 100 false .f = some ⟨0, 3, "cd".toList⟩ := by decide

/-- the hypotheses of `prevFrag_single_partial` are satisfiable -/
example : prevFrag ["ab cd  ".toList] 0 0 0 100 false .f = some ⟨0, 3, "cd".toList⟩ :=
  prevFrag_single_partial (pre := "ab ".toList) (code := "cd".toList) (sp := "  ".toList)
    (by decide) (by decide) (by decide) (by decide) (by decide) (by decide)

end Pfst.Scan
