/-
Model of the source-scanning layer under `FST.loc` / `FST.pars()` / `FST.find_*loc()`:

* `bistr.c2b` / `bistr.b2c`                      (src/fst/astutil.py)
* the four `_re_next_frag*` regexes, `next_frag`, `prev_frag` (with its `state` cache), `next_find`, `prev_find`,
  `next_delims`, `prev_delims`                    (src/fst/common.py)
* the body of `FST.pars()` after the bounds are known                       (src/fst/fst.py)
* `find_contains_loc`, `find_in_loc`, `find_loc` over the preorder list of `walk('loc')` nodes   (src/fst/fst.py)

A line is a `List Char` (no `'\n'` inside in practice, but the regex model is exact for any characters).  Columns are
character indices.  The model mirrors the control structure of the code that exists (loops, early exits, the `state`
cache, Python's clipping of `pos`/`endpos` in `Pattern.match`).  `while` loops run on a fuel that is larger than any
possible number of iterations (every iteration consumes at least one character or one line).
No imports: this file is linked into the native driver.
-/
namespace Pfst.Scan

abbrev Line := List Char

/-! ## `bistr` -/

/-- `len(s.encode())` -/
def byteLen : Line → Nat
  | [] => 0
  | c :: r => c.utf8Size + byteLen r

/-- `_c2b[idx]` for `idx ≤ len`: byte offset of the `idx`-th character (the loop `c2b[i] = j; j += len(c.encode())`
and the closing `c2b[-1] = j`). -/
def c2bRaw (l : Line) (idx : Nat) : Nat := byteLen (l.take idx)

/-- `len(self) == len(self.encode())`: the string installs the identity for both directions. -/
def isAscii (l : Line) : Bool := byteLen l == l.length

/-- `bistr.c2b`.  `none` = `IndexError` (index past the end of a non-ASCII line; an ASCII line answers `idx` for any
index because the identity function is installed). -/
def c2b (l : Line) (idx : Nat) : Option Nat :=
  if isAscii l then some idx else if idx ≤ l.length then some (c2bRaw l idx) else none

/-- `_b2c[idx]`: the scatter loop `b2c[j] = i` over the character starts followed by the forward fill of the zero
entries gives, for every byte inside character `i`, the value `i`; the last entry is `len`. -/
def b2cAux : Line → Nat → Nat → Nat
  | [], i, _ => i
  | ch :: r, i, b => if b < ch.utf8Size then i else b2cAux r (i + 1) (b - ch.utf8Size)

/-- `bistr.b2c`.  `none` = `IndexError`. -/
def b2c (l : Line) (idx : Nat) : Option Nat :=
  if isAscii l then some idx else if idx ≤ byteLen l then some (b2cAux l 0 idx) else none

/-- `fst_core._params_offset(lines, put_lines, ln, col, end_ln, end_col)` on the text itself: the byte position and
deltas handed to `_offset()` after a source put.  `col_offset` is the (negated) BYTE column of the end of the replaced
span on ITS line `end_ln`; for a one-line put the new byte column adds the bytes of the put text and the bytes of the
prefix before the span on the START line `ln`. -/
def paramsOffsetC (lines putLines : List Line) (ln col endLn endCol : Nat) : Nat × Int × Int × Int :=
  let dfst : Int := (putLines.length : Int) - 1
  let dln : Int := dfst - ((endLn : Int) - (ln : Int))
  let colOffset : Int := -((c2bRaw (lines.getD endLn []) endCol : Nat) : Int)
  let dcol : Int := ((byteLen (putLines.getLastD []) : Nat) : Int) + colOffset
  let dcol : Int := if dfst == 0 then dcol + ((c2bRaw (lines.getD ln []) col : Nat) : Int) else dcol
  (endLn, colOffset, dln, dcol)

/-! ## the regexes -/

/-- `\s` of a `str` pattern (`Py_UNICODE_ISSPACE`). -/
def isSpace (c : Char) : Bool :=
  let n := c.toNat
  (decide (9 ≤ n) && decide (n ≤ 13)) || (decide (28 ≤ n) && decide (n ≤ 32)) || n == 0x85 || n == 0xA0 || n == 0x1680
  || (decide (0x2000 ≤ n) && decide (n ≤ 0x200A)) || n == 0x2028 || n == 0x2029 || n == 0x202F || n == 0x205F
  || n == 0x3000

/-- `[^\s#\\]` -/
def isCode (c : Char) : Bool := !isSpace c && c != '#' && c != '\\'

def notNl (c : Char) : Bool := c != '\n'

/-- span of group 1 -/
structure M where
  s : Nat
  e : Nat
deriving DecidableEq, Repr, Inhabited

def hugeCol : Nat := 0x7fffffffffffffff

/-- `$` (no MULTILINE): at the end, or before a final `'\n'`. -/
def atEnd (t : Line) : Bool := t == [] || t == ['\n']

/-- `re_pat.match(l, pos, endpos)` for the pattern `\s*([^\s#\\]+ [|#.*] [|\\$])`; `comment` / `lcont` say which
alternatives the pattern has.  `pos` and `endpos` are clipped to the length of the line like `Pattern.match` does. -/
def reMatch (comment lcont : Bool) (l : Line) (pos endpos : Nat) : Option M :=
  let e := min endpos l.length
  let p := min pos l.length
  if e < p then none else
  let w := (l.take e).drop p
  let ns := (w.takeWhile isSpace).length
  let rest := w.dropWhile isSpace
  match rest with
  | [] => none
  | ch :: t =>
    if isCode ch then some ⟨p + ns, p + ns + (rest.takeWhile isCode).length⟩
    else if ch == '#' then
      (if comment then some ⟨p + ns, p + ns + (rest.takeWhile notNl).length⟩ else none)
    else if ch == '\\' then
      (if lcont && atEnd t then some ⟨p + ns, p + ns + 1⟩ else none)
    else none

/-- `srcwpos` -/
structure Frag where
  ln : Nat
  col : Nat
  src : Line
deriving DecidableEq, Repr, Inhabited

/-- `lcont` parameter: `False | True | None` -/
inductive LCont where
  | f | t | n
deriving DecidableEq, Repr, Inhabited

def lineAt (lines : List Line) (i : Nat) : Line := lines.getD i []

def group (l : Line) (m : M) : Line := (l.take m.e).drop m.s

def fragOf (l : Line) (i : Nat) (m : M) : Frag := ⟨i, m.s, group l m⟩

def totalChars : List Line → Nat
  | [] => 0
  | l :: r => l.length + totalChars r

/-- more than the number of iterations of any scanning loop over `lines` -/
def fuelOf (lines : List Line) : Nat := totalChars lines + lines.length + 1

/-! ## `next_frag` -/

/-- `for i in range(ln, end_ln)` of the `lcont is not None` branch.  `none` = the loop ran out. -/
def nextLoopA (comment lc : Bool) (lines : List Line) : Nat → Nat → Nat → Option Frag
  | 0, _, _ => none
  | n + 1, i, col =>
    let l := lineAt lines i
    match reMatch comment lc l col l.length with
    | some m => some (fragOf l i m)
    | none => nextLoopA comment lc lines n (i + 1) 0

/-- `for i in range(ln, end_ln)` of the `lcont is None` branch.  `none` = the loop ran out, `some r` = `return r`. -/
def nextLoopB (comment : Bool) (lines : List Line) : Nat → Nat → Nat → Option (Option Frag)
  | 0, _, _ => none
  | n + 1, i, col =>
    let l := lineAt lines i
    match reMatch true true l col l.length with
    | none => some none
    | some m =>
      let s := group l m
      if s.head? == some '#' then some (if comment then some (fragOf l i m) else none)
      else if s != ['\\'] then some (some (fragOf l i m))
      else nextLoopB comment lines n (i + 1) 0

/-- `common.next_frag` -/
def nextFrag (lines : List Line) (ln col endLn endCol : Nat) (comment : Bool) (lcont : LCont) : Option Frag :=
  let lc := lcont == .t
  if endLn == ln then
    let l := lineAt lines ln
    (reMatch comment lc l col endCol).map (fragOf l ln)
  else
    let le := lineAt lines endLn
    let last := (reMatch comment lc le 0 endCol).map (fragOf le endLn)
    match lcont with
    | .n =>
      match nextLoopB comment lines (endLn - ln) ln col with
      | some r => r
      | none => last
    | _ =>
      match nextLoopA comment lc lines (endLn - ln) ln col with
      | some f => some f
      | none => last

/-! ## `prev_frag` -/

/-- a cached `re.Match`: span and text of group 1 -/
structure PM where
  s : Nat
  e : Nat
  src : Line
deriving DecidableEq, Repr, Inhabited

/-- the `while m := p.match(l, c, ec)` loop of `last_match`; the state is a stack, head = top. `pc`/`pl` are the
alternatives of the pattern `p` passed in, `comment`/`lcont` are the closure variables of `prev_frag`. -/
def lastMatchLoop (comment : Bool) (lcont : LCont) (pc pl : Bool) (l : Line) (ec : Nat) : Nat → Nat → List PM → List PM
  | 0, _, st => st
  | fuel + 1, c, st =>
    match reMatch pc pl l c ec with
    | none => st
    | some m =>
      let s := group l m
      if (!comment && s.head? == some '#') || (lcont == .f && s == ['\\']) then st
      else lastMatchLoop comment lcont pc pl l ec fuel m.e (⟨m.s, m.e, s⟩ :: st)

/-- `last_match` inside `prev_frag` -/
def lastMatch (comment : Bool) (lcont : LCont) (pc pl : Bool) (st : List PM) (l : Line) (c ec : Nat) :
    Option PM × List PM :=
  match st with
  | m :: st' => (some m, st')
  | [] =>
    match lastMatchLoop comment lcont pc pl l ec (l.length + 1) c [] with
    | m :: st' => (some m, st')
    | [] => (none, [])

def pmFrag (i : Nat) (m : PM) : Frag := ⟨i, m.s, m.src⟩

/-- `for i in range(end_ln, ln, -1)` plus the closing `last_match(lines[ln], col, end_col, re_pat)` of the
`lcont is not None` branch; the first argument counts the lines above `ln` still to visit. -/
def prevLoopA (comment : Bool) (lcont : LCont) (lines : List Line) (ln col : Nat) :
    Nat → Nat → List PM → Option Frag × List PM
  | 0, endCol, st =>
    let r := lastMatch comment lcont comment (lcont == .t) st (lineAt lines ln) col endCol
    (r.1.map (pmFrag ln), r.2)
  | n + 1, endCol, st =>
    let i := ln + n + 1
    match lastMatch comment lcont comment (lcont == .t) st (lineAt lines i) 0 endCol with
    | (some m, st') => (some (pmFrag i m), st')
    | (none, st') => prevLoopA comment lcont lines ln col n hugeCol st'

/-- `while (i := i - 1) >= ln` of the `lcont is None` branch; `k` = `i - ln + 1` before the decrement. -/
def prevLoopB (comment : Bool) (lines : List Line) (ln col : Nat) :
    Nat → Nat → Nat → Nat → List PM → Option Frag × List PM
  | 0, _, _, _, st => (none, st)
  | _ + 1, 0, _, _, st => (none, st)
  | fuel + 1, k + 1, endCol, contLn, st =>
    let i := ln + k
    match lastMatch comment .n true true st (lineAt lines i) (if i > ln then 0 else col) endCol with
    | (none, st') =>
      if i < contLn then (none, st') else prevLoopB comment lines ln col fuel k hugeCol contLn st'
    | (some m, st') =>
      if m.src == ['\\'] then prevLoopB comment lines ln col fuel (k + 1) m.s ln st'
      else if m.src.head? == some '#' || decide (i < contLn) then (none, st')
      else (some (pmFrag i m), st')

/-- `common.prev_frag` with its `state` argument threaded explicitly. -/
def prevFragSt (lines : List Line) (ln col endLn endCol : Nat) (comment : Bool) (lcont : LCont) (st : List PM) :
    Option Frag × List PM :=
  if endLn == ln then
    let r := lastMatch comment lcont comment (lcont == .t) st (lineAt lines ln) col endCol
    (r.1.map (pmFrag ln), r.2)
  else
    match lcont with
    | .n =>
      match lastMatch comment .n true true st (lineAt lines endLn) 0 endCol with
      | (some m, st') => (some (pmFrag endLn m), st')
      | (none, st') => prevLoopB comment lines ln col (fuelOf lines) (endLn - ln) hugeCol endLn st'
    | _ => prevLoopA comment lcont lines ln col (endLn - ln) endCol st

/-- `common.prev_frag(..., state=None)` -/
def prevFrag (lines : List Line) (ln col endLn endCol : Nat) (comment : Bool) (lcont : LCont) : Option Frag :=
  (prevFragSt lines ln col endLn endCol comment lcont []).1

/-! ## `next_find` / `prev_find` -/

/-- `str.find` -/
def findSub : Line → Line → Option Nat
  | [], p => if p.isEmpty then some 0 else none
  | c :: t, p => if p.isPrefixOf (c :: t) then some 0 else (findSub t p).map (· + 1)

/-- `str.rfind` -/
def rfindSub : Line → Line → Option Nat
  | [], p => if p.isEmpty then some 0 else none
  | c :: t, p =>
    match rfindSub t p with
    | some i => some (i + 1)
    | none => if p.isPrefixOf (c :: t) then some 0 else none

def endsWith (s p : Line) : Bool := p.reverse.isPrefixOf s.reverse

def nextFindLoop (lines : List Line) (endLn endCol : Nat) (src : Line) (comment : Bool) (lcont : LCont) :
    Nat → Nat → Nat → Option (Nat × Nat)
  | 0, _, _ => none
  | fuel + 1, ln, col =>
    match nextFrag lines ln col endLn endCol comment lcont with
    | none => none
    | some fr =>
      match findSub fr.src src with
      | some idx => some (fr.ln, fr.col + idx)
      | none => nextFindLoop lines endLn endCol src comment lcont fuel fr.ln (fr.col + fr.src.length)

/-- `common.next_find` -/
def nextFind (lines : List Line) (ln col endLn endCol : Nat) (src : Line) (first comment : Bool) (lcont : LCont) :
    Option (Nat × Nat) :=
  if first then
    match nextFrag lines ln col endLn endCol comment lcont with
    | some fr => if src.isPrefixOf fr.src then some (fr.ln, fr.col) else none
    | none => none
  else nextFindLoop lines endLn endCol src comment lcont (fuelOf lines) ln col

def prevFindLoop (lines : List Line) (ln col : Nat) (src : Line) (comment : Bool) (lcont : LCont) :
    Nat → Nat → Nat → List PM → Option (Nat × Nat)
  | 0, _, _, _ => none
  | fuel + 1, endLn, endCol, st =>
    match prevFragSt lines ln col endLn endCol comment lcont st with
    | (none, _) => none
    | (some fr, st') =>
      if comment && fr.src.head? == some '#' then
        (if src.isPrefixOf fr.src then some (fr.ln, fr.col)
         else prevFindLoop lines ln col src comment lcont fuel fr.ln fr.col st')
      else
        match rfindSub fr.src src with
        | some idx => some (fr.ln, fr.col + idx)
        | none => prevFindLoop lines ln col src comment lcont fuel fr.ln fr.col st'

/-- `common.prev_find(..., state=None)` -/
def prevFind (lines : List Line) (ln col endLn endCol : Nat) (src : Line) (first comment : Bool) (lcont : LCont) :
    Option (Nat × Nat) :=
  if first then
    match prevFrag lines ln col endLn endCol comment lcont with
    | some fr =>
      if comment && fr.src.head? == some '#' then
        (if src.isPrefixOf fr.src then some (fr.ln, fr.col) else none)
      else if endsWith fr.src src then some (fr.ln, fr.col + fr.src.length - src.length) else none
    | none => none
  else prevFindLoop lines ln col src comment lcont (fuelOf lines) endLn endCol []

/-! ## `next_delims` / `prev_delims` -/

/-- the positions appended by the `while` loop of `next_delims` (the list without its first element) -/
def nextDelimsLoop (lines : List Line) (bLn bCol : Nat) (delim : Char) : Nat → Nat → Nat → List (Nat × Nat)
  | 0, _, _ => []
  | fuel + 1, eLn, eCol =>
    match nextFrag lines eLn eCol bLn bCol false .f with
    | none => []
    | some fr =>
      let k := (fr.src.takeWhile (· == delim)).length
      let new := (List.range k).map (fun j => (fr.ln, fr.col + j + 1))
      if k == fr.src.length then new ++ nextDelimsLoop lines bLn bCol delim fuel fr.ln (fr.col + k) else new

/-- `common.next_delims` -/
def nextDelims (lines : List Line) (endLn endCol bLn bCol : Nat) (delim : Char := ')') : List (Nat × Nat) :=
  (endLn, endCol) :: nextDelimsLoop lines bLn bCol delim (fuelOf lines) endLn endCol

def prevDelimsLoop (lines : List Line) (bLn bCol : Nat) (delim : Char) :
    Nat → Nat → Nat → List PM → List (Nat × Nat)
  | 0, _, _, _ => []
  | fuel + 1, ln, col, st =>
    match prevFragSt lines bLn bCol ln col false .f st with
    | (none, _) => []
    | (some fr, st') =>
      let k := (fr.src.reverse.takeWhile (· == delim)).length
      let e := fr.col + fr.src.length
      let new := (List.range k).map (fun j => (fr.ln, e - (j + 1)))
      if k == fr.src.length then new ++ prevDelimsLoop lines bLn bCol delim fuel fr.ln fr.col st' else new

/-- `common.prev_delims` -/
def prevDelims (lines : List Line) (bLn bCol ln col : Nat) (delim : Char := '(') : List (Nat × Nat) :=
  (ln, col) :: prevDelimsLoop lines bLn bCol delim (fuelOf lines) ln col []

/-! ## `FST.pars()` -/

/-- `shared` parameter: `True | False | None` -/
inductive Shared where
  | t | f | n
deriving DecidableEq, Repr, Inhabited

structure Loc where
  ln : Nat
  col : Nat
  endLn : Nat
  endCol : Nat
deriving DecidableEq, Repr, Inhabited

structure ParsIn where
  loc : Loc                    -- `self.bloc`
  nextBound : Nat × Nat        -- `self._next_bound()`
  prevBound : Nat × Nat        -- `self._prev_bound()`
  shared : Shared
  parenthesizable : Bool       -- `self.is_parenthesizable()`
  soloGenexp : Bool            -- `self._is_solo_call_arg_genexp()`
  soloShared : Bool            -- `_is_solo_call_arg() or _is_solo_class_base() or _is_solo_matchcls_pat()`
deriving Repr, Inhabited

def pairAt (l : List (Nat × Nat)) (i : Nat) : Nat × Nat := l.getD i (0, 0)

/-- `FST.pars()` after the cache lookup: `(location, n)`. -/
def parsModel (lines : List Line) (a : ParsIn) : Loc × Int :=
  if !a.parenthesizable && a.shared != .n then (a.loc, 0)
  else
    let rpars := nextDelims lines a.loc.endLn a.loc.endCol a.nextBound.1 a.nextBound.2
    let lr := rpars.length
    if lr == 1 then
      if a.shared != .t && a.soloGenexp then (⟨a.loc.ln, a.loc.col + 1, a.loc.endLn, a.loc.endCol - 1⟩, -1)
      else (a.loc, 0)
    else
      let lpars := prevDelims lines a.prevBound.1 a.prevBound.2 a.loc.ln a.loc.col
      let ll := lpars.length
      if ll == 1 then (a.loc, 0)
      else
        let ll' := if decide (ll ≤ lr) && a.shared != .n && a.soloShared then ll - 1 else ll
        let n := if ll' != lr then min ll' lr - 1 else ll' - 1
        (⟨(pairAt lpars n).1, (pairAt lpars n).2, (pairAt rpars n).1, (pairAt rpars n).2⟩, (n : Int))

/-! ## `FST.bloc` -/

/-- End column of `FST.bloc` for a block statement whose `loc` ends at `endCol` on `lastLine`:
`if last_line.find('#', end_col) != -1: end_col = len(last_line)` (the trailing line comment of the last child belongs
to the bounding location).  It is a function of the CURRENT text of the line. -/
def blocEndCol (lastLine : Line) (endCol : Nat) : Nat :=
  if (lastLine.drop endCol).contains '#' then lastLine.length else endCol

/-! ## `find_contains_loc` / `find_in_loc` / `find_loc`

`nodes` = `[self] ++ list(self.walk('loc', self_=False))` in walk (pre)order, `depth` = number of ancestors inside
that list.  The descendants of a node are the entries that follow it while their depth is larger, so each function is
one forward pass over the list. -/

structure FNode where
  id : Nat
  ln : Nat
  col : Nat
  endLn : Nat
  endCol : Nat
  depth : Nat
deriving DecidableEq, Repr, Inhabited

/-- `allow_exact`: `False | True | 'top'` -/
inductive AllowExact where
  | no | yes | top
deriving DecidableEq, Repr, Inhabited

/-- the entry test of `find_contains_loc` -/
def containsQ (f : FNode) (q : Loc) : Bool :=
  ((f.ln == q.ln && decide (f.col ≤ q.col)) || decide (f.ln < q.ln))
  && ((f.endLn == q.endLn && decide (f.endCol ≥ q.endCol)) || decide (f.endLn > q.endLn))

def exactQ (f : FNode) (q : Loc) : Bool :=
  f.ln == q.ln && f.endLn == q.endLn && f.col == q.col && f.endCol == q.endCol

/-- `fend_ln < ln or (fend_ln == ln and fend_col <= col)`: the `continue` of `find_contains_loc` -/
def endsBeforeQ (f : FNode) (q : Loc) : Bool :=
  decide (f.endLn < q.ln) || (f.endLn == q.ln && decide (f.endCol ≤ q.col))

/-- the four-way test that makes `find_contains_loc` stop at the current node -/
def notContainsQ (f : FNode) (q : Loc) : Bool :=
  decide (f.ln > q.ln) || (f.ln == q.ln && decide (f.col > q.col))
  || decide (f.endLn < q.endLn) || (f.endLn == q.endLn && decide (f.endCol < q.endCol))

/-- the `while True: for f in self.walk('loc', self_=False)` loop of `find_contains_loc` WITHOUT the decorator search
(this is what runs inside a decorator expression, which cannot contain a decorated definition): current node, the list
that follows the current node, the rest of the walk.  An exact match ends the descent at the parent when exact matches
are not allowed and at the match itself for `'top'` (the walk is top-down: the first exact match is the highest). -/
def containsGo (q : Loc) (ae : AllowExact) : FNode → List FNode → List FNode → FNode × List FNode
  | cur, ctail, [] => (cur, ctail)
  | cur, ctail, f :: rest =>
    if f.depth ≤ cur.depth then (cur, ctail)
    else if endsBeforeQ f q then containsGo q ae cur ctail rest
    else if notContainsQ f q then (cur, ctail)
    else if exactQ f q && ae == .no then (cur, ctail)
    else if exactQ f q && ae == .top then (f, rest)
    else containsGo q ae f rest rest

/-- `FST.find_contains_loc` (without the decorator search) from the first node of the list: the node found and the list
that follows it. -/
def findContains (nodes : List FNode) (q : Loc) (ae : AllowExact) : Option (FNode × List FNode) :=
  match nodes with
  | [] => none
  | self :: tail =>
    if containsQ self q then
      if exactQ self q && ae == .no then none
      else if exactQ self q && ae == .top then some (self, tail)
      else some (containsGo q ae self tail tail)
    else none

/-- `for deco in getattr(f.a, 'decorator_list', ()): if found := deco.f.find_contains_loc(...): return found` at a
definition `f` of depth `d` that does not contain the location; the list is what follows `f` in the walk, `decos` are
the ids of the decorator roots (children through the field `decorator_list`). -/
def decoGo (decos : List Nat) (q : Loc) (ae : AllowExact) (d : Nat) : List FNode → Option (FNode × List FNode)
  | [] => none
  | g :: rest =>
    if g.depth ≤ d then none
    else if g.depth == d + 1 && decos.contains g.id then
      match findContains (g :: rest) q ae with
      | some r => some r
      | none => decoGo decos q ae d rest
    else decoGo decos q ae d rest

/-- the loop of `find_contains_loc` as it is: before giving up at a child that does not contain the location its
decorators (which precede its `loc`) are searched. -/
def containsGoD (decos : List Nat) (q : Loc) (ae : AllowExact) : FNode → List FNode → List FNode → FNode × List FNode
  | cur, ctail, [] => (cur, ctail)
  | cur, ctail, f :: rest =>
    if f.depth ≤ cur.depth then (cur, ctail)
    else if endsBeforeQ f q then containsGoD decos q ae cur ctail rest
    else if notContainsQ f q then
      match decoGo decos q ae f.depth rest with
      | some r => r
      | none => (cur, ctail)
    else if exactQ f q && ae == .no then (cur, ctail)
    else if exactQ f q && ae == .top then (f, rest)
    else containsGoD decos q ae f rest rest

/-- `FST.find_contains_loc` from the first node of the list -/
def findContainsD (decos : List Nat) (nodes : List FNode) (q : Loc) (ae : AllowExact) : Option (FNode × List FNode) :=
  match nodes with
  | [] => none
  | self :: tail =>
    if containsQ self q then
      if exactQ self q && ae == .no then none
      else if exactQ self q && ae == .top then some (self, tail)
      else some (containsGoD decos q ae self tail tail)
    else none

/-- `fln > ln or (fln == ln and fcol >= col)) and (fend_ln < end_ln or (fend_ln == end_ln and fend_col <= end_col)` -/
def insideQ (f : FNode) (q : Loc) : Bool :=
  (decide (f.ln > q.ln) || (f.ln == q.ln && decide (f.col ≥ q.col)))
  && (decide (f.endLn < q.endLn) || (f.endLn == q.endLn && decide (f.endCol ≤ q.endCol)))

def startsBeforeQ (f : FNode) (q : Loc) : Bool :=
  decide (f.ln < q.ln) || (f.ln == q.ln && decide (f.col < q.col))

def endsWithinQ (f : FNode) (q : Loc) : Bool :=
  decide (f.endLn < q.endLn) || (f.endLn == q.endLn && decide (f.endCol ≤ q.endCol))

/-- the loop of `find_in_loc`; `d` = depth of the current node -/
def inGo (q : Loc) : Nat → List FNode → Option FNode
  | _, [] => none
  | d, f :: rest =>
    if f.depth ≤ d then none
    else if startsBeforeQ f q then inGo q d rest
    else if endsWithinQ f q then some f
    else inGo q f.depth rest

/-- `FST.find_in_loc` from the first node of the list -/
def findIn (nodes : List FNode) (q : Loc) : Option FNode :=
  match nodes with
  | [] => none
  | self :: tail => if insideQ self q then some self else inGo q self.depth tail

/-- `FST.find_loc` from the first node of the list -/
def findLoc (decos : List Nat) (nodes : List FNode) (q : Loc) (exactTop : Bool) : Option FNode :=
  match findContainsD decos nodes q (if exactTop then .top else .yes) with
  | none => findIn nodes q
  | some (f, ftail) =>
    if f.col == q.col && f.endCol == q.endCol && f.ln == q.ln && f.endLn == q.endLn then some f
    else match findIn (f :: ftail) q with
      | some g => some g
      | none => some f

/-! ### geometric well-formedness of a walk list (evaluated by the driver on every real list) -/

def posLe (a b : Nat × Nat) : Bool := decide (a.1 < b.1) || (a.1 == b.1 && decide (a.2 ≤ b.2))

def FNode.start (f : FNode) : Nat × Nat := (f.ln, f.col)
def FNode.stop (f : FNode) : Nat × Nat := (f.endLn, f.endCol)

/-- `f` starts before it ends, every node of its subtree (the following entries of larger depth) lies inside it and
every later entry outside its subtree starts at or after its end. -/
def wfAt (f : FNode) (rest : List FNode) : Bool :=
  posLe f.start f.stop
  && (rest.takeWhile (fun g => decide (g.depth > f.depth))).all (fun g => posLe f.start g.start && posLe g.stop f.stop)
  && (rest.dropWhile (fun g => decide (g.depth > f.depth))).all (fun g => posLe f.stop g.start)

/-- children inside parents, siblings (and everything after a subtree) ordered without overlap -/
def wfList : List FNode → Bool
  | [] => true
  | f :: rest => wfAt f rest && wfList rest

/-- the decorator part of the subtree of a definition of depth `d`: the leading run of subtrees whose roots are
decorator roots (the walk yields the decorators first) -/
def decoPrefix (decos : List Nat) (d : Nat) : Bool → List FNode → List FNode
  | _, [] => []
  | inD, g :: rest =>
    if g.depth ≤ d then []
    else if g.depth == d + 1 then (if decos.contains g.id then g :: decoPrefix decos d true rest else [])
    else if inD then g :: decoPrefix decos d inD rest else []

/-- `wfAt` for trees with decorated definitions: the decorator subtrees of `f` end at or before the start of `f` (and
contain no decorator roots themselves), the rest of its subtree lies inside it, everything after its subtree starts at
or after its end. -/
def wfAtD (decos : List Nat) (f : FNode) (rest : List FNode) : Bool :=
  let sub := rest.takeWhile (fun g => decide (g.depth > f.depth))
  let dp := decoPrefix decos f.depth false sub
  posLe f.start f.stop
  && dp.all (fun g => posLe g.stop f.start && (g.depth == f.depth + 1 || !decos.contains g.id))
  && (sub.drop dp.length).all (fun g => posLe f.start g.start && posLe g.stop f.stop)
  && (rest.dropWhile (fun g => decide (g.depth > f.depth))).all (fun g => posLe f.stop g.start)

/-- well-formedness of real walk lists: like `wfList`, decorators before their definition -/
def wfListD (decos : List Nat) : List FNode → Bool
  | [] => true
  | f :: rest => wfAtD decos f rest && wfListD decos rest

/-! ### brute-force reference selections (what a scan over the whole list would pick) -/

/-- candidate of `find_contains_loc` below the start node -/
def candContains (q : Loc) (allowExact : Bool) (f : FNode) : Bool :=
  !endsBeforeQ f q && !notContainsQ f q && (allowExact || !exactQ f q)

/-- all nodes of the subtree of the first node (the first node included) -/
def subtree : List FNode → List FNode
  | [] => []
  | self :: tail => self :: tail.takeWhile (fun f => decide (f.depth > self.depth))

/-- brute force for `find_contains_loc`: the LAST candidate of the subtree in walk order (= the deepest one on
well-formed trees); for `'top'` the FIRST candidate that matches the rectangle exactly (= the highest of the nodes
sharing the location) when there is one. -/
def bruteContains (nodes : List FNode) (q : Loc) (ae : AllowExact) : Option FNode :=
  match nodes with
  | [] => none
  | self :: tail =>
    if containsQ self q then
      if exactQ self q && ae == .no then none
      else if exactQ self q && ae == .top then some self
      else
        let cands := ((subtree (self :: tail)).drop 1).filter (candContains q (ae != .no))
        match (if ae == .top then cands.find? (fun f => exactQ f q) else none) with
        | some f => some f
        | none =>
          match cands.getLast? with
          | some f => some f
          | none => some self
    else none

/-- brute force for `find_in_loc`: the FIRST node of the subtree in walk order that lies inside the rectangle -/
def bruteIn (nodes : List FNode) (q : Loc) : Option FNode :=
  (subtree nodes).find? (fun f => insideQ f q)

end Pfst.Scan
