import Pfst.Text
/-
Trivia layer (L4, the part C04 needs): character-level re-implementations of the regexes used by
`leading_trivia` / `trailing_trivia` (src/fst/common.py:62-75) and the three functions of src/fst/fst_trivia.py
`leading_trivia` (:40), `trailing_trivia` (:156), `get_trivia_params` (:327), plus `_check_opt_trivia`
(src/fst/fst_options.py:87).  The control structure of the Python code is kept: the upward / downward `while` loops
with their `break`, the separate space loops, the tuple comparisons `comments_pos == text_pos`.

Only import: the import-free text model (for `Line`, `lineAt`).
-/
namespace Pfst.Trivia
open Pfst.Text

/-! ### regexes -/

/-- `[ \t]` -/
def isBlankCh (c : Char) : Bool := c == ' ' || c == '\t'

/-- `\s` of a Python `str` pattern (= `str.isspace`); compared with CPython over all code points on every run. -/
def isSpaceCh (c : Char) : Bool :=
  let n := c.toNat
  (decide (0x09 ≤ n) && decide (n ≤ 0x0D)) || (decide (0x1C ≤ n) && decide (n ≤ 0x20)) || n == 0x85 || n == 0xA0
  || n == 0x1680 || (decide (0x2000 ≤ n) && decide (n ≤ 0x200A)) || n == 0x2028 || n == 0x2029 || n == 0x202F
  || n == 0x205F || n == 0x3000

/-- the rest of the line after `[ \t]*` -/
def skipBlank (l : Line) : Line := l.dropWhile isBlankCh

/-- `re_empty_line.match(l, 0, col)`: `[ \t]*$` on `l[:col]` -/
def reEmptyLine (l : Line) (col : Nat) : Bool := (l.take col).all isBlankCh

/-- `re_comment_line_start.match(l)`: `[ \t]*#` -/
def reCommentLineStart (l : Line) : Bool :=
  match skipBlank l with
  | '#' :: _ => true
  | _ => false

/-- `re_empty_line_or_cont.match(l)`: `[ \t]*(\\)?$` -/
def reEmptyLineOrCont (l : Line) : Bool :=
  match skipBlank l with
  | [] => true
  | ['\\'] => true
  | _ => false

/-- `re_empty_line_cont_or_comment.match(l)`: `[ \t]*(\\|#.*)?$`; `some true` when group 1 starts with `#`. -/
def reEmptyLineContOrComment (l : Line) : Option Bool :=
  match skipBlank l with
  | [] => some false
  | ['\\'] => some false
  | '#' :: _ => some true
  | _ => none

/-- `re_comment_line_start` as a pattern of the scanning loops (a match is always a comment). -/
def patCommentStart (l : Line) : Option Bool := if reCommentLineStart l then some true else none

/-- `next_frag(lines, ln, col, ln, end_col, comment=True)` on one line (`endpos = none`: to the end of the line):
`_re_next_frag_or_comment = \s*([^\s#\\]+|#.*)`.  Returns (column of the fragment, whether it is a comment). -/
def nextFrag (l : Line) (col : Nat) (endpos : Option Nat) : Option (Nat × Bool) :=
  let l' := (match endpos with | some e => l.take e | none => l).drop col
  let s := l'.dropWhile isSpaceCh
  match s with
  | [] => none
  | '#' :: _ => some (col + (l'.length - s.length), true)
  | '\\' :: _ => none
  | _ :: _ => some (col + (l'.length - s.length), false)

/-! ### parameters -/

/-- `comments` of `leading_trivia` -/
inductive LComments where
  | none | all | block
  | lineno (n : Int)
deriving DecidableEq, Repr, Inhabited

/-- `comments` of `trailing_trivia` -/
inductive TComments where
  | none | all | block | line
  | lineno (n : Int)
deriving DecidableEq, Repr, Inhabited

/-- `space`: `True` | int (`False` behaves as `0`) -/
inductive Space where
  | all
  | n (k : Nat)
deriving DecidableEq, Repr, Inhabited

/-- `not space` -/
def Space.isZero : Space → Bool
  | .n 0 => true
  | _ => false

structure LeadResult where
  text   : Nat × Nat
  space  : Option (Nat × Nat)
  indent : Option Line
deriving DecidableEq, Repr, Inhabited

structure TrailResult where
  text     : Nat × Nat
  space    : Option (Nat × Nat)
  endsLine : Bool
deriving DecidableEq, Repr, Inhabited

/-! ### leading_trivia -/

/-- `while (ln := ln - 1) >= stop_ln: if not (m := pat.match(lines[ln])): break; if comment: comments_ln = ln`
followed by `ln += 1`.  The argument is the value of `ln` before the first decrement; returns
(`ln` after the final `ln += 1`, `comments_ln`). -/
def scanUp (pat : Line → Option Bool) (lines : List Line) (stop : Nat) : Nat → Nat → Nat × Nat
  | 0, cl => (0, cl)
  | ln + 1, cl =>
    if ln ≥ stop then
      match pat (lineAt lines ln) with
      | none => (ln + 1, cl)
      | some isC => scanUp pat lines stop ln (if isC then ln else cl)
    else (ln + 1, cl)

/-- `for ln in range(comments_ln - 1, lo - 1, -1): if not re_empty_line_or_cont.match(lines[ln]): ln += 1; break`:
the value of `ln` after the loop (the argument is `comments_ln`; an empty range, which the code cannot reach with
`space ≥ 1`, yields `comments_ln` = "no space"). -/
def spaceUp (lines : List Line) (lo : Nat) : Nat → Nat
  | 0 => 0
  | n + 1 => if n ≥ lo then (if reEmptyLineOrCont (lineAt lines n) then spaceUp lines lo n else n + 1) else n + 1

/-- the common tail of `leading_trivia` for `comments` none / block / line number (fst_trivia.py:138-153): the space
search above `comments_ln` and the construction of the result. -/
def leadFinish (lines : List Line) (topLn ln col commentsLn : Nat) (space : Space) (indent : Line) : LeadResult :=
  let commentsPos := (commentsLn, 0)
  let textPos := if commentsLn != ln then commentsPos else (ln, col)
  if space.isZero || commentsLn == topLn then
    ⟨textPos, if commentsPos == textPos then none else some commentsPos, some indent⟩
  else
    let lo := match space with
      | .all => topLn
      | .n k => max topLn (commentsLn - k)
    let ln' := spaceUp lines lo commentsLn
    if ln' == commentsLn then
      ⟨textPos, if commentsPos == textPos then none else some commentsPos, some indent⟩
    else ⟨textPos, some (ln', 0), some indent⟩

/-- `leading_trivia` (fst_trivia.py:40-153). -/
def leadingTrivia (lines : List Line) (boundLn boundCol ln col : Nat) (comments : LComments) (space : Space) :
    LeadResult :=
  let l := lineAt lines ln
  if (boundLn == ln && boundCol != 0) || !(reEmptyLine l col) then ⟨(ln, col), none, none⟩
  else
    let indent := l.take col
    let topLn := boundLn + (if boundCol != 0 then 1 else 0)
    let stopLn := match comments with
      | .lineno n => if n > (topLn : Int) then n.toNat else topLn
      | _ => topLn
    let startLn := ln
    match comments with
    | .all =>
      let r := scanUp reEmptyLineContOrComment lines stopLn ln ln
      let ln' := r.1
      let commentsLn := r.2
      let commentsPos := (commentsLn, 0)
      let textPos := if commentsLn != startLn then commentsPos else (ln, col)
      if space.isZero || commentsLn == ln' then
        ⟨textPos, if commentsPos == textPos then none else some commentsPos, some indent⟩
      else match space with
        | .all => ⟨textPos, some (ln', 0), some indent⟩
        | .n k => ⟨textPos, some (commentsLn - min k (commentsLn - ln'), 0), some indent⟩
    | _ =>
      let commentsLn := match comments with
        | .none => ln
        | .block => (scanUp patCommentStart lines stopLn ln ln).1
        | _ => (scanUp reEmptyLineContOrComment lines stopLn ln ln).1
      leadFinish lines topLn ln col commentsLn space indent

/-! ### trailing_trivia -/

/-- `while (end_ln := end_ln + 1) < stop_ln: if not (m := pat.match(lines[end_ln])): break;
if comment: comments_ln = end_ln + 1`.  `cur` is `end_ln` after the increment; returns (`end_ln` after the loop,
`comments_ln`).  Fuel = `stop_ln` is always enough (each iteration increases `cur < stop_ln`). -/
def scanDown (pat : Line → Option Bool) (lines : List Line) (stop : Nat) : Nat → Nat → Nat → Nat × Nat
  | 0, cur, cl => (cur, cl)
  | fuel + 1, cur, cl =>
    if cur < stop then
      match pat (lineAt lines cur) with
      | none => (cur, cl)
      | some isC => scanDown pat lines stop fuel (cur + 1) (if isC then cur + 1 else cl)
    else (cur, cl)

/-- `for end_ln in range(comments_ln, hi): if not re_empty_line_or_cont.match(lines[end_ln]): break` /
`else: end_ln += 1`: the value of `end_ln` afterwards (range never empty when the code gets there). -/
def spaceDown (lines : List Line) (hi : Nat) : Nat → Nat → Nat
  | 0, cur => cur
  | fuel + 1, cur =>
    if cur < hi then (if reEmptyLineOrCont (lineAt lines cur) then spaceDown lines hi fuel (cur + 1) else cur) else cur

/-- `trailing_trivia` (fst_trivia.py:156-324). -/
def trailingTrivia (lines : List Line) (boundEndLn boundEndCol endLn endCol : Nat) (comments : TComments)
    (space : Space) : TrailResult :=
  if boundEndLn == endLn then
    let lenLine := (lineAt lines endLn).length
    let sc : Option Nat :=
      match nextFrag (lineAt lines endLn) endCol (some boundEndCol) with
      | none => some (min boundEndCol lenLine)
      | some (c, isC) => if comments == .none || !isC then some c else none
    match sc with
    | none => ⟨(endLn, lenLine), none, true⟩
    | some spaceCol => ⟨(endLn, endCol), if spaceCol == endCol then none else some (endLn, spaceCol), spaceCol == lenLine⟩
  else
    let early : Option TrailResult × (Nat × Nat) :=
      match nextFrag (lineAt lines endLn) endCol none with
      | some (c, isC) =>
        let no := match comments with
          | .lineno n => decide (n < (endLn : Int))
          | cm => cm == .none
        if !isC || no then (some ⟨(endLn, endCol), if c == endCol then none else some (endLn, c), false⟩, (0, 0))
        else (none, (endLn + 1, 0))
      | none => (none, (endLn, endCol))
    match early.1 with
    | some r => r
    | none =>
      let textPos0 := early.2
      let past := boundEndLn + 1
      let ll := (lineAt lines boundEndLn).length
      let boundEndPos := (boundEndLn, ll)
      let bottomLn := if boundEndCol ≥ ll then past else boundEndLn
      let stopLn := match comments with
        | .lineno n => if n < (bottomLn : Int) then (n + 1).toNat else bottomLn
        | _ => bottomLn
      let startLn := endLn + 1
      match comments with
      | .all =>
        let r := scanDown reEmptyLineContOrComment lines stopLn stopLn startLn startLn
        let endLn' := r.1
        let commentsLn := r.2
        let commentsPos := if commentsLn < past then (commentsLn, 0) else boundEndPos
        let textPos := if commentsLn != startLn then commentsPos else textPos0
        if space.isZero then ⟨textPos, if commentsPos == textPos then none else some commentsPos, true⟩
        else
          let spacePos := if endLn' < past then (endLn', 0) else boundEndPos
          if spacePos == textPos then ⟨textPos, none, true⟩
          else match space with
            | .all => ⟨textPos, some spacePos, true⟩
            | .n k =>
              let spaceLn := commentsLn + min k (endLn' - commentsLn)
              ⟨textPos, some (if spaceLn < past then (spaceLn, 0) else boundEndPos), true⟩
      | _ =>
        let commentsLn := match comments with
          | .block => (scanDown patCommentStart lines stopLn stopLn startLn startLn).1
          | .lineno _ => (scanDown reEmptyLineContOrComment lines stopLn stopLn startLn startLn).1
          | _ => endLn + 1
        let commentsPos := if commentsLn < past then (commentsLn, 0) else boundEndPos
        let textPos := if commentsLn != startLn then commentsPos else textPos0
        if space.isZero || commentsLn == bottomLn then
          ⟨textPos, if commentsPos == textPos then none else some commentsPos, true⟩
        else
          let hi := match space with
            | .all => bottomLn
            | .n k => min (commentsLn + k) bottomLn
          let endLn' := spaceDown lines hi hi commentsLn
          let spacePos := if endLn' < past then (endLn', 0) else boundEndPos
          ⟨textPos, if spacePos == textPos then none else some spacePos, true⟩

/-! ### get_trivia_params / _check_opt_trivia -/

/-- one component of the `trivia` option -/
inductive TVal where
  | bool (b : Bool)
  | int (n : Int)
  | str (s : List Char)
deriving DecidableEq, Repr, Inhabited

/-- the `trivia` option: a single value or a tuple -/
inductive TrivOpt where
  | single (v : TVal)
  | tuple (l : List TVal)
deriving DecidableEq, Repr, Inhabited

/-- `comments` as returned by `get_trivia_params`: a string or a line number -/
inductive CVal where
  | str (s : List Char)
  | int (n : Int)
deriving DecidableEq, Repr, Inhabited

/-- `space` as returned: `False` / `True` / int -/
inductive SVal where
  | bool (b : Bool)
  | int (n : Nat)
deriving DecidableEq, Repr, Inhabited

structure TParams where
  leadC : CVal
  leadS : SVal
  leadNeg : Bool
  trailC : CVal
  trailS : SVal
  trailNeg : Bool
deriving DecidableEq, Repr, Inhabited

/-- `s.find(c)`: (`s[:i]`, `s[i+1:]`) for the first occurrence -/
def splitAtChar (c : Char) : List Char → Option (List Char × List Char)
  | [] => none
  | x :: xs => if x == c then some ([], xs) else (splitAtChar c xs).map (fun p => (x :: p.1, p.2))

def isDigitCh (c : Char) : Bool := decide ('0'.toNat ≤ c.toNat) && decide (c.toNat ≤ '9'.toNat)

/-- `int(n)` for a non-empty string of ASCII digits (anything else: `none`; Python's `int` accepts more, but
`_check_opt_trivia` admits only `\d+`; non-ASCII decimal digits are not modelled). -/
def parseNat (s : List Char) : Option Nat :=
  if s.isEmpty || !(s.all isDigitCh) then none
  else some (s.foldl (fun acc c => acc * 10 + (c.toNat - '0'.toNat)) 0)

/-- `int(n) if (n := s[i + 1:]) else True` -/
def spaceOf (n : List Char) : Option SVal :=
  if n.isEmpty then some (.bool true) else (parseNat n).map .int

/-- the per-component part of `get_trivia_params` (`dflt` = `'block'` for leading, `'line'` for trailing);
`none` = `int()` raised. -/
def oneParam (v : TVal) (dflt : List Char) (neg : Bool) : Option (CVal × SVal × Bool) :=
  match v with
  | .bool b => some (.str (if b then dflt else "none".toList), .bool false, false)
  | .int n => some (.int n, .bool false, false)
  | .str s =>
    match splitAtChar '+' s with
    | some (pre, n) => (spaceOf n).map (fun sp => (.str (if pre.isEmpty then dflt else pre), sp, false))
    | none =>
      match splitAtChar '-' s with
      | some (pre, n) =>
        (if neg then spaceOf n else some (.int 0)).map (fun sp => (.str (if pre.isEmpty then dflt else pre), sp, true))
      | none => some (.str s, .bool false, false)

/-- `get_trivia_params` (fst_trivia.py:327-392); `none` = an exception (`ValueError`). -/
def getTriviaParams (t : TrivOpt) (neg : Bool) : Option TParams :=
  let lt : Option (TVal × TVal) :=
    match t with
    | .single v => some (v, .bool true)
    | .tuple [a, b] => some (a, b)
    | .tuple [] => some (.bool false, .bool false)
    | .tuple [a] => some (.bool true, a)
    | .tuple _ => none
  match lt with
  | none => none
  | some (lc, tc) =>
    match oneParam lc "block".toList neg, oneParam tc "line".toList neg with
    | some (c1, s1, n1), some (c2, s2, n2) =>
      -- `assert lead_comments != 'line'` (inside the `isinstance(lead_comments, str)` branch)
      if (match lc with | .str _ => true | _ => false) && c1 == .str "line".toList then none
      else some ⟨c1, s1, n1, c2, s2, n2⟩
    | _, _ => none

/-! ### option resolution (fst_options.py: `get_option`, `set_options`, `options()`): per call > thread default as changed by
`set_options()` and by enclosing `with FST.options()` blocks (which restore the value they replaced on exit) -/

structure OptState (α : Type) where
  cur   : α            -- the thread default of the option
  saved : List α       -- values to restore when the enclosing `with FST.options(...)` blocks exit
deriving Repr

inductive OptOp (α : Type) where
  | set (v : α)        -- FST.set_options(opt=v)
  | enter (v : α)      -- with FST.options(opt=v):
  | exit               -- end of the innermost with block

def OptState.step {α : Type} (s : OptState α) : OptOp α → OptState α
  | .set v => { s with cur := v }
  | .enter v => ⟨v, s.cur :: s.saved⟩
  | .exit => match s.saved with
    | [] => s
    | x :: r => ⟨x, r⟩

/-- `get_option(option, options)`: the value passed to the call if the key is present, else the thread default -/
def effective {α : Type} (call : Option α) (s : OptState α) : α := call.getD s.cur

/-- suffix `(?:[+-](?:\d+)?)?$` -/
def sufOk : List Char → Bool
  | [] => true
  | c :: ds => (c == '+' || c == '-') && ds.all isDigitCh

def stripPrefix (p s : List Char) : Option (List Char) := if p.isPrefixOf s then some (s.drop p.length) else none

/-- `_re_trivia_leading` / `_re_trivia_trailing` (fst_options.py:54-55): `(?=.) (?:all|block|none|…|) (?:[+-](?:\d+)?)? \Z`
(non-empty, anchored at the very end; ASCII digits). -/
def reTrivia (prefixes : List (List Char)) (s : List Char) : Bool :=
  !s.isEmpty && prefixes.any (fun p => match stripPrefix p s with | some r => sufOk r | none => false)

def leadPrefixes : List (List Char) := ["all".toList, "block".toList, "none".toList, []]
def trailPrefixes : List (List Char) := ["all".toList, "block".toList, "none".toList, "line".toList, []]

def okVal (prefixes : List (List Char)) : TVal → Bool
  | .bool _ => true
  | .int _ => true
  | .str s => reTrivia prefixes s

/-- `_check_opt_trivia` (fst_options.py:87-114): `true` = accepted. -/
def checkOptTrivia : TrivOpt → Bool
  | .single v => okVal leadPrefixes v
  | .tuple [] => true
  | .tuple [a] => okVal trailPrefixes a
  | .tuple [a, b] => okVal leadPrefixes a && okVal trailPrefixes b
  | .tuple _ => false

/-- values `leading_trivia` handles -/
def legalLead : CVal → Bool
  | .int _ => true
  | .str s => s == "none".toList || s == "all".toList || s == "block".toList

/-- values `trailing_trivia` handles -/
def legalTrail : CVal → Bool
  | .int _ => true
  | .str s => s == "none".toList || s == "all".toList || s == "block".toList || s == "line".toList

end Pfst.Trivia
